"""C20 - Type dispatch stays valid when new expression types are registered later.

Model (coq/Props/C20_history.v): state machine over the live class registry, the import-time snapshot
`all_ufl_classes` and the per-algorithm-class handler-table caches; operations Register / Instantiate /
Apply.  The cache policy of MultiFunction.__init__ and Transformer.__init__ (is a cached table
validated against the registry?  is the live registry iterated?) is extracted from the source with
`ast` on every run (T1) and instantiated in coq/Gen/C20_policy.v: for a validating live policy the full
theorem C20_history applies; otherwise the model reproduces the defect (C20_history_refuted) and
only C20_history_partial holds.  T3: random histories are run on the real code in fresh subprocesses
(real @ufl_type registrations) and must agree exactly with the model's outputs."""

import concurrent.futures as cf
import json
import os
import random

from ufl.algorithms.transformer import Transformer
from ufl.corealg.multifunction import MultiFunction
from ufl.utils.formatting import camel2underscore

import C19_lib as L
import vlib

HAND_FILES = ["Props/C19_dispatch.v", "Props/C20_history.v"]
RUNNER = os.path.join(vlib.VERIF, "py", "C20_runner.py")
KINDS = ("MF", "TR", "FN")
KIND_NAMES = {"MF": "MultiFunction subclasses", "TR": "Transformer subclasses",
              "FN": "plain functions passed to map_expr_dag/map_expr_dags"}
FN_SAMPLES = ["Coefficient", "Sum", "Product", "Division", "Sin", "Abs", "Power", "Cos"]
PARENTS = ["Operator", "Terminal", "Sum", "Grad", "Conditional", "FormArgument"]


def run_history(job):
    rc, out, err = vlib.run_repo_python(RUNNER, timeout=300, input=json.dumps(job))
    if rc != 0:
        return {"error": (err or "")[-1500:]}
    return json.loads(out)


def gen_history(rng, k, base_names):
    """algorithm classes (two of them share a __name__), new classes, and an op sequence"""
    pool = ["expr", "operator", "terminal", "sum", "grad", "conditional", "form_argument", "coefficient",
            "derivative", "condition", "index_sum", "constant_value"]
    nnew = rng.randint(1, 3)
    new = []
    for i in range(nnew):
        nm = f"NewT{k}x{i}"
        parent = rng.choice(PARENTS + [n for n, _p, _a in new])
        abstract = True if parent != "Operator" else rng.random() < 0.5
        new.append((nm, parent, abstract))
    concrete = {n for n, _p, a in new if not a}
    algs = []
    for i in range(rng.randint(2, 4)):
        hs = [n for n in pool if rng.random() < 0.35]
        hs += [camel2underscore(n) for n, _p, _a in new if rng.random() < 0.4]
        if rng.random() < 0.85 and "expr" not in hs:
            hs.append("expr")
        nm = f"Alg{i}" if i != 1 or rng.random() < 0.5 else "Alg0"     # same class name, different class
        kind = rng.choice(["MF", "TR", "MF", "TR", "FN"])
        algs.append({"name": nm, "kind": kind, "handlers": sorted(set(hs)) if kind != "FN" else []})
    ops, registered = [], []
    todo = list(new)
    for _ in range(rng.randint(4, 12)):
        r = rng.random()
        if todo and r < 0.3:
            nm, parent, abstract = todo.pop(0)
            ops.append(["reg", nm, parent, abstract])
            registered.append(nm)
        elif r < 0.5:
            ops.append(["inst", rng.randrange(len(algs))])
        else:
            a = rng.randrange(len(algs))
            if algs[a]["kind"] == "FN":      # a plain function is applied to an INSTANCE: instantiable targets only
                conc = [n for n in registered if n in concrete]
                target = rng.choice(conc) if conc and rng.random() < 0.6 else rng.choice(FN_SAMPLES)
            else:
                target = rng.choice(registered) if registered and rng.random() < 0.6 else rng.choice(base_names)
            ops.append(["apply", a, target])
    # the defect needs: use, register, apply-to-new; make sure a good share of histories has that shape
    if todo and rng.random() < 0.7:
        nm, parent, abstract = todo.pop(0)
        a = rng.randrange(len(algs))
        b2 = rng.randrange(len(algs))
        ops += [["inst", a], ["reg", nm, parent, abstract]]
        ops += [["apply", x, nm] for x in (a, b2) if algs[x]["kind"] != "FN" or not abstract]
    return {"algs": algs, "ops": ops}


def mro_of_new(job, rows_by_name, upto_op):
    """handler names along the mro of every class registered by the first `upto_op` ops"""
    m = {}
    for op in job["ops"][:upto_op]:
        if op[0] == "reg":
            _, nm, parent, _a = op
            pm = m[parent] if parent in m else rows_by_name[parent]["mro"]
            m[nm] = [camel2underscore(nm)] + list(pm)
    return m


def spec_outputs(job, rows, rows_by_name):
    """C19's dispatch over the registry at the time of each Apply (Python oracle)."""
    out = []
    for i, op in enumerate(job["ops"]):
        if op[0] == "apply":
            has = set(job["algs"][op[1]]["handlers"]) | {L.DEFAULT} | base_attrs(job["algs"][op[1]]["kind"])
            m = mro_of_new(job, rows_by_name, i)
            mro = m[op[2]] if op[2] in m else rows_by_name[op[2]]["mro"]
            out.append(next((n for n in mro if n in has), None))
    return out


_BASE = {}


def base_attrs(kind):
    """handler names already defined by the base class itself (e.g. Transformer.terminal)"""
    if kind == "FN":
        return set()
    if kind not in _BASE:
        base = MultiFunction if kind == "MF" else Transformer
        rows, name_id = L.class_table()
        _BASE[kind] = {n for n in name_id if hasattr(base, n)}
    return _BASE[kind]


def coq_history(job, name_id, rows_by_name):
    ids = dict(name_id)

    def nid(n):
        if n not in ids:
            ids[n] = len(ids)
        return ids[n]
    algs = []
    for i, a in enumerate(job["algs"]):
        has = sorted(set(a["handlers"]) | base_attrs(a["kind"]) | {L.DEFAULT}, key=nid)
        algs.append(f"(mkalg {0 if a['kind'] == 'FN' else i} {a['kind']} {L.coq_list(nid(n) for n in has)})")
    ops = []
    m = {}
    tcs = {r["cls"].__name__: r["tc"] for r in rows_by_name.values()}
    nxt = len(tcs)
    for op in job["ops"]:
        if op[0] == "reg":
            _, nm, parent, _a = op
            pm = m[parent] if parent in m else rows_by_name[parent]["mro"]
            m[nm] = [camel2underscore(nm)] + list(pm)
            tcs[nm] = nxt
            nxt += 1
            ops.append(f"Register {L.coq_list(nid(x) for x in m[nm])}")
        elif op[0] == "inst":
            ops.append(f"Instantiate {algs[op[1]]}")
        else:
            ops.append(f"Apply {algs[op[1]]} {tcs[op[2]]}%nat")
    return "[" + ";\n   ".join(ops) + "]", ids


def main(run):
    for res in L.check_hand_files(HAND_FILES):
        run.add_coq_result(res)
        if not res.ok:
            run.violation({"broken": "hand-written theorem file does not compile", "file": res.path,
                           "error": res.err[-1500:]}, False)
            return run.finish("hand-written development broken")

    rows, name_id = L.class_table()
    rows_by_name = {r["cls"].__name__: r for r in rows}
    path, info = L.emit_class_table(rows, name_id, modname="C20_classes")
    res = vlib.coqc(path)
    run.add_coq_result(res)
    if not res.ok:
        run.violation({"broken": "class table checks", "lemma": res.failing_lemma(), "error": res.err[-1000:]}, False)
        return run.finish("class table broken")

    # ---- T1: cache policy of the two __init__s and of map_expr_dags' plain-function table
    pol, shapes = {}, {}
    for kind, cls in (("MF", MultiFunction), ("TR", Transformer)):
        try:
            shapes[kind] = L.resolution_shape(cls)
        except Exception as ex:      # noqa: BLE001
            shapes[kind] = {"ok": False, "why": f"cannot parse: {ex!r}"}
        pol[kind] = L.policy_from_shape(shapes[kind])
    pol["FN"], why = L.plain_function_table_policy()
    shapes["FN"] = {"ok": pol["FN"] is not None, "why": why}
    run.extra["init_shapes"] = shapes
    # behavioural probes (fresh subprocesses): confirm, or infer when the source shape is unknown
    probe, probe_jobs = {}, {}
    for kind in KINDS:
        alg = [{"name": "P", "kind": kind, "handlers": ["expr"] if kind != "FN" else []}]
        ja = {"algs": alg, "ops": [["inst", 0], ["reg", "ProbeA", "Operator", False], ["apply", 0, "ProbeA"]]}
        jb = {"algs": alg, "ops": [["reg", "ProbeB", "Operator", False], ["apply", 0, "ProbeB"]]}
        with cf.ThreadPoolExecutor(max_workers=2) as ex:
            a, b = list(ex.map(run_history, (ja, jb)))
        if "error" in a or "error" in b:
            raise RuntimeError(f"probe failed: {a.get('error') or b.get('error')}")
        want = ["expr"] if kind != "FN" else ["ufl_type"]
        probe[kind] = (a["outputs"] == want, b["outputs"] == want)
        probe_jobs[kind] = ((ja, a["outputs"]), (jb, b["outputs"]), want)
        if pol[kind] is not None and not all(pol[kind]) and all(probe[kind]):
            # the recognised statement is not where staleness is handled (the probes behave): let the behaviour
            # decide; the histories below are then compared with the specification itself
            run.extra.setdefault("note", []).append(
                f"{kind}: source shape suggests policy {pol[kind]} but both probes dispatch correctly; using (True, True)")
            pol[kind] = (True, True)
        if pol[kind] is None:
            # policy that explains the probes: late registration fails -> snapshot; only stale cache fails -> no validation
            pol[kind] = (probe[kind][0] or not probe[kind][1], probe[kind][1])
            run.extra.setdefault("note", []).append(f"{kind}: source shape not recognised, policy inferred from probes")
    run.extra["policy(validate_len, live_registry)"] = pol
    run.extra["probe(stale-cache ok, late-registration ok)"] = probe
    good = all(v and l for v, l in pol.values())
    known = vlib.load_known_findings("C20")
    try:      # the merged known_findings.json may predate fields added to known/C20.json: complete by id
        own = {k.get("id"): k for k in json.load(open(os.path.join(vlib.VERIF, "known", "C20.json")))["findings"]}
    except (OSError, ValueError, KeyError):
        own = {}
    known = [dict(own.get(k.get("id"), {}), **k) if k.get("status") == "open" else k for k in known]
    known_pol = {}
    for kf in known:
        for kk, vv in (kf.get("policy") or {}).items():
            known_pol[kk] = tuple(vv)
    # a kind whose table handling is defective in a way no open known finding records: new violation, with the
    # probe history as the failing input
    for kind in KINDS:
        if all(pol[kind]) and all(probe[kind]):
            continue
        if tuple(pol[kind]) == known_pol.get(kind) and (all(probe[kind]) or not all(pol[kind])):
            continue
        (ja, oa), (jb, ob), want = probe_jobs[kind]
        job, obs = (jb, ob) if not probe[kind][1] else (ja, oa)
        run.violation({"what": f"dispatch of kind {kind} ({KIND_NAMES[kind]}) depends on use-before-registration / "
                               "fails for a type registered later",
                       "history": job, "real_outputs": obs, "expected_by_C19_dispatch": want,
                       "extracted_policy(validate_len, live_registry)": pol[kind],
                       "source_shape": shapes.get(kind),
                       "reproduce": f"echo '<history json>' | PYTHONPATH=$UFL_REPO:/verif/py /venv/bin/python {RUNNER}"},
                      obs != want)

    # ---- Gen/C20_policy.v : instantiate the theorems at the extracted policy
    b = lambda x: "true" if x else "false"      # noqa: E731
    P = ["(* GENERATED: cache policy extracted from MultiFunction.__init__ / Transformer.__init__ *)",
         "Require Import List Arith NArith Bool.",
         "Require Import UFLV.Props.C19_dispatch UFLV.Props.C20_history.", "Import ListNotations.",
         f"Definition pol (k : kind) : policy := match k with MF => mkpol {b(pol['MF'][0])} {b(pol['MF'][1])} "
         f"| TR => mkpol {b(pol['TR'][0])} {b(pol['TR'][1])} | FN => mkpol {b(pol['FN'][0])} {b(pol['FN'][1])} end."]
    if good:
        P += ["Theorem C20_current_full : forall h st, InvPrefix st -> outputs pol h st = spec_outputs h (reg st).",
              "Proof. apply C20_history. intros []; split; reflexivity. Qed.",
              "Print Assumptions C20_current_full."]
    for kind in KINDS:
        v, l = pol[kind]
        if not v:
            P += [f"Theorem C20_current_refuted_{kind} : outputs pol (w_hist {kind}) w_st = [None] /\\ "
                  f"spec_outputs (w_hist {kind}) (reg w_st) = [Some (Some 1%N)].",
                  f"Proof. destruct (C20_history_refuted pol {kind} eq_refl) as (_ & _ & H1 & H2). split; assumption. Qed."]
        if not l:
            P += [f"Theorem C20_current_refuted_snapshot_{kind} : outputs pol (w_hist2 {kind}) w_st = [None] /\\ "
                  f"spec_outputs (w_hist2 {kind}) (reg w_st) = [Some (Some 1%N)].",
                  f"Proof. exact (C20_history_refuted_snapshot pol {kind} eq_refl). Qed."]
    P += ["Theorem C20_current_partial : forall h st, Inv st -> src_ok pol st -> no_register h -> "
          "outputs pol h st = spec_outputs h (reg st).",
          "Proof. apply C20_history_partial. Qed."]
    ppath = os.path.join(vlib.GEN, "C20_policy.v")
    vlib.write_if_changed(ppath, "\n".join(P) + "\n")
    res = vlib.coqc(ppath)
    run.add_coq_result(res)
    if not res.ok:
        run.violation({"broken": "policy instantiation of the C20 theorems", "lemma": res.failing_lemma(),
                       "error": res.err[-1000:]}, False)

    # ---- T3: random histories on the real code vs the model
    nh = 24 if run.tier == "quick" else 100
    base_names = [r["cls"].__name__ for r in rows]
    jobs = [gen_history(random.Random(run.seed * 65537 + k), k, base_names) for k in range(nh)]
    # structured histories first: two DISTINCT algorithm classes with the same (module, qualified) name, one used
    # before and one first used after a registration; and different handler sets under one name
    # chains of late registrations (B derives from late A) with a handler for the intermediate base only, the
    # algorithm class used before / between / after the registrations
    for j, kind in enumerate(("MF", "TR", "MF", "TR")):
        rng = random.Random(run.seed * 1543 + j)
        a, b_, c_ = f"ChainA{j}", f"ChainB{j}", f"ChainC{j}"
        hs = sorted({"expr", "operator", camel2underscore(a)} | ({camel2underscore(c_)} if rng.random() < 0.5 else set()))
        regs = [["reg", a, rng.choice(["Operator", "Sum", "Grad"]), True], ["reg", b_, a, True], ["reg", c_, b_, True]]
        cut = 0 if j < 2 else rng.randint(1, 2)          # where the first use happens
        ops = regs[:cut] + [["inst", 0]] + regs[cut:]
        ops += [["apply", 0, b_], ["apply", 1, b_], ["apply", 0, c_], ["apply", 1, c_], ["apply", 0, a]]
        jobs[4 + j] = {"algs": [{"name": "Early", "kind": kind, "handlers": hs},
                                {"name": "Late", "kind": kind, "handlers": hs}], "ops": ops}
    for j, kind in enumerate(("MF", "TR", "MF", "TR")):
        rng = random.Random(run.seed * 977 + j)
        h1 = sorted({"expr", rng.choice(["sum", "operator", "terminal"])})
        h2 = sorted({"expr", rng.choice(["grad", "conditional", "coefficient"]), "struct_new%d" % j})
        ops = [["inst", 0], ["reg", "StructNew%d" % j, "Operator", False], ["apply", 1, "StructNew%d" % j],
               ["apply", 1, rng.choice(["Sum", "Grad", "Coefficient"])], ["apply", 0, "Sum"]]
        if j >= 2:
            ops = [["inst", 0], ["apply", 1, "Grad"], ["apply", 1, "Coefficient"], ["apply", 0, "Sum"]]
        jobs[j] = {"algs": [{"name": "Same", "kind": kind, "handlers": h1},
                            {"name": "Same", "kind": kind, "handlers": h2 if j < 2 else h2[:-1]}], "ops": ops}
    with cf.ThreadPoolExecutor(max_workers=vlib.NCPU) as ex:
        results = list(ex.map(run_history, jobs))
    nsh = 2 if run.tier == "quick" else vlib.NCPU
    files = []
    for s in range(nsh):
        Ls = ["(* GENERATED: histories run on the real code (fresh subprocess each) vs the model *)",
              "Require Import List Arith NArith Bool.",
              "Require Import UFLV.Props.C19_dispatch UFLV.Props.C20_history UFLV.Gen.C20_classes UFLV.Gen.C20_policy.",
              "Import ListNotations.", "Open Scope N_scope.",
              "Definition st0 : state := mkst mros mros []."]
        for k in range(s, nh, nsh):
            job, r = jobs[k], results[k]
            if "error" in r:
                raise RuntimeError(f"history {k} could not be run on the real code: {r['error']}")
            h, ids = coq_history(job, name_id, rows_by_name)
            exp = []
            for o in r["outputs"]:
                if o == "IndexError":
                    exp.append("None")
                elif o.startswith("EXC:"):
                    exp.append("(Some None)")
                else:
                    exp.append(f"(Some (Some {ids[o] if o in ids else 99999}))")
            Ls.append(f"Example hist_{k} : outputs pol\n  {h}\n  st0 = {L.coq_list(exp)}.")
            Ls.append("Proof. vm_compute. reflexivity. Qed.")
        pth = os.path.join(vlib.GEN, f"C20_hist_{s}.v")
        vlib.write_if_changed(pth, "\n".join(Ls) + "\n")
        files.append(pth)
    broken = set()
    for res in vlib.coqc_many(files, timeout=600):
        run.add_coq_result(res)
        if not res.ok:
            fl = res.failing_lemma() or ""
            broken.add(fl)
    deviating = 0
    for k, (job, r) in enumerate(zip(jobs, results)):
        run.count_case(json.dumps(job, sort_keys=True), nontrivial=any(o[0] == "reg" for o in job["ops"]))
        spec = spec_outputs(job, rows, rows_by_name)
        real = r["outputs"]
        bad = [(i, s_, o) for i, (s_, o) in enumerate(zip(spec, real)) if s_ != o]
        if k < 3:
            run.sample({"history": job["ops"][:8], "algs": [(a["name"], a["kind"], a["handlers"][:4]) for a in job["algs"]],
                        "real_outputs": real[:8]})
        # a deviation is an instance of a known finding only if the faithful model predicts it AND the policy of
        # the algorithm kind involved is exactly the one recorded in the open known finding
        apply_kinds = [job["algs"][o[1]]["kind"] for o in job["ops"] if o[0] == "apply"]
        unknown_dev = [x for x in bad if tuple(pol[apply_kinds[x[0]]]) != known_pol.get(apply_kinds[x[0]])]
        if (f"hist_{k}" in broken or unknown_dev) and len(run.violations) < 5:
            # model and code disagree, or the code deviates from the specification outside a known finding
            run.violation({"history": job, "real_outputs": real, "inst_errors": r.get("inst_errors"),
                           "expected_by_C19_dispatch": spec, "deviations(apply#, expected, observed)": bad,
                           "model_agrees_with_code": f"hist_{k}" not in broken,
                           "reproduce": f"echo '<history json>' | PYTHONPATH=$UFL_REPO /venv/bin/python {RUNNER}"},
                          bool(bad))
        elif bad:
            deviating += 1       # reproduced exactly by the faithful model: instances of the known finding
    for fl in broken - {f"hist_{k}" for k in range(nh)}:
        run.violation({"broken_obligation": fl, "what": "generated history file does not compile"}, False)
    run.extra["histories_deviating_from_spec_as_the_model_predicts"] = deviating

    # ---- public algorithms / real algorithm classes and late-registered subtypes (fresh subprocess per scenario):
    #      the outcome on an instance of a type registered late must not depend on use-before-registration,
    #      and must not be an IndexError/KeyError (every registered type is dispatched to a handler)
    sites = L.typecode_table_sites()
    drivers = ["fn:ufl.algorithms.apply_geometry_lowering.apply_geometry_lowering", "glp:Jacobian", "glp:FacetNormal",
               "fn:ufl.algorithms.apply_algebra_lowering.apply_algebra_lowering",
               "fn:ufl.algorithms.apply_derivatives.apply_derivatives",
               "fn:ufl.algorithms.remove_complex_nodes.remove_complex_nodes",
               "fn:ufl.algorithms.estimate_degrees.estimate_total_polynomial_degree",
               "fn:ufl.algorithms.apply_function_pullbacks.apply_function_pullbacks",
               "fn:ufl.algorithms.expand_indices.expand_indices", "fn:ufl.algorithms.renumbering.renumber_indices",
               "fn:ufl.algorithms.transformer.strip_variables", "sort:sorted_expr"]
    for a in L.algorithm_classes():
        try:
            a()      # default-constructible (checked here, in the harness process; the scenarios run elsewhere)
        except Exception:      # noqa: BLE001
            continue
        drivers.append(("mapdag:" if issubclass(a, MultiFunction) else "visit:") + a.__module__ + "." + a.__name__)
    drv_modules = {d.split(":", 1)[1].rsplit(".", 1)[0].replace("ufl.", "", 1).replace(".", "/") + ".py" for d in drivers
                   if d.startswith(("fn:", "mapdag:", "visit:"))} | {"sorting.py"}
    core = {"core/expr.py", "corealg/multifunction.py", "corealg/map_dag.py", "corealg/traversal.py",
            "algorithms/transformer.py"}
    run.extra["typecode_table_sites"] = sorted({f"{f}:{fn}" for f, fn, _ln, _w in sites})
    run.extra["typecode_table_sites_without_driver"] = sorted({f"{f}:{fn}" for f, fn, _ln, _w in sites
                                                               if f not in drv_modules and f not in core})
    from ufl.geometry import GeometricQuantity
    geo = sorted(r["cls"].__name__ for r in rows if issubclass(r["cls"], GeometricQuantity) and not r["abstract"])
    opsn = ["Sum", "Product", "Division", "Sin", "Abs", "Power", "Grad", "Div", "Sqrt", "Conj", "Inner"]
    prng = random.Random(run.seed * 31337 + 5)
    parents = prng.sample(geo, 3 if run.tier == "quick" else 16) + prng.sample(opsn, 1 if run.tier == "quick" else 5)
    pjobs = [{"mode": "pub", "parent": p, "use_before": ub, "chain": 1 + (i % 2), "drivers": drivers}
             for i, p in enumerate(parents) for ub in (True, False)]
    with cf.ThreadPoolExecutor(max_workers=vlib.NCPU) as ex:
        pres = list(ex.map(run_history, pjobs))
    npub = 0
    for i in range(0, len(pjobs), 2):
        jb, rb, ra = pjobs[i], pres[i], pres[i + 1]
        if "error" in rb or "error" in ra:
            raise RuntimeError(f"public-algorithm scenario could not be run: {rb.get('error') or ra.get('error')}")
        if "skip" in rb or "skip" in ra:
            continue
        for d in rb["drivers"]:
            npub += 1
            run.count_case(("pub", jb["parent"], jb["chain"], d))
            ob, oa = rb["new"].get(d), ra["new"].get(d)
            stale = [o for o in (ob, oa) if o in ("EXC:IndexError", "EXC:KeyError")
                     and rb["old_after"].get(d, "").startswith("ok")]
            if (ob != oa or stale) and len(run.violations) < 6:
                run.violation({"what": "outcome of an algorithm on an instance of a type registered late depends on whether "
                                       "the algorithm was used before the registration / the new type is not dispatched",
                               "algorithm": d, "new_type": f"{jb['chain']}-level late subclass of {jb['parent']}",
                               "steps_A": [f"{d} on an instance of {jb['parent']}", "register the subclass(es) with @ufl_type",
                                           f"{d} on an instance of the new subclass"],
                               "outcome_A(used before)": ob, "steps_B": "the same without the first step",
                               "outcome_B(first used after)": oa,
                               "reproduce": "echo '" + json.dumps({k: v for k, v in jb.items() if k != "drivers"}
                                                                  | {"drivers": [d]}) + f"' | PYTHONPATH=$UFL_REPO:"
                                            f"/verif/py /venv/bin/python {RUNNER}"}, True)
    run.extra["public_algorithm_scenarios"] = npub
    if pres and "drivers" in pres[0]:
        run.extra["public_algorithm_drivers"] = len(pres[0]["drivers"])

    # ---- known finding: replay the recorded witness on the real code
    for kf in known:
        w = kf["witness"]
        r = run_history(w["job"])
        if r.get("outputs") == w["observed_outputs"]:
            run.known(f"{kf['id']}: {kf['what']}")
        else:
            run.extra.setdefault("known_not_reproduced", []).append(kf["id"])
    run.trusted.update([
        "Coq 8.16.1 kernel (coqc); vm_compute for generated Examples",
        "py/C20_runner.py (executes histories on the real code in fresh interpreters) and py/props/C20.py",
        "policy extraction by `ast` from the two __init__ bodies (cross-checked by behavioural probes)",
        "Apply = instantiate the algorithm class and index its handler table by typecode",
    ])
    return run.finish(
        rule="one case per history (2-4 algorithm classes incl. two with equal __name__, 1-3 new @ufl_type classes "
             "under various parents, 4-16 operations); non-trivial = history registers a class",
        assumptions=["full theorem C20_history applies only when both __init__s validate their cached table against "
                     "the live registry; for the current policy see coq/Gen/C20_policy.v",
                     "instances created BEFORE a registration keep their table (not modelled: Apply uses a fresh instance)"])
