"""C16 - lhs/rhs/system/action/adjoint/energy_norm/functional respect the algebra.

Tie T2: the real formoperators (lhs, rhs, system, functional, action, adjoint, energy_norm) and the
real compute_form_* functions are run on every form of the zoo (py/C16_zoo.py: 0-2 arguments,
scalar/vector/mixed-element/MixedFunctionSpace spaces, nested affine structure, several measures,
subdomain ids, metadata).  Integrals are matched by (domain, type, subdomain id, metadata); for every
key Coq proves, for all values of all terminals in every UFL algebra,

   sum den(result integrands) = the semantic part of the input integrands

where the semantic part is defined by substituting Arguments *while serialising the input*
(u:=0, v:=0, u:=f, swapped numbers): inclusion-exclusion for lhs/rhs/functional, F[u:=f] for action,
conj F[v<->u] for adjoint, F[v,u:=f] for energy_norm.  Unbounded part: Props/C16_algebra.v."""

import json
import os

import ufl
import ufl.classes as C
from ufl.algorithms import formtransformations as ft

import C16_lib as L
import C16_zoo
import coqgen
import ufl2coq
import vlib

HAND_FILES = ["Props/C16_algebra.v"]

tkey = ufl2coq.Ctx.term_key


def ikey(itg):
    md = itg.metadata() or {}
    sd = itg.subdomain_id()
    return (itg.ufl_domain().ufl_id(), itg.integral_type(), repr(sd),
            repr(sorted((str(k), repr(v)) for k, v in md.items())))


def by_key(form):
    d = {}
    if form is None or form == 0:
        return d
    for itg in form.integrals():
        d.setdefault(ikey(itg), []).append(itg.integrand())
    return d


def arg_sets(F):
    args = F.arguments()
    Vs = [a for a in args if a.number() == 0]
    Us = [a for a in args if a.number() == 1]
    return Vs, Us


def zero(args):
    return {tkey(a): None for a in args}


def build_cases(z, tier, k_index):
    """All obligations of one zoo entry.  Returns (cases, skipped-notes)."""
    F = z.form
    Vs, Us = arg_sets(F)
    U0, V0 = zero(Us), zero(Vs)
    UV0 = dict(U0)
    UV0.update(V0)
    tac0 = "closeD" if z.deriv else "close0"
    ins = by_key(F)
    cases = []
    notes = []
    problems = z.problems = []

    def mk(opname, outs, terms_of_in, out_terms=None, tactic=tac0, extra_items=None, conj_in=False,
           out_subst=None, rhs_override=None):
        """one LinCase per integral key: sum outs = sum_i terms_of_in(label_i)"""
        keys = sorted(set(ins) | set(outs))
        for kk in keys:
            oi = outs.get(kk, [])
            ii = ins.get(kk, [])
            items, lhs, rhs = {}, [], []
            for n, e in enumerate(oi):
                items[f"o{n}"] = (e, out_subst or {})
                lhs.append((1, f"o{n}", False))
            if rhs_override is not None:
                for n, e in enumerate(oi):
                    for sg, sub, suffix in rhs_override:
                        lab = f"o{n}{suffix}"
                        items[lab] = (e, sub)
                        rhs.append((sg, lab, False))
            else:
                for n, e in enumerate(ii):
                    for sg, sub, suffix in terms_of_in:
                        lab = f"e{n}{suffix}"
                        items[lab] = (e, sub)
                        rhs.append((sg, lab, conj_in))
            if not lhs and not rhs:
                continue
            kid = k_index.setdefault(kk, len(k_index))
            name = f"{z.name}_{opname}_k{kid}"
            nz = z.nz
            cases.append(L.LinCase(name, items, lhs, rhs, tactic=tactic, nz=nz,
                                   note={"form": z.name, "op": opname, "key": kk[1:], "zoo_note": z.note}))

    PARTS = {
        "lhs": [(1, {}, ""), (-1, U0, "_u0"), (-1, V0, "_v0"), (1, UV0, "_00")],
        "rhs": [(-1, U0, "_u0"), (1, UV0, "_00")],
        "functional": [(1, UV0, "_00")],
    }

    def parts_group(tag, a, Lf, Jf):
        mk(f"{tag}lhs", by_key(a), PARTS["lhs"])
        mk(f"{tag}rhs", by_key(Lf), PARTS["rhs"])
        if Jf is not None:
            mk(f"{tag}fun", by_key(Jf), PARTS["functional"])
        # homogeneity of the results: lhs vanishes when either argument does; rhs vanishes with v and
        # does not mention u (implied by the part obligations; stated separately in the thorough tier
        # because with "F = lhs - rhs + functional" they characterise lhs/rhs: C16_decomposition_unique)
        if tier == "thorough":
            mk(f"{tag}lhsU0", by_key(a), None, out_subst=U0, rhs_override=[])
            mk(f"{tag}lhsV0", by_key(a), None, out_subst=V0, rhs_override=[])
            mk(f"{tag}rhsV0", by_key(Lf), None, out_subst=V0, rhs_override=[])
            mk(f"{tag}rhsU", by_key(Lf), None, out_subst=U0, rhs_override=[(1, {}, "_id")])
        if z.decomp and Jf is not None:
            # F = lhs - rhs + functional, no hypotheses on 0
            oa, ol, oj = by_key(a), by_key(Lf), by_key(Jf)
            for kk in sorted(set(ins) | set(oa) | set(ol) | set(oj)):
                items, lhs, rhs = {}, [], []
                for pre, sg, dct in (("a", 1, oa), ("l", -1, ol), ("j", 1, oj)):
                    for n, e in enumerate(dct.get(kk, [])):
                        items[f"{pre}{n}"] = (e, {})
                        lhs.append((sg, f"{pre}{n}", False))
                for n, e in enumerate(ins.get(kk, [])):
                    items[f"e{n}"] = (e, {})
                    rhs.append((1, f"e{n}", False))
                kid = k_index.setdefault(kk, len(k_index))
                cases.append(L.LinCase(f"{z.name}_{tag}dec_k{kid}", items, lhs, rhs,
                                       tactic="closeD" if z.deriv else "close0", nz=z.nz,
                                       note={"form": z.name, "op": tag + "decomposition F = lhs - rhs + functional",
                                             "key": kk[1:]}))

    # --- formoperators path (expand_derivatives inside) -------------------------------------
    a, Lf = ufl.system(F)
    Jf = ufl.functional(F)
    parts_group("", a, Lf, Jf)
    if tier == "thorough" or z.name in ("basic", "nested_affine", "facet"):
        mk("lhsfn", by_key(ufl.lhs(F)), PARTS["lhs"])
        mk("rhsfn", by_key(ufl.rhs(F)), PARTS["rhs"])
    # --- compute_form_* directly on the unexpanded form (inner/dot/outer/variable handlers) --
    raw = z.raw_ok and (tier == "thorough" or z.raw_quick)
    if raw:
        parts_group("cf_", ft.compute_form_lhs(F), ft.compute_form_rhs(F), ft.compute_form_functional(F))

    # --- action -----------------------------------------------------------------------------
    has_parts = any(x.part() is not None for x in F.arguments())
    if F.arguments() and z.f is not None:
        last = max(x.number() for x in F.arguments())
        targets = [x for x in F.arguments() if x.number() == last]
        if has_parts:
            sub = {tkey(x): z.f[x.part()] for x in targets}
        else:
            sub = {tkey(targets[0]): z.f}
        for tag, fn in (("action", ufl.action), ("cf_action", ft.compute_form_action)):
            if tag.startswith("cf_") and not raw:
                continue
            res = fn(F, z.f)
            mk(tag, by_key(res), [(1, sub, "_act")])
        # action without a coefficient: a fresh Coefficient appears
        if not has_parts:
            res = ufl.action(F)
            new = [c for c in res.coefficients() if c not in F.coefficients()]
            if len(new) == 1:
                mk("action_new", by_key(res), [(1, {tkey(targets[0]): new[0]}, "_actn")])
            else:
                problems.append({"what": "action(F) without a coefficient must introduce exactly one new coefficient",
                                 "form": str(F), "result": str(res), "new_coefficients": [str(c) for c in new]})
    # --- adjoint ----------------------------------------------------------------------------
    Fb = z.bil if z.bil is not None else F
    ins_F = ins
    if z.adjoint and Us and Vs:
        ins = by_key(Fb)
        swap = {}
        for x in Fb.arguments():
            swap[tkey(x)] = C.Argument(x.ufl_function_space(), 1 - x.number(), x.part())
        for tag, fn in (("adjoint", ufl.adjoint), ("cf_adjoint", ft.compute_form_adjoint)):
            if tag.startswith("cf_") and not raw:
                continue
            res = fn(Fb)
            mk(tag, by_key(res), [(1, swap, "_swap")], conj_in=True, tactic=tac0 if z.deriv else "closeC")
            if has_parts:
                # what the code does for forms with parts (model adjoint_code of Props/C16_algebra.v):
                # in the block (i, j) of an integrand the new arguments get the number AND the part
                # of the other one
                outs = by_key(res)
                for kk in sorted(set(ins) | set(outs)):
                    items, lhs, rhs = {}, [], []
                    for n, e in enumerate(outs.get(kk, [])):
                        items[f"o{n}"] = (e, {})
                        lhs.append((1, f"o{n}", False))
                    ok = True
                    for n, e in enumerate(ins.get(kk, [])):
                        from ufl.algorithms.analysis import extract_arguments
                        ea = extract_arguments(e)
                        v_ = [x for x in ea if x.number() == 0]
                        u_ = [x for x in ea if x.number() == 1]
                        if len(v_) != 1 or len(u_) != 1:
                            ok = False
                            break
                        sub = {tkey(v_[0]): C.Argument(v_[0].ufl_function_space(), 1, u_[0].part()),
                               tkey(u_[0]): C.Argument(u_[0].ufl_function_space(), 0, v_[0].part())}
                        items[f"e{n}_cs"] = (e, sub)
                        rhs.append((1, f"e{n}_cs", True))
                    if ok:
                        kid = k_index.setdefault(kk, len(k_index))
                        cases.append(L.LinCase(f"{z.name}_{tag}_as_coded_k{kid}", items, lhs, rhs, tactic="closeC",
                                               note={"form": z.name, "op": tag + " as coded (number and part swapped)",
                                                     "key": kk[1:]}))
        if not has_parts and len(Fb.arguments()) == 2:
            v_, u_ = Fb.arguments()
            ru = C.Argument(u_.ufl_function_space(), 2)
            rv = C.Argument(v_.ufl_function_space(), 5)
            for tag, fn in (("adjoint_explicit", ufl.adjoint), ("cf_adjoint_explicit", ft.compute_form_adjoint)):
                if tag.startswith("cf_") and not raw:
                    continue
                res = fn(Fb, (ru, rv))
                mk(tag, by_key(res), [(1, {tkey(v_): rv, tkey(u_): ru}, "_re")], conj_in=True,
                   tactic=tac0 if z.deriv else "closeC")
        ins = ins_F
    # --- energy norm ------------------------------------------------------------------------
    if z.energy and Us and Vs and not has_parts:
        ins = by_key(Fb)
        sub = {tkey(Vs[0]): z.f, tkey(Us[0]): z.f}
        for tag, fn in (("energy", ufl.energy_norm), ("cf_energy", ft.compute_energy_norm)):
            if tag.startswith("cf_") and not raw:
                continue
            res = fn(Fb, z.f)
            mk(tag, by_key(res), [(1, sub, "_ff")])
            # default coefficient: ONE fresh coefficient w must appear and the result is F[v,u := w]
            tagn = tag + "_new"
            resn = ufl.energy_norm(Fb) if tag == "energy" else ft.compute_energy_norm(Fb, None)
            newc = [c for c in resn.coefficients() if c not in Fb.coefficients()]
            if len(newc) == 1 and not resn.arguments():
                subn = {tkey(Vs[0]): newc[0], tkey(Us[0]): newc[0]}
                mk(tagn, by_key(resn), [(1, subn, "_ffn")])
            else:
                problems.append({"what": f"{tagn}: energy_norm(a) without a coefficient must equal a(w, w) for ONE "
                                         "new coefficient w and have no arguments",
                                 "form": str(Fb), "result": str(resn),
                                 "new_coefficients": [str(c) for c in newc],
                                 "remaining_arguments": [str(a_) for a_ in resn.arguments()]})
        ins = ins_F
    return cases, notes


def main(run):
    zs = C16_zoo.zoo(run.tier, run.seed)
    k_index = {}
    cases = []
    harness_errors = []
    for z in zs:
        try:
            cs, notes = build_cases(z, run.tier, k_index)
        except Exception as ex:     # the real code raised on a zoo form: broken tie
            import traceback
            harness_errors.append((z, traceback.format_exc()))
            continue
        cases.extend(cs)
        for c in cs:
            run.count_case((c.name, c.note))
        if cs:
            run.sample({"form": z.name, "F": str(z.form)[:300], "obligations": len(cs), "first": cs[0].name})
    for z, tb in harness_errors:
        run.violation({"broken": "an anchored function raised on a form of the zoo (it does not on the "
                                 "pinned tree)", "form": z.name, "F": str(z.form), "traceback": tb[-3000:],
                       "reproduce": "bin/check C16"}, True)
    for z in zs:
        for pr in getattr(z, "problems", []):
            if len(run.violations) >= 4:
                run.extra["violations_not_written"] = run.extra.get("violations_not_written", 0) + 1
                continue
            run.violation(dict(pr, zoo_form=z.name, reproduce="bin/check C16"), True)
    failing = coqgen.emit_and_check(run, "C16", cases, extra_header=L.EXTRA_HEADER, timeout=600)
    hand = vlib.coqc("Props/C16_algebra.v")
    run.add_coq_result(hand)
    if not hand.ok:
        run.violation({"broken": "Props/C16_algebra.v does not compile", "message": (hand.err or "")[-1500:]}, False)

    known = vlib.load_known_findings("C16")
    failing_names = {case.name for case, _, _ in failing if case is not None}
    all_names = {c.name for c in cases}
    seen = set()
    known_hit = {}
    for case, lemma, msg in failing:
        if case is None:
            run.violation({"broken": "generated obligations file does not compile", "message": msg}, False)
            continue
        if case.name in seen:
            continue
        seen.add(case.name)
        if "_as_coded_" in case.name:
            # model-faithfulness obligation of the known finding, not an obligation of the property:
            # if the true-adjoint obligation of the same key holds, the finding has been repaired
            twin = case.name.replace("_as_coded_", "_")
            run.extra.setdefault("known_finding_not_reproduced", []).append(case.name)
            if twin in failing_names:
                pass        # reported below through the twin (then not attributable to the finding)
            continue
        w = None
        kf = classify_known(case, known, all_names, failing_names)
        if len(run.violations) >= 8 and kf is None:
            run.extra["violations_not_written"] = run.extra.get("violations_not_written", 0) + 1
            continue
        if lemma and lemma.endswith("_eq"):
            w = L.lin_mismatch(case, trials=30 if run.tier == "quick" else 200, seed=run.seed)
        if kf is not None and w is not None:
            known_hit.setdefault(kf["id"], []).append((case.name, w))
            continue
        rep = {"broken_obligation": lemma, "case": case.name, "note": case.note, "coq_message": msg,
               "items": {lab: {"expr": str(e)[:1500], "argument_substitution": {str(k): str(v) for k, v in s.items()}}
                         for lab, (e, s) in case.items.items()},
               "statement": f"sum{[(s, l, 'conj' if c else '') for s, l, c in case.lhs]} = "
                            f"sum{[(s, l, 'conj' if c else '') for s, l, c in case.rhs]}",
               "reproduce": "bin/check C16  (form '%s' of py/C16_zoo.py, operation '%s')"
                            % (case.note.get("form"), case.note.get("op"))}
        if w:
            rep["witness"] = w
        if len(run.violations) >= 8:
            # enough replays: the remaining broken obligations are only counted (they stay in failed_obligations)
            run.extra["violations_not_written"] = run.extra.get("violations_not_written", 0) + 1
            continue
        run.violation(rep, bool(w))
    for kf in known:
        hits = known_hit.get(kf["id"], [])
        if hits:
            names = [n for n, _ in hits]
            run.known(f"{kf['id']}: {kf['what'][:200]} (reproduced on the real code: {names})")
            run.extra.setdefault("known_obligations", {})[kf["id"]] = names
            run.extra.setdefault("known_witnesses", {})[kf["id"]] = hits[0][1]
        else:
            run.extra.setdefault("known_findings_not_reproduced", []).append(kf["id"])
    # obligations refuted by a known finding, and the as-coded (model faithfulness) lemmas, are not
    # obligations of the property: they are listed in the evidence under known_obligations /
    # model_of_finding instead of being counted
    bad = {f"{n}_eq" for hs in known_hit.values() for n, _ in hs}
    aux = lambda nm: "_as_coded_" in nm     # noqa: E731
    run.extra["model_of_finding_lemmas"] = sorted(o[0] for o in run.discharged if aux(o[0]))
    run.obligations = [o for o in run.obligations if o[0] not in bad and not aux(o[0])]
    run.discharged = [o for o in run.discharged if not aux(o[0])]
    run.failed = [o for o in run.failed if o[0] not in bad and not aux(o[0])]
    run.trusted.update([
        "Coq 8.16.1 kernel (coqc); vm_compute used for normalisation, no native_compute",
        "py/ufl2coq.py serializer + py/C16_lib.SubSer (substitution of Arguments while serialising the INPUT "
        "defines e|u=0, e[u:=f], e[v<->u])",
        "integral matching by (domain id, integral type, repr(subdomain id), sorted metadata repr)",
        "laws used as hypotheses of the obligations: D 0 = 0, conj 0 = 0, re 0 = 0, im 0 = 0, conj an involutive "
        "field morphism; D additive/Leibniz only for the form 'grad_of_sum'",
        "denominators (argument-free) are assumed non-zero; characteristic 0",
    ])
    return run.finish(
        rule="one case per (zoo form, operation, integral key); a case is one Coq lemma over all terminal "
             "values; distinct = distinct (case name, note)",
        assumptions=["forms are sums of arity-homogeneous terms (bilinear, linear, argument-free)",
                     "grad applied to terminals (except form grad_of_sum)",
                     "multilinearity of each term in the arguments is C14's subject, not re-proved here"])


def classify_known(case, known, all_names, failing_names):
    """A failing obligation belongs to a known finding only if it is in the finding's class AND the
    code's output is exactly what the model of the finding predicts (the as-coded obligation of the
    same key was proved)."""
    for kf in known:
        cl = kf.get("class_py")
        if cl == "adjoint_with_parts_offdiagonal":
            op = case.note.get("op", "")
            if op in ("adjoint", "cf_adjoint") and offdiag_parts(case):
                twin = case.name.replace(f"_{op}_k", f"_{op}_as_coded_k")
                if twin in all_names and twin not in failing_names:
                    return kf
    return None


def offdiag_parts(case):
    """the input integrands of this key contain a block (i, j), i != j, of Arguments with parts"""
    for lab, (e, s) in case.items.items():
        if not lab.startswith("e"):
            continue
        from ufl.algorithms.analysis import extract_arguments
        ps = {(a.number(), a.part()) for a in extract_arguments(e)}
        p0 = {p for n, p in ps if n == 0 and p is not None}
        p1 = {p for n, p in ps if n == 1 and p is not None}
        if any(a != b for a in p0 for b in p1):
            return True
    return False
