"""C23 - Complex and real mode node handling is sound.

Hand-written Coq (coq/Props/C23_*.v): a Gallina model of CheckComparisons (`check`: the nodetype
abstract interpretation, rebuilding ordering comparisons / min / max with Real(.) operands, None =
ComplexComparisonError) and of ComplexNodeRemoval (`remove`), with theorems for ALL expressions.

Ties to /repo on every run:
  T1  `ast` reader of both classes (handler table, aliases, nodetype constants, isinstance tuple of
      `terminal`, returned child of conj/real, raise of imag / ComplexValue) + the live MultiFunction
      dispatch tables  ->  coq/Gen/C23_rules.v, proved equal to the tables of the hand model;
  T3  the real do_comparison_check / remove_complex_nodes on seeded generated integrands against the
      Coq model: verdict, output tree (modulo Sum/Product operand order) and root nodetype, one
      `Example ... vm_compute` per case in coq/Gen/C23_cases_*.v;
  T2  den out = den inp proved by Coq for a sample of the accepted cases in every algebra where
      re / conj are the identity (coqgen.Case).
When a tie breaks the property itself (complex-valued numeric evaluation, C23_lib) is the oracle that
looks for a concrete failing input."""

import os
import re
import warnings

import ufl
import ufl.classes as C
from ufl.corealg.map_dag import map_expr_dag

import C23_lib as L
import coqgen
import ufl2coq
import vlib

HAND_FILES = ["Props/C23_model.v", "Props/C23_syn.v", "Props/C23_syn2.v", "Props/C23_sound.v",
              "Props/C23_real.v", "Props/C23_eqc.v"]

TY = {"real": 0, "complex": 1, "bool": 2}
VARIANT = {"cl": ["Sqrt"], "fixp": False}      # set by T1 from the source

EXTRA_HEADER = r'''
(* "the data are real": real part and conjugation are the identity *)
Hypothesis re_id : forall x : KT, re x = x.
Hypothesis conj_id : forall x : KT, conj x = x.
Ltac close23 := norm_goal; rewrite ?re_id, ?conj_id; first [ reflexivity | ring | field; nz_solve char0 ].
'''


def model_table(name):
    """names of the classes in the model's cc_dispatch table (read from the hand-written file)"""
    src = open(os.path.join(vlib.COQ, "Props/C23_model.v")).read()
    m = re.search(r"Definition cc_dispatch0[^:]*:[^=]*:=\s*\[(.*?)\]\.", src, re.S)
    return re.findall(r'\("([A-Za-z0-9]+)",\s*"[a-z_]+"\)', m.group(1))


def t1_rules(run):
    """Emit and check Gen/C23_rules.v.  Returns (ok, problems)."""
    from ufl.algorithms.comparison_checker import CheckComparisons
    from ufl.algorithms.remove_complex_nodes import ComplexNodeRemoval
    ccp = os.path.join(vlib.REPO, "ufl/algorithms/comparison_checker.py")
    rmp = os.path.join(vlib.REPO, "ufl/algorithms/remove_complex_nodes.py")
    problems = []
    cc_rules, cc_alias, p1 = L.parse_class(ccp, "CheckComparisons")
    rm_rules, rm_alias, p2 = L.parse_class(rmp, "ComplexNodeRemoval")
    problems += p1 + p2
    problems += L.parse_entry(ccp, "do_comparison_check", "CheckComparisons", "form")
    problems += L.parse_entry(rmp, "remove_complex_nodes", "ComplexNodeRemoval", "expr")
    names = model_table("cc_dispatch")
    cc_disp, _ = L.dispatch_table(CheckComparisons, names, cc_alias)
    rm_disp, _ = L.dispatch_table(ComplexNodeRemoval, names, rm_alias)
    # the variant of the analysis the source implements:
    #   cl   = the math-function / Bessel node classes dispatched to the constant-"complex" rule `sqrt`
    #          (any subset is representable; the model's check takes it as a parameter)
    #   fixp = power converts only literal RealValue | Zero exponents
    FN = set(L.MATH_FNS) | set(L.BESSEL_FNS)
    cl = [c for c, h in cc_disp if c in FN and h == "sqrt"]
    fixp = any(n == "power" and r[0] == "HPowerLit" for n, r in cc_rules)
    VARIANT["cl"], VARIANT["fixp"] = cl, fixp
    bp = "true" if fixp else "false"
    BASE_ALIASES = {"gt", "lt", "ge", "le", "sign"}
    q = L.coq_str
    clq = "[" + "; ".join(q(c) for c in cl) + "]"
    txt = ["(* generated from /repo by py/props/C23.py (T1): the handler tables of CheckComparisons and\n"
           "   ComplexNodeRemoval as the source states them, proved equal to the tables of the hand model *)\n"
           "Require Import UFLV.Core.Den.\nRequire Import UFLV.Props.C23_model.\nRequire Import UFLV.Props.C23_eqc.\n"
           "Require Import String.\nOpen Scope string_scope.\n"
           "Fixpoint lookup {T} (k : string) (l : list (string * T)) : option T :=\n"
           "  match l with [] => None | (k', v) :: t => if String.eqb k k' then Some v else lookup k t end.\n"]
    for nm, r in cc_rules:
        txt.append(f"Example src_cc_rule_{nm} : lookup {q(nm)} (cc_rules {bp}) = Some {L.coq_rule(r)}. Proof. reflexivity. Qed.\n")
    txt.append(f"Example src_cc_rule_count : List.length (cc_rules {bp}) = {len(cc_rules)}. Proof. reflexivity. Qed.\n")
    for a, b in cc_alias:
        if a in BASE_ALIASES:
            txt.append(f"Example src_cc_alias_{a} : lookup {q(a)} (cc_aliases false) = Some {q(b)}. Proof. reflexivity. Qed.\n")
        else:
            txt.append(f"Example src_cc_alias_{a} : alias_ok ({q(a)}, {q(b)}) = true. Proof. reflexivity. Qed.\n")
    nb = sum(1 for a, _ in cc_alias if a in BASE_ALIASES)
    txt.append(f"Example src_cc_alias_count : List.length (cc_aliases false) = {nb}. Proof. reflexivity. Qed.\n")
    for nm, r in rm_rules:
        txt.append(f"Example src_rm_rule_{nm} : lookup {q(nm)} rm_rules = Some {L.coq_rule(r)}. Proof. reflexivity. Qed.\n")
    txt.append(f"Example src_rm_rule_count : List.length rm_rules = {len(rm_rules) + len(rm_alias)}. Proof. reflexivity. Qed.\n")
    cd = "; ".join(f"({q(a)}, {q(b)})" for a, b in cc_disp)
    rd = "; ".join(f"({q(a)}, {q(b)})" for a, b in rm_disp)
    # arity: a handler with the one-argument signature (self, o) is a MultiFunction CUTOFF type: its
    # operands are not visited.  The model visits every operand, so no handler may be a cutoff.
    cc_cut = [n for n, cut in L.handler_arity(CheckComparisons) if cut]
    rm_cut = [n for n, cut in L.handler_arity(ComplexNodeRemoval) if cut]
    txt.append(f"Example src_cc_cutoff_handlers : [{'; '.join(q(n) for n in cc_cut)}] = cc_cutoff_handlers. Proof. reflexivity. Qed.\n")
    txt.append(f"Example src_rm_cutoff_handlers : [{'; '.join(q(n) for n in rm_cut)}] = rm_cutoff_handlers. Proof. reflexivity. Qed.\n")
    if cc_cut or rm_cut:
        problems.append(f"cutoff handlers (operands not visited): CheckComparisons {cc_cut}, ComplexNodeRemoval {rm_cut}")
    txt.append(f"Example src_cc_dispatch : cc_dispatch_cl {clq} = [{cd}]. Proof. reflexivity. Qed.\n")
    txt.append(f"Example src_rm_dispatch : rm_dispatch = [{rd}]. Proof. reflexivity. Qed.\n")
    path = os.path.join(vlib.GEN, "C23_rules.v")
    vlib.write_if_changed(path, "".join(txt))
    res = vlib.coqc(path, timeout=600)
    run.add_coq_result(res)
    if not res.ok:
        problems.append(f"Gen/C23_rules.v: obligation {res.failing_lemma()} fails: "
                        + " ".join((res.err or '').strip().split('\n')[-3:])[:300])
    run.extra["variant"] = dict(VARIANT)
    run.extra["t1"] = {"cc_rules": [list(map(str, (n,) + r)) for n, r in cc_rules], "cc_aliases": cc_alias,
                       "rm_rules": [list(map(str, (n,) + r)) for n, r in rm_rules],
                       "dispatch_classes": len(names), "source_problems": problems}
    return problems


def run_complex(e):
    """the real implementation: (accepted?, output, root nodetype); do_comparison_check itself and an
    instrumented CheckComparisons instance must agree"""
    from ufl.algorithms.comparison_checker import (CheckComparisons, ComplexComparisonError,
                                                   do_comparison_check)
    try:
        out = do_comparison_check(e)
    except ComplexComparisonError:
        out = None
    cc = CheckComparisons()
    try:
        out2 = map_expr_dag(cc, e)
        t = cc.nodetype[out2]
    except ComplexComparisonError:
        out2, t = None, None
    if (out is None) != (out2 is None) or (out is not None and out != out2):
        raise L.TieBroken("do_comparison_check(e) differs from map_expr_dag(CheckComparisons(), e)")
    return out, t


def run_real(e):
    from ufl.algorithms.remove_complex_nodes import remove_complex_nodes
    try:
        return remove_complex_nodes(e)
    except ValueError:
        return None


def ser_pair(inp, out):
    ctx = ufl2coq.Ctx()
    s = ufl2coq.Ser(ctx, share=False)
    ti = s.expr(inp)
    to = s.expr(out) if out is not None else None
    return ti, to


def raw_rebuild_size_ok(mode, inp, out):
    """the implementation's output has the size a node-for-node rebuild gives (no constructor
    simplification fired while rebuilding: those are C05's subject and are compared by value only)"""
    si, so = L.tree_size(inp), L.tree_size(out)
    if mode == "real":
        removed = L.count_tree(inp, lambda x: isinstance(x, (C.Conj, C.Real)))
        return so == si - removed
    wraps = L.count_tree(out, lambda x: isinstance(x, C.Real)) - L.count_tree(inp, lambda x: isinstance(x, C.Real))
    return so == si + wraps


class Case:
    def __init__(self, name, mode, inp, out, ty):
        self.name, self.mode, self.inp, self.out, self.ty = name, mode, inp, out, ty
        self.structural = True
        self.text = None


def build_cases(run, mode, n, seed):
    g = L.Gen(seed * 7919 + (1 if mode == "real" else 0))
    cases, seen = [], set()
    stats = {"accepted": 0, "rejected": 0, "value_only": 0, "unserialisable": 0}
    tries = 0
    while len(cases) < n and tries < 20 * n:
        tries += 1
        e = g.expr(mode)
        if mode == "real":
            # as in compute_form_data: remove_complex_nodes runs after apply_algebra_lowering
            from ufl.algorithms.apply_algebra_lowering import apply_algebra_lowering
            e = apply_algebra_lowering(e)
        key = repr(e)
        if key in seen:
            continue
        seen.add(key)
        if mode == "complex":
            out, t = run_complex(e)
        else:
            out, t = run_real(e), None
        c = Case(f"{'cc' if mode == 'complex' else 'rm'}_{len(cases)}", mode, e, out, t)
        try:
            ti, to = ser_pair(e, out)
        except ufl2coq.Unsupported:
            stats["unserialisable"] += 1
            continue
        if out is not None and not raw_rebuild_size_ok(mode, e, out):
            c.structural = False
            stats["value_only"] += 1
        if mode == "complex":
            impl = f"(Some ({to}, {TY[t]}))" if out is not None else "None"
            c.text = f"agree_check CL {ti} {impl}"
        else:
            impl = f"(Some {to})" if out is not None else "None"
            c.text = f"agree_remove {ti} {impl}"
        stats["accepted" if out is not None else "rejected"] += 1
        if mode == "complex":
            ns = L.count_tree(e, lambda x: isinstance(x, L.ORDERING))
            stats["with_ordering_sites"] = stats.get("with_ordering_sites", 0) + (1 if ns else 0)
            if out is not None and ns:
                stats["accepted_with_sites"] = stats.get("accepted_with_sites", 0) + 1
        else:
            nc = L.count_tree(e, lambda x: isinstance(x, (C.Conj, C.Real)))
            if out is not None and nc:
                stats["accepted_with_conj_real"] = stats.get("accepted_with_conj_real", 0) + 1
        cases.append(c)
    run.extra.setdefault("generator", {})[mode] = stats
    return cases


def case_hdr():
    cl = "[" + "; ".join(L.coq_str(c) + "%string" for c in VARIANT["cl"]) + "]"
    return ("Require Import UFLV.Core.Den.\nRequire Import UFLV.Props.C23_model.\n"
            "Require Import UFLV.Props.C23_eqc.\nRequire Import String.\n"
            f"Definition CL : list String.string := {cl}.\n")


def check_cases(run, cases, shard_size, fam="cases"):
    """Write Gen/C23_<fam>_<k>.v, compile, return the list of cases whose Example fails."""
    st = [c for c in cases if c.structural]
    shards = [st[i:i + shard_size] for i in range(0, len(st), shard_size)]
    paths = []
    for k, sh in enumerate(shards):
        body = "".join(f"Example {c.name} : {c.text} = true.\nProof. vm_compute. reflexivity. Qed.\n" for c in sh)
        p = os.path.join(vlib.GEN, f"C23_{fam}_{k}.v")
        vlib.write_if_changed(p, case_hdr() + body)
        paths.append(p)
    for f in os.listdir(vlib.GEN):
        if re.match(r"C23_(%s|%seval)_\d+\.v$" % (fam, fam), f) and os.path.join(vlib.GEN, f) not in paths:
            os.remove(os.path.join(vlib.GEN, f))
    results = vlib.coqc_many(paths, timeout=800, jobs=min(4, vlib.NCPU))
    bad = []
    for sh, res in zip(shards, results):
        names = [c.name for c in sh]
        if res.ok:
            run.add_coq_result(res, names)
            continue
        # one Eval-only pass over the shard to find ALL disagreeing cases
        ev = res.path.replace(f"C23_{fam}_", f"C23_{fam}eval_")
        body = "".join(f"Eval vm_compute in ({c.text}).\n" for c in sh)
        vlib.write_if_changed(ev, case_hdr() + body)
        r2 = vlib.coqc(ev, timeout=800)
        vals = re.findall(r"=\s*(true|false)\s*:\s*bool", r2.out or "")
        rel = os.path.relpath(res.path, vlib.COQ)
        if not r2.ok or len(vals) != len(sh):
            run.add_coq_result(res, names)
            bad.extend(sh)
            continue
        for c, v in zip(sh, vals):
            run.obligations.append((c.name, rel))
            if v == "true":
                run.discharged.append((c.name, rel))
            else:
                run.failed.append((c.name, rel, "model and implementation disagree"))
                bad.append(c)
    run.checker_cmds.append(f"coqc -Q coq UFLV coq/Gen/C23_{fam}_*.v")
    return bad


# ------------------------------------------------------------------------------------------------
# pipeline tie: the real compute_form_data on forms with nonlinear operators under derivatives

PIPE_OPTS = [
    {},
    {"do_apply_function_pullbacks": True, "do_apply_integral_scaling": True, "do_apply_geometry_lowering": True,
     "do_apply_restrictions": True},
]


class PCase:
    def __init__(self, name, mode, kind, form, opts, integrand):
        self.name, self.mode, self.kind, self.form, self.opts, self.integrand = name, mode, kind, form, opts, integrand
        self.text = None
        self.py_problem = None


def pipeline_cases(run, n, seed):
    """Run compute_form_data(form, complex_mode=True/False) on generated forms; one case per output integrand."""
    from ufl.algorithms import compute_form_data
    from ufl.algorithms.check_arities import ArityMismatch
    from ufl.algorithms.comparison_checker import ComplexComparisonError, do_comparison_check
    g = L.PipeGen(seed * 104729 + 5)
    stats = {"forms": 0, "rejected": 0, "errors": 0, "integrands": 0, "fallback_python_only": 0}
    cases, errs = [], []
    for i in range(n):
        kind, form = g.form()
        stats["forms"] += 1
        for mode in ("complex", "real"):
            opts = PIPE_OPTS[(i // 2) % 2 if i % 2 else 0]
            try:
                fd = compute_form_data(form, complex_mode=(mode == "complex"), **opts)
            except ComplexComparisonError:
                stats["rejected"] += 1
                continue
            except ValueError as ex:
                if mode == "real" and "Unexpected" in str(ex):      # imag / complex literal: rejected in real mode
                    stats["rejected"] += 1
                    continue
                stats["errors"] += 1
                continue
            except (Exception, ArityMismatch) as ex:   # arity / degree / unsupported combinations of the generated form
                stats["errors"] += 1
                if len(errs) < 3:
                    errs.append(f"{kind}: {type(ex).__name__}: {str(ex)[:120]}")
                continue
            seen = set()
            outs = [itg.integrand() for itg in fd.preprocessed_form.integrals()]
            outs += [itg.integrand() for idata in fd.integral_data for itg in idata.integrals]
            for out in outs:
                if id(out) in seen:
                    continue
                seen.add(id(out))
                c = PCase(f"{'pc' if mode == 'complex' else 'pr'}_{len(cases)}", mode, kind, form, opts, out)
                # the property on the real output, decided in Python (always)
                if mode == "complex":
                    c.py_problem = L.bad_ordering_site(out)
                    if c.py_problem is None:
                        try:
                            do_comparison_check(out)
                        except ComplexComparisonError as ex:
                            c.py_problem = {"site": "do_comparison_check(output integrand) raises", "operand": str(ex)}
                else:
                    c.py_problem = L.complex_node(out)
                # ... and by the model in Coq when the integrand is serialisable
                try:
                    t = ufl2coq.Ser(ufl2coq.Ctx(), share=False).expr(out)
                    if len(t) > 60000:
                        raise ufl2coq.Unsupported("integrand too large")
                    c.text = f"pipe_ok CL {t}" if mode == "complex" else f"pipe_clean {t}"
                except ufl2coq.Unsupported:
                    stats["fallback_python_only"] += 1
                stats["integrands"] += 1
                if mode == "complex" and L.count_tree(out, lambda x: isinstance(x, L.ORDERING)):
                    stats["complex_with_ordering_sites"] = stats.get("complex_with_ordering_sites", 0) + 1
                cases.append(c)
    stats["error_samples"] = errs
    run.extra.setdefault("generator", {})["pipeline"] = stats
    return cases


def known_witness():
    m = L.uflgen.mesh("triangle")
    x = ufl.SpatialCoordinate(m)
    return ufl.conditional(ufl.lt(ufl.ln(x[0]), 0), 1, 2)


def replay_known(run, known):
    """Replay the recorded witness on the real code: ln(x[0]) < 0 is accepted, its operand is typed real,
    and in C (x[0] = -1) the operand is i*pi, which the Real() wrap turns into 0."""
    import cmath
    e = known_witness()
    out, t = run_complex(e)
    if out is None:
        return False
    site = [n for n in L.nodes(out) if isinstance(n, C.LT)][0]
    wrapped = site.ufl_operands[0]
    val = cmath.log(complex(-1.0, 0.0))
    ok = isinstance(wrapped, C.Real) and isinstance(wrapped.ufl_operands[0], C.Ln) and abs(val.imag) > 3
    if ok:
        run.known(f"{known['id']}: do_comparison_check accepts `{e}` -> `{out}`; for x[0] = -1 the compared "
                  f"operand ln(x[0]) = {val} is not real and Re[.] changes it to {val.real}")
    return ok


HANG_SNIPPET = """
import warnings; warnings.simplefilter('ignore')
import ufl, uflgen
from ufl.algorithms.comparison_checker import do_comparison_check
x = ufl.SpatialCoordinate(uflgen.mesh()); f = uflgen.coef()
do_comparison_check(x[0]**x[1]); print('control-ok', flush=True)
do_comparison_check(x[0]**f); print('returned', flush=True)
"""


def replay_power_hang(run, known, timeout=8):
    import subprocess
    env = dict(os.environ)
    env.update(vlib.repo_env())
    try:
        p = subprocess.run([vlib.PY, "-c", HANG_SNIPPET], capture_output=True, text=True, timeout=timeout, env=env)
        out = p.stdout
    except subprocess.TimeoutExpired as ex:
        out = (ex.stdout or b"").decode() if isinstance(ex.stdout, bytes) else (ex.stdout or "")
        if "control-ok" in out and "returned" not in out:
            if run is not None:
                run.known(f"{known['id']}: do_comparison_check(x[0]**f) (f a Coefficient) does not return within "
                          f"{timeout}s (float(exponent) -> Terminal.evaluate -> float(self) recursion); "
                          "x[0]**x[1] returns immediately")
            return True
    return False


def main(run):
    warnings.simplefilter("ignore")
    quick = run.tier == "quick"
    import time
    ph, t0 = run.extra.setdefault("phase_s", {}), [time.time()]

    def mark(name):
        ph[name] = round(time.time() - t0[0], 1)
        t0[0] = time.time()
    # hand-written theorems
    for rel in HAND_FILES[1:]:
        ap = os.path.join(vlib.COQ, rel)
        fresh = vlib.vo_fresh(ap) and os.path.exists(_out_path(rel)) and \
            os.path.getmtime(_out_path(rel)) >= os.path.getmtime(ap)
        res = vlib.coqc(rel, timeout=1200) if not fresh else None
        if res is None:
            res = vlib.CoqResult(os.path.join(vlib.COQ, rel), True, cached_out(rel), "", 0.0)
        else:
            save_out(rel, res)
        run.add_coq_result(res)
        if not res.ok:
            run.violation({"broken": "hand-written theorem file does not compile", "file": rel,
                           "error": (res.err or "")[-1500:]}, False)
    bad_words = vlib.scan_forbidden([os.path.join(vlib.COQ, f) for f in HAND_FILES])
    if bad_words:
        run.violation({"broken": "forbidden vernacular in hand-written files", "where": bad_words}, False)

    mark("hand_files")
    # T1
    try:
        t1_problems = t1_rules(run)
    except (L.TieBroken, SyntaxError, KeyError, AttributeError) as ex:
        t1_problems = [f"T1 reader failed: {ex!r}"]

    mark("t1")
    # T3
    n = 300 if quick else 5000
    cases = build_cases(run, "complex", n, run.seed) + build_cases(run, "real", n, run.seed)
    for c in cases:
        run.count_case((c.mode, repr(c.inp)))
    for c in [c for c in cases if c.mode == "complex" and c.out is not None][:3] + \
            [c for c in cases if c.mode == "complex" and c.out is None][:2] + \
            [c for c in cases if c.mode == "real"][:3]:
        run.sample({"case": c.name, "mode": c.mode, "input": str(c.inp)[:160],
                    "output": (str(c.out)[:200] if c.out is not None else "REJECTED"), "nodetype": c.ty})
    mark("generate+run")
    bad = check_cases(run, cases, 150 if quick else 400)

    mark("t3_coq")
    # pipeline tie
    pcases = pipeline_cases(run, 70 if quick else 400, run.seed)
    for c in pcases:
        c.structural = c.text is not None
        run.count_case(("pipeline", c.mode, repr(c.integrand)[:4000]))
    pbad = check_cases(run, pcases, 80 if quick else 200, fam="pipe")
    preported = 0
    for c in pcases:
        if c.py_problem is None and c not in pbad:
            continue
        if preported >= 6:
            break
        preported += 1
        run.violation({"what": ("complex mode: an ordering comparison with an unwrapped / possibly complex operand "
                                "survives compute_form_data" if c.mode == "complex" else
                                "real mode: a Conj / Real / Imag / complex literal survives compute_form_data"),
                       "mode": c.mode, "form_kind": c.kind, "form": str(c.form)[:3000], "form_repr": repr(c.form)[:6000],
                       "options": c.opts, "output_integrand": str(c.integrand)[:3000],
                       "offending": c.py_problem, "model_obligation_failed": c in pbad,
                       "reproduce": "compute_form_data(<form>, complex_mode=%s, **options)" % (c.mode == "complex")},
                      c.py_problem is not None)
    if pcases:
        c = pcases[0]
        run.sample({"case": c.name, "pipeline": c.kind, "mode": c.mode, "form": str(c.form)[:160],
                    "output_integrand": str(c.integrand)[:200]})
    mark("pipeline")
    # property oracle on every accepted case (complex-valued numeric evaluation)
    known = vlib.load_known_findings("C23")
    kn = next((k for k in known if k.get("id") == "partial-mathfn-typed-real"), None)
    missing = [c for c in L.MUST_BE_COMPLEX if c not in VARIANT["cl"]]
    run.extra["classes_not_typed_complex"] = missing
    L.KNOWN_CLASS_ACTIVE = kn is not None and bool(missing)
    if not missing:
        kn = None       # the source types sqrt/ln/acos/asin/Bessel complex: the finding explains nothing any more
    oracle_hits, known_hits = [], 0
    for c in cases:
        if c.out is None:
            continue
        probs = (L.oracle_complex if c.mode == "complex" else L.oracle_real)(c.inp, c.out, run.seed + 17, 4 if quick else 6)
        for p in probs:
            if c.mode == "complex" and p.get("known_class") and kn is not None:
                known_hits += 1
            else:
                oracle_hits.append((c, p))
            break
    run.extra["oracle"] = {"known_class_hits": known_hits, "other_hits": len(oracle_hits)}

    mark("oracle")
    reported = set()
    for c, p in oracle_hits:
        if c.name in reported:
            continue
        reported.add(c.name)
        run.violation({"what": "the property fails on the real implementation: " + p["kind"],
                       "mode": c.mode, "input": str(c.inp), "input_repr": repr(c.inp)[:3000],
                       "output": str(c.out), "detail": p, "model_agrees": c not in bad,
                       "reproduce": "PYTHONPATH=$UFL_REPO:/verif/py python -c 'see py/props/C23.py: "
                                    + ("do_comparison_check" if c.mode == "complex" else "remove_complex_nodes")
                                    + "(<input>)'; bin/check C23 (seed %d)" % run.seed}, True)
    for c in bad:
        if c.name in reported:
            continue
        reported.add(c.name)
        w = verdict_witness(c)
        run.violation({"what": "model and implementation disagree (tie T3 broken)", "mode": c.mode,
                       "input": str(c.inp), "input_repr": repr(c.inp)[:3000],
                       "implementation_output": str(c.out) if c.out is not None else "REJECTED",
                       "implementation_nodetype": c.ty, "obligation": c.name, "witness": w,
                       "reproduce": "bin/check C23 (seed %d); Gen/C23_cases_*.v Example %s" % (run.seed, c.name)},
                      bool(w))
    # a tie broke: small-scope exhaustive search with the property itself as oracle
    if t1_problems or bad:
        from ufl.algorithms.apply_algebra_lowering import apply_algebra_lowering
        ss = []
        try:
            ss += [dict(w, mode="real") for w in L.small_scope_real(run_real, apply_algebra_lowering)]
            ss += [dict(w, mode="complex") for w in L.small_scope_complex(run_complex)]
        except Exception as ex:      # the search must never mask the broken tie
            run.extra["small_scope_error"] = repr(ex)
        for w in ss[:4]:
            reported.add("small-scope")
            run.violation({"what": "the property fails on the real implementation (small-scope search after a "
                                   "broken tie): " + w["problem"]["kind"], "mode": w["mode"],
                           "input": w["input"], "input_repr": w["input_repr"], "output": w["output"],
                           "detail": w["problem"], "t1_problems": t1_problems,
                           "reproduce": "bin/check C23; C23_lib.small_scope_%s" % w["mode"]}, True)
    if t1_problems and not reported:
        run.violation({"broken": "T1: the handler tables read from the source differ from the model's",
                       "problems": t1_problems}, False)
    elif t1_problems:
        run.extra["t1_problems"] = t1_problems

    mark("search")
    # T2: den out = den inp for real data, a sample of accepted cases
    t2 = []
    for c in cases:
        if c.out is None or c in bad or not c.structural:
            continue
        if c.out.ufl_shape or c.out.ufl_free_indices or L.tree_size(c.inp) > 40:
            continue
        if L.subtree_has(c.inp, (C.Inner, C.Dot)) or skeleton(c.inp) != skeleton(c.out):
            continue
        t2.append(coqgen.Case(f"t2_{c.name}", out=c.out, inp=c.inp, tactic="close23",
                              note={"mode": c.mode}, check_fidx=False))
        if len(t2) >= (16 if quick else 160):
            break
    failing = coqgen.emit_and_check(run, "C23", t2, shards=4 if quick else 8, timeout=800,
                                    extra_header=EXTRA_HEADER)
    for case, lemma, msg in failing:
        run.violation({"broken_obligation": lemma, "coq_message": msg,
                       "input": str(case.inp) if case else None, "output": str(case.out) if case else None,
                       "what": "den out = den inp (re, conj = identity) not provable"}, False)

    mark("t2_coq")
    # known findings / defective variants.  A variant of the analysis that is known to be unsound (a class of
    # MUST_BE_COMPLEX not typed complex; power calling float() on arbitrary exponents) is reported as a
    # KNOWN-FINDING only while an OPEN entry of known/C23.json records it; otherwise it is a VIOLATION with
    # a concrete accepted comparison on a non-real value (resp. the non-returning input) as failing input.
    if kn is not None:
        if not replay_known(run, kn):
            run.extra["known_not_reproduced"] = kn["id"]
    elif missing:
        ws = L.variant_witnesses(missing, run_complex)
        for cls in missing:
            for w in ws.get(cls, [])[:1]:
                run.violation({"what": f"the analysis does not type {cls} nodes complex and accepts an ordering "
                                       "comparison on a non-real value (no open known finding records this variant)",
                               "mode": "complex", "input": w["input"], "input_repr": w["input_repr"],
                               "output": w["output"], "detail": w["problem"],
                               "reproduce": "do_comparison_check(<input>); bin/check C23"}, True)
            if not ws.get(cls):
                run.violation({"what": f"the analysis does not type {cls} nodes complex (unsound variant, "
                                       "C23_types needs the false hypothesis that it maps reals to reals)"}, False)
    kh = next((k for k in known if k.get("id") == "power-exponent-float-recursion"), None)
    if kh is not None:
        if not replay_power_hang(run, kh):
            run.extra["known_not_reproduced_2"] = kh["id"]
    elif not VARIANT["fixp"]:
        if replay_power_hang(None, {"id": "power-exponent-float-recursion"}):
            run.violation({"what": "CheckComparisons.power calls float() on a non-literal exponent: "
                                   "do_comparison_check does not return (no open known finding records this)",
                           "mode": "complex", "input": "SpatialCoordinate(mesh)[0] ** Coefficient(V)",
                           "observed": "no result within 8 s; x[0]**x[1] returns immediately",
                           "reproduce": "see HANG_SNIPPET in py/props/C23.py"}, True)

    mark("known_replay")
    run.trusted.update([
        "Coq 8.16.1 kernel (coqc); vm_compute for the correspondence cases",
        "py/ufl2coq.py serializer (node-for-node, fail-closed)",
        "coq/Props/C23_eqc.v comparator: tree equality modulo operand order of Sum/Product",
        "py/C23_lib.py ast reader (fail-closed templates) and the seeded generator",
        "den of Core/Den.v as the meaning of expressions; the algebra laws listed as Section hypotheses in C23_sound.v / C23_real.v",
        "numeric oracle (Python complex, cmath principal branches) is used only to find failing inputs",
    ])
    return run.finish(
        rule="one case per distinct generated integrand and mode (complex: do_comparison_check, real: "
             "remove_complex_nodes); obligations = hand theorems + T1 table equalities + one Example per case "
             "(verdict, output tree, root nodetype) + T2 value lemmas; cases whose rebuilt output is not "
             "node-for-node (constructor simplification) are checked by value only and counted in generator.value_only",
        assumptions=["C23_types/C23_value/C23_operands_real: laws of the reals inside the algebra (Section hypotheses of "
                     "C23_sound.v), terminals classified real are real-valued (Renv), fragment inF (no compound "
                     "tensor-algebra nodes), math functions: only exp/cos/sin/tan/cosh/sinh/tanh/atan/erf assumed "
                     "real-preserving in the _partial instance",
                     "C23_remove_value: conj x = x and re x = x for all values (real data), kpow agrees with natural powers"])


def probe_subexpressions(e, limit=60):
    """Search near a disagreeing input: put every scalar subexpression s under `lt(s, 0)`; if the
    implementation accepts the comparison although s takes a non-real value for real-valued real-classified
    terminals, that is a concrete failing input of the property."""
    n = 0
    for sub in L.nodes(e):
        if sub._ufl_is_terminal_ or sub.ufl_shape or sub.ufl_free_indices or isinstance(sub, C.Condition):
            continue
        n += 1
        if n > limit:
            break
        try:
            probe = ufl.conditional(ufl.lt(sub, 0), 1, 2)
            out, _ = run_complex(probe)
        except Exception:
            continue
        if out is None:
            continue
        probs = [p for p in L.oracle_complex(probe, out, 4242, 10) if not p.get("known_class")]
        if probs:
            w = dict(probs[0])
            w["probe_input"] = str(probe)
            w["probe_input_repr"] = repr(probe)[:3000]
            w["probe_output"] = str(out)
            return w
    return None


def skeleton(e, memo=None):
    """the tree with Real / Conj nodes stripped, operand order kept"""
    memo = {} if memo is None else memo
    k = id(e)
    if k in memo:
        return memo[k]
    if isinstance(e, (C.Real, C.Conj)):
        r = skeleton(e.ufl_operands[0], memo)
    elif e._ufl_is_terminal_:
        r = repr(e)
    else:
        r = (type(e).__name__,) + tuple(skeleton(o, memo) for o in e.ufl_operands)
    memo[k] = r
    return r


def _out_path(rel):
    return os.path.join(vlib.COQ, rel[:-2] + ".out")


def save_out(rel, res):
    try:
        with open(_out_path(rel), "w") as f:
            f.write(res.out or "")
    except OSError:
        pass


def cached_out(rel):
    try:
        return open(_out_path(rel)).read()
    except OSError:
        return ""


def verdict_witness(c):
    """Independent evidence that the disagreement is a property failure (not only a model mismatch)."""
    if c.out is None:
        return None
    probs = (L.oracle_complex if c.mode == "complex" else L.oracle_real)(c.inp, c.out, 12345, 12)
    probs = [p for p in probs if not p.get("known_class")]
    if probs:
        return probs[0]
    if c.mode == "real":
        bad = [n for n in L.nodes(c.inp) if isinstance(n, (C.Imag, C.ComplexValue))]
        if bad:
            return {"kind": "imag-or-complex-literal-accepted", "node": str(bad[0])[:200]}
    if c.mode == "complex":
        w = probe_subexpressions(c.inp)
        if w:
            return w
        # an accepted input with an ordering operand that contains a complex-classified terminal and no
        # realifying operator above it
        for n in L.nodes(c.inp):
            if isinstance(n, L.ORDERING):
                for o in n.ufl_operands:
                    if isinstance(o, (C.Coefficient, C.Constant, C.ComplexValue)):
                        return {"kind": "complex-terminal-compared", "node": str(n)[:200]}
    return None
