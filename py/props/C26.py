"""C26 - Reference cell topology is internally consistent.

T1: the table `_sub_entity_celltypes` and the accessor results of every named cell are read from
the live /repo module on every run and written to coq/Gen/C26_table.v; the theorems (Euler
characteristic, sub-entity dimensions, facets/ridges/peaks, tensor-product f-vectors) are proved
over the regenerated table by vm_compute (finite, exhaustive), the order theorems hold for all
(tdim, name) keys (Props/C26_model.v).  T3: every accessor of every named cell and every pair
comparison on the real classes is compared with the model (exhaustive)."""

import itertools
import os

import vlib

HAND_FILES = ["Props/C26_model.v", "Props/C26_order.v"]


def cname(s):
    return "[" + "; ".join(str(ord(ch)) for ch in s) + "]"


def clist(xs, f=str):
    return "[" + "; ".join(f(x) for x in xs) + "]"


def observe():
    import ufl.cell as uc
    tbl = uc._sub_entity_celltypes
    names = list(tbl.keys())
    obs = {}
    for n in names:
        c = uc.Cell(n)
        td = c.topological_dimension
        obs[n] = {
            "tdim": td,
            "num": [c.num_sub_entities(d) for d in range(-1, 7)],
            "ents": [[e.cellname for e in c.sub_entities(d)] for d in range(-1, 7)],
            "num_codim": [c.num_facets, c.num_ridges, c.num_peaks],
            "ents_codim": [[e.cellname for e in c.facets], [e.cellname for e in c.ridges],
                           [e.cellname for e in c.peaks]],
            "named": [c.num_vertices, c.num_edges, c.num_faces],
        }
    lt = [[bool(uc.Cell(a) < uc.Cell(b)) for b in names] for a in names]
    # tensor product cells with total dimension <= 3
    small = [n for n in names if len(tbl[n]) - 1 <= 3]
    tps = []
    for k in (1, 2, 3):
        for combo in itertools.product(small, repeat=k):
            td = sum(len(tbl[n]) - 1 for n in combo)
            if td > 3:
                continue
            tp = uc.TensorProductCell(*[uc.Cell(n) for n in combo])
            nums = []
            for d in range(0, td + 2):
                try:
                    nums.append(tp.num_sub_entities(d))
                except NotImplementedError:
                    nums.append(None)
            tps.append((combo, td, nums))
    return tbl, names, obs, lt, tps


def observe_union():
    """the pool of cells of BOTH classes (named cells and tensor products of <= 3 named cells, tdim <= 3), their
    model keys (class name, tdim, list of factor names - read from the live objects) and the full `<` matrix"""
    import ufl.cell as uc
    tbl = uc._sub_entity_celltypes
    names = list(tbl.keys())
    small = [n for n in names if len(tbl[n]) - 1 <= 3]
    pool = [uc.Cell(n) for n in names]
    for k in (1, 2, 3):
        for combo in itertools.product(small, repeat=k):
            if sum(len(tbl[n]) - 1 for n in combo) <= 3:
                pool.append(uc.TensorProductCell(*[uc.Cell(n) for n in combo]))
    keys = []
    for c in pool:
        hd = c._ufl_hash_data_()
        if isinstance(c, uc.TensorProductCell):
            if not all(isinstance(x, tuple) and len(x) == 1 and isinstance(x[0], str) for x in hd):
                raise RuntimeError(f"hash data of {c!r} is not a tuple of (name,) tuples: {hd!r}")
            data = [x[0] for x in hd]
        else:
            if not (isinstance(hd, tuple) and len(hd) == 1 and isinstance(hd[0], str)):
                raise RuntimeError(f"hash data of {c!r} is not (name,): {hd!r}")
            data = [hd[0]]
        keys.append((type(c).__name__, c.topological_dimension, data))
    mat = []
    for a in pool:
        row = []
        for b in pool:
            try:
                row.append(bool(a < b))
            except Exception as e:  # noqa: BLE001
                row.append(f"raises {type(e).__name__}")
        mat.append(row)
    return pool, keys, mat


def union_order_search(pool, keys, mat):
    """strict total order on the union pool, decided on the real `<`"""
    n = len(pool)
    for i in range(n):
        for j in range(n):
            if isinstance(mat[i][j], str):
                return {"cells": [repr(pool[i]), repr(pool[j])], "fails": f"a < b {mat[i][j]}"}
    for i in range(n):
        if mat[i][i]:
            return {"cells": [repr(pool[i])], "fails": "a < a"}
        for j in range(n):
            same = keys[i] == keys[j]
            if i != j and not same and mat[i][j] == mat[j][i]:
                return {"cells": [repr(pool[i]), repr(pool[j])], "fails": "ordering not total/asymmetric",
                        "a<b": mat[i][j], "b<a": mat[j][i]}
    for i in range(n):
        for j in range(n):
            if not mat[i][j]:
                continue
            for k in range(n):
                if mat[j][k] and not mat[i][k]:
                    return {"cells": [repr(pool[i]), repr(pool[j]), repr(pool[k])],
                            "fails": "ordering not transitive: a < b and b < c but not a < c"}
    return None


def conv(a, b):
    out = [0] * (len(a) + len(b) - 1)
    for i, x in enumerate(a):
        for j, y in enumerate(b):
            out[i + j] += x * y
    return out


def python_property_search(tbl, names, obs, lt, tps=()):
    """Search for a concrete cell violating the property on the real accessors."""
    import ufl.cell as uc
    for combo, td, nums in tps:
        f = [1]
        for n in combo:
            f = conv(f, [len(l) for l in tbl[n]])
        for d, got in enumerate(nums[:td + 1]):
            if got is not None and got != f[d]:
                return {"tensor_product_cell": list(combo), "fails": f"num_sub_entities({d}) = {got}, the product "
                        f"polytope has {f[d]} entities of dimension {d} (f-vector {f})"}
    for n in names:
        c = uc.Cell(n)
        td = c.topological_dimension
        chi = sum((-1) ** d * c.num_sub_entities(d) for d in range(td + 1))
        if chi != 1:
            return {"cell": n, "fails": "Euler characteristic", "value": chi,
                    "counts": [c.num_sub_entities(d) for d in range(td + 1)]}
        for d in range(td + 1):
            for e in c.sub_entities(d):
                if e.topological_dimension != d:
                    return {"cell": n, "fails": f"sub-entity {e.cellname} listed at dimension {d} has tdim "
                                                 f"{e.topological_dimension}"}
            if len(c.sub_entities(d)) != c.num_sub_entities(d):
                return {"cell": n, "fails": f"num_sub_entities({d}) != len(sub_entities({d}))"}
        for k, (nm, ents) in enumerate([("facets", c.facets), ("ridges", c.ridges), ("peaks", c.peaks)], 1):
            for e in ents:
                if e.topological_dimension != td - k:
                    return {"cell": n, "fails": f"{nm} contains {e.cellname} of dimension {e.topological_dimension}, "
                                                 f"expected {td - k}"}
            if td - k >= 0 and len(ents) != c.num_sub_entities(td - k):
                return {"cell": n, "fails": f"{nm} is not the set of entities of dimension tdim-{k}"}
            cnt = [c.num_facets, c.num_ridges, c.num_peaks][k - 1]
            if cnt != (c.num_sub_entities(td - k) if td - k >= 0 else 0):
                return {"cell": n, "fails": f"num_{nm} = {cnt} but the cell has "
                                             f"{c.num_sub_entities(td - k) if td - k >= 0 else 0} entities of dimension tdim-{k}"}
        for d, (nm, cnt) in enumerate([("num_vertices", c.num_vertices), ("num_edges", c.num_edges),
                                       ("num_faces", c.num_faces)]):
            if cnt != c.num_sub_entities(d):
                return {"cell": n, "fails": f"{nm} = {cnt} != num_sub_entities({d}) = {c.num_sub_entities(d)}"}
    keys = {n: (len(tbl[n]) - 1, n) for n in names}
    for i, a in enumerate(names):
        if lt[i][i]:
            return {"cells": [a, a], "fails": "ordering not irreflexive"}
        for j, b in enumerate(names):
            if a != b and lt[i][j] == lt[j][i]:
                return {"cells": [a, b], "fails": "ordering not total/asymmetric", "a<b": lt[i][j], "b<a": lt[j][i]}
            for k, c in enumerate(names):
                if lt[i][j] and lt[j][k] and not lt[i][k]:
                    return {"cells": [a, b, c], "fails": "ordering not transitive"}
    return None


def main(run):
    tbl, names, obs, lt, tps = observe()
    for n in names:
        run.count_case(("cell", n))
    for combo, td, nums in tps:
        run.count_case(("tp", combo))
    run.sample({"cell": "prism", "observed": obs.get("prism")})
    run.sample({"tensor_product": list(tps[len(tps) // 2][0]), "num_sub_entities": tps[len(tps) // 2][2]})

    t = ["Require Import UFLV.Props.C26_model.\nRequire Import List ZArith Bool.\nImport ListNotations.\n"]
    t.append("(* regenerated from ufl.cell._sub_entity_celltypes *)\n")
    t.append("Definition tbl : table := [\n" + ";\n".join(
        "  (" + cname(n) + ", " + clist(tbl[n], lambda lv: clist(lv, cname)) + ")" for n in names) + "].\n")
    t.append("Theorem C26_table_ok : table_ok tbl = true.\nProof. vm_compute. reflexivity. Qed.\n")
    t.append("Theorem C26_codim_ok : forallb (fun x => codim_ok tbl (snd x) 1 && codim_ok tbl (snd x) 2 "
             "&& codim_ok tbl (snd x) 3) tbl = true.\nProof. vm_compute. reflexivity. Qed.\n")
    # correspondence of accessors (exhaustive over the named cells)
    for n in names:
        o = obs[n]
        ident = n
        t.append(f"Definition e_{ident} := match lookup tbl {cname(n)} with Some e => e | None => [] end.\n")
        t.append(f"Example acc_{ident}_tdim : tdim_of e_{ident} = {o['tdim']}. Proof. reflexivity. Qed.\n")
        # num_sub_entities for d = 0..6 (d = -1 gives 0 in Python; the model uses nat)
        t.append(f"Example acc_{ident}_num : map (num_sub e_{ident}) (seq 0 7) = {clist(o['num'][1:])}. "
                 "Proof. reflexivity. Qed.\n")
        t.append(f"Example acc_{ident}_ents : map (sub_ents e_{ident}) (seq 0 7) = "
                 f"{clist(o['ents'][1:], lambda l: clist(l, cname))}. Proof. reflexivity. Qed.\n")
        t.append(f"Example acc_{ident}_codim : map (num_codim e_{ident}) [1;2;3] = {clist(o['num_codim'])}. "
                 "Proof. reflexivity. Qed.\n")
        t.append(f"Example acc_{ident}_codim_ents : map (ents_codim e_{ident}) [1;2;3] = "
                 f"{clist(o['ents_codim'], lambda l: clist(l, cname))}. Proof. reflexivity. Qed.\n")
        t.append(f"Example acc_{ident}_named : map (num_sub e_{ident}) [0;1;2] = {clist(o['named'])}. "
                 "Proof. reflexivity. Qed.\n")
    ok_neg = all(obs[n]["num"][0] == 0 and obs[n]["ents"][0] == [] for n in names)
    keys = clist(names, lambda n: f"({len(tbl[n]) - 1}, {cname(n)})")
    t.append(f"Definition keys : list (nat * name) := {keys}.\n")
    t.append("Example order_matrix : map (fun a => map (cell_ltb a) keys) keys = "
             + clist(lt, lambda row: clist(row, lambda b: "true" if b else "false"))
             + ". Proof. vm_compute. reflexivity. Qed.\n")
    # tensor products
    t.append("Definition fv (n : name) : list nat := match lookup tbl n with Some e => fvec e | None => [] end.\n")
    t.append("Definition tp_cases : list (list name) := " + clist([c for c, _, _ in tps], lambda c: clist(c, cname)) + ".\n")
    t.append("Theorem C26_tp_fvector : forallb (fun c => tp_agrees (map fv c) && tp_euler (map fv c)) tp_cases = true.\n"
             "Proof. vm_compute. reflexivity. Qed.\n")
    def opt(x):
        return "None" if x is None else f"(Some {x})"
    t.append("Example tp_corr : map (fun c => map (tp_num (map fv c)) (seq 0 (tp_tdim (map fv c) + 2))) tp_cases = "
             + clist([nums for _, _, nums in tps], lambda l: clist(l, opt)) + ".\nProof. vm_compute. reflexivity. Qed.\n")
    t.append("Print Assumptions C26_table_ok.\nPrint Assumptions C26_tp_fvector.\n")
    path = os.path.join(vlib.GEN, "C26_table.v")
    vlib.write_if_changed(path, "".join(t))
    hand = vlib.coqc("Props/C26_model.v")
    run.add_coq_result(hand)
    res = vlib.coqc(path)
    run.add_coq_result(res)
    # the order on the union of the cell classes: every pair of the pool against the model all_ltb
    pool, ukeys, umat = observe_union()
    for k_ in ukeys:
        run.count_case(("union", k_[0], k_[1], tuple(k_[2])))
    u = ["Require Import UFLV.Props.C26_order.\nRequire Import List Bool.\nImport ListNotations.\n",
         "Definition ukeys : list ckey := " + clist(ukeys, lambda k_: f"({cname(k_[0])}, ({k_[1]}, {clist(k_[2], cname)}))") + ".\n",
         "Example union_order_matrix : map (fun a => map (all_ltb a) ukeys) ukeys = "
         + clist(umat, lambda row: clist(row, lambda b: "true" if b is True else "false"))
         + ". Proof. vm_compute. reflexivity. Qed.\n",
         "(* instances of the order theorems on the pool (they hold for ALL keys) *)\n"
         "Theorem C26_union_strict_total : forall a b c, In a ukeys -> In b ukeys -> In c ukeys ->\n"
         "  all_ltb a a = false /\\ (all_ltb a b = true -> all_ltb b c = true -> all_ltb a c = true) /\\\n"
         "  (a <> b -> all_ltb a b = true \\/ all_ltb b a = true).\n"
         "Proof. intros a b c _ _ _. split; [apply C26_all_lt_irrefl|]. split; [apply C26_all_lt_trans|apply C26_all_lt_total]. Qed.\n",
         "Print Assumptions C26_union_strict_total.\n"]
    upath = os.path.join(vlib.GEN, "C26_union.v")
    vlib.write_if_changed(upath, "".join(u))
    hand2 = vlib.coqc("Props/C26_order.v")
    run.add_coq_result(hand2)
    ures = vlib.coqc(upath)
    run.add_coq_result(ures)
    raises = [(repr(pool[i]), repr(pool[j]), umat[i][j]) for i in range(len(pool)) for j in range(len(pool))
              if isinstance(umat[i][j], str)]
    dup = len({(k_[0], k_[1], tuple(k_[2])) for k_ in ukeys}) != len(ukeys)
    if (not ures.ok) or (not hand2.ok) or raises or dup:
        w = union_order_search(pool, ukeys, umat)
        rep_ = {"broken_obligation": ures.failing_lemma() if not ures.ok else ("C26_order" if not hand2.ok else
                                                                               "comparison raises / duplicate keys"),
                "coq_message": (ures.err or hand2.err or "")[-600:], "reproduce": "bin/check C26",
                "what": "the real `<` on the union of Cell and TensorProductCell differs from the model order "
                        "(class name, then tdim, then names)"}
        if w:
            rep_["witness"] = w
        run.violation(rep_, bool(w))
    run.checker_cmds.append("coqc -Q coq UFLV coq/Props/C26_model.v coq/Gen/C26_table.v")
    run.extra["exhaustive"] = True
    broken = (not res.ok) or (not hand.ok) or (not ok_neg)
    if broken:
        w = python_property_search(tbl, names, obs, lt, tps)
        rep = {"broken_obligation": res.failing_lemma() if not res.ok else ("negative dimension accessors" if not ok_neg else "C26_model"),
               "coq_message": (res.err or hand.err or "")[-600:], "reproduce": "bin/check C26"}
        if w:
            rep["witness"] = w
        run.violation(rep, bool(w))
    run.trusted.update([
        "Coq 8.16.1 kernel; vm_compute for the finite table theorems",
        "the table and accessor results are read from the live ufl.cell module (py/props/C26.py); "
        "Python str comparison modelled as lexicographic order of code points",
        "tensor-product cells: f-vector of a product polytope is the convolution of the factors' f-vectors (definition)",
    ])
    return run.finish(
        rule="all named cells of ufl.cell (exhaustive) and all tensor products of <= 3 named cells with total tdim <= 3; "
             "distinct = distinct cell / factor tuple",
        assumptions=["tensor products of tensor products and CellSequence are outside the pool"])
