"""C24 - Point evaluation computes the mathematical value.

Hand model (coq/Props/C24_model.v, C24_inst.v): the interpreter `py_eval` written after the real
`evaluate` methods, and the theorem `C24_eval_sound` (induction, all expressions of the evaluable
fragment, all mappings, components, index valuations, derivative tuples, every UFL algebra):
py_eval e = Some v -> v = D_ds (den e c).

Ties, re-established on every run against the working tree:
  T1  py/C24_ast.py parses every `evaluate` method: the straight-line ones are translated into a rule
      table that Coq compares with the model's (Gen/C24_rules.v); the others must have the normal
      form the model was written against (fail closed);
  T3  seeded closed expressions with exact (Fraction) mappings are run through the REAL
      `e(x, mapping, component)` and `expand_derivatives(e).evaluate(...)`; every run becomes a Coq
      `Example py_eval_Q mapping x e c = <what the implementation returned>` (vm_compute, kernel
      checked), and the returned value is compared with py/pyden.py (the mirror of den) -- exactly for
      int/Fraction results, to 1e-9 where `evaluate` coerces to float.
"""

import collections
import os
import random
from fractions import Fraction as Fr

import C24_ast
import C24_harness as H
import vlib

HAND_FILES = ["Props/C24_model.v", "Props/C24_inst.v"]


# -------------------------------------------------------------------------------------------------
# known findings: witnesses replayed on the real code

def witness_conditional(T, rng):
    import ufl
    return ufl.conditional(ufl.lt(T.f[0], T.f[1]), T.v[0], T.v[1]), (0,)


def witness_conditional_grad(T, rng):
    import ufl
    return ufl.grad(ufl.conditional(ufl.lt(T.f[0], T.f[1]), T.f[0], T.f[1]))[0], ()


def witness_permsym(T, rng):
    import ufl
    i, j = ufl.indices(2)
    eps = ufl.PermutationSymbol(2)
    return eps[i, j] * T.M[0][i, j], ()


def witness_permsym_cond(T, rng):
    import ufl
    i, j = ufl.indices(2)
    eps = ufl.PermutationSymbol(2)
    return ufl.conditional(ufl.lt(eps[i, j] * eps[i, j], 3), T.f[0], T.f[1]), ()


def witness_abs_free_index(T, rng):
    import ufl
    i = ufl.Index()
    return ufl.div(ufl.as_vector(abs(T.v[0][i]), i)), ()


def witness_abs_free_index_dx(T, rng):
    import ufl
    i = ufl.Index()
    return abs(T.v[0][i]).dx(0) * T.v[1][i], ()


WITNESSES = {
    "abs-derivative-free-index": [witness_abs_free_index, witness_abs_free_index_dx],
    "conditional-component": [witness_conditional, witness_conditional_grad],
    "permutation-symbol-object": [witness_permsym, witness_permsym_cond],
}


def replay_known(run):
    """Replays the witnesses of known/C24.json; returns the set of finding ids that still reproduce."""
    live = set()
    for k in vlib.load_known_findings("C24"):
        fid = k["id"]
        reproduced = []
        for w in WITNESSES.get(fid, []):
            c = H.run_case(0, 12345, 0, build=w)
            bad = c.real_call.kind != "num" and c.expected.kind == "num"
            reproduced.append((w.__name__, bad, c))
        if reproduced and all(b for _, b, _ in reproduced):
            live.add(fid)
            c = reproduced[0][2]
            run.known(f"finding={fid} witness: ({c.e})(x, mapping, component={c.comp}) -> {c.real_call!r}; "
                      f"mathematical value {c.expected.value} :: {k['what'][:160]}")
            run.sample({"known_finding": fid, "witness": str(c.e), "real": repr(c.real_call),
                        "expected": str(c.expected.value)})
        else:
            run.extra.setdefault("known_findings_not_reproduced", []).append(fid)
    return live


def replay_closed(run, repaired_flags):
    """A finding that is not OPEN suppresses nothing: its witnesses are replayed on every run and a witness
    that fails again (the defect returned) is a VIOLATION with that witness as the failing input.  The same
    holds when T1 recognises the DEFECTIVE body of a method (model flag false) without an open finding."""
    open_ids = {k["id"] for k in vlib.load_known_findings("C24")}
    n = 0
    for fid, ws in WITNESSES.items():
        if fid in open_ids:
            continue
        failed = False
        for w in ws:
            c = H.run_case(0, 12345, 0, build=w)
            if c.real_call.kind != "num" and c.expected.kind == "num" or \
                    (c.real_call.kind == "num" and c.expected.kind == "num"
                     and not H.same_number(c.real_call.value, c.expected.value, c.scale, rel=1e-8)):
                failed = True
                rep = H.describe(c)
                rep.update({"what": f"the repaired finding '{fid}' is back: its witness fails again on this tree",
                            "finding": fid, "witness_builder": w.__name__,
                            "reproduce": "bin/check C24 (witness replay; the expression_repr with the given mapping)"})
                run.violation(rep, True)
                n += 1
        if fid in repaired_flags and repaired_flags[fid] is False and not failed:
            run.violation({"broken": f"T1 recognises the defective body for finding '{fid}' (no open finding covers "
                                     f"it) but its witnesses evaluate correctly"}, False)
            n += 1
    return n


# -------------------------------------------------------------------------------------------------

def classify(c, live):
    """-> (verdict, text).  verdict: ok | undefined | known | inconclusive | VIOLATION"""
    real, direct, exp = c.real_call, c.real_direct, c.expected
    if real.kind != direct.kind or (real.kind == "num" and not H.same_number(real.value, direct.value, c.scale)):
        return "VIOLATION", "e(x, mapping, component) differs from expand_derivatives(e).evaluate(...)"
    if exp.kind == "unsupported":
        return "inconclusive", "mirror does not support the expression"
    if real.kind == "num":
        if exp.kind != "num":
            return "inconclusive", "mirror undefined (division by zero / domain) where the code returned a number"
        if H.same_number(real.value, exp.value, c.scale, rel=1e-8):
            return "ok", ""
        if not isinstance(real.value, (int, Fr)) and H.fragile_conditions(c.e, c.env):
            return "inconclusive", "float result with a comparison decided by < 1e-6"
        if H.differentiated_kinds(c.e) and H.nonsmooth_point(c.e, c.env):
            return "inconclusive", "derivative taken at a kink of abs/min/max"
        return "VIOLATION", "wrong value"
    # raised / returned an object
    if exp.kind == "error":
        return "undefined", ""
    if c.known & live:
        return "known", ",".join(sorted(c.known & live))
    return "VIOLATION", "raises / returns a non-number on an input whose mathematical value is defined"


def coq_expected(c, verdict, live, repaired):
    """The right-hand side of the generated Example, or 'skip'.  `repaired`: finding ids whose method has
    the repaired body in this tree (the model is then run with cfix / efix = true)."""
    if not H.coq_eligible(c.f) or verdict in ("VIOLATION", "inconclusive") or c.expand_error:
        return "skip"
    if c.known - live - repaired:
        return "skip"      # neither the defective nor the repaired body: T1 reports that method
    real = c.real_direct
    if real.kind == "num":
        if "permutation-symbol-object" in c.known and "permutation-symbol-object" not in repaired:
            return "skip"      # the model over-approximates failure once a UFL object is in flight
        if isinstance(real.value, (int, Fr)) and not isinstance(real.value, bool):
            return Fr(real.value)
        if isinstance(c.expected.value, (int, Fr)):
            return Fr(c.expected.value)     # float result: agreement with this exact value was checked
        return "skip"
    return None


_ENUM = None


def enumeration():
    """Deterministic streams, run on every check."""
    global _ENUM
    if _ENUM is None:
        _ENUM = [H.tie_builder(n) for n in range(H.N_TIE)] + [H.scope_builder(n) for n in range(H.N_SCOPE)] + \
                [H.compound_builder(k, comp) for k, comp in H.compound_cases(100)] + \
                [H.eps_builder(n) for n in range(H.N_EPS)]
    return _ENUM


def pick_build(i):
    """Deterministic streams first (every run), then the seeded random streams."""
    en = enumeration()
    if i < len(en):
        return en[i]
    j = i - len(en)
    if j % 20 == 5:
        return H.shadow_builder
    if j % 10 in (2, 4, 7):
        return H.deriv_builder
    if j % 10 in (3, 8):
        return H.diff_builder
    return None


def main(run):
    rng = random.Random(run.seed * 7919 + 17)
    quick = run.tier == "quick"
    run.trusted.update([
        "Coq 8.16.1 kernel (coqc); vm_compute for the generated Examples, no native_compute",
        "py/ufl2coq.py serializer (node-for-node, fail-closed)",
        "py/C24_ast.py (ast translator of straight-line evaluate methods; normal forms of the others, fail closed)",
        "py/pyden.py as the executable mirror of den (value oracle of the differential run)",
        "Python numbers abstracted by the algebra carrier: int/Fraction exact; float results compared to 1e-9",
        "the mapping is assumed consistent with the environment (hypotheses H_mcall/H_mval/H_sc of the theorem)",
        "expand_derivatives (first step of _eval) is the subject of C03/C06; here its OUTPUT is what the model evaluates",
    ])

    # ---- hand-written files: obligations + assumptions
    bad = vlib.scan_forbidden([os.path.join(vlib.COQ, f) for f in HAND_FILES])
    if bad:
        run.violation({"broken": "forbidden vernacular in hand-written files", "where": bad}, False)
    for f in HAND_FILES:
        r = vlib.coqc(f)
        run.add_coq_result(r)
        if not r.ok:
            run.violation({"broken": f"hand-written file {f} does not compile", "error": r.err[-1500:]}, False)
            return run.finish("hand files broken")
    run.checker_cmds.append("coqc -Q coq UFLV coq/Props/C24_model.v coq/Props/C24_inst.v coq/Gen/C24_*.v")

    # ---- T1
    rules, customs, problems = C24_ast.extract()
    import C24_expected
    changed = []
    fixed_forms = []
    for name, nf in customs.items():
        if C24_expected.EXPECTED.get(name) != nf:
            if getattr(C24_expected, "FIXED", {}).get(name) == nf:
                fixed_forms.append(name)        # the repaired body of a known finding (fixes/C24-*.diff)
            else:
                changed.append(name)
    run.extra["methods_in_repaired_form"] = fixed_forms
    repaired = set()
    if "Conditional.evaluate" in fixed_forms:
        repaired.add("conditional-component")
    if "PermutationSymbol.evaluate" in fixed_forms:
        repaired.add("permutation-symbol-object")
    flags = ("true" if "conditional-component" in repaired else "false") + " " + \
            ("true" if "permutation-symbol-object" in repaired else "false")
    run.extra["model_flags_cfix_efix"] = flags
    # defective (pinned) body recognised -> flag False; repaired -> True; anything else -> T1 reports it
    body_flags = {}
    for fid, meth in (("conditional-component", "Conditional.evaluate"),
                      ("permutation-symbol-object", "PermutationSymbol.evaluate")):
        if meth in fixed_forms:
            body_flags[fid] = True
        elif customs.get(meth) == C24_expected.EXPECTED.get(meth):
            body_flags[fid] = False
    for name in C24_expected.EXPECTED:
        if name not in customs:
            changed.append(name)
    rules_path = os.path.join(vlib.GEN, "C24_rules.v")
    vlib.write_if_changed(rules_path, C24_ast.coq_rules_file(rules))
    rr = vlib.coqc(rules_path)
    run.add_coq_result(rr)
    t1_broken = []
    if not rr.ok:
        t1_broken.append({"obligation": rr.failing_lemma(), "coq": (rr.err or "")[-600:],
                          "generated_rules": [f"{c}: {r}" for _, c, r in rules]})
    for p in problems:
        t1_broken.append({"translator": p})
    for name in sorted(set(changed)):
        t1_broken.append({"method_changed": name, "now": customs.get(name, "<missing>")[:1500],
                          "model_written_against": C24_expected.EXPECTED.get(name, "<none>")[:1500]})
    run.extra["t1_methods_checked"] = len(customs) + len(rules)

    # ---- known findings
    live = replay_known(run)
    n_regressions = replay_closed(run, body_flags)
    run.extra["closed_finding_witnesses_failing"] = n_regressions

    # ---- T3 differential
    n_cases = len(enumeration()) + (600 if quick else 6000)
    n_max = max(n_cases, 4000) if t1_broken else n_cases    # broken tie: search harder for a failing input
    verdicts = collections.Counter()
    hist = collections.Counter()
    dhist = collections.Counter()
    shist = collections.Counter()
    n_deriv = 0
    coq_cases = []
    violations = []
    by_name = {}
    for i in range(n_max):
        if i >= n_cases and violations:
            break
        depth = rng.choice([1, 2, 2, 3, 3, 4])
        seed = rng.randrange(10**12)
        c = H.run_case(i, seed, depth, exact_only=(i % 3 == 0), allow_known=(i % 4 != 1), build=pick_build(i))
        verdict, text = classify(c, live)
        shist[(getattr(pick_build(i), "stream", None) or getattr(pick_build(i), "__name__", "generic")).split(":")[0]] += 1
        dk = H.differentiated_kinds(c.e)
        dhist.update(dk)
        if dk:
            n_deriv += 1
        verdicts[verdict] += 1
        for n in H.nodes(c.f):
            hist[type(n).__name__] += 1
        run.count_case((str(c.e), c.comp, [str(v) for v in c.x]), nontrivial=(verdict in ("ok", "known")
                       and len(H.nodes(c.f)) > 2))
        if verdict == "VIOLATION":
            if len(violations) < 5:
                violations.append((c, text))
            continue
        if i < 3:
            run.sample({"input": str(c.e)[:200], "component": list(c.comp), "real": repr(c.real_call),
                        "expected": repr(c.expected), "verdict": verdict})
        exp = coq_expected(c, verdict, live, repaired)
        if exp != "skip":
            name = f"c{i}"
            try:
                coq_cases.append((name, H.coq_case(name, c.f, c.comp, c.T, c.mp, c.log, c.x, exp, flags)))
                by_name[name] = (seed, depth, i)
            except Exception as ex:      # serializer is fail-closed
                run.extra.setdefault("not_serialised", collections.Counter())[type(ex).__name__ + ": " + str(ex)[:60]] += 1
    run.extra["verdicts"] = dict(verdicts)
    run.extra["node_histogram"] = dict(hist.most_common())
    run.extra["coq_cases"] = len(coq_cases)
    run.extra["cases_with_derivatives"] = n_deriv
    run.extra["differentiated_operator_histogram"] = dict(dhist.most_common())
    run.extra["streams"] = {"tie_enumeration": H.N_TIE, "scope_enumeration": H.N_SCOPE,
                            "compound_operator_enumeration (operator x shape x operand family x component)":
                                len(enumeration()) - H.N_TIE - H.N_SCOPE,
                            "random": n_cases - len(enumeration()),
                            "of which": "30% derivative stream, 20% diff() stream, 5% index re-use stream"}
    run.extra["stream_histogram"] = dict(shist)

    for c, text in violations:
        rep = H.describe(c)
        rep.update({"what": text, "reproduce": f"VERIF_SEED={run.seed} bin/check C24 --tier {run.tier}  "
                    f"(case {c.idx}; or evaluate the expression_repr with the given mapping on /repo)"})
        if t1_broken:
            rep["broken_tie"] = t1_broken[:6]
        run.violation(rep, True)

    # ---- Coq side of T3
    per = 250
    files = []
    for k in range(0, len(coq_cases), per):
        path = os.path.join(vlib.GEN, f"C24_cases_{k // per}.v")
        vlib.write_if_changed(path, H.COQ_HEADER + "".join(t for _, t in coq_cases[k:k + per]))
        files.append(path)
    for f in os.listdir(vlib.GEN):
        if f.startswith("C24_cases_") and f.endswith(".v") and os.path.join(vlib.GEN, f) not in files:
            os.remove(os.path.join(vlib.GEN, f))
    results = vlib.coqc_many(files, timeout=600)
    coq_bad = []
    for r in results:
        run.add_coq_result(r)
        if not r.ok:
            coq_bad.append((r.failing_lemma(), (r.err or "")[-400:], os.path.basename(r.path)))
    for lemma, err, fname in coq_bad:
        base = (lemma or "").replace("_wf", "")
        info = by_name.get(base)
        rep = {"broken": "model and implementation disagree on a generated case (correspondence T3)",
               "obligation": lemma, "file": fname, "coq_message": err}
        if info:
            c = H.run_case(info[2], info[0], info[1], exact_only=(info[2] % 3 == 0), allow_known=(info[2] % 4 != 1),
                           build=pick_build(info[2]))
            rep.update(H.describe(c))
        if not violations:
            run.violation(rep, False)
        else:
            run.extra.setdefault("coq_disagreements", []).append(rep.get("obligation"))

    if t1_broken and not violations:
        run.violation({"broken": "tie T1: evaluate methods no longer match the model", "details": t1_broken[:10],
                       "searched": f"{n_max} generated inputs, none violates the property"}, False)
    elif t1_broken:
        run.extra["t1_broken"] = t1_broken[:10]

    return run.finish(
        rule="one case = (closed expression, component, point, exact mapping) drawn from the seeded typed generator; "
             "distinct = distinct (expression text, component, point); non-trivial = evaluated to the "
             "mathematical value (or reproduced a known finding) and has more than 2 nodes",
        assumptions=["Section hypotheses of C24_eval_sound: Python primitives return the algebra's value when they "
                     "return; kpow extends natural powers; conditions are decided pointwise (bval); the mapping is "
                     "consistent with the environment (values have the terminal's shape, callables return the "
                     "iterated derivative, plain values are constants); all are discharged for the executable "
                     "rational instance except the mapping/environment consistency",
                     "totality is NOT proved: py_eval may be None (raise) -- refuted for vector-valued "
                     "conditionals and PermutationSymbol (known findings)"])
