"""C06 - Lowering compound tensor algebra preserves values.

Tie T2: the real `apply_algebra_lowering` is run on every compound operator at every operand
shape of the enumerated configuration set, on generic symbolic operands; the resulting DAG is
serialised node for node and Coq proves, for all operand values in every UFL algebra,
den(lowered) = den(compound node), where den of a compound node is its mathematical definition
(coq/Core/Den.v; Props/C06_spec.v proves those definitions are the mathematical ones)."""

import itertools

import ufl
from ufl.algorithms.apply_algebra_lowering import apply_algebra_lowering

import coqgen
import search
import uflgen
import vlib

HAND_FILES = ["Props/C06_spec.v"]


def operands(shape, fam, cell="triangle"):
    a = uflgen.coef(shape, cell)
    if fam == "T":
        return a
    if fam == "E":
        return a + uflgen.coef(shape, cell)
    raise ValueError(fam)


def configurations(tier):
    """(name, builder, operand shapes, hypothesis templates, cell)"""
    cfg = []
    sq = [(n, n) for n in (1, 2, 3, 4)]
    rect = [(2, 1), (3, 1), (3, 2), (4, 1), (4, 2)] + ([(4, 3)] if tier == "thorough" else [])
    for sh in [()] + sq:
        cfg.append(("det", ufl.det, [sh], []))
    cfg.append(("inv", ufl.inv, [()], ["DEN s rho {A0} [] <> z0"]))
    for sh in sq:
        cfg.append(("inv", ufl.inv, [sh], [f"DET {sh[0]} (MAT (DEN s rho {{A0}})) <> z0"]))
    for sh in sq[1:]:
        cfg.append(("cofac", ufl.cofac, [sh], []))
    for sh in sq[1:3]:
        cfg.append(("dev", ufl.dev, [sh], []))
    for sh in sq:
        cfg.append(("skew", ufl.skew, [sh], []))
        cfg.append(("sym", ufl.sym, [sh], []))
        cfg.append(("tr", ufl.tr, [sh], []))
    for sh in [(1, 1), (2, 2), (2, 3), (3, 2), (3, 3), (1, 4)]:
        cfg.append(("transpose", ufl.transpose, [sh], []))
    cfg.append(("perp", ufl.perp, [(2,)], []))
    cfg.append(("cross", ufl.cross, [(3,), (3,)], []))
    for sa, sb in [((2,), (2,)), ((3,), (3,)), ((2, 3), (3,)), ((3,), (3, 2)), ((2, 3), (3, 2)),
                   ((2, 2, 3), (3,)), ((2,), (2, 2, 2)), ((3, 3), (3, 3))]:
        cfg.append(("dot", ufl.dot, [sa, sb], []))
    for sh in [(), (2,), (3,), (2, 2), (2, 3), (3, 3), (2, 2, 2)]:
        cfg.append(("inner", ufl.inner, [sh, sh], []))
    for sa, sb in [((), ()), ((2,), ()), ((), (2,)), ((2,), (3,)), ((2, 2), (2,)), ((2,), (2, 2))]:
        cfg.append(("outer", ufl.outer, [sa, sb], []))
    return cfg


def diff_configurations():
    cfg = []
    for cell, g in (("interval", 1), ("triangle", 2), ("tetrahedron", 3)):
        for sh in [(g,), (2, g), (g, g)]:
            cfg.append(("div", ufl.div, [sh], cell))
            cfg.append(("nabla_div", ufl.nabla_div, [tuple(reversed(sh)) if len(sh) == 2 else sh], cell))
        for sh in [(), (2,), (2, 3)]:
            cfg.append(("nabla_grad", ufl.nabla_grad, [sh], cell))
    cfg.append(("curl", ufl.curl, [()], "triangle"))
    cfg.append(("curl", ufl.curl, [(2,)], "triangle"))
    cfg.append(("curl", ufl.curl, [(3,)], "tetrahedron"))
    return cfg


def build_cases(tier):
    cases = []
    for opname, op, shapes, hyps in configurations(tier):
        for fam in ("T", "E"):
            if fam == "E" and max((d for sh in shapes for d in sh), default=0) >= 4 \
                    and opname in ("det", "inv", "cofac"):
                continue    # 4x4 tables on sums: 32 variables, ring does not finish in minutes
            ops = [operands(sh, fam) for sh in shapes]
            e = op(*ops)
            low = apply_algebra_lowering(e)
            nm = f"{opname}_{'x'.join(''.join(map(str, s)) or 's' for s in shapes)}_{fam}"
            cases.append(coqgen.Case(nm, out=low, inp=e, hyps=hyps, named={"A0": ops[0]},
                                     note={"op": opname, "shapes": shapes, "operand": fam}))
    # pseudo-determinant / pseudo-inverse of rectangular matrices: reached through
    # determinant_expr / inverse_expr (geometry lowering, pullbacks), not through det()/inv()
    from ufl.compound_expressions import determinant_expr, inverse_expr
    rect = [(2, 1), (3, 1), (3, 2), (4, 1), (4, 2)] + ([(4, 3)] if tier == "thorough" else [])
    for (m, n) in rect:
        for fam in ("T", "E"):
            if fam == "E" and m >= 4:
                continue
            a = operands((m, n), fam)
            cases.append(coqgen.Case(
                f"pdet_{m}{n}_{fam}", out=determinant_expr(a),
                spec=f"fn FSqrt (DET {n} (GRAM {m} (MAT (DEN s rho pdet_{m}{n}_{fam}_A0))))",
                named={"A0": a}, note={"op": "pseudo-determinant", "shape": (m, n), "operand": fam}))
            # reference expressions for the failing-input search only (the obligation uses the Gallina spec)
            gram = ufl.dot(ufl.transpose(a), a)
            cases[-1].ref = ufl.sqrt(ufl.det(gram)) if n > 1 else ufl.sqrt(gram[0, 0])
            cases.append(coqgen.Case(
                f"pinv_{m}{n}_{fam}", out=inverse_expr(a),
                spec=f"DEN s rho (Inverse pinv_{m}{n}_{fam}_A0) {{c}}",
                hyps=[f"DET {n} (GRAM {m} (MAT (DEN s rho {{A0}}))) <> z0"],
                named={"A0": a}, note={"op": "pseudo-inverse", "shape": (m, n), "operand": fam}))
            cases[-1].ref = ufl.dot(ufl.inv(gram), ufl.transpose(a)) if n > 1 else ufl.transpose(a) / gram[0, 0]
    for opname, op, shapes, cell in diff_configurations():
        for fam in ("T", "E"):
            ops = [operands(sh, fam, cell) for sh in shapes]
            e = op(*ops)
            low = apply_algebra_lowering(e)
            nm = f"{opname}_{cell[:3]}_{'x'.join(''.join(map(str, s)) or 's' for s in shapes)}_{fam}"
            cases.append(coqgen.Case(nm, out=low, inp=e,
                                     note={"op": opname, "shapes": shapes, "operand": fam, "cell": cell}))
    return cases


def main(run):
    cases = build_cases(run.tier)
    for c in cases[:6]:
        run.sample({"case": c.name, "input": str(c.inp)[:200], "lowered": str(c.out)[:300]})
    failing = coqgen.emit_and_check(run, "C06", cases)
    spec = vlib.coqc("Props/C06_spec.v")
    run.add_coq_result(spec)
    for c in cases:
        run.count_case(c.name)
    seen = set()
    for case, lemma, msg in failing:
        if case is None:
            run.violation({"broken": "generated obligations file does not compile", "message": msg}, False)
            continue
        if case.name in seen:
            continue
        seen.add(case.name)
        ref = case.inp if case.inp is not None else getattr(case, "ref", None)
        w = None
        if ref is not None:
            try:
                w = search.value_mismatch(case.out, ref, trials=40 if run.tier == "quick" else 400,
                                          seed=run.seed, hyps_nonzero=[case.named.get("A0")] if case.hyps else [])
            except Exception as e:  # noqa: BLE001   the search is best effort; the broken obligation stands
                w = None
                run.extra.setdefault("search_errors", []).append(f"{case.name}: {type(e).__name__}: {e}"[:200])
        rep = {"broken_obligation": lemma, "case": case.name, "note": case.note, "coq_message": msg,
               "input_expr": str(case.inp), "lowered_expr": str(case.out)[:2000],
               "reproduce": "bin/check C06"}
        if w:
            rep["witness"] = w
        run.violation(rep, bool(w))
    run.trusted.update([
        "Coq 8.16.1 kernel (coqc); vm_compute used for normalisation, no native_compute",
        "py/ufl2coq.py serializer (node-for-node, fail-closed); float literals read as the small rational they round",
        "den of compound nodes in coq/Core/Den.v as the specification (Props/C06_spec.v proves adj/det is the inverse, n<=4)",
        "operands are generic symbols: coefficient tensors and sums of coefficient tensors",
    ])
    return run.finish(
        rule="one case per (operator, operand shapes, operand family T=coefficient/E=sum of coefficients); "
             "every component of the result is one obligation proved for all operand values; "
             "distinct = distinct case names",
        assumptions=["characteristic zero (of_pos p <> 0) for the 1/2, 1/3 literals of sym/skew/dev",
                     "inverse obligations assume det(A) <> 0 (Gram determinant for rectangular A)"])
