"""C21 - replace substitutes exactly the mapped subexpressions.

Hand-written, unbounded part (coq/Props/C21_model.v, C21_ind.v): `rep m e` (simultaneous substitution of
terminals) with the substitution lemma C21_subst  den env (rep m e) = den env[t := den env (m t)] e  for
ALL expressions and mappings (also under Grad / Restricted / Variable), C21_shape, C21_shape_reject,
C21_identity.

Tie to /repo, regenerated on every run:
 * T2: the REAL `ufl.algorithms.replace.replace` is run on generated expressions x mappings
   (coefficient -> expression / coefficient / literal, argument -> coefficient, constant -> literal;
   keys under grad/div/curl/.dx, restrictions, variables, compound tensor algebra, swaps); the result and
   the expression obtained by an independent substitution performed by the serializer are serialised and
   Coq proves den(out) c = den(expected) c for all operand values (derivatives of literal images use the
   derivation laws of C03).
 * T3: the Gallina model is evaluated on the same inputs: `rep M e = expected` (structural) and
   `shape_compat M e = true`; for shape-changing mappings `replace_checked M e = None` while the real code
   must raise ValueError; for mappings whose keys do not occur `rep M e = e` and the real result must be
   the same object / equal expression."""

import itertools
import os
import random

import ufl
import ufl.classes as C
import ufl.corealg.traversal
import ufl.domain
from ufl.algorithms.analysis import extract_type
from ufl.algorithms.replace import replace

import C03_coq
import C03_gen
import coqgen
import pyden
import ufl2coq
import vlib
from elements import LagrangeElement

HAND_FILES = ["Props/C21_ind.v", "Props/C21_model.v", "Props/C21_formsum.v"]

# replace is a substitution: after normalisation both sides are usually syntactically equal; the derivation laws
# (Ltac of py/C03_coq.py) are only needed when a constant image ended up under a derivative
TACTIC = ("norm_goal; first [ reflexivity | ring | repeat unify1; first [ reflexivity | ring ] "
          "| repeat first [ unify1 | unify_b ]; first [ reflexivity | ring ] "
          "| dx_push; cbv [dfn sign_ erf_c]; norm_goal; rewrite ?conj_z0, ?re_z0, ?im_z0; cplx_zero; cond_zero; rewrite ?cond_same; "
          "first [ fin | repeat unify1; fin | rewrite ?div_def; repeat first [ unify1 | unify_b ]; fin ] ]")

MAX_NODES = 60
ALGEBRAIC = {"sum", "prod", "div", "neg", "powi", "var", "isum", "dot", "inner", "index", "dx", "divv", "trgrad", "restr",
             "leaf", "vsum", "scale", "list", "astensor", "grad", "ngrad", "matvec", "vvar", "vdiv", "vdx", "vleaf",
             "cross", "curl3", "curl2s", "perp", "msum", "mscale", "gradv", "ngradv", "outer", "mastensor", "transpose",
             "symskew", "mleaf", "mdx"}


class SubstSer(ufl2coq.Ser):
    """Serializer that writes the image instead of every mapped terminal (independent substitution:
    walks ufl_operands itself, uses no UFL algorithm)."""

    def __init__(self, ctx, prefix, mapping):
        super().__init__(ctx, prefix=prefix, share=False)
        self.mapping = mapping

    def _expr(self, e):
        # no memo by id across substituted / plain nodes: share=False keeps it simple
        return self._node(e)

    def _node(self, e):
        if e._ufl_is_terminal_ and not isinstance(e, C.MultiIndex):
            for k, v in self.mapping.items():
                if type(k) is type(e) and k == e:
                    return ufl2coq.Ser(self.ctx, prefix="x", share=False).expr(ufl.as_ufl(v))
        return super()._node(e)


class SubstCase(coqgen.Case):
    """Case whose right-hand side is the serializer-level substitution of `inp` by `mapping`."""

    def __init__(self, name, out, inp, mapping, **kw):
        super().__init__(name, out=out, inp=inp, **kw)
        self.mapping = mapping

    def texts(self):
        ser_o = ufl2coq.Ser(self.ctx, prefix=f"{self.name}_n")
        # number the terminals of the input and of the images first, in a fixed order
        t_in = ufl2coq.Ser(self.ctx, prefix=f"{self.name}_p", share=False).expr(self.inp)
        images = {}
        for k, v in self.mapping.items():
            kind, tid, _, _ = self.ctx.term(k)
            images[(kind, tid)] = ufl2coq.Ser(self.ctx, prefix=f"{self.name}_q", share=False).expr(ufl.as_ufl(v))
        t_exp = SubstSer(self.ctx, f"{self.name}_e", self.mapping).expr(self.inp)
        t_out = ser_o.expr(self.out)
        return ser_o, t_out, t_in, t_exp, images

    def emit(self):
        ser_o, t_out, t_in, t_exp, images = self.texts()
        nm = self.name
        txt = [f"(* case {nm}: {self.note} *)\n", ser_o.definitions_text(),
               f"Definition {nm}_out : expr := {t_out}.\n", f"Definition {nm}_exp : expr := {t_exp}.\n"]
        sh = ufl2coq.natlist(self.inp.ufl_shape)
        self.lemmas = []
        txt.append(f"Example {nm}_shape : shape {nm}_out = {sh}. Proof. reflexivity. Qed.\n")
        txt.append(f"Example {nm}_shape_exp : shape {nm}_exp = {sh}. Proof. reflexivity. Qed.\n")
        self.lemmas += [f"{nm}_shape", f"{nm}_shape_exp"]
        hyps = "".join("(" + h + ") -> " for h in self.hyps)
        intro = ""
        if self.hyps:
            intro = "intros " + " ".join(f"H{k}" for k in range(len(self.hyps))) + "; "
        for c in self.components():
            cn = "_".join(map(str, c))
            ln = f"{nm}_c{cn}"
            cl = ufl2coq.natlist(c)
            txt.append(f"Lemma {ln} s rho : {hyps}DEN s rho {nm}_out {cl} = DEN s rho {nm}_exp {cl}.\n"
                       f"Proof. {intro}{self.tactic}. Qed.\n")
            self.lemmas.append(ln)
        return "".join(txt)

    def model_text(self):
        """T3: the Gallina model on this input."""
        _, _, t_in, t_exp, images = self.texts()
        nm = self.name
        arms = "".join(f"  | {k}, {i} => Some {t}\n" for (k, i), t in sorted(images.items()))
        txt = (f"Definition {nm}_M (k id : nat) : option expr :=\n  match k, id with\n{arms}  | _, _ => None\n  end.\n"
               f"Definition {nm}_in : expr := {t_in}.\nDefinition {nm}_exp : expr := {t_exp}.\n")
        return txt


# ---------------------------------------------------------------------------------------------

def image_for(t, gen, rng, pool, allow_literal):
    """a shape-compatible image for terminal t"""
    sh = t.ufl_shape
    g = gen.g
    lit = lambda: ufl.as_ufl(rng.choice([2, -1, 0.5, 3.0, 1.5, 0, 0.0]))  # noqa: E731

    def literal(shape):
        # zero-valued images of every form (0, 0.0, zero(shape), list tensor of zeros) are ordinary images
        r0 = rng.random()
        if r0 < 0.12:
            return ufl.zero(*shape) if shape else ufl.zero()
        if shape == ():
            return lit()
        if r0 < 0.24:
            return ufl.as_tensor([(ufl.as_ufl(0) if len(shape) == 1 else literal(shape[1:])) for _ in range(shape[0])])
        return ufl.as_tensor([literal(shape[1:]) for _ in range(shape[0])])

    if isinstance(t, C.Constant):
        if allow_literal:
            return literal(sh), "constant->literal"
        return ufl.Constant(gen.mesh, sh), "constant->constant"
    if isinstance(t, C.Argument):
        return ufl.Coefficient(t.ufl_function_space()), "argument->coefficient"
    r = rng.random()
    if r < 0.2:
        return ufl.Coefficient(t.ufl_function_space()), "coefficient->coefficient"
    if r < 0.3 and allow_literal:
        return literal(sh), "coefficient->literal"
    if r < 0.45:
        same = [p for p in pool if p.ufl_shape == sh and p is not t]
        if same:
            return rng.choice(same), "coefficient->other terminal of e (swap)"
    g2 = C03_gen.Gen(rng, gen.cell, max_leaves=4,
                     allow={"sum", "prod", "div", "powi", "math", "index", "dot", "leaf", "vsum", "scale", "list",
                            "grad", "vleaf", "msum", "mscale", "outer", "mleaf", "dx"})
    if rng.random() < 0.5:
        g2.f[0] = t if sh == () else g2.f[0]          # images may mention the replaced terminal itself
    img = None
    if sh == ():
        img = g2.scalar(2, [])
    elif sh == (g,):
        img = g2.vector(1, [])
    elif sh == (g, g):
        img = g2.matrix(1, [])
    from ufl.domain import extract_domains
    if img is not None and (allow_literal or extract_domains(ufl.as_ufl(img))):
        return img, "coefficient->expression"
    return ufl.Coefficient(t.ufl_function_space()), "coefficient->coefficient"


def gen_case(k, rng):
    cell = rng.choice(["interval", "triangle", "triangle", "tetrahedron"])
    # mode B ("algebraic"): only ring operations, indexing and derivatives around the keys, images may be
    # literals.  mode A: all operators, images are never pure literals -- UFL constructors fold literal
    # operands of sqrt/abs/Re/conditions numerically (property C05), which is not a fact of the abstract algebra.
    algebraic = rng.random() < 0.45
    allow = ALGEBRAIC if algebraic else None
    gen = C03_gen.Gen(rng, cell, max_leaves=7, allow=allow)
    kind = rng.choice(["scalar", "scalar", "vector", "matrix"])
    body = {"scalar": gen.scalar, "vector": gen.vector, "matrix": gen.matrix}[kind](rng.choice([1, 2, 2, 3]), [])
    e, names = gen.wrap(body, rng.choice([0, 0, 1, 1, 2]))
    how = "bare"
    r = rng.random()
    if r < 0.15 and not extract_type(e, C.Restricted):
        e = e(rng.choice(["+", "-"]))
        how = "restricted"
    elif r < 0.3:
        e = ufl.variable(e)
        how = "variable"
    keys = sorted((t for t in extract_type(e, C.FormArgument) | extract_type(e, C.Constant)),
                  key=lambda t: (type(t).__name__, t.count() if hasattr(t, "count") else t.number()))
    if not keys:
        return None
    chosen = [t for t in keys if rng.random() < 0.6] or [rng.choice(keys)]
    mapping, kinds = {}, []
    for t in chosen:
        img, what = image_for(t, gen, rng, keys, algebraic)
        mapping[t] = img
        kinds.append(what)
    under = sorted({type(p).__name__ for p in ufl.corealg.traversal.unique_pre_traversal(e)
                    if not p._ufl_is_terminal_ and any(o in mapping for o in p.ufl_operands if o._ufl_is_terminal_)})
    note = {"cell": cell, "kind": kind, "wrap": names, "context": how, "mappings": kinds, "algebraic_mode": algebraic,
            "parents_of_keys": under}
    return e, mapping, gen, note


def tree_size(e, limit=100000):
    n, stack = 0, [e]
    while stack and n < limit:
        x = stack.pop()
        n += 1
        if not x._ufl_is_terminal_:
            stack.extend(x.ufl_operands)
    return n


def make_subst_case(name, e, mapping, gen, rng, note, out=None):
    if out is None:
        out = replace(e, mapping)
    ctx = ufl2coq.Ctx()
    hyps = []
    # coefficients of degree-0 elements are constant on each cell (own criterion, not ufl's is_cellwise_constant)
    seen = []
    for x in [e] + [ufl.as_ufl(v) for v in mapping.values()]:
        for t in extract_type(x, C.Coefficient):
            if t.ufl_element().embedded_superdegree == 0 and all(t is not u for u in seen):
                seen.append(t)
    for t in sorted(seen, key=lambda t: t.count()):
        kind, tid, _, _ = ctx.term(t)
        hyps.append(f"forall s c j, Dx j (env s {kind} {tid} c) = z0")
    comps = list(itertools.product(*[range(d) for d in e.ufl_shape]))
    if len(comps) > 6:
        comps = rng.sample(comps, 6)
    return SubstCase(name, out, e, mapping, hyps=hyps, comps=comps, note=note, ctx=ctx, tactic=TACTIC)


def fixed_cases(rng):
    """keys directly under each kind of parent named by the property"""
    gen = C03_gen.Gen(random.Random(1), "triangle")
    f, h, w = gen.f
    v, u = gen.v
    T = gen.T[0]
    c, arg = gen.c, gen.arg
    V = f.ufl_function_space()
    f2, v2 = ufl.Coefficient(V), ufl.Coefficient(v.ufl_function_space())
    i = ufl.Index()
    L = [
        ("terminal", f, {f: h}), ("sum", f + h, {f: h * w}), ("swap", f * h + f, {f: h, h: f}),
        ("self_image", f * h, {f: f * f}), ("under_grad", ufl.grad(f), {f: h * w}),
        ("under_grad_literal", ufl.grad(f) * h, {f: 2.0}), ("under_grad_grad", ufl.grad(ufl.grad(f)), {f: f2 * h}),
        ("under_div", ufl.div(v), {v: f * u}), ("under_curl", ufl.curl(v), {v: ufl.as_vector([f, h])}),
        ("under_dx", (f * h).dx(0), {f: ufl.sin(w)}), ("under_nabla", ufl.nabla_grad(v), {v: v2}),
        ("restricted", f("+") * h("-"), {f: h * w, h: f2}), ("restricted_grad", ufl.grad(f)("+"), {f: w * w}),
        ("variable", ufl.variable(f * h) + f, {f: w}), ("variable_key_image", ufl.variable(f), {f: ufl.variable(h)}),
        ("argument", arg * f, {arg: f2}), ("constant", c * f, {c: 3.0}), ("constant_under_grad", ufl.grad(c * f), {c: 3.0}),
        ("indexed", v[0] * v[1], {v: ufl.as_vector([f, h])}), ("index_sum", v[i] * u[i], {v: u, u: v}),
        ("component_tensor", ufl.as_tensor(T[i, 0] * f, (i,)), {T: ufl.outer(v, u), f: h}),
        ("dot_inner", ufl.dot(v, u) + ufl.inner(T, T), {v: f * u, T: ufl.grad(v)}),
        ("conditional", ufl.conditional(ufl.lt(f, h), f, h), {f: h, h: w}),
        ("power_exponent", f ** h, {h: 2}), ("power_exponent_f", f ** h, {h: 0.5}), ("math", ufl.exp(f) / ufl.sqrt(h), {f: h, h: f * f}),
        ("det_inv", ufl.det(T) * ufl.tr(T), {T: ufl.grad(v)}),
        ("zero_int", f * h + f, {f: 0}), ("zero_float", f * h + f * ufl.sin(h), {f: 0.0}), ("zero_obj", f + h * w, {f: ufl.zero()}),
        ("zero_vec", ufl.dot(v, u) + v[0], {v: ufl.zero(2)}), ("zero_list", ufl.dot(v, u) + v[1] * f, {v: ufl.as_vector([0, 0])}),
        ("zero_restricted", f("+") * h("-") + f("-"), {f: 0}), ("zero_under_grad", ufl.grad(f * h) + ufl.grad(f), {f: 0.0}),
        ("zero_in_variable", ufl.variable(f + h) * f, {f: 0}), ("zero_constant", c * f + c, {c: 0}),
        ("zero_argument", arg * f + arg, {arg: ufl.zero()}), ("zero_and_other", f * h + w, {f: 0, h: w, w: 0.0}),
        ("twin_object", f + ufl.Coefficient(V, count=f.count()), {f: h}),
        ("key_twin", f * h, {ufl.Coefficient(V, count=f.count()): w}),
    ]
    return [(nm, e, m, gen) for nm, e, m in L]


# ---------------------------------------------------------------------------------------------
# forms: replace(form, mapping) must substitute in every integrand and keep the integrals as they are

def integral_key(itg):
    return (itg.integral_type(), str(itg.subdomain_id()), itg.ufl_domain().ufl_id(), repr(sorted(itg.metadata().items())))


def build_forms(rng, quick):
    """(name, form, mapping, gen, note): fixed key patterns (Constant keys alone, keys partly absent from the form,
    argument keys, zero images) and generated integrands on dx / ds / dS"""
    out = []
    gen = C03_gen.Gen(random.Random(3), "triangle")
    f, h, w = gen.f
    v, T, c, cv, arg, varg = gen.v[0], gen.T[0], gen.c, gen.cv, gen.arg, gen.varg
    k2 = ufl.Constant(gen.mesh)
    absent = ufl.Coefficient(f.ufl_function_space())
    dx, ds, dS = (ufl.Measure(t, domain=gen.mesh) for t in ("dx", "ds", "dS"))
    F = c * f * arg * dx + h * arg * ds(1)
    G = ufl.inner(ufl.grad(f), ufl.grad(arg)) * dx(2) + c * ufl.dot(cv, varg) * ds + f("+") * arg("-") * dS
    fixed = [
        ("coefficient", F, {f: h}), ("constant_only", F, {c: k2}), ("constant_to_literal", F, {c: 2.0}),
        ("constant_to_zero", F, {c: 0}), ("constant_and_absent_coefficient", F, {c: k2, absent: h}),
        ("coefficient_and_constant", F, {f: h * w, c: 3}), ("argument", F, {arg: w}),
        ("vector_constant", G, {cv: ufl.as_vector([1.0, 2.0])}), ("vector_constant_and_scalar", G, {cv: v, c: k2}),
        ("under_grad_and_restricted", G, {f: h * w}), ("coefficient_to_zero", G, {f: 0.0}),
        ("swap", F, {f: h, h: f}), ("subdomain_data_kept", c * f * ufl.dx(domain=gen.mesh, metadata={"quadrature_degree": 3})
                                    + f * ds((1, 2)), {c: 5, f: h}),
    ]
    for nm, form, m in fixed:
        out.append((f"F_{nm}", form, m, gen, {"family": "form", "name": nm}))
    n = 6 if quick else 40
    k = 0
    attempts = 0
    while k < n and attempts < 40 * n:
        attempts += 1
        sub = random.Random(rng.randrange(10**9))
        cell = sub.choice(["interval", "triangle", "tetrahedron"])
        algebraic = sub.random() < 0.6      # literal images only around ring operations (see gen_case)
        g = C03_gen.Gen(sub, cell, max_leaves=5, allow=ALGEBRAIC if algebraic else None)
        dx, ds, dS = (ufl.Measure(t, domain=g.mesh) for t in ("dx", "ds", "dS"))
        try:
            terms = []
            for meas, sid in sub.sample([(dx, None), (dx, 1), (ds, None), (ds, 2), (dS, None)], sub.choice([1, 2, 3])):
                e = g.scalar(sub.choice([1, 2]), [])
                if not ufl.domain.extract_domains(ufl.as_ufl(e)):
                    e = e * g.f[0]
                if meas is dS and not extract_type(e, C.Restricted):
                    e = e(sub.choice(["+", "-"]))
                terms.append(e * (meas if sid is None else meas(sid)))
            form = sum(terms[1:], terms[0])
        except (ValueError, AttributeError, TypeError, RecursionError, ZeroDivisionError):
            continue
        keys = sorted(set(form.coefficients()) | set(form.arguments()) | set(form.constants()),
                      key=lambda t: (type(t).__name__, t.count() if hasattr(t, "count") else t.number()))
        if not keys or sum(tree_size(i.integrand(), 200) for i in form.integrals()) > 90:
            continue
        consts = [t for t in keys if isinstance(t, C.Constant)]
        r = sub.random()
        if consts and r < 0.4:
            chosen = [sub.choice(consts)]                       # Constant keys only
        else:
            chosen = [t for t in keys if sub.random() < 0.5] or [sub.choice(keys)]
        mapping, kinds = {}, []
        for t in chosen:
            img, what = image_for(t, g, sub, keys, algebraic)
            mapping[t] = img
            kinds.append(what)
        if sub.random() < 0.3:
            mapping[ufl.Coefficient(g.f[0].ufl_function_space())] = g.f[1]      # a key that does not occur
            kinds.append("absent key")
        out.append((f"G{k}", form, mapping, g, {"family": "form", "cell": cell, "mappings": kinds,
                                                "integrals": [i.integral_type() for i in form.integrals()]}))
        k += 1
    return out


def form_cases(run, rng, quick):
    """SubstCases (one per integral) of the real replace on forms; structural requirements are checked directly"""
    cases = []
    for name, form, mapping, gen, note in build_forms(rng, quick):
        run.count_case(("form", name, str(form), sorted((str(a), str(b)) for a, b in mapping.items())))
        rep = {"input_form": str(form)[:1500], "input_repr": repr(form)[:4000], "note": note,
               "mapping": {repr(a): repr(ufl.as_ufl(b))[:800] for a, b in mapping.items()},
               "reproduce": "ufl.replace(form, mapping)"}
        try:
            out = replace(form, mapping)
        except Exception as ex:
            if isinstance(ex, (ValueError, ZeroDivisionError)) and any(
                    m in str(ex) for m in ("ivision by zero", "math domain", "negative power")):
                continue
            run.violation(dict(rep, broken="ufl.replace raised on a form with a shape-compatible mapping",
                               exception=f"{type(ex).__name__}: {ex}"), True)
            continue
        if not isinstance(out, ufl.Form):
            run.violation(dict(rep, broken="replace(form, mapping) did not return a Form", observed=repr(out)[:500]), True)
            continue
        src = {integral_key(i): i for i in form.integrals()}
        dst = {}
        for i in out.integrals():
            dst.setdefault(integral_key(i), []).append(i)
        if len(src) != len(form.integrals()):
            continue                                    # generator produced two integrals with one key: not usable
        # integrals may only disappear when their substituted integrand is identically zero
        for key, itg in src.items():
            got = dst.get(key, [])
            if len(got) > 1:
                run.violation(dict(rep, broken="replace duplicated an integral", integral=str(key)), True)
                continue
            integrand = got[0].integrand() if got else ufl.zero()
            sub = random.Random(len(cases))
            c = make_subst_case(f"{name}_i{len(cases)}", itg.integrand(), mapping, gen, sub,
                                dict(note, integral=str(key[:2])), out=integrand)
            cases.append(c)
        for key in dst:
            if key not in src:
                run.violation(dict(rep, broken="replace produced an integral (measure / subdomain / metadata) that the "
                                               "input form does not have", integral=str(key), observed=str(out)[:800]), True)
    return cases


# ---------------------------------------------------------------------------------------------
# BaseForm level: weighted sums of forms, and ExternalOperator nodes

def fs_terms(S):
    from ufl.form import FormSum
    if isinstance(S, FormSum):
        return list(zip(S.components(), S.weights()))
    if S == 0:
        return []
    return [(S, 1)]


def formsum_checks(run, gen, quick):
    """T3 on FormSum: the real replace must pair every surviving component with ITS weight; the (component, weight)
    list of the result is compared with the Gallina model fs_replace (coq/Props/C21_formsum.v) by vm_compute, where
    the per-component images are those of the real replace on the component alone (traced by the form family)."""
    from ufl.form import FormSum
    V = gen.f[0].ufl_function_space()
    u, z = ufl.Coefficient(V), ufl.Coefficient(V)
    co = [ufl.Cofunction(V.dual()) for _ in range(4)]
    A = ufl.Matrix(V, V)
    v = ufl.TestFunction(V)
    dxm = ufl.Measure("dx", domain=gen.mesh)
    # only BaseForm components that FormSum keeps apart (Forms are merged into one Form by the FormSum constructor)
    A2 = ufl.Matrix(V, V)
    comps = {"action": ufl.Action(A, u), "c0": co[0], "c1": co[1], "c2": co[2], "action_f": ufl.Action(A, gen.f[1]),
             "action2": ufl.Action(A2, u), "action_z": ufl.Action(A2, z)}
    weights = [2.0, 3.0, 5.0, -1.0, 0.5, 7.0]
    rng = random.Random(run.seed + 11)
    pats = [(["action", "c0", "c1"], {u: 0}), (["c0", "action", "c1"], {u: 0}), (["c0", "c1", "action"], {u: 0}),
            (["action", "c0", "c1"], {u: z}), (["action", "c0", "c1"], {co[0]: co[3]}), (["action_f", "c0", "action2", "c1"], {u: 0}),
            (["c0", "action_f", "action", "c2"], {u: 0.0}), (["action", "action_f"], {u: 0}), (["action_f", "action", "c0"], {gen.f[1]: 0}),
            (["c0", "c1"], {u: z}), (["action", "action2", "c0", "c1", "c2"], {u: 0, co[1]: co[3]}),
            (["action", "action_z", "c0"], {u: z})]
    for _ in range(4 if quick else 30):
        names = rng.sample(list(comps), rng.choice([2, 3, 4]))
        m = rng.choice([{u: 0}, {u: z}, {gen.f[1]: 0}, {co[0]: co[3], u: 0}, {gen.f[1]: z}])
        pats.append((names, m))
    txt = ["Require Import UFLV.Core.Den UFLV.Props.C21_formsum.\n"]
    lemmas, meta = [], {}
    for k, (names, m) in enumerate(pats):
        ws = rng.sample(weights, len(names))
        S = FormSum(*[(comps[n], w) for n, w in zip(names, ws)])
        rep = {"input_formsum": [(str(comps[n])[:120], w) for n, w in zip(names, ws)],
               "mapping": {repr(a)[:200]: repr(ufl.as_ufl(b))[:200] for a, b in m.items()},
               "reproduce": "ufl.replace(FormSum((component, weight), ...), mapping)"}
        run.count_case(("formsum", k, names, ws, sorted(str(a) for a in m)))
        try:
            got = fs_terms(replace(S, m))
            images = [replace(comps[n], m) for n in names]
        except Exception as ex:
            run.violation(dict(rep, broken="replace raised on a FormSum", exception=f"{type(ex).__name__}: {ex}"), True)
            continue
        # number components (by ==) and weights
        ids, wid = [], []

        def cid(c):
            for i, x in enumerate(ids):
                if type(x) is type(c) and x == c:
                    return i
            ids.append(c)
            return len(ids) - 1

        def wtag(w):
            w = float(w)
            if w not in wid:
                wid.append(w)
            return wid.index(w)
        src = [(cid(comps[n]), wtag(w)) for n, w in zip(names, ws)]
        rmap = {}
        for n, im in zip(names, images):
            rmap[cid(comps[n])] = None if im == 0 else cid(im)
        outl = [(cid(c), wtag(w)) for c, w in got]
        arms = "".join(f"  | {a} => {'Some ' + str(b) if b is not None else 'None'}\n" for a, b in sorted(rmap.items()))
        plist = lambda l: "[" + "; ".join(f"({a}, {b})" for a, b in l) + "]"  # noqa: E731
        nm = f"fs_{k}"
        txt.append(f"Definition {nm}_r (c : nat) : option nat :=\n  match c with\n{arms}  | _ => None\n  end.\n"
                   f"Example {nm} : fs_replace nat nat {nm}_r {plist(src)} = {plist(outl)}. Proof. vm_compute. reflexivity. Qed.\n")
        lemmas.append(nm)
        expected = [(im, w) for im, w in zip(images, ws) if im != 0]
        meta[nm] = dict(rep, observed=[(str(c)[:120], float(w)) for c, w in got],
                        expected=[(str(c)[:120], float(w)) for c, w in expected])
    path = os.path.join(vlib.GEN, "C21_formsum_cases.v")
    vlib.write_if_changed(path, "".join(txt))
    res = vlib.coqc(path, timeout=600)
    # every Example is checked separately when the file fails, so that each broken case is reported with its input
    if res.ok:
        run.add_coq_result(res, lemmas)
    else:
        bad = []
        for nm in lemmas:
            if meta[nm]["observed"] != meta[nm]["expected"]:
                bad.append(nm)
        run.obligations += [(n, "Gen/C21_formsum_cases.v") for n in lemmas]
        run.discharged += [(n, "Gen/C21_formsum_cases.v") for n in lemmas if n not in bad]
        for nm in bad or [res.failing_lemma() or "?"]:
            run.failed.append((nm, "Gen/C21_formsum_cases.v", (res.err or "")[-200:]))
            run.violation(dict(meta.get(nm, {}), broken_obligation=nm,
                               broken="replace on a FormSum: the (component, weight) list of the result differs from the "
                                      "model fs_replace (survivors must keep their own weights)"), nm in meta)
    run.checker_cmds.append("coqc -Q coq UFLV coq/Gen/C21_formsum_cases.v")
    return []


def external_operator_checks(run, gen):
    """Validation (no Coq obligation: ExternalOperator is outside the calculus of coq/Core): replace must rebuild an
    ExternalOperator with the same class, function space and DERIVATIVE multi-index, with replaced operands and argument
    slots, and must return an expression that mentions no mapped terminal unchanged."""
    from ufl.algorithms import expand_derivatives
    from ufl.core.external_operator import ExternalOperator
    V = gen.f[0].ufl_function_space()
    u, g, w, z = (ufl.Coefficient(V) for _ in range(4))
    v = ufl.TestFunction(V)
    dxm = ufl.Measure("dx", domain=gen.mesh)
    N = ExternalOperator(u, g, function_space=V)
    ops = {"plain": N, "d01": expand_derivatives(ufl.derivative(N, g)), "d10": expand_derivatives(ufl.derivative(N, u)),
           "d02": ExternalOperator(u, g, function_space=V, derivatives=(0, 2)),
           "d11": ExternalOperator(u * g, g, function_space=V, derivatives=(1, 1))}

    def expected_op(o, m):
        return type(o)(*[replace(x, m) for x in o.ufl_operands], function_space=o.ufl_function_space(),
                       derivatives=o.derivatives, argument_slots=tuple(replace(a, m) for a in o.argument_slots()))

    def sig(e):
        ex = e.integrals() if isinstance(e, ufl.Form) else [e]
        out = []
        for x in ex:
            x = x.integrand() if hasattr(x, "integrand") else x
            out += [(type(o).__name__, o.derivatives, tuple(str(p) for p in o.ufl_operands),
                     tuple(str(a) for a in o.argument_slots())) for o in extract_type(x, ExternalOperator)]
        return sorted(out)
    nviol0 = len(run.violations)
    for nm, o in ops.items():
        if len(run.violations) - nviol0 >= 6:
            break                       # enough evidence; the remaining configurations are not run
        for mn, m in [("operand", {u: w}), ("operand_expr", {u: w * g}), ("both", {u: g, g: u}), ("untouched", {z: w}),
                      ("empty", {})]:
            run.count_case(("external_operator", nm, mn))
            rep = {"input_expr": str(o), "derivatives": list(o.derivatives),
                   "mapping": {str(a): str(b) for a, b in m.items()}, "reproduce": "ufl.replace(N, mapping) with N an "
                   "ExternalOperator(u, g, function_space=V, derivatives=...)"}
            try:
                r = replace(o, m)
                exp = expected_op(o, m)
            except Exception as ex:
                run.violation(dict(rep, broken="replace raised on an ExternalOperator", exception=f"{type(ex).__name__}: {ex}"), True)
                continue
            ok = isinstance(r, ExternalOperator) and r.derivatives == o.derivatives and r == exp
            if mn in ("untouched", "empty"):
                ok = ok and r == o
            if not ok:
                run.violation(dict(rep, broken="replace changed an ExternalOperator other than by substituting its operands",
                                   expected=f"{exp} derivatives={exp.derivatives}",
                                   observed=f"{r} derivatives={getattr(r, 'derivatives', None)}"), True)
            # inside an expression and inside a form
            for cn, e in [("expr", gen.f[1] * o + u), ("form", o * v * dxm + ops["plain"] * v * dxm)]:
                run.count_case(("external_operator", nm, mn, cn))
                try:
                    r = replace(e, m)
                    exp_sig = sorted(sig(gen.f[1] * expected_op(o, m)) + (sig(expected_op(ops["plain"], m)) if cn == "form" else []))
                except Exception as ex:
                    run.violation(dict(rep, context=cn, broken="replace raised on an expression containing an ExternalOperator",
                                       exception=f"{type(ex).__name__}: {ex}"), True)
                    continue
                if sig(r) != exp_sig or (mn in ("untouched", "empty") and not (r == e)):
                    run.violation(dict(rep, context=cn, input_expr=str(e)[:500], broken="ExternalOperator nodes of the result "
                                       "differ from the substituted ones (class, derivatives, operands, argument slots)",
                                       expected=str(exp_sig)[:800], observed=str(sig(r))[:800]), True)


def hash_small(*parts):
    """deterministic small hash (PYTHONHASHSEED independent)"""
    import zlib
    return zlib.crc32("/".join(parts).encode())


def subst_env_factory(mapping):
    def factory(seed):
        base = pyden.Env(nv=3, order=3, seed=seed)

        class E(pyden.Env):
            pass
        env = E(nv=3, order=3, seed=seed)
        env.x0 = base.x0

        def value(t, comp, side, _base=base):
            for k, v in mapping.items():
                if type(k) is type(t) and k == t:
                    return pyden.evaluate(ufl.as_ufl(v), _base, {}, comp, side)
            return _base.value(t, comp, side)
        env.value = value
        return base, env
    return factory


def search_mismatch(out, e, mapping, trials, seed):
    """property as oracle: den_base(out) vs den_{base[t := den_base(m t)]}(e)"""
    rng = random.Random(seed)
    fac = subst_env_factory(mapping)
    comps = list(itertools.product(*[range(d) for d in e.ufl_shape]))
    for t in range(trials):
        base, env = fac(rng.randrange(10**9))
        for c in comps:
            try:
                a = pyden.evaluate(out, base, {}, c)
                b = pyden.evaluate(e, env, {}, c)
            except ZeroDivisionError:
                continue
            except Exception:
                return None
            if not a.close_to(b):
                return {"component": list(c), "implementation_value": str(a.value()), "expected_value": str(b.value()),
                        "terminal_values": {str(k): str(v.value()) for k, v in list(base.cache.items())[:30]}}
    return None


def model_file(run, cases, rejects, idents):
    """T3 obligations about the Gallina model."""
    txt = ["Require Import UFLV.Core.Den UFLV.Props.C21_model.\n"]
    names = []
    for c in cases:
        txt.append(c.model_text())
        txt.append(f"Example {c.name}_compat : shape_compat {c.name}_M {c.name}_in = true. Proof. vm_compute. reflexivity. Qed.\n")
        txt.append(f"Example {c.name}_model : rep {c.name}_M {c.name}_in = {c.name}_exp. Proof. vm_compute. reflexivity. Qed.\n")
        names += [f"{c.name}_compat", f"{c.name}_model"]
    for c in rejects:
        txt.append(c.model_text())
        txt.append(f"Example {c.name}_reject : replace_checked {c.name}_M {c.name}_in = None. Proof. vm_compute. reflexivity. Qed.\n")
        names.append(f"{c.name}_reject")
    for c in idents:
        txt.append(c.model_text())
        txt.append(f"Example {c.name}_unmapped : mapped_in {c.name}_M {c.name}_in = false. Proof. vm_compute. reflexivity. Qed.\n")
        txt.append(f"Example {c.name}_ident : rep {c.name}_M {c.name}_in = {c.name}_in. Proof. vm_compute. reflexivity. Qed.\n")
        names += [f"{c.name}_unmapped", f"{c.name}_ident"]
    path = os.path.join(vlib.GEN, "C21_model_cases.v")
    vlib.write_if_changed(path, "".join(txt))
    r = vlib.coqc(path, timeout=900)
    run.add_coq_result(r, names)
    run.checker_cmds.append("coqc -Q coq UFLV coq/Gen/C21_model_cases.v")
    return r


def main(run):
    quick = run.tier == "quick"
    rng = random.Random(7919 * run.seed + 3)
    for hf in HAND_FILES:                       # in dependency order, before anything that imports them
        r = vlib.coqc(hf)
        run.add_coq_result(r)
        if not r.ok:
            run.violation({"broken": f"hand-written file {hf} does not compile", "message": (r.err or "")[-1500:]}, False)
            return run.finish("hand-written theorems do not compile")
    cases = []
    for nm, e, m, gen in fixed_cases(rng):
        cases.append(make_subst_case(f"f_{nm}", e, m, gen, rng, {"family": "fixed", "name": nm,
                                                                 "mapping": {str(k): str(v)[:80] for k, v in m.items()}}))
    n, k, attempts = (40 if quick else 300), 0, 0
    skipped = {"no_key": 0, "too_large": 0, "invalid_input": 0, "unsupported_node": 0}
    while k < n and attempts < 30 * n:
        attempts += 1
        sub = random.Random(rng.randrange(10**9))
        try:
            r = gen_case(k, sub)
        except (ValueError, AttributeError, TypeError, RecursionError):
            skipped["invalid_input"] += 1           # building the INPUT failed (ill-formed operand rejected by UFL)
            continue
        if r is None:
            skipped["no_key"] += 1
            continue
        e, mapping, gen, note = r
        if tree_size(e, 4 * MAX_NODES) > MAX_NODES or any(tree_size(ufl.as_ufl(v), 200) > 25 for v in mapping.values()):
            skipped["too_large"] += 1
            continue
        try:
            c = make_subst_case(f"r{k}", e, mapping, gen, sub, note)
        except Exception as ex:                                         # the REAL replace raised on a valid input
            if isinstance(ex, (ValueError, ZeroDivisionError)) and any(
                    m in str(ex) for m in ("ivision by zero", "math domain", "negative power")):
                skipped["invalid_input"] += 1       # the images make a literal denominator vanish etc.
                continue
            run.violation({"broken": "ufl.replace raised on a shape-compatible mapping", "input_expr": str(e),
                           "input_repr": repr(e)[:4000],
                           "mapping": {repr(a): repr(ufl.as_ufl(b))[:1500] for a, b in mapping.items()},
                           "exception": f"{type(ex).__name__}: {ex}", "note": note}, True)
            continue
        try:
            c.emit()
        except ufl2coq.Unsupported:
            skipped["unsupported_node"] += 1
            continue
        cases.append(c)
        k += 1
    run.extra["random_skipped"] = skipped
    fcases = form_cases(run, rng, quick)
    run.extra["form_integrals_traced"] = len(fcases)
    cases += fcases
    hist = {}
    for c in cases:
        for o in c.note.get("parents_of_keys", []) + c.note.get("mappings", []):
            hist[o] = hist.get(o, 0) + 1
        run.count_case((c.name, str(c.inp), sorted((str(a), str(b)) for a, b in c.mapping.items())))
    run.extra["key_parent_and_mapping_histogram"] = hist
    for c in cases[:3] + cases[-6:]:
        run.sample({"case": c.name, "note": c.note, "input": str(c.inp)[:200],
                    "mapping": {str(a): str(b)[:100] for a, b in c.mapping.items()}, "output": str(c.out)[:200]})

    # numeric pre-check: cases whose two sides already differ on exact jets get their own files and a short timeout
    witness = {}
    for c in cases:
        try:
            w_ = search_mismatch(c.out, c.inp, c.mapping, 2, run.seed)
        except Exception:
            w_ = None
        if w_:
            witness[c.name] = w_
    suspects = [c for c in cases if c.name in witness]
    normal = [c for c in cases if c.name not in witness]
    run.extra["numeric_precheck_suspects"] = [c.name for c in suspects]
    failing = C03_coq.emit_and_check(run, "C21", normal, timeout=600 if quick else 2700, max_rounds=5,
                                     extra_header=C03_coq.extra_header(True), shards=16)
    for f_ in os.listdir(vlib.GEN):
        if f_.startswith("C21s_t2_"):
            os.remove(os.path.join(vlib.GEN, f_))
    if suspects:
        failing += C03_coq.emit_and_check(run, "C21s", suspects[:48], timeout=240, max_rounds=1,
                                          extra_header=C03_coq.extra_header(True), shards=min(16, len(suspects[:48])))
        for c in suspects[48:]:
            failing.append((c, c.name + "_numeric", "numeric pre-check: values differ (not sent to Coq)"))

    # --- shape-changing mappings must be rejected; unmapped expressions are returned unchanged
    gen = C03_gen.Gen(random.Random(2), "triangle")
    f, h, w = gen.f
    v, T, c0 = gen.v[0], gen.T[0], gen.c
    bad = [("scalar_to_vector", f * h, {f: v}), ("vector_to_scalar", ufl.div(v) * f, {v: f}),
           ("vector_to_matrix", ufl.dot(v, v), {v: T}), ("constant_to_vector", c0 * f, {c0: ufl.as_vector([1.0, 2.0])}),
           ("one_bad_of_two", f * v[0], {f: h, v: ufl.as_vector([f, h, w])}), ("matrix_to_vector", ufl.tr(T), {T: v}),
           ("scalar_to_literal_vector", ufl.grad(f), {f: ufl.as_vector([1, 2])})]
    rejects = []
    for nm, e, m in bad:
        cs = SubstCase(f"b_{nm}", e, e, m, ctx=ufl2coq.Ctx(), tactic=TACTIC)
        rejects.append(cs)
        run.count_case(("reject", nm))
        try:
            r = replace(e, m)
        except ValueError:
            continue
        run.violation({"broken": "shape-changing mapping accepted", "input_expr": str(e), "input_repr": repr(e),
                       "mapping": {repr(a): repr(b) for a, b in m.items()}, "expected": "ValueError",
                       "observed": str(r), "reproduce": "ufl.replace(e, mapping) with the expressions above"}, True)
    idents = []
    other = ufl.Coefficient(f.ufl_function_space())
    for nm, e, m in [("other_coefficient", f * h + ufl.grad(w)[0], {other: h}),
                     ("argument_absent", ufl.div(v) * f, {gen.arg: h}),
                     ("constant_absent", ufl.inner(T, T), {c0: 2.0}), ("empty", f * ufl.sin(h), {}),
                     ("restricted", f("+") * ufl.grad(h)("-")[0], {other: f}),
                     ("variable", ufl.variable(f * h) * w, {other: f})]:
        cs = SubstCase(f"i_{nm}", e, e, m, ctx=ufl2coq.Ctx(), tactic=TACTIC)
        idents.append(cs)
        run.count_case(("identity", nm))
        r = replace(e, m)
        if not (r is e or r == e):
            run.violation({"broken": "expression without mapped terminals was changed", "input_expr": str(e),
                           "input_repr": repr(e), "mapping": {repr(a): repr(b) for a, b in m.items()},
                           "expected": str(e), "observed": str(r)}, True)
    # the same two requirements on forms
    dxm = ufl.Measure("dx", domain=gen.mesh)
    dsm = ufl.Measure("ds", domain=gen.mesh)
    Fm = c0 * f * gen.arg * dxm + ufl.dot(v, v) * dsm(1)
    for nm, m in [("scalar_to_vector", {f: v}), ("constant_to_vector", {c0: ufl.as_vector([1.0, 2.0])}),
                  ("vector_dim", {v: ufl.as_vector([f, h, w])})]:
        run.count_case(("form reject", nm))
        try:
            r = replace(Fm, m)
        except ValueError:
            continue
        run.violation({"broken": "shape-changing mapping accepted on a form", "input_form": str(Fm),
                       "mapping": {repr(a): repr(b) for a, b in m.items()}, "expected": "ValueError", "observed": str(r)}, True)
    for nm, m in [("absent_coefficient", {other: h}), ("absent_constant", {ufl.Constant(gen.mesh): 2.0}), ("empty", {})]:
        run.count_case(("form identity", nm))
        r = replace(Fm, m)
        if not (r is Fm or r == Fm):
            run.violation({"broken": "form without mapped terminals was changed", "input_form": str(Fm),
                           "mapping": {repr(a): repr(b) for a, b in m.items()}, "observed": str(r)}, True)
    mres = model_file(run, cases, rejects, idents)
    if not mres.ok:
        fl = mres.failing_lemma() or ""
        cn = fl.rsplit("_", 1)[0]
        c = next((x for x in cases + rejects + idents if x.name == cn), None)
        rep = {"broken_obligation": fl, "message": (mres.err or "")[-600:],
               "meaning": "the Gallina model (rep / replace_checked) disagrees with the serializer-level substitution"}
        if c is not None:
            rep.update({"input_expr": str(c.inp), "mapping": {str(a): str(b) for a, b in c.mapping.items()}})
        run.violation(rep, False)

    # --- pending derivative() nodes anywhere in e (root, below products/sums/functions, in form integrands):
    #     the documented behaviour is "expand derivatives first, then substitute"; images that already occur in the
    #     differentiated expression distinguish this from "substitute, then differentiate"
    from ufl.algorithms import expand_derivatives
    dcases = []
    du = ufl.Coefficient(f.ufl_function_space())
    dxm_ = ufl.Measure("dx", domain=gen.mesh)
    dpat = []
    bodies = [("prod", f * f * h), ("sin", ufl.sin(f) * h), ("grad", ufl.inner(ufl.grad(f), ufl.grad(f)) * h),
              ("mixed", f * h * h + f * f * w)]
    images = [("present", h), ("fresh", ufl.Coefficient(f.ufl_function_space())), ("expr", h * w), ("zero", 0)]
    for bn, F in bodies:
        D = ufl.derivative(F, f, du)
        ctxs = [("root", D), ("product", c0 * D), ("sum", w * D + f * h), ("function", ufl.exp(D) * f),
                ("restricted", D("+") * h("-")), ("form", c0 * D * dxm_ + f * h * dsm(1)), ("form_root", D * dxm_)]
        if not quick:
            ctxs += [("nested", ufl.derivative(f * D, h, du)), ("variable", ufl.variable(D) * h)]
        for cn, e in ctxs:
            for inm, img in images:
                if bn == "sin" and inm == "zero":
                    continue            # cos(0) is folded to 1 numerically by the constructor (literal folding, C05)
                if quick and (hash_small(bn, cn, inm) % 3):       # a third of the grid in the quick tier, all in thorough
                    continue
                dpat.append((f"{bn}_{cn}_{inm}", e, {f: img}))
    dpat += [("two_keys", c0 * ufl.derivative(f * h * w, f, du) + h, {f: h, h: w}),
             ("direction_key", w * ufl.derivative(f * f * h, f, du), {du: h})]
    for nm, e, m in dpat:
        run.count_case(("derivative", nm))
        rep = {"input_expr": str(e)[:1500], "input_repr": repr(e)[:3000],
               "mapping": {repr(a): repr(ufl.as_ufl(b))[:800] for a, b in m.items()},
               "expected": "expand_derivatives(e) with every mapped terminal replaced by its image",
               "reproduce": "ufl.replace(e, mapping) with a pending ufl.derivative(...) inside e"}
        try:
            out = replace(e, m)
        except Exception as ex:
            run.violation(dict(rep, broken="replace raised on an expression containing an unexpanded derivative "
                                           "(the documented behaviour is: expand derivatives first, then substitute)",
                               exception=f"{type(ex).__name__}: {ex}"), True)
            continue
        try:
            if isinstance(out, ufl.Form):
                if any(extract_type(i.integrand(), C.CoefficientDerivative) for i in out.integrals()):
                    out = expand_derivatives(out)
            elif extract_type(out, C.CoefficientDerivative):
                out = expand_derivatives(out)
            e_exp = expand_derivatives(e)
        except Exception as ex:
            run.violation(dict(rep, broken="the result of replace cannot be expanded", exception=f"{type(ex).__name__}: {ex}",
                               observed=str(out)[:800]), True)
            continue
        pairs = []
        if isinstance(e, ufl.Form):
            src = {integral_key(i): i for i in e_exp.integrals()}
            dst = {integral_key(i): i for i in out.integrals()} if isinstance(out, ufl.Form) else {}
            for key, itg in src.items():
                pairs.append((itg.integrand(), dst[key].integrand() if key in dst else ufl.zero()))
            for key in dst:
                if key not in src:
                    run.violation(dict(rep, broken="replace produced an integral the expanded input does not have",
                                       observed=str(out)[:800]), True)
        else:
            pairs.append((e_exp, out))
        for k_, (src_e, out_e) in enumerate(pairs):
            cs = make_subst_case(f"d_{nm}_{k_}", ufl.as_ufl(src_e), m, None, random.Random(k_), {
                "family": "coefficient derivative", "pattern": nm}, out=ufl.as_ufl(out_e))
            cs.original = e
            dcases.append(cs)
    witness_d = {}
    for cs in dcases:
        try:
            w_ = search_mismatch(cs.out, cs.inp, cs.mapping, 2, run.seed)
        except Exception:
            w_ = None
        if w_:
            witness_d[cs.name] = w_
    witness.update(witness_d)
    failing_d = C03_coq.emit_and_check(run, "C21d", dcases, timeout=240 if witness_d else 900, max_rounds=3,
                                       extra_header=C03_coq.extra_header(True), shards=8)

    failing_d += formsum_checks(run, gen, quick)
    external_operator_checks(run, gen)

    seen = set()
    for case, lemma, msg in failing + failing_d:
        if case is None:
            run.violation({"broken": "generated obligations file does not compile / timed out", "message": msg}, False)
            continue
        if case.name in seen:
            continue
        seen.add(case.name)
        w_ = witness.get(case.name) or search_mismatch(case.out, case.inp, case.mapping, 30 if quick else 200, run.seed)
        rep = {"broken_obligation": lemma, "case": case.name, "note": case.note, "coq_message": msg,
               "input_expr": str(case.inp), "input_repr": repr(case.inp)[:4000],
               "mapping": {repr(a): repr(ufl.as_ufl(b))[:1500] for a, b in case.mapping.items()},
               "implementation_output": str(case.out)[:3000],
               "expected": "value of the input with every mapped terminal taking the value of its image",
               "reproduce": "ufl.replace(e, mapping) on input_repr/mapping; or bin/check C21 (VERIF_SEED=%d)" % run.seed}
        if w_:
            rep["witness"] = w_
        run.violation(rep, bool(w_))

    run.trusted.update([
        "Coq 8.16.1 kernel (coqc); vm_compute used for normalisation, no native_compute",
        "py/ufl2coq.py serializer; SubstSer (py/props/C21.py) performs the expected substitution while serialising",
        "derivation laws of py/C03_coq.py (only used when a literal/constant image ends up under a derivative, "
        "where the implementation folds the derivative to zero)",
        "den of coq/Core/Den.v as the meaning of expressions; images are free of free indices (generator)",
        "for CoefficientDerivative inputs the expected value is taken after ufl's expand_derivatives (property C02)",
    ])
    return run.finish(
        rule="one case per (expression, mapping): fixed list of key-parent patterns + seeded random expressions "
             "(tree size<=%d) with random shape-compatible mappings; every (sampled, <=6) component is one value "
             "obligation; per case 2 model-correspondence obligations; distinct = distinct (input, mapping)" % MAX_NODES,
        assumptions=["kpow agrees with repeated multiplication on literal natural exponents (hand theorem C21_subst only)",
                     "images have no free indices (hypothesis Hclosed of C21_subst)",
                     "BaseForm / ExternalOperator / Interpolate handlers of Replacer are outside the model"])
