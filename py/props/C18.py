"""C18 - Estimated polynomial degree never underestimates the true degree.

Proof (coq/Props/C18_model.v, C18_sound.v, C18_poly.v): a Gallina model `estimate` of
SumDegreeEstimator (faithful, including `indexed`'s walk over *reference* sub-element sizes with the
*physical* flat component) and the theorem, by induction over ALL expressions of the polynomial
fragment, `hasdeg (den e c) (estimate e)` in every UFL algebra with a degree filtration, under the
guard that `indexed` attributes to a component at least the degree of the sub-element that owns it
(true for every element with identity component map: C18_sound_identity; false in general:
C18_indexed_refuted).  The model has two variants of `indexed` (fx = false: as pinned; fx = true: after
fixes/C18-indexed-physical-owner.diff, for which the unguarded theorem C18_sound_fixed holds); T1 decides
on every run which one /repo implements.

Tie, on every run:
 T1  the handler table and the arithmetic helpers of SumDegreeEstimator are translated from the
     source with `ast` (fail closed) into coq/Gen/C18_rules.v and compared with the model's table /
     arithmetic by Coq (C18_rules.py);
 T3  on generated integrands (mixed / symmetric / Piola elements with sub-elements of different
     degrees, fixed component selections, tensor algebra before and after apply_algebra_lowering,
     derivatives, attach_estimated_degrees) the real estimate equals the model's `estimate`
     (Example ... vm_compute in coq/Gen/C18_cases_*.v); Coq also decides `poly` and `guard` per case,
     so for every case with poly && guard the theorem applies to the real output.
 Search oracle: the TRUE degree of the integrand computed with exact polynomial jets (py/pyden.py),
 form arguments being random polynomials of exactly the degree of the owning sub-element."""

import itertools
import os
import random
import re
import warnings
from fractions import Fraction

import numpy as np

import ufl
import ufl.classes as C
from ufl.algorithms.apply_algebra_lowering import apply_algebra_lowering
from ufl.algorithms.estimate_degrees import estimate_total_polynomial_degree
from ufl.pullback import MixedPullback, SymmetricPullback, contravariant_piola, covariant_piola, identity_pullback
from ufl.sobolevspace import H1, HCurl, HDiv

import C18_rules
import pyden
import ufl2coq
import uflgen
import vlib
from elements import FiniteElement, LagrangeElement, MixedElement, SymmetricElement

HAND_FILES = ["Props/C18_model.v", "Props/C18_sound.v", "Props/C18_poly.v"]

KNOWN_ID = "indexed-reference-walk"
FIXED = {"v": False}     # /repo implements the fixed variant of `indexed` (decided by C18_rules.detect_variant)


# ------------------------------------------------------------------------------------------------
# elements: the owner map (independent of the code under test)

def prod(t):
    r = 1
    for x in t:
        r *= int(x)
    return r


def owner_degrees(element, domain):
    """embedded_superdegree of the (deepest) sub-element owning each flat PHYSICAL component."""
    pb = element.pullback
    subs = element.sub_elements
    if isinstance(pb, SymmetricPullback):
        out = []
        for comp in np.ndindex(pb._block_shape):
            out += owner_degrees(subs[pb._symmetry[comp]], domain)
        return out
    if subs:
        out = []
        for s in subs:
            out += owner_degrees(s, domain)
        return out
    return [int(element.embedded_superdegree)] * prod(pb.physical_value_shape(element, domain))


def ident_pdeg(element):
    out = []
    for s in element.sub_elements:
        out += [int(s.embedded_superdegree)] * int(s.reference_value_size)
    return out


def sym_map(g):
    m, k = {}, 0
    for i in range(g):
        for j in range(i, g):
            m[(i, j)] = k
            m[(j, i)] = k
            k += 1
    return m, k


class Pool:
    """Function spaces of one cell; every space knows its owner degrees."""

    def __init__(self, rng, cellname, gdim=None):
        self.rng = rng
        self.cellname = cellname
        self.cell = getattr(ufl, cellname)
        self.mesh = uflgen.mesh(self.cell, gdim)
        self.g = gdim or self.cell.topological_dimension
        self.t = self.cell.topological_dimension
        self.quad = cellname in ("quadrilateral", "hexahedron")

    def P(self, d=None, sh=()):
        return LagrangeElement(self.cell, d or self.rng.randint(1, 3), sh)

    def RT(self, d=None):
        d = d or self.rng.randint(1, 3)
        return FiniteElement("RT", self.cell, d, (self.t,), contravariant_piola, HDiv, subdegree=d - 1)

    def N1(self, d=None):
        d = d or self.rng.randint(1, 3)
        return FiniteElement("N1curl", self.cell, d, (self.t,), covariant_piola, HCurl, subdegree=d - 1)

    def enriched(self):
        """scalar element whose polynomial space lies strictly between P(d-1) and P(d) (bubble-enriched)"""
        d = self.rng.randint(2, 3)
        return FiniteElement("Enriched", self.cell, d, (), identity_pullback, H1, subdegree=d - 1)

    def sym(self):
        m, k = sym_map(self.g)
        return SymmetricElement(m, [self.P() for _ in range(k)])

    def element(self):
        r, g = self.rng, self.g
        kinds = ["P", "P", "vec", "ten", "mix2", "mixv", "mix3", "nest", "enr", "mixenr", "rand", "rand", "rand"]
        if g >= 2 and not self.quad and g == self.t:
            kinds += ["sym", "sym", "sym", "mixsym", "symmix", "rt", "mixrt"]
        if g > self.t:
            kinds += ["rt", "mixrt", "mixrt", "rtmix", "n1mix"]
        k = r.choice(kinds)
        if k == "P":
            return self.P()
        if k == "rand":
            return self.random_mixed()
        if k == "enr":
            return self.enriched()
        if k == "mixenr":
            return MixedElement([self.P(), self.enriched()])
        if k == "vec":
            return self.P(sh=(g,))
        if k == "ten":
            return self.P(sh=(g, g))
        if k == "mix2":
            return MixedElement([self.P(), self.P()])
        if k == "mixv":
            return MixedElement([self.P(sh=(g,)), self.P()])
        if k == "mix3":
            return MixedElement([self.P(), self.P(), self.P()])
        if k == "nest":
            return MixedElement([[self.P(), self.P()], self.P()])
        if k == "sym":
            return self.sym()
        if k == "mixsym":
            return MixedElement([self.sym(), self.P()])
        if k == "symmix":
            return MixedElement([self.P(), self.sym()])
        if k == "rt":
            return self.RT()
        if k == "mixrt":
            return MixedElement([self.RT(), self.P()])
        if k == "rtmix":
            return MixedElement([self.P(), self.RT(), self.P()])
        if k == "n1mix":
            return MixedElement([self.N1(), self.P()])
        raise AssertionError(k)

    def random_sub(self, depth=0):
        r, g = self.rng, self.g
        ks = ["P", "P", "vec", "enr"]
        if not self.quad:
            ks += ["rt", "n1"]
        if depth == 0:
            ks += ["nest"]
            if g >= 2 and not self.quad and g == self.t:
                ks += ["sym"]
        k = r.choice(ks)
        if k == "P":
            return self.P()
        if k == "vec":
            return self.P(sh=(r.choice([2, 3]),))
        if k == "enr":
            return self.enriched()
        if k == "rt":
            return self.RT()
        if k == "n1":
            return self.N1()
        if k == "sym":
            return self.sym()
        return MixedElement([self.random_sub(1) for _ in range(r.randint(2, 3))])

    def random_mixed(self):
        """mixed element with 2-4 sub-elements of random kinds, value sizes and degrees"""
        return MixedElement([self.random_sub() for _ in range(self.rng.randint(2, 4))])

    def space(self):
        return ufl.FunctionSpace(self.mesh, self.element())


# ------------------------------------------------------------------------------------------------
# integrand generator

class Gen:
    def __init__(self, rng, pool, nonpoly=False):
        self.rng, self.pool, self.nonpoly = rng, pool, nonpoly
        self.g = pool.g
        self.mesh = pool.mesh
        self.fargs = []
        for k in range(rng.randint(2, 4)):
            V = pool.space()
            self.fargs.append(ufl.Coefficient(V) if rng.random() < 0.7 else ufl.Argument(V, rng.randint(0, 1)))
        self.consts = [ufl.Constant(self.mesh), ufl.Constant(self.mesh, (self.g,))]
        self.x = ufl.SpatialCoordinate(self.mesh)

    # -- leaves
    def farg(self):
        return self.rng.choice(self.fargs)

    def farg_component(self):
        u = self.farg()
        if self.rng.random() < 0.12 and not self.pool.quad:
            u = u("+") if self.rng.random() < 0.5 else u("-")
        if not u.ufl_shape:
            return u
        idx = tuple(self.rng.randrange(d) for d in u.ufl_shape)
        return u[idx]

    def const_scalar(self):
        r = self.rng.random()
        if r < 0.4:
            return ufl.as_ufl(self.rng.choice([2, 3, -1, 5]))
        if r < 0.6:
            return ufl.as_ufl(self.rng.choice([0.5, 1.5, 2.0 / 3]))
        if r < 0.8:
            return self.consts[0]
        return self.consts[1][self.rng.randrange(self.g)]

    def geometry_scalar(self):
        r = self.rng.random()
        m = self.mesh
        if r < 0.35:
            return ufl.CellVolume(m)
        if r < 0.7:
            J = ufl.Jacobian(m)
            return J[tuple(self.rng.randrange(d) for d in J.ufl_shape)]
        n = ufl.FacetNormal(m)
        return n[self.rng.randrange(n.ufl_shape[0])]

    def leaf(self):
        r = self.rng.random()
        if r < 0.6:
            return self.farg_component()
        if r < 0.75:
            return self.x[self.rng.randrange(self.g)]
        if r < 0.92:
            return self.const_scalar()
        return self.geometry_scalar()

    # -- vectors of length g
    def vector(self, depth):
        r, g = self.rng, self.g
        cands = [u for u in self.fargs if u.ufl_shape == (g,)]
        k = r.random()
        if depth <= 0 or k < 0.3:
            if cands and r.random() < 0.6:
                return r.choice(cands)
            if r.random() < 0.3:
                return self.x
            if r.random() < 0.2:
                return self.consts[1]
            return ufl.as_vector([self.scalar(0) for _ in range(g)])
        if k < 0.45:
            return ufl.as_vector([self.scalar(depth - 1) for _ in range(g)])
        if k < 0.6:
            return ufl.grad(self.scalar(depth - 1))
        if k < 0.72:
            return self.scalar(depth - 1) * self.vector(depth - 1)
        if k < 0.84:
            return self.vector(depth - 1) + self.vector(depth - 1)
        if k < 0.94:
            return ufl.dot(self.matrix(depth - 1), self.vector(depth - 1))
        i = ufl.Index()
        return ufl.as_tensor(self.vector(depth - 1)[i] * self.scalar(depth - 1), (i,))

    def matrix(self, depth):
        r, g = self.rng, self.g
        cands = [u for u in self.fargs if u.ufl_shape == (g, g)]
        k = r.random()
        if depth <= 0 or k < 0.3:
            if cands and r.random() < 0.7:
                return r.choice(cands)
            return ufl.outer(self.vector(0), self.vector(0))
        if k < 0.5:
            return ufl.grad(self.vector(depth - 1))
        if k < 0.62:
            return ufl.outer(self.vector(depth - 1), self.vector(depth - 1))
        if k < 0.72:
            return self.matrix(depth - 1) + self.matrix(depth - 1)
        if k < 0.8:
            return self.matrix(depth - 1).T
        if k < 0.88:
            i, j = ufl.indices(2)
            return ufl.as_tensor(self.vector(depth - 1)[i] * self.vector(depth - 1)[j], (j, i))
        if k < 0.94:
            return ufl.sym(self.matrix(depth - 1))
        return self.scalar(depth - 1) * self.matrix(depth - 1)

    # -- scalars
    def scalar(self, depth):
        r, g = self.rng, self.g
        k = r.random()
        if depth <= 0 or k < 0.18:
            return self.leaf()
        d = depth - 1
        if k < 0.30:
            return self.scalar(d) + self.scalar(d)
        if k < 0.36:
            return self.scalar(d) - self.scalar(d)
        if k < 0.50:
            return self.scalar(d) * self.scalar(d)
        if k < 0.55:
            return self.scalar(d) / self.const_scalar()
        if k < 0.61:
            return self.scalar(min(d, 1)) ** r.choice([0, 1, 2, 2, 3])
        if k < 0.67:
            return ufl.inner(self.vector(d), self.vector(d))
        if k < 0.71:
            return ufl.dot(self.vector(d), self.vector(d))
        if k < 0.77:
            return ufl.grad(self.scalar(d))[r.randrange(g)]
        if k < 0.80:
            return self.scalar(d).dx(r.randrange(g))
        if k < 0.83:
            return ufl.div(self.vector(d))
        if k < 0.86:
            return ufl.grad(self.vector(d))[r.randrange(g), r.randrange(g)]
        if k < 0.89:
            comps = [self.scalar(d) for _ in range(r.randint(2, 3))]
            return ufl.as_vector(comps)[r.randrange(len(comps))]
        if k < 0.91:
            return self.matrix(d)[r.randrange(g), r.randrange(g)]
        if k < 0.93:
            i = ufl.Index()
            return self.vector(d)[i] * self.vector(d)[i]
        if k < 0.945:
            return ufl.variable(self.scalar(d))
        if k < 0.96:
            return r.choice([ufl.conj, ufl.real])(self.scalar(d))
        if k < 0.975:
            return r.choice([ufl.tr, ufl.det])(self.matrix(d)) if g <= 2 else ufl.tr(self.matrix(d))
        if k < 0.985:
            return ufl.inner(self.matrix(d), self.matrix(d))
        if not self.nonpoly:
            return self.scalar(d) * self.leaf()
        c = r.random()
        if c < 0.2:
            return abs(self.scalar(d))
        if c < 0.4:
            return ufl.conditional(ufl.lt(self.scalar(d), self.scalar(d)), self.scalar(d), self.scalar(d))
        if c < 0.6:
            return r.choice([ufl.sin, ufl.exp, ufl.sqrt])(self.scalar(d))
        if c < 0.7:
            return self.scalar(d) ** r.choice([-1, 2.5])
        if c < 0.8:
            return ufl.max_value(self.scalar(d), self.scalar(d))
        if c < 0.9:
            return self.scalar(d) / self.scalar(d)
        return ufl.atan2(self.scalar(d), self.scalar(d))


# ------------------------------------------------------------------------------------------------
# model side: configuration of the terminals of a case (computed from the elements, not from the
# estimator)

def coord_degree(t):
    return int(ufl.domain.extract_unique_domain(t).ufl_coordinate_element().embedded_superdegree)


def terminal_info(t):
    """(t_deg, t_shape, elem or None) of a terminal, as the model expects it."""
    sh = tuple(int(d) for d in t.ufl_shape)
    if isinstance(t, (C.Coefficient, C.Argument)):
        el = t.ufl_element()
        dom = t.ufl_function_space().ufl_domain()
        subs = [(int(s.reference_value_size), int(s.embedded_superdegree)) for s in el.sub_elements]
        pd = owner_degrees(el, dom)
        assert len(pd) == prod(sh), (pd, sh)
        return int(el.embedded_superdegree), sh, (subs, pd, isinstance(el.pullback, SymmetricPullback),
                                                  int(el.reference_value_size))
    if isinstance(t, C.Constant):
        return 0, sh, None
    if isinstance(t, C.SpatialCoordinate):
        return coord_degree(t), sh, None
    if isinstance(t, C.CellCoordinate):
        return 1, sh, None
    if isinstance(t, C.GeometricQuantity):
        return (0 if t.is_cellwise_constant() else coord_degree(t)), sh, None
    raise ufl2coq.Unsupported(type(t).__name__)


def terminals_of(e):
    seen, out, stack = set(), [], [e]
    while stack:
        x = stack.pop()
        if id(x) in seen:
            continue
        seen.add(id(x))
        if x._ufl_is_terminal_:
            if isinstance(x, (C.FormArgument, C.GeometricQuantity, C.Constant)):
                out.append(x)
        else:
            stack.extend(x.ufl_operands)
    return out


def coq_tinfo(info):
    d, sh, el = info
    if el is None:
        els = "None"
    else:
        subs, pd, sym, refsize = el
        els = ("(Some {| e_subs := [" + "; ".join(f"({a}, {b})" for a, b in subs) + "]; e_pdeg := "
               + ufl2coq.natlist(pd) + f"; e_sym := {'true' if sym else 'false'}; e_refsize := {refsize} |}})")
    return f"{{| t_deg := {d}; t_shape := {ufl2coq.natlist(sh)}; t_elem := {els} |}}"


def is_quad(e):
    from ufl.domain import extract_domains
    return any(d.ufl_cell().cellname in ("quadrilateral", "hexahedron") for d in extract_domains(e))


class Case:
    def __init__(self, name, e, real, note):
        self.name, self.e, self.real, self.note = name, e, real, note    # real: int or "raise"
        self.poly = self.guard = None
        self.lemmas = []

    def emit(self):
        ctx = ufl2coq.Ctx()
        ser = ufl2coq.Ser(ctx, prefix=f"{self.name}_n")
        body = ser.expr(self.e)
        infos = []
        for t in terminals_of(self.e):
            k, i, _sh, _ = ctx.term(t)
            infos.append((k, i, terminal_info(t)))
        infos.sort(key=lambda x: (x[0], x[1]))
        self.infos = infos
        cl = "[" + ";\n   ".join(f"({k}, {i}, {coq_tinfo(inf)})" for k, i, inf in infos) + "]"
        q = "true" if is_quad(self.e) else "false"
        q = f"{q} {self.name}_cfg {'true' if FIXED['v'] else 'false'}"
        n = self.name
        txt = [f"(* {n}: {self.note} *)\n", ser.definitions_text(),
               f"Definition {n}_l : list (nat * nat * tinfo) := {cl}.\nDefinition {n}_cfg := mkcfg {n}_l.\n",
               f"Definition {n}_e : expr := {body}.\n"]
        if self.real == "raise":
            txt.append(f"Example {n}_est : supported {n}_e = false. Proof. vm_compute. reflexivity. Qed.\n")
        else:
            txt.append(f"Example {n}_est : (supported {n}_e, wf_list {n}_l, estimate {q} {n}_e) = "
                       f"(true, true, {int(self.real)}). Proof. vm_compute. reflexivity. Qed.\n")
        ex = txt.pop()
        self.example = ex
        self.aborted = ex[:ex.index("Proof.")] + "Proof. Abort. (* MISMATCH *)\n"
        self.tail = (f"Eval vm_compute in (C18TAG, poly {q} {n}_e, guard {n}_cfg {'true' if FIXED['v'] else 'false'} {n}_e).\n"
                     f"Eval vm_compute in (C18VAL, supported {n}_e, wf_list {n}_l, estimate {q} {n}_e).\n")
        self.head = "".join(txt)
        self.lemmas = [f"{n}_est"]
        return self.text("example")

    def text(self, mode):
        mid = {"example": self.example, "abort": self.aborted, "eval": ""}[mode]
        return self.head + mid + self.tail


CASES_HEADER = ("Require Import UFLV.Props.C18_model UFLV.Props.C18_sound.\n"
                "Definition C18TAG := 181818%Z.\nDefinition C18VAL := 181819%Z.\n")


def real_estimate(e):
    with warnings.catch_warnings():
        warnings.simplefilter("error")
        try:
            return int(estimate_total_polynomial_degree(e))
        except ValueError as ex:
            if "Missing degree handler" in str(ex):
                return "raise"
            raise


# ------------------------------------------------------------------------------------------------
# the search oracle: true polynomial degree by exact jets

class PolyEnv(pyden.Env):
    """Form arguments are random polynomials of exactly the degree of the owning sub-element."""

    def __init__(self, nv, order, seed):
        super().__init__(nv=nv, order=order, seed=seed, degree=0)
        self.x0 = tuple(Fraction(0) for _ in range(nv))

    def poly_field(self, key, deg):
        if key in self.cache:
            return self.cache[key]
        c = {}
        for a in itertools.product(range(deg + 1), repeat=self.nv):
            if sum(a) <= deg:
                v = Fraction(self.rng.randint(-5, 5), self.rng.choice([1, 2, 3]))
                if sum(a) == deg and v == 0:
                    v = Fraction(1)
                if v != 0:
                    c[a] = v
        j = pyden.Jet(self.nv, self.order, c)
        self.cache[key] = j
        return j

    def _farg(self, t, comp, side):
        _d, sh, (_subs, pd, _sym, _rs) = terminal_info(t)
        flat = 0
        for c, d in zip(comp, sh):
            flat = flat * d + c
        return self.poly_field((ufl2coq.Ctx.term_key(t), tuple(comp), side), pd[flat])

    t_Coefficient = _farg
    t_Argument = _farg


def jet_degree(j):
    return max((sum(a) for a, v in j.c.items() if v != 0), default=0)


def deriv_depth(e, memo=None):
    memo = {} if memo is None else memo
    if id(e) in memo:
        return memo[id(e)]
    if e._ufl_is_terminal_:
        r = 0
    else:
        r = max((deriv_depth(o, memo) for o in e.ufl_operands), default=0)
        if isinstance(e, (C.Grad, C.Div, C.Curl, C.NablaGrad, C.NablaDiv)):
            r += 1
    memo[id(e)] = r
    return r


def true_degree(e, est, seed, gdim):
    """True total degree of the scalar integrand e (None when the oracle does not apply)."""
    order = max(int(est), 0) + 2 + deriv_depth(e)
    if order > 14:
        return None
    env = PolyEnv(gdim, order, seed)
    try:
        j = pyden.evaluate(e, env)
    except (ZeroDivisionError, pyden.Unsupported, KeyError, OverflowError):
        return None
    return jet_degree(j)


# ------------------------------------------------------------------------------------------------

def known_class(e):
    """Decidable class of the known finding: a fixed-index component of a form argument whose
    element has sub-elements and a non-identity component map (physical value size differs from
    the reference value size: symmetric elements, mixed elements with symmetric / Piola-on-manifold
    sub-elements)."""
    seen, stack = set(), [e]
    while stack:
        x = stack.pop()
        if id(x) in seen or x._ufl_is_terminal_:
            continue
        seen.add(id(x))
        if isinstance(x, C.Indexed) and isinstance(x.ufl_operands[0], (C.Coefficient, C.Argument)):
            u = x.ufl_operands[0]
            el = u.ufl_element()
            if el.sub_elements and owner_degrees(el, u.ufl_function_space().ufl_domain()) != ident_pdeg(el):
                return True
        stack.extend(x.ufl_operands)
    return False


def witness_case():
    """The witness of known/C18.json, rebuilt from its description."""
    cell = ufl.triangle
    m = uflgen.mesh("triangle")
    S = SymmetricElement({(0, 0): 0, (0, 1): 1, (1, 0): 1, (1, 1): 2},
                         [LagrangeElement(cell, 1), LagrangeElement(cell, 3), LagrangeElement(cell, 1)])
    u = ufl.Coefficient(ufl.FunctionSpace(m, S))
    return u[1, 0]


def sweep_cases(rng, nelem, maxcomp=10):
    """Exhaustive small scope for `indexed`: every fixed component u[idx] (and one restricted /
    differentiated neighbour) of random elements with sub-elements."""
    out = []
    cells = ["triangle"] * 4 + ["tetrahedron", "interval", "quadrilateral", "manifold"]
    tries = 0
    while len(out) < nelem and tries < 20 * nelem:
        tries += 1
        cn = rng.choice(cells)
        pool = Pool(rng, "triangle", 3) if cn == "manifold" else Pool(rng, cn)
        el = pool.element() if rng.random() < 0.4 else pool.random_mixed()
        if not el.sub_elements:
            continue
        V = ufl.FunctionSpace(pool.mesh, el)
        u = ufl.Coefficient(V) if rng.random() < 0.7 else ufl.Argument(V, 0)
        comps = list(np.ndindex(u.ufl_shape))
        rng.shuffle(comps)
        es = []
        for idx in comps[:maxcomp]:
            idx = tuple(int(i) for i in idx)
            es.append((u[idx], f"{cn} sweep {idx}"))
        if comps and not pool.quad:
            idx = tuple(int(i) for i in comps[0])
            es.append((ufl.grad(u[idx])[0] * u[idx], f"{cn} sweep grad {idx}"))
        out.append((es, pool.g, pool.quad))
    return out


def build_cases(run):
    rng = random.Random(1000003 * run.seed + 18)
    n = 260 if run.tier == "quick" else 2600
    cells = ["triangle"] * 6 + ["tetrahedron"] * 2 + ["interval", "quadrilateral", "manifold"]
    cases = []
    k = 0
    # fixed corpus first: the witness and its neighbours
    fixed = []
    w = witness_case()
    u = w.ufl_operands[0]
    fixed += [("witness u[1,0] on Sym(P1,P3,P1)", w, 2), ("u[0,1]", u[0, 1], 2), ("u[1,1]", u[1, 1], 2),
              ("u[0,0]*u[1,0]", u[0, 0] * u[1, 0], 2), ("grad(u[1,0])[0]", ufl.grad(u[1, 0])[0], 2)]
    for note, e, g in fixed:
        cases.append((f"c{k}", e, note, g, False))
        k += 1
    for es, g, quad in sweep_cases(rng, 10 if run.tier == "quick" else 80):
        for e, note in es:
            cases.append((f"c{k}", e, note, g, quad))
            k += 1
    n += len(cases)
    while len(cases) < n:
        cn = rng.choice(cells)
        pool = Pool(rng, "triangle", 3) if cn == "manifold" else Pool(rng, cn)
        gen = Gen(rng, pool, nonpoly=rng.random() < 0.25)
        for _ in range(6):
            try:
                e = gen.scalar(rng.randint(1, 4))
            except Exception as ex:     # constructor rejected a random combination
                if isinstance(ex, (ValueError, ufl.UFLException if hasattr(ufl, "UFLException") else ValueError)):
                    continue
                raise
            if not isinstance(e, ufl.core.expr.Expr) or e.ufl_shape or e.ufl_free_indices:
                continue
            cases.append((f"c{k}", e, f"{cn} raw", pool.g, pool.quad))
            k += 1
            low = apply_algebra_lowering(e)
            if low is not e:
                cases.append((f"c{k}", low, f"{cn} lowered", pool.g, pool.quad))
                k += 1
    return cases


def main(run):
    ok = True
    import time as _t
    T0 = _t.time()
    tm = run.extra.setdefault("phase_s", {})
    variant = C18_rules.detect_variant()
    if variant is None:
        # the source of `indexed` matches neither known shape (T1 reports the broken tie below): pick the
        # model variant by behaviour, so that the correspondence and the search stay meaningful
        try:
            variant = real_estimate(witness_case()) >= 3
        except Exception:     # noqa: BLE001
            variant = False
        run.extra["indexed_variant_detection"] = "source not recognised; chosen by replaying the witness"
    FIXED["v"] = bool(variant)
    run.extra["indexed_variant"] = "fixed (physical/reference sizes agree, not symmetric)" if FIXED["v"] else "pinned"
    model_res = vlib.coqc(HAND_FILES[0])
    tm["model"] = round(_t.time() - T0, 1)      # re-checked on every run; the others in parallel below
    # ---- T1: handler table and arithmetic translated from the source (runs concurrently with T3)
    import concurrent.futures as cf
    pool_ex = cf.ThreadPoolExecutor(max_workers=4)
    t1_fut = pool_ex.submit(C18_rules.emit, run)
    hand_futs = [pool_ex.submit(vlib.coqc, f) for f in HAND_FILES[1:]]
    tm["t1"] = round(_t.time() - T0, 1)
    # ---- T3: correspondence on generated integrands
    raw = build_cases(run)
    cases, meta = [], {}
    hist = {}
    for name, e, note, g, quad in raw:
        try:
            real = real_estimate(e)
        except Exception as ex:     # the real estimator failed in an unexpected way
            run.violation({"broken": "estimate_total_polynomial_degree raised unexpectedly",
                           "input": str(e)[:2000], "note": note, "exception": repr(ex)}, True)
            ok = False
            continue
        c = Case(name, e, real, note)
        cases.append(c)
        meta[name] = (g, quad)
        run.count_case(repr(e))
        for x in ufl.corealg.traversal.unique_pre_traversal(e):
            hist[type(x).__name__] = hist.get(type(x).__name__, 0) + 1
    run.extra["node_histogram"] = dict(sorted(hist.items(), key=lambda kv: -kv[1])[:40])
    # attach_estimated_degrees (compute_form_data's use of the estimator) on the same integrands:
    # fresh integrals, integrals that already carry a (stale) estimate or other metadata, and
    # multi-step sequences compute_form_data -> reuse the preprocessed integrals with another
    # integrand (Integral.reconstruct / replace keep the metadata) -> compute_form_data again
    from ufl.algorithms.compute_form_data import attach_estimated_degrees
    attach_bad = []
    arng = random.Random(run.seed * 31 + 5)
    sub = [c for c in cases if c.real != "raise"][: (70 if run.tier == "quick" else 400)]
    nattach = 0
    for c in sub:
        if not terminals_of(c.e):
            continue
        dom = ufl.domain.extract_unique_domain(c.e)
        mds = [None, {"estimated_polynomial_degree": max(c.real - arng.randint(1, 3), 0)},
               {"estimated_polynomial_degree": c.real + arng.randint(1, 4), "quadrature_rule": "default"},
               {"quadrature_degree": 2}]
        for md in mds:
            form = c.e * ufl.dx(domain=dom, metadata=md) + c.e * ufl.ds(domain=dom, metadata=md)
            nattach += 1
            try:
                f2 = attach_estimated_degrees(form)
            except Exception as ex:
                attach_bad.append((c, f"metadata {md}: raised {ex!r}", None))
                continue
            for it in f2.integrals():
                got = it.metadata().get("estimated_polynomial_degree")
                if got != c.real:
                    attach_bad.append((c, f"integral with metadata {md}: attached {got} != estimate {c.real}", None))
                if md and any(it.metadata().get(k) != v for k, v in md.items() if k != "estimated_polynomial_degree"):
                    attach_bad.append((c, f"metadata {md} not preserved: {it.metadata()}", None))
    run.extra["attach_estimated_degrees_checked"] = nattach
    # multi-step sequences through compute_form_data
    from ufl.algorithms import compute_form_data
    nseq = 0
    want = 10 if run.tier == "quick" else 60
    for c in cases:
        if nseq >= want:
            break
        g, quad = meta[c.name]
        ts = terminals_of(c.e)
        if c.real == "raise" or quad or not ts or any(isinstance(t, C.Argument) for t in ts) \
                or known_class(c.e) or c.real > 6:
            continue
        dom = ufl.domain.extract_unique_domain(c.e)
        try:
            with warnings.catch_warnings():
                warnings.simplefilter("ignore")
                fd1 = compute_form_data(c.e * ufl.dx(arng.randint(1, 3), domain=dom))
                its = [itg for itd in fd1.integral_data for itg in itd.integrals]
                if len(its) != 1 or "estimated_polynomial_degree" not in its[0].metadata():
                    continue
                h = ufl.Coefficient(ufl.FunctionSpace(dom, LagrangeElement(dom.ufl_cell(), arng.randint(2, 3))))
                variants = [("Integral.reconstruct(integrand=integrand*h**2)",
                             ufl.Form([its[0].reconstruct(integrand=its[0].integrand() * h**2)]))]
                coefs = [t for t in ts if isinstance(t, C.Coefficient)]
                if coefs:
                    w = arng.choice(coefs)
                    variants.append(("replace(Form(preprocessed integrals), {w: w*h})",
                                     ufl.replace(ufl.Form(its), {w: w * h})))
                for how, form2 in variants:
                    integrand2 = form2.integrals()[0].integrand()
                    fd2 = compute_form_data(form2)
                    got = [i.metadata()["estimated_polynomial_degree"] for idt in fd2.integral_data for i in idt.integrals]
                    td = true_degree(integrand2, max(got + [c.real]) + 8, run.seed + nseq, g)
                    nseq += 1
                    if td is not None and got and min(got) < td:
                        attach_bad.append((c, f"second compute_form_data after {how}: attached {got}, true degree {td}, "
                                              f"first pass attached {its[0].metadata()['estimated_polynomial_degree']}",
                                           str(integrand2)[:1500]))
        except Exception as ex:     # forms the pipeline rejects (arity, restrictions in dx, ...) are skipped
            run.extra.setdefault("multistep_skipped", []).append(type(ex).__name__)
            continue
    run.extra["multistep_sequences_checked"] = nseq
    run.extra["multistep_skipped"] = len(run.extra.get("multistep_skipped", []))

    tm["gen+real"] = round(_t.time() - T0, 1)
    # emit + compile
    shards = []
    per = 70 if run.tier == "quick" else 250
    for s in range(0, len(cases), per):
        chunk = cases[s:s + per]
        path = os.path.join(vlib.GEN, f"C18_cases_{s // per}.v")
        try:
            text = CASES_HEADER + "".join(c.emit() for c in chunk)
        except ufl2coq.Unsupported as ex:
            run.violation({"broken": "serializer does not support a generated node", "message": str(ex)}, False)
            return run.finish("serializer failed")
        vlib.write_if_changed(path, text)
        shards.append((path, chunk))
    for f in os.listdir(vlib.GEN):
        if re.match(r"C18_cases_\d+\.v$", f) and os.path.join(vlib.GEN, f) not in [p for p, _ in shards]:
            os.remove(os.path.join(vlib.GEN, f))
    mismatching = []

    def classify(chunk, out):
        tags = re.findall(r"=\s*\(181818%Z,\s*(true|false),\s*(true|false)\)", out)
        if len(tags) != len(chunk):
            return False
        for c, (p, gd) in zip(chunk, tags):
            c.poly, c.guard = p == "true", gd == "true"
        return True

    results = vlib.coqc_many([p for p, _ in shards], timeout=600)
    redo = []
    for (path, chunk), r in zip(shards, results):
        if r.ok:
            run.add_coq_result(r, [c.name + "_est" for c in chunk])
            if not classify(chunk, r.out):
                run.violation({"broken": "classification output of coq/Gen cases not parsable", "file": path}, False)
                ok = False
        else:
            redo.append((path, chunk, r))
    if redo:
        # some Example failed: evaluate the model on every case of these shards, find all mismatches
        for path, chunk, _ in redo:
            with open(path, "w") as f:
                f.write(CASES_HEADER + "".join(c.text("eval") for c in chunk))
        results = vlib.coqc_many([p for p, _, _ in redo], timeout=600)
        final = []
        for (path, chunk, r0), r in zip(redo, results):
            vals = re.findall(r"=\s*\(181819%Z,\s*(true|false),\s*(true|false),\s*(\d+)\)", r.out)
            if not r.ok or len(vals) != len(chunk):
                run.add_coq_result(r0, [c.name + "_est" for c in chunk])
                run.violation({"broken": "generated correspondence file does not compile", "file": path,
                               "error": ((r.err if not r.ok else r0.err) or "")[-1500:]}, False)
                ok = False
                continue
            for c, (sup, wf, est) in zip(chunk, vals):
                good = (sup == "false") if c.real == "raise" else (sup == "true" and wf == "true" and int(est) == c.real)
                c.model = {"supported": sup, "wf": wf, "estimate": int(est)}
                if not good:
                    c.masked = True
                    mismatching.append(c)
                    rel = os.path.relpath(path, vlib.COQ)
                    run.obligations.append((c.name + "_est", rel))
                    run.failed.append((c.name + "_est", rel, f"model {c.model} differs from the real estimate {c.real}"))
            with open(path, "w") as f:
                f.write(CASES_HEADER + "".join(c.text("abort" if getattr(c, "masked", False) else "example") for c in chunk))
            final.append((path, chunk))
        results = vlib.coqc_many([p for p, _ in final], timeout=600)
        for (path, chunk), r in zip(final, results):
            run.add_coq_result(r, [c.name + "_est" for c in chunk if not getattr(c, "masked", False)])
            if not r.ok or not classify(chunk, r.out):
                run.violation({"broken": "generated correspondence file does not compile", "file": path,
                               "error": (r.err or "")[-1500:]}, False)
                ok = False
    run.checker_cmds.append("coqc -Q coq UFLV coq/Gen/C18_rules.v coq/Gen/C18_cases_*.v")
    for r in [model_res] + [f.result() for f in hand_futs]:
        run.add_coq_result(r)
        if not r.ok:
            run.violation({"broken": "hand-written theorem file does not check", "file": r.path,
                           "error": (r.err or "")[-1500:]}, False)
            ok = False

    tm["coq_cases"] = round(_t.time() - T0, 1)
    # ---- oracle pass: true degree on every case where it applies
    stats = {"poly_guarded": 0, "poly_unguarded": 0, "nonpoly": 0, "oracle_runs": 0, "oracle_skipped": 0,
             "underestimates_in_known_class": 0}
    known = {k["id"]: k for k in vlib.load_known_findings("C18")}
    known_hits, violations = [], []
    mism = {c.name for c in mismatching}
    for c in cases:
        g, quad = meta[c.name]
        if c.poly is None and c.name not in mism:
            continue
        if c.poly and c.guard:
            stats["poly_guarded"] += 1
        elif c.poly:
            stats["poly_unguarded"] += 1
        else:
            stats["nonpoly"] += 1
        if c.real == "raise" or quad or (c.poly is False):
            continue
        td = true_degree(c.e, c.real, run.seed * 7919 + int(c.name[1:]), g)
        if td is None:
            stats["oracle_skipped"] += 1
            continue
        stats["oracle_runs"] += 1
        if td > c.real:
            rep = {"input": str(c.e)[:3000], "note": c.note, "real_estimate": c.real, "true_degree": td,
                   "terminals": [(k, i, inf) for k, i, inf in c.infos], "case": c.name,
                   "reproduce": "estimate_total_polynomial_degree(input) < degree of the polynomial it denotes "
                                "when every form-argument component is a polynomial of the degree of its owning sub-element"}
            if (not FIXED["v"]) and (c.name not in mism) and c.poly and not c.guard and known_class(c.e) \
                    and KNOWN_ID in known:
                stats["underestimates_in_known_class"] += 1
                known_hits.append(rep)
            else:
                rep["_known_class"] = known_class(c.e)
                violations.append(rep)
    run.extra["classification"] = stats
    for c in cases[:3] + [c for c in cases if c.poly and not c.guard][:3] + cases[40:44]:
        run.sample({"case": c.name, "note": c.note, "input": str(c.e)[:240], "real_estimate": c.real,
                    "poly": c.poly, "guard": c.guard})

    tm["oracle"] = round(_t.time() - T0, 1)
    # ---- verdicts (inputs outside the known class first)
    violations.sort(key=lambda v: bool(v.pop("_known_class", False)))
    for rep in violations[:5]:
        run.violation(rep, True)
        ok = False
    reported = {v["case"] for v in violations}
    for c in mismatching:
        if c.name in reported:
            continue
        # correspondence broken without an underestimate found on this very input: search wider
        w = next(({k: v[k] for k in ("input", "real_estimate", "true_degree")} for v in violations), None)
        rep = {"broken_obligation": c.name + "_est", "input": str(c.e)[:3000], "note": c.note,
               "real_estimate": c.real, "model": getattr(c, "model", None), "message": "the model's estimate differs from the implementation's"}
        if w is None:
            w = search_underestimate(run, c)
        if w:
            rep["failing_input"] = w
        run.violation(rep, bool(w))
        ok = False
        if len(run.violations) >= 8:
            break
    attach_bad.sort(key=lambda cm: (cm[2] is None, known_class(cm[0].e)))
    for c, msg, second in attach_bad[:3]:
        rep = {"broken": "attach_estimated_degrees / compute_form_data does not attach the estimate of the current integrand",
               "input": str(c.e)[:2000], "message": msg, "estimate_of_input": c.real,
               "reproduce": "attach_estimated_degrees(Form) on integrals with the given metadata; or the multi-step "
                            "sequence compute_form_data -> reuse integrals -> compute_form_data"}
        if second:
            rep["second_integrand"] = second
        run.violation(rep, True)
        ok = False
    t1 = t1_fut.result()
    for name, okk, msg in t1:
        if not okk:
            w = next(({k: v[k] for k in ("input", "real_estimate", "true_degree")} for v in violations), None) \
                or next(({"input": str(c.e)[:1500], "message": m, "second_integrand": s2} for c, m, s2 in attach_bad), None) \
                or search_underestimate(run, None)
            rep = {"broken_obligation": name, "message": msg,
                   "what": "the handler table / arithmetic regenerated from estimate_degrees.py no longer matches the model"}
            if w:
                rep["failing_input"] = w
            run.violation(rep, bool(w))
            ok = False

    # ---- known finding: replay the witness on the real code
    if FIXED["v"]:
        w = witness_case()
        est = real_estimate(w)
        run.extra["known_finding_status"] = f"fixed variant of indexed in /repo: witness estimated {est} (true degree 3)"
        if est != "raise" and est < 3:
            run.violation({"input": "u[1,0] on SymmetricElement(P1,P3,P1)", "real_estimate": est, "true_degree": 3}, True)
    elif KNOWN_ID in known:
        w = witness_case()
        est = real_estimate(w)
        td = true_degree(w, est, 1, 2)
        wc = next((c for c in cases if c.name == "c0"), None)
        if est == 1 and td == 3 and wc is not None and wc.poly and wc.guard is False and wc.name not in mism:
            run.known(f"SumDegreeEstimator.indexed: u[1,0] on SymmetricElement(P1,P3,P1) estimated {est}, "
                      f"true degree {td} (reference sub-element sizes walked with the physical flat index); "
                      f"{stats['underestimates_in_known_class']} generated inputs of the class underestimate")
        elif est >= 3:
            run.extra["known_finding_status"] = "witness no longer reproduces (fixed?)"
    elif known_hits:
        for rep in known_hits[:3]:
            run.violation(rep, True)

    run.trusted.update([
        "Coq 8.16.1 kernel (coqc); vm_compute for the per-case evaluation of the model",
        "py/ufl2coq.py serializer (node-for-node, fail-closed)",
        "py/props/C18.py terminal_info/owner_degrees: degrees and the owner map are read from the element objects "
        "(embedded_superdegree, sub_elements, pullback symmetry / physical_value_shape), not from the estimator",
        "degree laws of polynomials as Section hypotheses of C18_sound (proved for a concrete polynomial type in C18_poly.v)",
        "py/C18_rules.py AST translator (fail-closed whitelist)",
        "py/pyden.py jets as search oracle only (no claim rests on it)",
    ])
    return run.finish(
        rule="one case per generated integrand (raw and after apply_algebra_lowering); obligation = "
             "Example (supported, wf, estimate) = real output by vm_compute; distinct = distinct repr of the integrand; "
             "classification poly/guard decided by Coq; for poly && guard cases C18_sound_partial applies to the real output",
        assumptions=["polynomial fragment, integer degrees (simplex cells; tensor-product tuple degrees out of scope)",
                     "environment hypothesis: every form-argument component has degree <= embedded_superdegree of its owning sub-element",
                     "embedded_superdegree of an element dominates that of its sub-elements (wf_cfg, checked per case)",
                     "division only by expressions of estimated degree 0 (constants)"])


_search_cache = {}


def search_underestimate(run, case):
    if "w" not in _search_cache:        # one search per run, shared by all broken obligations
        _search_cache["w"] = _search_underestimate(run, case)
    return _search_cache["w"]


def _search_underestimate(run, case):
    """Random search on the real code for an integrand in the guarded polynomial fragment (identity
    component map elements only, so never in the known class) whose true degree exceeds the estimate."""
    rng = random.Random(run.seed + 4242)
    tries = 400 if run.tier == "quick" else 3000
    cands = []
    if case is not None:
        cands.append((case.e, 3))
    for es, g, quad in sweep_cases(rng, 150 if run.tier == "quick" else 600, maxcomp=16):
        if not quad:
            cands += [(e, g) for e, _ in es]
    for _ in range(tries):
        cn = rng.choice(["triangle", "triangle", "tetrahedron", "interval"])
        pool = Pool(rng, cn)
        gen = Gen(rng, pool)
        try:
            e = gen.scalar(rng.randint(1, 3))
        except ValueError:
            continue
        if not isinstance(e, ufl.core.expr.Expr) or e.ufl_shape or e.ufl_free_indices:
            continue
        cands.append((e, pool.g))
        cands.append((apply_algebra_lowering(e), pool.g))
    for e, g in cands:
        try:
            est = real_estimate(e)
        except Exception:
            continue
        if est == "raise" or (known_class(e) and not FIXED["v"]):
            continue
        td = true_degree(e, est, rng.randrange(10**6), g)
        if td is not None and td > est:
            return {"input": str(e)[:3000], "real_estimate": est, "true_degree": td,
                    "form_arguments": {str(t): repr(t.ufl_element())[:600] for t in terminals_of(e)
                                       if isinstance(t, C.FormArgument)}}
    return None
