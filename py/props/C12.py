"""C12 - Signatures do not depend on incidental numbering or process state.

Model: coq/Props/C12_model.v on top of C29_model.v (comparator, operand sorting of a construction
script, monotone renaming of the five global counters, canonical renumbering).  Theorems for all trees /
scripts: the numeric comparators and the canonical renumbering are invariant under every strictly
monotone renaming (hence so is the signature on the counter-free class); refuted for terminals ordered by
a repr that embeds a counter (Constant count, Mesh id).

Tie (every run): the history harness.  py/C12_build.py is run in fresh interpreters (one per
(advance, PYTHONHASHSEED)); for every build script a forked child with untouched counters creates and
discards `advance` objects of every counted class and then builds the form.  form.signature() and
compute_form_signature must agree across all configurations.  The mapped integrand trees of two
configurations must be exactly `rename (shift ...)` of each other (Coq evaluates the model's rename,
canon and cmp on the real data).  A disagreement of signatures is attributed to the known finding only if
it lies in its class: two terminals of the form that the comparator orders by repr change their relative
repr order between the two configurations."""

import concurrent.futures as cf
import json
import os

import C29_lib as L
import vlib

HAND_FILES = ["Props/C29_model.v", "Props/C12_model.v"]

ADVANCES = [0, 8, 9, 98, 99, 998]


def tuplify(x):
    if isinstance(x, list):
        return tuple(tuplify(y) for y in x)
    return x


def run_config(adv, hs, n, seed):
    rc, out, err = vlib.run_repo_python(os.path.join(vlib.VERIF, "py", "C12_build.py"),
                                        [str(adv), str(n), str(seed)], env={"PYTHONHASHSEED": str(hs)},
                                        timeout=1200)
    if rc != 0:
        raise L.TieBroken(f"C12_build.py failed (advance={adv}, hashseed={hs}): {err[-800:]}")
    return json.loads(out)


def counts_in(pieces, cls):
    return [p[2] for p in pieces if p[0] == "cnt" and p[1] == cls]


def normalised(reprterms):
    """{(typecode, pieces with counters replaced by their rank): rendered repr} for one configuration."""
    ranks = {}
    for cls in ("CConstant", "CMesh"):
        vals = sorted({c for _, ps in reprterms for c in counts_in(ps, cls)})
        ranks[cls] = {v: i for i, v in enumerate(vals)}
    out = {}
    for tc, ps in reprterms:
        key = (tc, tuple(("lit", p[1]) if p[0] == "lit" else ("cnt", p[1], ranks[p[1]][p[2]]) for p in ps))
        out[key] = (L.render(ps), tuplify(ps))
    return out


def order_changes(ra, rb):
    """Pairs of repr-compared terminals whose relative repr order differs between two configurations."""
    na, nb = normalised(ra), normalised(rb)
    keys = sorted(set(na) & set(nb), key=repr)
    ch = []
    for i, k1 in enumerate(keys):
        for k2 in keys[i + 1:]:
            if k1[0] != k2[0]:
                continue
            ca = (na[k1][0] > na[k2][0]) - (na[k1][0] < na[k2][0])
            cb = (nb[k1][0] > nb[k2][0]) - (nb[k1][0] < nb[k2][0])
            if ca != cb:
                ch.append({"terminal_1": [na[k1][0], nb[k1][0]], "terminal_2": [na[k2][0], nb[k2][0]],
                           "order": [ca, cb], "typecode": k1[0],
                           "pieces": [na[k1][1], na[k2][1], nb[k1][1], nb[k2][1]]})
    return ch, (set(na) == set(nb))


def tree_counts(t, acc):
    if t[0] == "N":
        for c in t[2]:
            tree_counts(c, acc)
        return
    d = t[2]
    if d[0] == "M":
        acc["I"].update(n for fx, n in d[1] if not fx)
    elif d[0] == "C":
        acc["C"].add(d[1])
    elif d[0] == "B":
        acc["L"].add(d[1])
    elif d[0] == "G":
        acc["M"].add(d[2])
    elif d[0] == "R":
        acc["K"].update(counts_in(d[1], "CConstant"))
        acc["M"].update(counts_in(d[1], "CMesh"))


def main(run):
    tier = run.tier
    nscripts = 24 if tier == "quick" else 72
    seeds = [0, 1, 2] if tier == "quick" else [0, 1, 2, 3, 4, 5]
    known = {k["id"]: k for k in vlib.load_known_findings("C12")}
    if tier == "quick":     # every advance with hash seed 0, the other hash seeds at advances 0 and 9
        configs = [(a, seeds[0]) for a in ADVANCES] + [(0, 1), (0, 2), (9, 1), (98, 2), (7, 1), (21, 2)]
    else:
        configs = [(a, h) for a in ADVANCES for h in seeds[:4]] + [(a, h) for a in (0, 9, 7, 21) for h in seeds[4:]]
    with cf.ThreadPoolExecutor(max_workers=vlib.NCPU) as ex:
        outs = list(ex.map(lambda c: run_config(c[0], c[1], nscripts, run.seed), configs))
    data = {c: {r["k"]: r for r in o["results"]} for c, o in zip(configs, outs)}
    base = configs[0]

    coq_advs = (9, 998) if tier == "quick" else tuple(ADVANCES[1:])
    viol, known_inst, build_errors = [], [], []
    coq_pairs = []     # (k, cfgA, cfgB, in_class, changes)
    for k in range(nscripts):
        A = data[base][k]
        if "error" in A:
            build_errors.append((k, A["error"][-400:]))
            continue
        for c in configs:
            B = data[c][k]
            run.count_case(("cfg", k, c), nontrivial=c != base)
            if "error" in B:
                build_errors.append((k, B["error"][-400:]))
                continue
            if B["sig"] != B["sig2"]:
                viol.append(("signature-cache", {"script": k, "config": c, "form": B["str"],
                                                 "form.signature()": B["sig"],
                                                 "compute_form_signature": B["sig2"]}))
            if c == base:
                continue
            same = A["sig"] == B["sig"]
            changes, same_terms = order_changes(A["reprterms"], B["reprterms"])
            rec = {"script": k, "kind": A["kind"], "seed": run.seed,
                   "config_A": {"advance": base[0], "PYTHONHASHSEED": base[1], "signature": A["sig"], "form": A["str"]},
                   "config_B": {"advance": c[0], "PYTHONHASHSEED": c[1], "signature": B["sig"], "form": B["str"]},
                   "failing_input": {"build_script": f"py/C12_build.py: build(k={k}, seed={run.seed})",
                                     "history_A": f"fresh process, PYTHONHASHSEED={base[1]}, {base[0]} objects of every "
                                                  "counted class created and discarded first",
                                     "history_B": f"fresh process, PYTHONHASHSEED={c[1]}, {c[0]} objects of every "
                                                  "counted class created and discarded first",
                                     "form_A": A["str"], "form_B": B["str"]},
                   "observed": {"signature_A": A["sig"], "signature_B": B["sig"]},
                   "expected": "equal signatures (same build script, only the global counters / hash seed differ)",
                   "reproduce": f"PYTHONHASHSEED={c[1]} PYTHONPATH=$UFL_REPO:/verif/py python /verif/py/C12_build.py "
                                f"{c[0]} {k + 1} {run.seed}   # compare result k={k} with advance {base[0]}"}
            if not same:
                if c[0] != base[0] and changes and "repr-order-of-counters" in known:
                    rec["order_changes"] = [{x: c[x] for x in ("terminal_1", "terminal_2", "order")} for c in changes[:3]]
                    known_inst.append(rec)
                else:
                    rec["order_changes"] = [{x: c[x] for x in ("terminal_1", "terminal_2", "order")} for c in changes[:3]]
                    viol.append(("signature-depends-on-history", rec))
            if c[1] == base[1] and c[0] in coq_advs:
                coq_pairs.append((k, base, c, bool(changes), changes))

    # -- Coq: the model's rename / canon / cmp evaluated on the real trees of pairs of configurations
    em_files = []
    nfiles = 4 if tier == "quick" else 12
    per_file = max(1, -(-len(coq_pairs) // nfiles))
    shard, body, em, npairs = 0, [], L.Emitter(), 0
    nonclass = inclass = 0

    def flush():
        nonlocal shard, body, em, npairs
        if body:
            text = L.header(("Props.C29_model", "Props.C12_model")) + \
                "\n".join(em.lines) + "\n\n" + "\n".join(body) + "\n"
            path = os.path.join(vlib.GEN, f"C12_cases_{shard}.v")
            vlib.write_if_changed(path, text)
            em_files.append(path)
            shard += 1
        body, em, npairs = [], L.Emitter(), 0

    for k, ca, cb, inclass_flag, changes in coq_pairs:
        A, B = data[ca][k], data[cb][k]
        ta = [tuplify(t) for t in A["trees"]]
        tb = [tuplify(t) for t in B["trees"]]
        accA = {x: set() for x in "ICLKM"}
        accB = {x: set() for x in "ICLKM"}
        for t in ta:
            tree_counts(t, accA)
        for t in tb:
            tree_counts(t, accB)
        delta = {}
        ok = len(ta) == len(tb)
        for x in "ICLKM":
            if accA[x] and accB[x]:
                delta[x] = min(accB[x]) - min(accA[x])
            else:
                delta[x] = 0
            if delta[x] < 0:
                ok = False
        if not ok:
            continue
        phi = "(shift5 %s %s %s %s %s)" % tuple(em.num(delta[x]) for x in "ICLKM")
        if A["sig"] == B["sig"] and not inclass_flag:
            nonclass += 1
            for j, (x, y) in enumerate(zip(ta, tb)):
                body.append(f"Example r{k}_{cb[0]}_{j} : rename {phi} {em.name(x)} = {em.name(y)} /\\ "
                            f"canon {em.name(x)} = canon {em.name(y)}.\n"
                            "Proof. split; vm_compute; reflexivity. Qed.")
        elif inclass_flag:
            inclass += 1
            ch = changes[0]
            # replay the refutation on the real repr pieces of the two terminals (model's decimal printer)
            pa1, pa2, pb1, pb2 = ch["pieces"]

            def leaf(ps):
                return em.name(("L", ch["typecode"], ("R", ps)))
            body.append(f"Example o{k}_{cb[0]} : negb (ceqb (cmp {leaf(pa1)} {leaf(pa2)}) (cmp {leaf(pb1)} {leaf(pb2)})) = true /\\ "
                        f"rename {phi} {leaf(pa1)} = {leaf(pb1)} /\\ rename {phi} {leaf(pa2)} = {leaf(pb2)}.\n"
                        "Proof. repeat split; vm_compute; reflexivity. Qed.")
        npairs += 1
        if npairs >= per_file:
            flush()
    flush()
    k = len(em_files)
    while os.path.exists(os.path.join(vlib.GEN, f"C12_cases_{k}.v")):
        os.remove(os.path.join(vlib.GEN, f"C12_cases_{k}.v"))
        k += 1

    hand = vlib.coqc("Props/C12_model.v")
    run.add_coq_result(hand)
    if not hand.ok:
        run.violation({"broken": "coq/Props/C12_model.v does not compile", "error": hand.err[-1500:]}, False)
    coq_fail = []
    for res in vlib.coqc_many(em_files):
        run.add_coq_result(res)
        if not res.ok:
            coq_fail.append((os.path.basename(res.path), res.failing_lemma(), (res.err or "")[-400:]))

    # -- verdict
    for kind, rec in viol[:6]:
        rec = dict(rec)
        rec["violated"] = kind
        run.violation(rec, True)
    if build_errors and not viol:
        run.violation({"broken": "build scripts raised on the tree under test", "errors": build_errors[:3]}, False)
    if coq_fail and not viol:
        run.violation({"broken": "the rebuilt forms are not the model's `rename (shift ...)` of each other "
                                 "(or their canonical renumberings differ) although the signatures agree",
                       "failing_coq_examples": coq_fail[:5]}, False)
    kf = known.get("repr-order-of-counters")
    if known_inst:
        w = known_inst[0]
        kinds = sorted({r["kind"] for r in known_inst})
        run.known(f"signature depends on the global counters: {len(known_inst)} (script, configuration) pairs differ, "
                  f"all in the class 'two repr-ordered terminals change their repr order' (kinds {kinds}); e.g. script "
                  f"{w['script']} at advance {w['config_A']['advance']} vs {w['config_B']['advance']}: "
                  f"{w['order_changes'][0]['terminal_1'][1][-24:]} vs {w['order_changes'][0]['terminal_2'][1][-24:]}; "
                  "model theorems C12_cmp_rename_refuted, C12_sig_invariant_refuted")
    run.extra["known_class_instances"] = len(known_inst)
    run.extra["configurations"] = {"advances": ADVANCES, "hashseeds": seeds, "scripts": nscripts,
                                   "kinds": sorted({data[base][k].get("kind") for k in range(nscripts)} - {None})}
    run.extra["coq_pairs"] = {"renamed_exactly": nonclass, "order_change_replayed": inclass}
    for k in range(min(4, nscripts)):
        if "error" not in data[base][k]:
            run.sample({"script": k, "kind": data[base][k]["kind"], "form": data[base][k]["str"][:200],
                        "signature": data[base][k]["sig"][:16]})
    run.trusted.update([
        "Coq 8.16.1 kernel (coqc), vm_compute",
        "py/C12_build.py: the build scripts draw every choice from (seed, k) only; the counters are advanced by "
        "creating and discarding objects in a forked child of a fresh interpreter",
        "py/C29_lib.py mapping of expressions to the model's trees (shared with C29)",
        "SHA-512 / str() are an arbitrary function H in the invariance theorem and an injective one in the refutation",
        "T3: the agreement rename(model) = rebuilt form(code) is sampled on the generated scripts, not proved",
    ])
    return run.finish(
        rule="case = (build script, advance, PYTHONHASHSEED); distinct = configurations other than the base one; "
             "Coq obligations = hand theorems + one Example per integrand of a compared pair of configurations",
        assumptions=["renamings are strictly monotone per counter class (creation order is the same)",
                     "partial class: no counter inside a repr-compared terminal (no Constant, one mesh)"])


def replay(run, data):
    print(data)
    return 0
