"""C17 - Restriction propagation preserves two-sided integrands.

Hand-written (coq/Props/C17_model.v): model `propagate` of RestrictionPropagator, parametric in
the rule table, and the theorems C17_value / C17_once / C17_rejects (+ the refuted half
C17_defaults_off_accepts_missing), all by induction over all expressions.

Ties to /repo, every run:
 T1  the rule table (terminal class -> handler, literal/operator/Grad/Variable/Restricted/
     ReferenceValue handlers) is read off the RestrictionPropagator class by introspection of the
     dispatch MultiFunction performs, written to coq/Gen/C17_table.v, and Coq checks the table
     properties the theorems quantify over (every ignored / default-restricted class is side
     independent per the stated classification, only FacetNormal flips, every terminal class has a
     rule) and instantiates the theorems at the extracted table (C17_value_real, ...).
 T3  exhaustive behaviour table of the terminal rules: for every terminal class x current
     restriction (none,+,-) x default restriction (None, {mesh: None/'+'/'-'}) x variants
     (H1 / L2 coefficient, affine / manifold / quadratic mesh for the normal) the REAL
     apply_restrictions is run and Coq checks  propagate table ... input = OK output / Error
     structurally (coq/Gen/C17_rules_*.v).
 T2  generated interior-facet integrands: the REAL apply_restrictions output is proved to have
     the two-sided value of the input for all terminal values satisfying the continuity laws,
     and to satisfy the syntactic `once_ok` predicate; double / missing restrictions must raise."""

import itertools
import os
import random
import warnings

import ufl
from ufl.algorithms.apply_restrictions import RestrictionPropagator, apply_restrictions
from ufl.corealg.multifunction import MultiFunction
from ufl.pullback import identity_pullback
from ufl.sobolevspace import H1, L2

import coqgen
import elements
import ufl2coq
import uflgen
import vlib

warnings.filterwarnings("ignore", message="Returning zero from jump")

HAND_FILES = ["Props/C17_model.v"]

# the classification of the statement: terminal kinds that have the same value on both sides of
# a facet (must agree with sindep_kind of coq/Props/C17_model.v; checked below)
SIDE_INDEPENDENT = [
    "Constant", "FacetCoordinate", "QuadratureWeight", "ReferenceCellVolume", "ReferenceFacetVolume",
    "SpatialCoordinate", "FacetJacobian", "FacetJacobianDeterminant", "FacetJacobianInverse",
    "FacetArea", "MinFacetEdgeLength", "MaxFacetEdgeLength", "FacetOrigin",
]
NKINDS = 64
K_FN = ufl2coq.KIND_OF_GEOMETRY["FacetNormal"]

RULES = {"_ignore_restriction": "HIgnore", "_require_restriction": "HRequire",
         "_default_restricted": "HDefault", "_opposite": "HOpposite", "_missing_rule": "HMissing",
         "coefficient": "HCoefficient", "facet_normal": "HFacetNormal"}


CONT = {}     # Coefficient count -> continuous across facets (harness classification, not `in H1`)


def coefficient(space, cont):
    f = ufl.Coefficient(space)
    CONT[f.count()] = bool(cont)
    return f


class BrokenTie(Exception):
    pass


def handler_of(cls):
    """Name of the RestrictionPropagator attribute MultiFunction dispatches `cls` to, and the rule
    function it is (by identity)."""
    rp = RestrictionPropagator()
    bound = rp._handlers[cls._ufl_typecode_]
    fn = getattr(bound, "__func__", bound)
    for name, h in RULES.items():
        if fn is getattr(RestrictionPropagator, name):
            return h
    if fn is MultiFunction.reuse_if_untouched:
        return "reuse"
    for name in ("variable", "restricted", "reference_value"):
        if fn is getattr(RestrictionPropagator, name):
            return name
    if fn is MultiFunction.undefined:
        return "undefined"
    return "other:" + getattr(fn, "__name__", "?")


def extract_table():
    import ufl.classes as C
    tab = {}
    tab[0] = handler_of(C.Coefficient)
    tab[1] = handler_of(C.Argument)
    tab[2] = handler_of(C.Constant)
    for name, k in ufl2coq.KIND_OF_GEOMETRY.items():
        tab[k] = handler_of(getattr(C, name))
    for k, h in tab.items():
        if not h.startswith("H"):
            raise BrokenTie(f"terminal kind {k} is dispatched to '{h}', not to one of the modelled rules")
    lits = {n: handler_of(getattr(C, n)) for n in
            ("Zero", "IntValue", "FloatValue", "ComplexValue", "Identity", "PermutationSymbol")}
    if len(set(lits.values())) != 1 or not list(lits.values())[0].startswith("H"):
        raise BrokenTie(f"literal classes have different / unmodelled handlers: {lits}")
    ops = {}
    for n in ("Sum", "Product", "Division", "Power", "Abs", "Conj", "Real", "Imag", "Indexed", "IndexSum",
              "ComponentTensor", "ListTensor", "Conditional", "MinValue", "MaxValue", "Sqrt", "Exp", "Ln", "Cos",
              "Sin", "Tan", "Cosh", "Sinh", "Tanh", "Acos", "Asin", "Atan", "Erf", "Atan2", "BesselJ", "BesselY",
              "BesselI", "BesselK", "ReferenceGrad", "EQ", "NE", "LT", "GT", "LE", "GE", "AndCondition",
              "OrCondition", "NotCondition", "Dot", "Inner", "Outer"):
        ops[n] = handler_of(getattr(C, n))
    special = {"Variable": handler_of(C.Variable), "PositiveRestricted": handler_of(C.PositiveRestricted),
               "NegativeRestricted": handler_of(C.NegativeRestricted), "Grad": handler_of(C.Grad),
               "ReferenceValue": handler_of(C.ReferenceValue), "MultiIndex": handler_of(C.MultiIndex),
               "Label": handler_of(C.Label)}
    return tab, list(lits.values())[0], ops, special


OPCODE = {"reuse": 0, "variable": 1, "restricted": 2, "HRequire": 3, "reference_value": 4, "HIgnore": 5}
EXPECTED_SPECIAL = {"Variable": "variable", "PositiveRestricted": "restricted", "NegativeRestricted": "restricted",
                    "Grad": "HRequire", "ReferenceValue": "reference_value", "MultiIndex": "HIgnore",
                    "Label": "HIgnore"}


def table_file(tab, lit, ops, special):
    arms = "".join(f"  | {k} => {h}\n" for k, h in sorted(tab.items()))
    kinds = "[" + "; ".join(str(k) for k in sorted(tab)) + "]"
    sind = "[" + "; ".join(str(2 if n == "Constant" else ufl2coq.KIND_OF_GEOMETRY[n]) for n in SIDE_INDEPENDENT) + "]"
    opl = "[" + "; ".join(f"({OPCODE.get(h, 9)}, 0)" for n, h in ops.items()) + "]"
    spl = "[" + "; ".join(f"({OPCODE.get(special[n], 9)}, {OPCODE[EXPECTED_SPECIAL[n]]})" for n in EXPECTED_SPECIAL) + "]"
    return f'''(* GENERATED from {vlib.REPO}/ufl/algorithms/apply_restrictions.py by py/props/C17.py (tie T1): the
   dispatch table of RestrictionPropagator, and the theorems of Props/C17_model.v at this table. *)
Require Import UFLV.Core.Den.
Require Import UFLV.Props.C17_model.
Require Import Lia.

Definition table (k : nat) : handler :=
  match k with
{arms}  | _ => HMissing
  end.
Definition lit_h : handler := {lit}.
Definition known_kinds : list nat := {kinds}.
(* operator classes: (handler code found, handler code the model assumes) *)
Definition op_handlers : list (nat * nat) := {opl}.
Definition special_handlers : list (nat * nat) := {spl}.

Example lit_ignored : lit_h = HIgnore. Proof. reflexivity. Qed.
Example operators_rebuild : forallb (fun p => Nat.eqb (fst p) (snd p)) op_handlers = true. Proof. reflexivity. Qed.
Example special_nodes : forallb (fun p => Nat.eqb (fst p) (snd p)) special_handlers = true. Proof. reflexivity. Qed.
Example classification_is_the_stated_one : sindep_list = {sind}. Proof. reflexivity. Qed.
(* every class the table ignores or default-restricts is side independent per the classification *)
Example table_sound : forallb (fun k => match table k with HIgnore | HDefault => sindep_kind k | _ => true end)
                              (seq 0 {NKINDS}) = true. Proof. vm_compute. reflexivity. Qed.
(* every side-dependent class gets a rule that restricts it (or no rule at all: ridge quantities are rejected) *)
Example table_restricts : forallb (fun k => if sindep_kind k then true else
                                match table k with HRequire | HCoefficient | HFacetNormal | HMissing => true | _ => false end)
                              known_kinds = true. Proof. vm_compute. reflexivity. Qed.
(* only the facet normal is flipped, only coefficients use the continuity special case *)
Example table_flip : forallb (fun k => match table k with HFacetNormal | HOpposite => Nat.eqb k {K_FN} | _ => true end)
                              (seq 0 {NKINDS}) = true. Proof. vm_compute. reflexivity. Qed.
Example table_coef : forallb (fun k => match table k with HCoefficient => Nat.eqb k 0 | _ => true end)
                              (seq 0 {NKINDS}) = true. Proof. vm_compute. reflexivity. Qed.
Example table_coefficient_rule : table 0 = HCoefficient. Proof. reflexivity. Qed.
Example table_normal_rule : table {K_FN} = HFacetNormal. Proof. reflexivity. Qed.

Lemma table_default k : {NKINDS} <= k -> table k = HMissing.
Proof. intros H. do {NKINDS} (destruct k as [|k]; [lia|]). reflexivity. Qed.

(* the single check the theorems need (sound classes, no direct _opposite, coefficient / normal
   special cases only for kinds 0 / {K_FN}) *)
Example table_ok : forallb (table_ok_at table {K_FN}) (seq 0 {NKINDS}) = true.
Proof. vm_compute. reflexivity. Qed.

(* THE THEOREMS AT THE TABLE OF THE CURRENT SOURCE *)
Theorem C17_value_real (cont : nat -> bool) (aff : bool) dr nidx (A : ualg)
  (env : side -> nat -> nat -> list nat -> A) D DX ki :
  (* continuity laws of the statement *)
  (forall k id, sindep_kind k = true \\/ (k = 0 /\\ cont id = true) ->
     forall s s' c, env s k id c = env s' k id c) ->
  (aff = true -> forall id c, env (Some false) {K_FN} id c = kopp (env (Some true) {K_FN} id c)) ->
  forall e e' c, propagate table lit_h cont aff dr nidx None e = OK e' ->
  adm table cont aff (length c) e = true ->
  forall rho, @den A env D DX ki None rho e' c = @den A env D DX ki None rho e c.
Proof.
  intros Hc Hn e e' c. apply C17_value.
  - reflexivity.
  - intros k id H. apply Hc. apply (proj1 (resolve_cases table cont aff {NKINDS} {K_FN} table_default table_ok k id) H).
  - intros k id H. destruct (proj2 (resolve_cases table cont aff {NKINDS} {K_FN} table_default table_ok k id) H) as [-> Ha]. apply Hn. exact Ha.
Qed.

Theorem C17_once_real cont aff r nidx e e' n :
  propagate table lit_h cont aff (Some (Some r)) nidx None e = OK e' ->
  adm table cont aff n e = true -> once_ok table cont aff e' = true.
Proof. apply (C17_once table lit_h cont aff (Some (Some r)) nidx eq_refl r eq_refl). Qed.

Theorem C17_rejects_real cont aff r nidx e :
  bad table cont aff true false e = true -> is_err (propagate table lit_h cont aff (Some (Some r)) nidx None e).
Proof. apply C17_rejects_missing. Qed.

Print Assumptions C17_value_real.
Print Assumptions C17_once_real.
Print Assumptions C17_rejects_real.
'''


# ----------------------------------------------------------------------------------------------
# meshes and terminals

_MESHES = None
# mesh variants; the flag "affine non-manifold" (coordinate degree <= 1, continuous, gdim = tdim) is part of
# the harness's description of the mesh, NOT computed with the code under test
MESH_AFFINE_NM = {"affine": True, "manifold": False, "quadratic": False, "extruded": True}


def meshes():
    global _MESHES
    if _MESHES is None:
        from ufl.cell import TensorProductCell
        tri = ufl.triangle
        prism = TensorProductCell(ufl.triangle, ufl.interval)
        _MESHES = {
            "affine": ufl.Mesh(elements.LagrangeElement(tri, 1, (2,))),
            "manifold": ufl.Mesh(elements.LagrangeElement(tri, 1, (3,))),
            "quadratic": ufl.Mesh(elements.LagrangeElement(tri, 2, (2,))),
            "extruded": ufl.Mesh(elements.LagrangeElement(prism, 1, (3,))),
        }
    return _MESHES


def is_affine_nm(mesh):
    for name, m in meshes().items():
        if m is mesh:
            return MESH_AFFINE_NM[name]
    raise KeyError(mesh)


def sobolev_variants(extruded):
    """(label, Sobolev space of the element, continuous across facets? -- the STATEMENT's classification:
    a coefficient is continuous iff its space is contained in H1 in every direction)"""
    import ufl.sobolevspace as S
    out = [("H1", S.H1, True), ("L2", S.L2, False), ("H2", S.H2, True), ("HInf", S.HInf, True),
           ("H1Div", S.H1Div, True), ("H1Curl", S.H1Curl, True), ("HDiv", S.HDiv, False),
           ("HCurl", S.HCurl, False), ("HEin", S.HEin, False), ("HDivDiv", S.HDivDiv, False),
           ("HCurlDiv", S.HCurlDiv, False)]
    if extruded:
        for orders in [(1, 1, 1), (2, 2, 1), (1, 1, 0), (0, 0, 1), (0, 1, 1), (1, 0, 1), (0, 0, 0), (2, 2, 0)]:
            out.append(("Dir" + "".join(map(str, orders)), S.DirectionalSobolevSpace(orders), min(orders) >= 1))
    return out


def terminals_of(mesh):
    """(label, terminal, continuous?) for every terminal class of ufl2coq.KINDS on this mesh"""
    import ufl.classes as C
    cell = mesh.ufl_cell()
    out = []
    for sname, space, cont in sobolev_variants(mesh is meshes()["extruded"]):
        el = elements.FiniteElement("E" + sname, cell, 1, (), identity_pullback, space)
        out.append(("Coefficient-" + sname, coefficient(ufl.FunctionSpace(mesh, el), cont), cont))
    out.append(("Argument", ufl.Argument(ufl.FunctionSpace(mesh, elements.LagrangeElement(cell, 1)), 0), True))
    out.append(("Constant", ufl.Constant(mesh), True))
    for name in ufl2coq.GEOMETRY_KINDS:
        try:
            t = getattr(C, name)(mesh)
            t.ufl_shape
        except Exception:
            continue
        out.append((name, t, True))
    return out


DRS = [("none", None), ("dNone", "None"), ("dplus", "+"), ("dminus", "-")]
DR_COQ = {"none": "None", "dNone": "(Some None)", "dplus": "(Some (Some true))", "dminus": "(Some (Some false))"}


def run_real(e, mesh, drname):
    dr = dict(DRS)[drname]
    d = None if dr is None else {mesh: (None if dr == "None" else dr)}
    try:
        return apply_restrictions(e, default_restrictions=d), None
    except (ValueError, RuntimeError) as ex:
        return None, f"{type(ex).__name__}: {ex}"


def find_nidx(out, ctx):
    """number (in ctx) of the index the implementation used for  -n(r)  (0 if none)"""
    from ufl.classes import ComponentTensor
    from ufl.corealg.traversal import unique_pre_traversal
    for o in unique_pre_traversal(out):
        if isinstance(o, ComponentTensor):
            a = o.ufl_operands[0]
            if type(a).__name__ == "Product" and type(a.ufl_operands[0]).__name__ == "IntValue" \
                    and type(a.ufl_operands[1]).__name__ == "Indexed" \
                    and isinstance(a.ufl_operands[1].ufl_operands[0], ufl.classes.Restricted):
                return ctx.index(o.ufl_operands[1][0].count())
    return 0


def rules_examples():
    """T3: exhaustive behaviour table of the terminal rules."""
    lines, info = [], []
    n = 0
    for mname, mesh in meshes().items():
        aff = "true" if is_affine_nm(mesh) else "false"
        for label, t, cont in terminals_of(mesh):
            if mname != "affine" and not (label in ("FacetNormal", "SpatialCoordinate", "Jacobian", "FacetArea")
                                          or label in ("Coefficient-H1", "Coefficient-L2")
                                          or (mname == "extruded" and label.startswith("Coefficient-"))):
                continue
            for cur in (None, "+", "-"):
                for drname, _ in DRS:
                    inp = t if cur is None else t(cur)
                    out, err = run_real(inp, mesh, drname)
                    ctx = ufl2coq.Ctx()
                    ser = ufl2coq.Ser(ctx, prefix=f"r{n}_n", share=False)
                    ti = ser.expr(inp)
                    # the implementation may be MORE conservative than the statement (demand a restriction of
                    # a continuous coefficient); it must never treat a discontinuous one as continuous
                    code_h1 = label.startswith("Coefficient-") and (t.ufl_element() in H1)
                    is_cont = "true" if (label.startswith("Coefficient-") and cont and code_h1) else "false"
                    nm = f"rule_{n}"
                    if out is not None:
                        to = ser.expr(out)
                        nidx = find_nidx(out, ctx)
                        lines.append(
                            f"(* {mname} mesh, {label}, current={cur}, default={drname} *)\n"
                            f"Example {nm} : propagate table lit_h (fun _ => {is_cont}) {aff} {DR_COQ[drname]} {nidx} None "
                            f"{ti} = OK {to}.\nProof. vm_compute. reflexivity. Qed.\n")
                    else:
                        lines.append(
                            f"(* {mname} mesh, {label}, current={cur}, default={drname}: raises {err[:80]} *)\n"
                            f"Example {nm} : match propagate table lit_h (fun _ => {is_cont}) {aff} {DR_COQ[drname]} 0 None "
                            f"{ti} with Error _ => true | OK _ => false end = true.\nProof. vm_compute. reflexivity. Qed.\n")
                    info.append({"lemma": nm, "mesh": mname, "terminal": label, "current": cur, "default": drname,
                                 "input": str(inp), "output": str(out) if out is not None else None, "raised": err,
                                 "_inp": inp, "_out": out, "_affine": aff == "true",
                                 "_cont": bool(label.startswith("Coefficient-") and cont)})
                    n += 1
    return lines, info


# ----------------------------------------------------------------------------------------------
# T2: generated interior facet integrands

class Pool:
    """Terminals of one mesh.  Coefficients are registered in every case's Ctx in this order, so
    that `coefficient id < NCONT` means continuous (H1) in the hypotheses of the generated files."""

    def __init__(self, mesh):
        cell = mesh.ufl_cell()
        g = mesh.geometric_dimension
        S = lambda el: ufl.FunctionSpace(mesh, el)    # noqa: E731
        self.mesh, self.g = mesh, g
        self.cg = coefficient(S(elements.LagrangeElement(cell, 1)), True)
        self.vcg = coefficient(S(elements.LagrangeElement(cell, 2, (g,))), True)
        self.dg = coefficient(S(elements.FiniteElement("DG", cell, 1, (), identity_pullback, L2)), False)
        self.vdg = coefficient(S(elements.FiniteElement("DG", cell, 1, (g,), identity_pullback, L2)), False)
        self.coefs = [self.cg, self.vcg, self.dg, self.vdg]
        self.dd = None
        if mesh is meshes()["extruded"]:
            # continuous horizontally, discontinuous vertically: two values on a horizontal facet
            from ufl.sobolevspace import DirectionalSobolevSpace
            self.dd = coefficient(S(elements.FiniteElement("CGxDG", cell, 1, (), identity_pullback,
                                                           DirectionalSobolevSpace((1, 1, 0)))), False)
            self.coefs.append(self.dd)
        self.v = ufl.Argument(S(elements.LagrangeElement(cell, 1)), 0)
        self.c = ufl.Constant(mesh)
        self.x = ufl.SpatialCoordinate(mesh)
        self.n = ufl.FacetNormal(mesh)
        self.h = ufl.CellVolume(mesh)
        self.hd = ufl.CellDiameter(mesh)
        self.fa = ufl.FacetArea(mesh)
        self.J = ufl.Jacobian(mesh)


NCONT = 2


def ctx_for(pool):
    ctx = ufl2coq.Ctx()
    for f in pool.coefs:
        ctx.term(f)
    return ctx


def gen_side_scalar(p, rng, depth):
    """scalar expression without restrictions, to be restricted as a whole"""
    i = rng.randrange(p.g)
    leaves = [lambda: p.dg, lambda: p.cg, lambda: p.v, lambda: p.vdg[i], lambda: p.vcg[i], lambda: p.h,
              lambda: p.hd, lambda: p.x[i], lambda: p.c, lambda: p.n[i], lambda: ufl.grad(p.cg)[i],
              lambda: ufl.grad(p.dg)[i], lambda: ufl.grad(p.vcg)[i, (i + 1) % p.g], lambda: p.fa,
              lambda: p.J[i, 0], lambda: ufl.as_ufl(rng.choice([2, 3, 0.5])), lambda: ufl.dot(p.n, p.vdg),
              lambda: ufl.dot(ufl.grad(p.dg), p.n), lambda: ufl.variable(p.dg)]
    if depth <= 0:
        return rng.choice(leaves)()
    k = rng.randrange(9)
    a = gen_side_scalar(p, rng, depth - 1)
    b = gen_side_scalar(p, rng, depth - 1)
    if k == 0:
        return a + b
    if k == 1:
        return a * b
    if k == 2:
        d = rng.choice(leaves)()
        return a / (d * d + 2)
    if k == 3:
        return ufl.sin(a) * b
    if k == 4:
        return ufl.conditional(ufl.lt(a, b), a, b + 1)
    if k == 5:
        return ufl.as_vector([a, b])[rng.randrange(2)] - a
    if k == 6:
        return abs(a) + b ** 2
    if k == 7:
        j = ufl.Index()
        return p.vdg[j] * p.n[j] * a
    return a - b


def gen_top(p, rng, depth):
    """properly restricted scalar interior-facet integrand"""
    i = rng.randrange(p.g)
    cont_leaves = [lambda: p.cg, lambda: p.x[i], lambda: p.c, lambda: p.fa, lambda: p.vcg[i],
                   lambda: ufl.as_ufl(rng.choice([2, 0.25]))]
    if depth <= 0 or rng.random() < 0.3:
        k = rng.randrange(6)
        if k == 0:
            return rng.choice(cont_leaves)()
        s = gen_side_scalar(p, rng, rng.randrange(2))
        if k == 1:
            return s("+")
        if k == 2:
            return s("-")
        if k == 3:
            return ufl.jump(s)
        if k == 4:
            return ufl.avg(s)
        return ufl.jump(p.vdg, p.n) * s("-")
    a, b = gen_top(p, rng, depth - 1), gen_top(p, rng, depth - 1)
    k = rng.randrange(6)
    if k == 0:
        return a + b
    if k == 1:
        return a * b
    if k == 2:
        d = rng.choice(cont_leaves)()
        return a / (d * d + 1)
    if k == 3:
        return ufl.conditional(ufl.gt(a, b), a, b)
    if k == 4:
        return ufl.exp(a) - b
    return ufl.as_vector([a, b, a * b])[rng.randrange(3)]


def fixed_integrands(p):
    n, x, dg, cg, v, vdg, vcg = p.n, p.x, p.dg, p.cg, p.v, p.vdg, p.vcg
    i = ufl.Index()
    return [
        ufl.jump(dg) * ufl.avg(v) * cg,
        ufl.dot(ufl.jump(vdg), n("+")) * v("-") + x[0] * cg * dg("+") * v("+"),
        ufl.dot(ufl.avg(ufl.grad(dg)), n("-")) * ufl.jump(v),
        (dg * ufl.dot(vdg, n))("-") * v("+"),
        ufl.jump(vdg, n) * p.c * p.fa,
        (p.h("+") + p.h("-")) / 2 * ufl.dot(ufl.grad(cg)("+"), n("+")) * v("-"),
        ufl.dot(ufl.grad(vcg)("-") * n("-"), n("+")) * cg,
        (vdg[i] * n[i])("-") * (vdg[i] * n[i])("+"),
        ufl.conditional(ufl.gt(dg("+"), dg("-")), dg("+"), dg("-")) * x[1] * v("+"),
        ufl.as_vector([dg("+"), cg, dg("-") * n("-")[0]])[2] * v("-"),
        ufl.variable(dg * cg)("-") * v("+"),
        (p.J[0, 0] * p.hd)("+") * (p.J[1, 0] * ufl.sqrt(p.h))("-") * v("+"),
        (cg + x[0] + p.c) * p.fa,
        abs(ufl.jump(dg)) ** 2 * ufl.avg(v) + ufl.sin(cg("-")) * v("+"),
    ] + ([] if p.dd is None else [
        p.dd("+") * v("-") * cg,
        ufl.jump(p.dd) * ufl.avg(v) + p.dd("-") * x[2] * v("+"),
        (p.dd * dg)("-") * ufl.dot(vdg("+"), n("+")) * v("+"),
    ])


def t2_header():
    sind = " || ".join(f"Nat.eqb k {2 if n == 'Constant' else ufl2coq.KIND_OF_GEOMETRY[n]}" for n in SIDE_INDEPENDENT)
    return f'''Set Warnings "-require-in-section".
Require Import UFLV.Props.C17_model.
Require Import UFLV.Gen.C17_table.
(* continuity laws of the statement (hypotheses of every obligation in this file) *)
Hypothesis Hsi : forall k id c s s', sindep_kind k = true -> env s k id c = env s' k id c.
Hypothesis Hcg : forall id c s s', Nat.ltb id {NCONT} = true -> env s 0 id c = env s' 0 id c.
Variable affine_mesh : bool.
Hypothesis Hn : affine_mesh = true -> forall id c, env (Some false) {K_FN} id c = opp (env (Some true) {K_FN} id c).
Ltac canon1 Ha :=
  match goal with
  | |- context [env (Some ?p) ?k ?id ?c] =>
      first [ rewrite (Hsi k id c (Some p) None) by reflexivity
            | rewrite (Hcg id c (Some p) None) by reflexivity ]
  | |- context [env (Some false) {K_FN} ?id ?c] => rewrite (Hn Ha id c)
  end.
(* make ring-equal arguments of uninterpreted symbols (and denominators) syntactically equal,
   innermost first, so that ring sees the same atoms on both sides *)
Ltac try_unify X Y := lazymatch X with Y => fail | _ => replace X with Y by ring end.
Ltac u1 :=
  match goal with
  | |- context [abs ?X] => match goal with |- context [abs ?Y] => try_unify X Y end
  | |- context [fn ?f ?X] => match goal with |- context [fn f ?Y] => try_unify X Y end
  | |- context [conj ?X] => match goal with |- context [conj ?Y] => try_unify X Y end
  | |- context [re ?X] => match goal with |- context [re ?Y] => try_unify X Y end
  | |- context [im ?X] => match goal with |- context [im ?Y] => try_unify X Y end
  | |- context [Dx ?j ?X] => match goal with |- context [Dx j ?Y] => try_unify X Y end
  | |- context [DX ?j ?X] => match goal with |- context [DX j ?Y] => try_unify X Y end
  | |- context [div ?A ?X] => match goal with |- context [div ?B ?Y] => first [try_unify X Y | try_unify A B] end
  | |- context [pow ?X ?P] => match goal with |- context [pow ?Y ?Q] => first [try_unify X Y | try_unify P Q] end
  | |- context [atan2 ?X ?P] => match goal with |- context [atan2 ?Y ?Q] => first [try_unify X Y | try_unify P Q] end
  | |- context [min_ ?X ?P] => match goal with |- context [min_ ?Y ?Q] => first [try_unify X Y | try_unify P Q] end
  | |- context [max_ ?X ?P] => match goal with |- context [max_ ?Y ?Q] => first [try_unify X Y | try_unify P Q] end
  | |- context [cmp ?o ?X ?P] => match goal with |- context [cmp o ?Y ?Q] => first [try_unify X Y | try_unify P Q] end
  | |- context [cond_ ?B ?X ?P] => match goal with |- context [cond_ ?C ?Y ?Q] => first [try_unify X Y | try_unify P Q] end
  end.
Ltac close17 := intros Ha; norm_goal; repeat canon1 Ha;
  first [ reflexivity | ring | repeat u1; first [ reflexivity | ring ] ].
'''


class RCase(coqgen.Case):
    """value obligation + the syntactic normal form the configuration promises:
    pred="once" (default restriction configured), "prop" (propagation without defaults), None"""

    def __init__(self, name, out, inp, pool, aff, note, once=True, pred=None):
        super().__init__(name, out=out, inp=inp, hyps=[f"affine_mesh = {aff}"], note=note, ctx=ctx_for(pool),
                         tactic="close17", side="None")
        self.aff = aff
        self.pred = pred if pred is not None else ("once" if once else None)

    def emit(self):
        txt = super().emit()
        # the generic emitter introduces hypotheses itself; close17 does its own intros
        txt = txt.replace("Proof. intros H0; try norm_hyp H0; close17. Qed.", "Proof. close17. Qed.")
        if self.pred == "once":
            txt += (f"Example {self.name}_once : once_ok table (fun id => Nat.ltb id {NCONT}) {self.aff} "
                    f"{self.name}_out = true.\nProof. vm_compute. reflexivity. Qed.\n")
            self.lemmas.append(f"{self.name}_once")
        elif self.pred == "prop":
            txt += (f"Example {self.name}_prop : prop_ok table (fun id => Nat.ltb id {NCONT}) {self.aff} "
                    f"{self.name}_out = true.\nProof. vm_compute. reflexivity. Qed.\n")
            self.lemmas.append(f"{self.name}_prop")
        return txt


def build_t2(run):
    cases = []
    ms = meshes()
    rng = random.Random(7000 + run.seed)
    nrand = 24 if run.tier == "quick" else 160
    plan = []
    for mname in ("affine", "manifold", "quadratic"):
        p = Pool(ms[mname])
        for k, e in enumerate(fixed_integrands(p)):
            plan.append((f"F_{mname}_{k}", p, mname, e, "fixed"))
    pa, pm = Pool(ms["affine"]), Pool(ms["manifold"])
    for k in range(nrand):
        p, mname = (pa, "affine") if k % 4 else (pm, "manifold")
        plan.append((f"G_{mname}_{k}", p, mname, gen_top(p, rng, rng.choice([1, 1, 2])), "generated"))
    raised = []
    for nm, p, mname, e, cls in plan:
        aff = "true" if is_affine_nm(p.mesh) else "false"
        for drname in ("dplus", "none") if (cls == "fixed" and mname == "affine") else ("dplus",):
            out, err = run_real(e, p.mesh, drname)
            note = {"class": cls, "mesh": mname, "default": drname, "integrand": str(e)[:300]}
            if out is None:
                raised.append((nm, e, p, drname, err))
                continue
            cases.append(RCase(f"{nm}_{drname}", out, e, p, aff, note, pred="once" if drname == "dplus" else "prop"))
    # the same through the form pipeline (compute_form_data), for EVERY interior-facet integral type
    for mname, mlabel, measure in PIPE_MEASURES:
        p = Pool(ms[mname])
        aff = "true" if is_affine_nm(p.mesh) else "false"
        for k, e in enumerate(fixed_integrands(p)):
            if mlabel == "dS_v" and k % 2 and k < 14 and run.tier == "quick":
                continue
            combos = FLAG_COMBOS if (k in (0, 3, 8, 12) or run.tier == "thorough") else FLAG_COMBOS[:1]
            for restr, defaults in combos:
                nm = f"P_{mlabel}_{k}_r{int(restr)}d{int(defaults)}"
                call = (f"compute_form_data(integrand*{mlabel}, do_apply_restrictions={restr}, "
                        f"do_apply_default_restrictions={defaults})")
                # what each combination promises: propagation + defaults -> `once`; propagation only ->
                # restrictions moved onto terminals (prop_ok); no propagation -> value only
                pred = ("once" if defaults else "prop") if restr else "value"
                note = {"class": "pipeline", "mesh": mname, "measure": mlabel,
                        "default": "dplus" if (restr and defaults) else "none",
                        "integrand": str(e)[:300], "call": call, "promise": pred}
                out, itype, err = pipeline_integrand(e, measure, defaults, restr)
                if out is None:
                    raised.append((nm, e, p, call, err))
                    continue
                note["integral_type"] = itype
                cases.append(RCase(nm, out, e, p, aff, note, once=False, pred=None if pred == "value" else pred))
    return cases, raised


# (do_apply_restrictions, do_apply_default_restrictions)
FLAG_COMBOS = [(True, True), (True, False), (False, True), (False, False)]
PIPE_MEASURES = [("affine", "dS", ufl.dS), ("extruded", "dS_h", ufl.dS_h), ("extruded", "dS_v", ufl.dS_v)]


def pipeline_integrand(e, measure, defaults=True, restr=True):
    """integrand of the single integral of compute_form_data(e*measure) (no pullbacks / scaling / geometry
    lowering: algebra lowering, derivatives and restriction propagation only)"""
    from ufl.algorithms import compute_form_data
    try:
        fd = compute_form_data(e * measure, do_apply_default_restrictions=defaults, do_apply_restrictions=restr)
    except KeyboardInterrupt:
        raise
    except BaseException as ex:      # ArityMismatch derives from BaseException
        return None, None, f"{type(ex).__name__}: {ex}"
    itgs = [(d.integral_type, i) for d in fd.integral_data for i in d.integrals]
    if len(itgs) != 1:
        return None, None, f"expected one integral, got {len(itgs)}"
    return itgs[0][1].integrand(), itgs[0][0], None


def pipeline_rejections():
    """missing / double restrictions must be rejected by compute_form_data for every interior-facet type"""
    lines, fails, k = [], [], 0
    for mname, mlabel, measure in PIPE_MEASURES:
        p = Pool(meshes()[mname])
        dg, cg, v, n = p.dg, p.cg, p.v, p.n
        bad = [("missing", dg * v("+")), ("missing", ufl.grad(cg)[0] * v("+")), ("missing", n[0] * dg("+") * v("+")),
               ("missing", cg * v), ("double", dg("+")("-") * v("+")), ("double", (cg * dg("-"))("+") * v("-"))]
        if p.dd is not None:
            bad += [("missing", p.dd * v("+")), ("missing", cg * p.dd * v("-")), ("double", p.dd("-")("-") * v("+"))]
        bad = [(c, e, True) for c, e in bad] + [(c, e, False) for c, e in bad if c == "double"]
        for cls, e, defaults in bad:
            out, itype, err = pipeline_integrand(e, measure, defaults, True)
            ser = ufl2coq.Ser(ctx_for(p), prefix=f"q{k}_n", share=False)
            ti = ser.expr(e)
            chk = "true" if cls == "missing" else "false"
            lines.append(f"(* pipeline {mlabel} {cls}: {str(e)[:100]}  real code: {err or 'ACCEPTED'} *)\n"
                         f"Example prej_{k} : bad table (fun id => Nat.ltb id {NCONT}) true {chk} false {ti} = true.\n"
                         f"Proof. vm_compute. reflexivity. Qed.\n")
            if err is None:
                fails.append({"class": cls, "integrand": str(e), "measure": mlabel, "mesh": mname,
                              "call": f"compute_form_data(integrand*{mlabel}, do_apply_restrictions=True, "
                                      f"do_apply_default_restrictions={defaults})",
                              "observed": f"accepted, integrand {out}", "expected": "an exception"})
            k += 1
    return lines, fails


def rejection_checks(run):
    """double / missing restrictions on the real code; returns (lines of Coq, failures)"""
    ms = meshes()
    p = Pool(ms["affine"])
    dg, cg, v, n, x = p.dg, p.cg, p.v, p.n, p.x
    double = [dg("+")("-"), (dg("+") * cg)("+"), ufl.jump(dg)("+") * v("-"), (x[0] * n("-")[0])("-"),
              ufl.sin(ufl.avg(dg))("-") + cg]
    missing = [dg * v("+"), ufl.grad(cg)[0] * v("+"), n[0] * dg("+"), v * cg, p.h * v("-"),
               ufl.conditional(ufl.lt(dg, 1), v("+"), v("-"))]
    lines, fails, k = [], [], 0
    for cls, exprs, chk in (("double", double, "false"), ("missing", missing, "true")):
        for e in exprs:
            for drname in ("dplus", "none") if cls == "double" else ("dplus",):
                out, err = run_real(e, p.mesh, drname)
                ser = ufl2coq.Ser(ctx_for(p), prefix=f"j{k}_n", share=False)
                ti = ser.expr(e)
                lines.append(f"(* {cls}: {str(e)[:100]}  default={drname}  real code: {err or 'ACCEPTED'} *)\n"
                             f"Example rej_{k} : bad table (fun id => Nat.ltb id {NCONT}) true {chk} false {ti} = true.\n"
                             f"Proof. vm_compute. reflexivity. Qed.\n")
                if err is None:
                    fails.append({"class": cls, "integrand": str(e), "default_restrictions": drname,
                                  "observed": f"accepted, result {out}", "expected": "ValueError"})
                k += 1
    return lines, fails


def main(run):
    # ---- T1
    try:
        tab, lit, ops, special = extract_table()
    except BrokenTie as ex:
        run.violation({"broken": "rule table of RestrictionPropagator cannot be extracted (tie T1)", "message": str(ex)}, False)
        return run.finish("table extraction failed")
    vlib.write_if_changed(os.path.join(vlib.GEN, "C17_table.v"), table_file(tab, lit, ops, special))
    rt = vlib.coqc("Gen/C17_table.v")
    run.add_coq_result(rt)
    run.checker_cmds.append("coqc -Q coq UFLV coq/Gen/C17_table.v coq/Gen/C17_rules_*.v coq/Gen/C17_rej.v")
    hand = vlib.coqc("Props/C17_model.v")
    run.add_coq_result(hand)
    if not hand.ok:
        run.violation({"broken": "hand-written Props/C17_model.v does not compile", "message": hand.err[-800:]}, False)
    import re
    names = {v: k for k, v in ufl2coq.KIND_OF_GEOMETRY.items()}
    names.update({0: "Coefficient", 1: "Argument", 2: "Constant"})
    table_broken = not rt.ok
    if table_broken:
        fl = rt.failing_lemma()
        rep = {"broken_obligation": fl, "file": "coq/Gen/C17_table.v", "coq_message": (rt.err or "")[-600:],
               "table": {names[k]: h for k, h in tab.items()}, "literal_handler": lit,
               "operators": {k: v for k, v in ops.items() if v != "reuse"}, "special": special}
        w = search_table_witness(tab, lit)
        if w:
            rep["witness"] = w
        run.violation(rep, bool(w))
    # ---- T3 terminal rules
    lines, info = rules_examples()
    head = "Require Import UFLV.Core.Den.\nRequire Import UFLV.Props.C17_model.\nRequire Import UFLV.Gen.C17_table.\n"
    paths = []
    nshard = 4
    for k in range(nshard):
        path = os.path.join(vlib.GEN, f"C17_rules_{k}.v")
        vlib.write_if_changed(path, head + "".join(lines[k::nshard]))
        paths.append(path)
    rej_lines, rej_fails = rejection_checks(run)
    pl, pf_ = pipeline_rejections()
    rej_lines += pl
    rej_fails += pf_
    rej_path = os.path.join(vlib.GEN, "C17_rej.v")
    vlib.write_if_changed(rej_path, head + "".join(rej_lines))
    by_lemma = {d["lemma"]: d for d in info}
    if not table_broken:
        pending = {p: set() for p in paths + [rej_path]}
        for _ in range(8):
            if not pending:
                break
            res = vlib.coqc_many(list(pending), timeout=300)
            nxt = {}
            for r in res:
                if r.ok:
                    run.add_coq_result(r, [n for n in vlib.count_obligations(r.path)])
                    continue
                fl = r.failing_lemma()
                d = by_lemma.get(fl)
                rep = {"broken_obligation": fl, "file": os.path.relpath(r.path, vlib.VERIF),
                       "coq_message": " ".join((r.err or "").split("\n")[-4:])[:400]}
                if d:
                    rep.update({"what": "the terminal rule of the implementation differs from the model "
                                        "(Props/C17_model.v: apply_rule / resolve)",
                                "behaviour": {k: v for k, v in d.items() if not k.startswith("_")}})
                    w = rule_witness(d)
                    if w:
                        rep["witness"] = w
                    run.violation(rep, bool(w))
                else:
                    run.violation(rep, False)
                run.obligations.append((fl, os.path.relpath(r.path, vlib.COQ)))
                run.failed.append((fl, os.path.relpath(r.path, vlib.COQ), rep["coq_message"]))
                src = open(r.path).read()
                if fl is None or f"Example {fl} " not in src:
                    continue
                i = src.index(f"Example {fl} ")
                j = src.index("Qed.", i)
                k0 = src.index("Proof.", i)
                with open(r.path, "w") as f:
                    f.write(src[:k0] + "Proof. Abort. (* FAILED *)" + src[j + 4:])
                nxt[r.path] = True
            pending = nxt
    for d in info:
        run.count_case(("rule", d["mesh"], d["terminal"], d["current"], d["default"]))
    for f in rej_fails:
        run.violation(dict(f, what="the implementation accepts an integrand that must be rejected",
                           reproduce=f.get("call", "apply_restrictions(integrand, default_restrictions={mesh: '+'})")), True)
    # ---- T2
    cases, raised = build_t2(run)
    for nm, e, p, drname, err in raised:
        run.violation({"what": "restriction propagation raised on a properly restricted interior-facet integrand",
                       "case": nm, "integrand": str(e), "default_restrictions": drname, "raised": err}, True)
    for c in cases[:4] + cases[-3:]:
        run.sample({"case": c.name, "note": c.note, "output": str(c.out)[:300]})
    failing = [] if table_broken else coqgen.emit_and_check(run, "C17", cases, extra_header=t2_header(), timeout=500)
    for c in cases:
        run.count_case(("integrand", c.note["mesh"], c.note.get("measure"), c.note["default"], c.note["integrand"]))
    seen = set()
    for case, lemma, msg in failing:
        if case is None:
            run.violation({"broken": "generated obligations file does not compile", "message": msg}, False)
            continue
        if case.name in seen:
            continue
        seen.add(case.name)
        rep = {"broken_obligation": lemma, "case": case.name, "note": case.note, "coq_message": msg,
               "integrand": str(case.inp), "propagated": str(case.out)[:3000], "reproduce": "bin/check C17"}
        if lemma and lemma.endswith("_prop"):
            rep["what"] = ("the output is not in propagated normal form: a restriction is left on a non-terminal "
                           "expression (or on a terminal of an ignored class) although propagation was requested")
            run.violation(rep, True)
            continue
        if lemma and lemma.endswith("_once"):
            rep["what"] = ("the output violates `once`: a terminal of an ignored class is restricted, or another "
                           "terminal / Grad is not under exactly one restriction placed directly on it")
            run.violation(rep, True)
            continue
        w = two_sided_mismatch(case.out, case.inp, case.aff == "true", trials=30 if run.tier == "quick" else 200,
                               seed=run.seed)
        if w:
            rep["witness"] = w
        run.violation(rep, bool(w))
    # ---- known finding: defaults off => missing restriction is not rejected
    known = vlib.load_known_findings("C17")
    kf = next((k for k in known if k.get("id") == "missing-restriction-accepted-defaults-off"), None)
    p = Pool(meshes()["affine"])
    out, err = run_real(p.dg * p.v("+"), p.mesh, "none")
    if err is None:
        if kf is not None:
            run.known("apply_restrictions(dg*v('+'), default_restrictions=None) returns the integrand with the "
                      "discontinuous coefficient unrestricted instead of rejecting it (defaults off: _require_restriction "
                      "returns o); Coq: C17_defaults_off_accepts_missing")
        else:
            run.violation({"what": "missing restriction accepted with default_restrictions=None",
                           "integrand": str(p.dg * p.v("+")), "observed": str(out)}, True)
    run.trusted.update([
        "Coq 8.16.1 kernel (coqc); vm_compute used for normalisation, no native_compute",
        "py/ufl2coq.py serializer (node-for-node, fail-closed)",
        "classification of side-independent terminal classes (sindep_kind in Props/C17_model.v) and the continuity "
        "laws (H1 coefficients, side-independent geometry equal on both sides; n- = -n+ on affine non-manifold meshes) "
        "are the hypotheses of the statement",
        "introspection of MultiFunction dispatch (handler identity) for the rule table",
        "den (Restricted p a) = den a evaluated with side p; unrestricted terminals read env None",
    ])
    return run.finish(
        rule="T1 table properties + instantiated theorems; T3 one Example per (mesh variant, terminal class, current "
             "restriction, default restriction); T2 one case per (integrand, mesh, default on/off), every case = value "
             "obligation + once predicate; distinct = distinct tuples",
        assumptions=["continuity laws as hypotheses (see trusted base)",
                     "model fragment: compound tensor algebra / div / curl / nabla_grad are outside `propagate` "
                     "(Error EUnsupported); T2 covers dot() by value only",
                     "admissible inputs (adm): Grad operands are (gradients of) terminals, Power exponents are not "
                     "Variable/Restricted nodes, a flipped normal is read with a one-entry component"])


# ----------------------------------------------------------------------------------------------
# searches (only after something broke)

def two_sided_mismatch(out, inp, affine, trials=30, seed=0):
    """random two-sided environments satisfying the continuity laws; compare den(out) and den(inp)"""
    import pyden
    from fractions import Fraction

    class Env2(pyden.Env):
        def side_dependent(self, t):
            n = type(t).__name__
            if n in SIDE_INDEPENDENT:
                return False
            if n == "Coefficient":
                return not CONT[t.count()]      # the statement's classification, registered by the harness
            return True

        def t_FacetNormal(self, t, comp, side):
            from ufl2coq import Ctx
            if affine and side == "-":
                return -self.field((Ctx.term_key(t), tuple(comp), "+"), constant=True)
            return self.field((Ctx.term_key(t), tuple(comp), side), constant=True)

        def t_SpatialCoordinate(self, t, comp, side):
            return pyden.Env.t_SpatialCoordinate(self, t, comp, side)

    rng = random.Random(seed)
    return pyden.find_mismatch(out, inp, trials=trials, seed=seed, nv=3, order=1,
                               env_factory=lambda s: Env2(nv=3, order=1, seed=s))


def rule_witness(d):
    """The behaviour differs from the model; it is a failing input of the PROPERTY only if the two-sided
    value changes, or an unrestricted side-dependent terminal is accepted under a default restriction."""
    base = {"mesh": d["mesh"], "terminal": d["terminal"], "current_restriction": d["current"],
            "default_restriction": d["default"], "input": d["input"],
            "implementation": d["output"] if d["output"] is not None else "raises " + str(d["raised"])}
    if d["_out"] is None:
        return None          # an unexpected rejection: no wrong value is produced
    w = two_sided_mismatch(d["_out"], d["_inp"], d["_affine"], trials=12)
    if w:
        return dict(base, two_sided_values=w)
    name = d["terminal"].split("-")[0]
    side_dep = name not in SIDE_INDEPENDENT and not d.get("_cont", False)
    if side_dep and d["current"] is None and d["default"] in ("dplus", "dminus") \
            and not isinstance(d["_out"], ufl.classes.Restricted):
        return dict(base, note="unrestricted side-dependent terminal accepted under a default restriction")
    if d["current"] is None and d["default"] in ("dplus", "dminus") and side_dep:
        return dict(base, note="missing restriction of a side-dependent terminal is not rejected")
    return None


def search_table_witness(tab, lit):
    """A class that the table ignores / default-restricts although it is side dependent: either the value of
    t('-') changes (ignored), or the unrestricted terminal is accepted and silently given the default side."""
    ms = meshes()
    mesh = ms["affine"]
    found = []
    for label, t, _ in terminals_of(mesh):
        name = label.split("-")[0]
        if name == "Coefficient":
            continue
        k = {"Argument": 1, "Constant": 2}.get(name, ufl2coq.KIND_OF_GEOMETRY.get(name))
        if tab.get(k) in ("HIgnore", "HDefault") and name not in SIDE_INDEPENDENT:
            comp = (0,) * len(t.ufl_shape)
            e = t("-") if not comp else t("-")[comp]
            out, err = run_real(e, mesh, "dplus")
            if out is not None:
                w = two_sided_mismatch(out, e, True, trials=20)
                if w:
                    return {"integrand": str(e), "propagated": str(out), "values": w}
            e = t if not comp else t[comp]
            out, err = run_real(e, mesh, "dplus")
            if out is not None:
                found.append({"integrand": str(e), "terminal_class": name, "call": "apply_restrictions(integrand, "
                              "default_restrictions={mesh: '+'})", "observed": f"accepted, result {out}",
                              "expected": "ValueError (the quantity differs between the two cells and carries no "
                                          "restriction)"})
    if found:
        return {"accepted_inputs_that_must_be_rejected": found[:8]}
    return None
