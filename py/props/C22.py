"""C22 - Block extraction partitions mixed forms.

Tie T2: the real `extract_blocks` (ufl.formoperators wrapper and ufl.algorithms.formsplitter) is run
on generated linear and bilinear forms over MixedElement spaces and MixedFunctionSpaces, in all
documented calling modes (all blocks / (i) / (i, j); replace_argument True / False).  For every
block (i, j) and every integral of the original form Coq proves, for ALL values of the
sub-functions and coefficients in every UFL algebra,

    den(integrand of block (i,j))  =  den(original integrand [v := iota_i v_i, u := iota_j u_j])

where the right-hand side is written by a substituting serializer (py/C22_sub.py) that never looks
at formsplitter, and   sum_ij den(original[iota_i v_i, iota_j u_j]) = den(original).
Props/C22_blocks.v proves the partition / independence theorems for any number of sub-spaces."""

import json
import os
import random
import time

import ufl
from ufl.algorithms import formsplitter

import C22_sub as S22
import coqgen
import vlib

HAND_FILES = ["Props/C22_blocks.v"]

KNOWN_LINEAR = "mixed-element-all-blocks-linear"
KNOWN_TRIAL = "mixed-element-all-blocks-trial-subelements"
KNOWN_ROW = "mixed-element-row-empty"


def setups(tier):
    out = [S22.MixedSetup("elem", [(), (2,)]),
           S22.MixedSetup("elem", [(), (2,), ()]),
           S22.MixedSetup("mfs", [(2,), (), ()]),
           S22.MixedSetup("elem", ["sym2", (2,), ()]),
           # Petrov-Galerkin: test and trial functions in DIFFERENT mixed spaces on the same mesh (other
           # degrees, other number / order / shapes of sub-elements)
           S22.MixedSetup("elem", [(), (2,)], trial_shapes=[(2,), (), ()], trial_degree=2)]
    if tier == "thorough":
        out += [S22.MixedSetup("elem", [(2,), ()]),
                S22.MixedSetup("elem", [(2,), (), ()]),
                S22.MixedSetup("mfs", [(), (2,)]),
                S22.MixedSetup("elem", [(), (), (2,), ()]),
                S22.MixedSetup("elem", [(2,), (2, 2), ()]),
                S22.MixedSetup("elem", [(), [(), (2,)]]),
                S22.MixedSetup("elem", [(2,), (), (2,), (2,)]),
                S22.MixedSetup("mfs", [(), (2,), ()]),
                S22.MixedSetup("mfs", [(2,), (), (), (2,)]),
                S22.MixedSetup("mfs", [(2, 2), (2,)]),
                S22.MixedSetup("elem", [(), "sym2", (2,)]),
                S22.MixedSetup("mfs", ["sym2", ()]),
                S22.MixedSetup("elem", [(2,), (), ()], trial_shapes=[(), (2,)], trial_degree=2),
                S22.MixedSetup("elem", [(), (2,)], trial_degree=2)]
    return out


def norm(f):
    """None for 'no block' (None or an empty Form)."""
    if f is None:
        return None
    if isinstance(f, ufl.Form) and f.empty():
        return None
    return f


def same(a, b):
    a, b = norm(a), norm(b)
    if a is None or b is None:
        return a is None and b is None
    return isinstance(a, ufl.Form) and isinstance(b, ufl.Form) and a.equals(b)


class Harness:
    def __init__(self, run, known):
        self.run = run
        self.known = {k["id"]: k for k in known}
        self.known_seen = {}
        self.cases = []
        self.problems = []       # python-level violations: dict replay
        self.calls = 0

    def problem(self, S, form, what, **kw):
        rep = {"setup": S.describe(), "form": str(form)[:1500], "what": what,
               "reproduce": "bin/check C22 (py/props/C22.py)"}
        rep.update(kw)
        self.problems.append(rep)

    def note_known(self, kid, S, form, text):
        if kid in self.known:
            self.known_seen.setdefault(kid, text)
            return True
        # not (or no longer) an OPEN known finding: the defect is a violation like any other
        self.problem(S, form, f"{kid}: {text}")
        return False

    # -- one form ---------------------------------------------------------------------------------
    def do_form(self, S, arity, form, tag, kinds):
        try:
            self._do_form(S, arity, form, tag, kinds)
        except Exception as ex:     # the real code raised on a valid mixed form: a concrete failing input
            import traceback
            self.problem(S, form, f"extract_blocks raised {type(ex).__name__}: {ex}",
                         traceback=traceback.format_exc()[-1500:], arity=arity)

    def _do_form(self, S, arity, form, tag, kinds):
        run = self.run
        n, nu = S.n, S.nu
        for ra in ((True, False) if S.kind == "elem" else (True,)):
            nm = f"{S.name()}_{tag}_{'r' if ra else 'k'}"
            bids = ([(i, j) for i in range(n) for j in range(nu)] if arity == 2 else [(i,) for i in range(n)])
            grid = {}
            for bid in bids:
                # the public wrapper for explicit blocks
                try:
                    grid[bid] = norm(ufl.extract_blocks(form, *bid, replace_argument=ra))
                except RuntimeError as ex:
                    # MixedFunctionSpace: parts beyond the largest part present in the form are refused;
                    # such a block must then be provably zero (checked like a None block)
                    if S.kind == "mfs" and str(ex).startswith("Cannot extract block"):
                        grid[bid] = None
                    else:
                        raise
                self.calls += 1
                if grid[bid] is not None and not isinstance(grid[bid], ufl.Form):
                    self.problem(S, form, f"extract_blocks(form, {bid}) returned {type(grid[bid]).__name__}")
                    grid[bid] = None
            extra = {}
            # all blocks at once
            allb = formsplitter.extract_blocks(form, replace_argument=ra)
            self.calls += 1
            self.check_all(S, form, arity, allb, grid, extra, ra)
            # rows
            if arity == 2:
                for i in range(n):
                    try:
                        row = formsplitter.extract_blocks(form, i, replace_argument=ra)
                    except RuntimeError as ex:
                        if S.kind == "mfs" and str(ex).startswith("Cannot extract block"):
                            row = None
                        else:
                            raise
                    self.calls += 1
                    self.check_row(S, form, i, row, grid, extra, ra)
            # syntactic dependency of each block
            for bid, blk in list(grid.items()) + list(extra.items()):
                for p in S22.dependency_problems(blk, bid[:arity], form, ra):
                    self.problem(S, form, "block depends on another sub-function: " + p,
                                 block=list(bid), replace_argument=ra, block_form=str(blk)[:1500])
            note = {"setup": S.describe(), "arity": arity, "replace_argument": ra, "terms": kinds,
                    "form": str(form)[:300]}
            self.cases.append(S22.BlockCase(nm, form, arity, grid, ra, note, sum_blocks=bids))
            if extra:
                # outputs of the all-blocks / row modes that differ structurally from the explicit ones
                g2 = {bid[:arity]: blk for bid, blk in extra.items()}
                self.cases.append(S22.BlockCase(nm + "_alt", form, arity, g2, ra, dict(note, mode="all/row")))
            run.count_case((S.name(), tag, ra, str(form)))
            run.sample({"case": nm, "form": str(form)[:200],
                        "blocks": {str(b): (str(f)[:120] if f is not None else None)
                                   for b, f in list(grid.items())[:4]}})

    def check_all(self, S, form, arity, allb, grid, extra, ra):
        n, nu = S.n, S.nu
        if S.kind == "elem" and arity == 1:
            # documented: a vector of blocks.  Known finding: an n x n tuple with constant rows.
            if isinstance(allb, tuple) and len(allb) == n and all(isinstance(r, tuple) for r in allb):
                ok = all(len(r) == n and all(same(x, grid[(i,)]) for x in r) for i, r in enumerate(allb))
                if ok:
                    self.note_known(KNOWN_LINEAR, S, form,
                                    f"extract_blocks(L) of a linear form on a MixedElement space returns an "
                                    f"{n}x{n} tuple whose row i repeats block i {n} times (sum of the returned "
                                    f"blocks = {n} * L)")
                    return
                self.problem(S, form, "all-blocks result of a linear form is neither a vector of blocks nor "
                                      "the known n x n repetition", result=str(allb)[:800])
                return
            if isinstance(allb, tuple) and len(allb) == n:
                for i, x in enumerate(allb):
                    if not same(x, grid[(i,)]):
                        extra[(i, "all")] = norm(x)
                return
            self.problem(S, form, "all-blocks result of a linear form has the wrong structure",
                         result=str(allb)[:800])
            return
        if arity == 1:
            if not (isinstance(allb, tuple) and len(allb) <= n):
                self.problem(S, form, "all-blocks result has the wrong structure", result=str(allb)[:800])
                return
            for i in range(n):
                x = allb[i] if i < len(allb) else None
                if not same(x, grid[(i,)]):
                    extra[(i, "all")] = norm(x)
            return
        # arity 2
        rows = len(allb) if isinstance(allb, tuple) else -1
        if S.kind == "elem" and n != nu:
            shape_ok = rows == n and all(isinstance(r, tuple) for r in allb)
            if shape_ok and all(len(r) == nu for r in allb):
                # the correct n_test x n_trial grid
                for i in range(n):
                    for j in range(nu):
                        if not same(allb[i][j], grid[(i, j)]):
                            extra[(i, j, "all")] = norm(allb[i][j])
                return
            # known finding: the grid is n_test x n_test whatever the trial space is
            ok = shape_ok and all(len(r) == n for r in allb)
            ok = ok and all(same(allb[i][j], grid.get((i, j))) for i in range(n) for j in range(n))
            if ok and nu > n:
                self.note_known(KNOWN_TRIAL, S, form,
                                f"extract_blocks(a) with {n} test and {nu} trial sub-elements returns an "
                                f"{n}x{n} grid: the blocks of trial sub-functions {n}..{nu - 1} are dropped")
            elif not ok:
                self.problem(S, form, "all-blocks result differs from the explicit blocks", result=str(allb)[:800])
            return
        if rows < 0 or rows > n or any(not isinstance(r, tuple) or len(r) != rows for r in allb):
            self.problem(S, form, "all-blocks result is not a square tuple of tuples", result=str(allb)[:800])
            return
        if S.kind == "elem" and rows != n:
            self.problem(S, form, f"all-blocks result has {rows} rows for {n} sub-elements")
            return
        for i in range(n):
            for j in range(nu):
                x = allb[i][j] if i < rows and j < rows else None
                if not same(x, grid[(i, j)]):
                    extra[(i, j, "all")] = norm(x)

    def check_row(self, S, form, i, row, grid, extra, ra):
        nu = S.nu
        if S.kind == "elem":
            if isinstance(row, ufl.Form):
                if row.empty() and any(grid[(i, j)] is not None for j in range(nu)):
                    self.note_known(KNOWN_ROW, S, form,
                                    "extract_blocks(a, i) (documented: 'return the ith row') returns the empty "
                                    "form for a bilinear form on a MixedElement space")
                elif not row.empty():
                    self.problem(S, form, f"extract_blocks(a, {i}) returned a non-empty single form",
                                 result=str(row)[:800])
                return
        if isinstance(row, (list, tuple)) and len(row) <= nu:
            for j in range(nu):
                x = row[j] if j < len(row) else None
                if not same(x, grid[(i, j)]):
                    extra[(i, j, "row")] = norm(x)
            return
        if row is None and all(grid[(i, j)] is None for j in range(nu)):
            return
        self.problem(S, form, f"extract_blocks(a, {i}) has the wrong structure", result=str(row)[:800])


def replay_known(run, h):
    """Replay the witnesses of known/C22.json on the real code (DEV.md protocol)."""
    for kid, k in h.known.items():
        w = k["witness"]
        S = S22.MixedSetup("elem", [tuple(s) for s in w["test_sub_shapes"]],
                           trial_shapes=[tuple(s) for s in w["trial_sub_shapes"]]
                           if w.get("trial_sub_shapes") else None)
        if kid == KNOWN_LINEAR:
            L = ufl.inner(S.f, S.v) * ufl.dx
            b = formsplitter.extract_blocks(L)
            n = S.n
            if isinstance(b, tuple) and len(b) == n and all(isinstance(r, tuple) and len(r) == n for r in b) \
                    and all(same(b[i][j], ufl.extract_blocks(L, i)) for i in range(n) for j in range(n)):
                run.known(f"{kid}: extract_blocks(inner(f,v)*dx) on MixedElement{w['test_sub_shapes']} returns "
                          f"{n}x{n} blocks, row i = block i repeated; the returned blocks sum to {n}*L, not L")
            else:
                run.extra.setdefault("known_not_reproduced", []).append(kid)
        elif kid == KNOWN_TRIAL:
            nv, nu = S.v.ufl_shape[0], S.u.ufl_shape[0]
            a = S.u[nu - 1] * S.v[0] * ufl.dx + S.u[0] * S.v[nv - 1] * ufl.dx
            b = formsplitter.extract_blocks(a)
            dropped = norm(ufl.extract_blocks(a, 0, S.nu - 1))
            if isinstance(b, tuple) and len(b) == S.n and all(len(r) == S.n for r in b) and dropped is not None:
                run.known(f"{kid}: test space with {S.n} and trial space with {S.nu} sub-elements: "
                          f"extract_blocks(a) is {S.n}x{S.n}; block (0,{S.nu - 1}) = {str(dropped)[:60]} is dropped, "
                          f"the returned blocks do not sum to a")
            else:
                run.extra.setdefault("known_not_reproduced", []).append(kid)
        elif kid == KNOWN_ROW:
            a = ufl.inner(S.u, S.v) * ufl.dx
            r = formsplitter.extract_blocks(a, 0)
            if isinstance(r, ufl.Form) and r.empty():
                run.known(f"{kid}: extract_blocks(inner(u,v)*dx, 0) on a MixedElement space returns the empty form, "
                          f"not row 0 (documented: 'If j is None, return the ith row')")
            else:
                run.extra.setdefault("known_not_reproduced", []).append(kid)


def main(run):
    t0 = time.time()
    known = vlib.load_known_findings("C22")
    h = Harness(run, known)
    rng = random.Random(run.seed * 7919 + 17)
    nrand = 1 if run.tier == "quick" else 3
    all_setups = setups(run.tier)
    for S in all_setups:
        k = 0
        for arity, form, kinds in S22.fixed_forms(S):
            h.do_form(S, arity, form, f"f{k}", kinds)
            k += 1
        for arity in (1, 2):
            for r in range(nrand):
                form, kinds = S22.gen_form(S, arity, rng, rng.choice([2, 3]))
                h.do_form(S, arity, form, f"g{arity}{r}", kinds)
    # test and trial spaces with different numbers of sub-elements (explicit blocks must still be right)
    for S in [S22.MixedSetup("elem", [(), (2,)], trial_shapes=[(), (2,), ()])] + (
            [S22.MixedSetup("elem", [(2,), (), ()], trial_shapes=[(), (2,)])] if run.tier == "thorough" else []):
        for r in range(nrand):
            form, kinds = S22.gen_form(S, 2, rng, 3)
            h.do_form(S, 2, form, f"p{r}", kinds)
    run.extra["extract_blocks_calls"] = h.calls
    run.extra["trace_wall_s"] = round(time.time() - t0, 1)

    failing = S22.check_cases(run, "C22", h.cases, extra_header=S22.EXTRA_HEADER,
                              timeout=900 if run.tier == "quick" else 2400)
    hand_bad = []
    for hf in HAND_FILES:
        hres = vlib.coqc(hf)
        run.add_coq_result(hres)
        if not hres.ok:
            hand_bad.append((hf, " ".join((hres.err or "").strip().split("\n")[-3:])[:400]))
    # T3: FormSplitter.argument == the Gallina model whose denotation is proved to be iota_i
    arg_ok = True
    try:
        text, names = S22.argument_model_file(all_setups)
        path = os.path.join(vlib.GEN, "C22_arg.v")
        vlib.write_if_changed(path, text)
        res = vlib.coqc(path, timeout=300)
        run.add_coq_result(res, names)
        run.checker_cmds.append("coqc -Q coq UFLV coq/Gen/C22_arg.v")
        arg_ok = res.ok
        if not res.ok:
            run.extra["argument_model_correspondence"] = {
                "status": "broken", "first_failing_example": res.failing_lemma(),
                "message": " ".join((res.err or "").strip().split("\n")[-3:])[:400]}
    except Exception as ex:
        arg_ok = False
        run.extra["argument_model_correspondence"] = {"status": "raised", "message": f"{type(ex).__name__}: {ex}"}
    if hand_bad:
        run.violation({"broken": "hand-written Coq file does not compile", "failed": hand_bad}, False)

    # python-level problems (structure of the result, dependency on other sub-functions)
    for rep in h.problems[:5]:
        run.violation(rep, True)
    seen = set()
    nocase = [msg for case, lemma, msg in failing if case is None]
    if nocase:
        run.violation({"broken": "generated obligations file(s) did not compile", "shards": len(nocase),
                       "messages": sorted(set(nocase))[:5]}, False)
    for case, lemma, msg in failing:
        if case is None:
            continue
        if case.name in seen or len(seen) >= 4:
            continue
        seen.add(case.name)
        w, why = S22.numeric_counterexample(case, lemma, run.seed, 20 if run.tier == "quick" else 100)
        bid, key, kind = case.info.get(lemma, (None, None, "?"))
        rep = {"broken_obligation": lemma, "obligation_kind": kind, "case": case.name, "note": case.note,
               "coq_message": msg, "form": str(case.form)[:2000],
               "block": list(bid) if bid else None, "integral": list(key) if key else None,
               "block_form": str(case.grid.get(bid))[:2000] if bid else None,
               "replace_argument": case.ra,
               "reproduce": "bin/check C22; the form is rebuilt by py/props/C22.py from the seed "
                            f"{run.seed} (setup and terms in 'note')"}
        if w:
            rep["witness"] = w
        else:
            rep["search"] = why
        run.violation(rep, bool(w))

    if not arg_ok and not run.violations:
        # the structural model of FormSplitter.argument no longer matches the code, but every value
        # obligation on the real outputs still holds: the tie to C22_embedding_den_* is lost, the
        # property itself is still established by the T2 obligations.
        run.violation({"broken": "correspondence FormSplitter.argument <-> Gallina model (coq/Gen/C22_arg.v)",
                       "detail": run.extra.get("argument_model_correspondence"),
                       "note": "all T2 value obligations on the real blocks still hold"}, False)

    # known findings: replay the recorded witnesses on the real code
    replay_known(run, h)
    run.extra["known_classes_seen_in_generated_forms"] = h.known_seen
    run.trusted.update([
        "Coq 8.16.1 kernel (coqc); vm_compute used for normalisation, no native_compute",
        "py/ufl2coq.py serializer (node-for-node, fail-closed) and its subclass C22_sub.SubSer, which writes the "
        "zero-padded embedding iota_i of a sub-function (the specification side of every obligation)",
        "den of coq/Core/Den.v as the meaning of integrands; an integral is identified by (domain, type, "
        "subdomain id, metadata) and forms are compared integrand-wise per integral",
        "hypotheses of the generated Section: D_j 0 = 0 (D_j additive) and conj is an involutive ring morphism "
        "(conj 0 = 0, conj 1 = 1, conj(x+y), conj(x*y), conj(x-y), conj(-x), conj(x/y), conj(conj x) = x)",
        "the form generator of py/C22_sub.py (bounded: listed spaces and integrand templates)",
    ])
    return run.finish(
        rule="one case per (space setup, form, replace_argument); per case one obligation for every "
             "(block, integral of the original form) plus one sum obligation per integral; all argument and "
             "coefficient VALUES are universally quantified, the set of forms is bounded (listed setups: 2-4 "
             "sub-spaces, scalar/vector/tensor/nested sub-elements, MixedFunctionSpace parts; generated integrands)",
        assumptions=["forms are (bi)linear in the arguments (C14) - the generated ones are, proved per form by the "
                     "sum obligations",
                     "known findings (known/C22.json) concern the shape of the all-blocks / row results on "
                     "MixedElement spaces, not the blocks themselves"])
