"""C11 - Forms with different compiled meaning never share a signature.

Model: coq/Props/C11_model.v (hash data of terminals, multi-indices, expressions, integrals, and
canonicalize_metadata as functions into rendered tokens; SHA-512 o str() is a Section variable H with an
injectivity hypothesis).  Theorems for all forms: C11_complete, C11_sound (integrand up to what the hash
data ignores, domain data, integral type, subdomain id, canonicalised metadata), C11_canon_md_inj_typed;
refuted: untyped metadata (3 vs "3", None vs "None", list vs tuple) and arrays through str(ndarray).

Tie T3 (every run, against $UFL_REPO): seeded base forms and all their single-point mutations (literal,
fixed index, index pattern, operand order of non-commutative operators, conj, element degree, argument
number, coefficient identity, subdomain id, integral type, domain, metadata value/type/array) plus rebuilt
and renumbered copies.  For every pair of one family: the real signatures are equal exactly when the
model's `meaning` is equal (Python mirror of the model; the integrand/metadata parts are also evaluated by
Coq on the mapped data), and the model's terminal signature data is in bijection with the real
_ufl_signature_data_ on every terminal met.  Collisions are attributed to the known findings only inside
their classes (metadata that differ but have equal canonical form; arrays with equal str())."""

import itertools
import os
import random

import numpy as np
import ufl
from ufl.algorithms.signature import compute_expression_hashdata, compute_terminal_hashdata
from ufl.classes import (Argument, Coefficient, Constant, FixedIndex, Index, Label, MultiIndex)
from ufl.corealg.traversal import unique_pre_traversal
from ufl.utils.sorting import canonicalize_metadata

import C29_lib as L
import elements
import vlib

HAND_FILES = ["Props/C29_model.v", "Props/C11_model.v"]


# ------------------------------------------------------------------------------------------------
# Python mirror of the model's `meaning`

def pre_terminals(e, out, seen):
    if id(e) in seen:
        return
    seen.add(id(e))
    if e._ufl_is_terminal_:
        out.append(e)
    else:
        for o in e.ufl_operands:
            pre_terminals(o, out, seen)


class Meaning:
    """meaning(form) per coq/Props/C11_model.v with the renumbering of C12_model.v (ranks / first occurrence)."""

    def __init__(self, form):
        self.form = form
        terms = []
        for itg in form.integrals():
            pre_terminals(itg.integrand(), terms, set())
        self.terms = terms
        self.idx = {}
        for t in terms:
            if isinstance(t, MultiIndex):
                for i in t._indices:
                    if isinstance(i, Index) and i not in self.idx:
                        self.idx[i] = len(self.idx)
        self.rank = {}
        for cls in (Coefficient, Constant, Label):
            cs = sorted({t.count() for t in terms if isinstance(t, cls)})
            self.rank[cls] = {c: k for k, c in enumerate(cs)}
        # domain numbering of the MODEL (not read from the implementation): integration domains first,
        # then the other meshes met in the integrands, each group in the order of the domain sort key
        def skey(m):
            return (m.geometric_dimension, m.topological_dimension, m.ufl_id())
        integ = sorted({itg.ufl_domain() for itg in form.integrals()}, key=skey)
        others = set()
        for t in terms:
            try:
                for d in t.ufl_domains():
                    others.update(getattr(d, "meshes", (d,)))
            except Exception:      # noqa: BLE001
                pass
        # ... and the meshes an integral intersects (extra_domain_integral_type_map of a multi-mesh measure)
        for itg in form.integrals():
            others.update(itg.extra_domain_integral_type_map())
        others = sorted((m for m in others if m not in integ), key=skey)
        self.skey = skey
        self.mesh_rank = {m.ufl_id(): k for k, m in enumerate(list(integ) + others)}

    def fs(self, V):
        m = V.ufl_domain()
        return ("FS", type(V).__name__, self.mesh_rank[m.ufl_id()], repr(m.ufl_coordinate_element()),
                repr(V.ufl_element()), V.label())

    def thd(self, t):
        if isinstance(t, MultiIndex):
            return ("MI",) + tuple(int(i) if isinstance(i, FixedIndex) else -(self.idx[i] + 1) for i in t._indices)
        if isinstance(t, Argument):
            return ("Argument", t.number(), t.part(), self.fs(t.ufl_function_space()))
        if isinstance(t, Coefficient):
            return ("Coefficient", self.rank[Coefficient][t.count()], self.fs(t.ufl_function_space()))
        if isinstance(t, Label):
            return ("Label", self.rank[Label][t.count()])
        ps = L.repr_pieces(t)
        out = []
        for p in ps:
            if p[0] == "lit":
                out.append(p[1])
            elif p[1] == "CConstant":
                out.append("#c%d" % self.rank[Constant][p[2]])
            else:
                out.append("#m%d" % self.mesh_rank[p[2]])
        return ("R", "".join(out))

    def etree(self, e, memo):
        k = id(e)
        if k in memo:
            return memo[k]
        if e._ufl_is_terminal_:
            r = ("L", self.thd(e))
        else:
            r = ("N", e._ufl_typecode_) + tuple(self.etree(o, memo) for o in e.ufl_operands)
        memo[k] = r
        return r

    def meaning(self):
        out = []
        memo = {}
        for itg in self.form.integrals():
            d = itg.ufl_domain()
            out.append((self.etree(itg.integrand(), memo),
                        ("Mesh", self.mesh_rank[d.ufl_id()], repr(d.ufl_coordinate_element())),
                        itg.integral_type(), self.xdoms(itg), sid_key(itg.subdomain_id()),
                        canon_md_model(itg.metadata())))
        return tuple(out)

    def xdoms(self, itg):
        """[xdoms] of the model: (domain data, integral type) of every intersected mesh, in the model's own
        domain order."""
        xm = itg.extra_domain_integral_type_map()
        return tuple((("Mesh", self.mesh_rank[x.ufl_id()], repr(x.ufl_coordinate_element())), xm[x])
                     for x in sorted(xm, key=self.skey))


def sid_key(s):
    return ("tuple",) + tuple(s) if isinstance(s, tuple) else (type(s).__name__, s)


MODE = {"leaf": "str", "tag": False}


def detect_mode():
    """Which canonicalisation does the tree under test implement?  Behavioural probes, fail closed."""
    vals = [3, "3", None, True, 2.5]
    p = tuple(v for _, v in canonicalize_metadata({f"k{n}": x for n, x in enumerate(vals)}))
    if p == ("3", "3", "None", "True", "2.5"):
        MODE["leaf"] = "str"
    elif p == ("3", "'3'", "None", "True", "2.5"):
        MODE["leaf"] = "repr"
    else:
        raise L.TieBroken(f"unknown canonicalisation of scalar metadata leaves: {p!r}")
    q = (canonicalize_metadata({"k": [1]})[0][1], canonicalize_metadata({"k": (1,)})[0][1])
    if q == (("1",), ("1",)):
        MODE["tag"] = False
    elif q == (("list", "1"), ("tuple", "1")):
        MODE["tag"] = True
    else:
        raise L.TieBroken(f"unknown canonicalisation of list/tuple metadata: {q!r}")
    return dict(MODE)


def arr_oracle(v):
    """The real rendering of an ndarray leaf (str(ndarray) before the repair, tolist/dtype/shape after)."""
    r = canonicalize_metadata({"k": v})
    return r[0][1]


def canon_md_model(m, top=True):
    """Mirror of canon_md / canon_md2 (C11_model.v): the canonical token of a metadata value."""
    if m is None:
        return ()
    if isinstance(m, dict):
        return tuple((k, canon_val(m[k])) for k in sorted(m))
    pre = (type(m).__name__,) if MODE["tag"] else ()
    return pre + tuple(canon_val(v) for v in m)


def canon_val(v):
    if isinstance(v, dict | list | tuple):
        return canon_md_model(v, top=False)
    if isinstance(v, np.ndarray):
        return arr_oracle(v)
    return str(v) if MODE["leaf"] == "str" else repr(v)


def md_equal_mod_seqtype(a, b):
    """Typed equality of metadata that ignores only the list/tuple distinction."""
    if isinstance(a, list | tuple) and isinstance(b, list | tuple):
        return len(a) == len(b) and all(md_equal_mod_seqtype(x, y) for x, y in zip(a, b))
    if type(a) is not type(b):
        return False
    if isinstance(a, dict):
        return sorted(a) == sorted(b) and all(md_equal_mod_seqtype(a[k], b[k]) for k in a)
    if isinstance(a, np.ndarray):
        return a.shape == b.shape and a.dtype == b.dtype and bool(np.all(a == b))
    return a == b


def md_equal(a, b):
    """Equality of metadata VALUES with their types (what a form compiler sees)."""
    if type(a) is not type(b):
        return False
    if isinstance(a, dict):
        return sorted(a) == sorted(b) and all(md_equal(a[k], b[k]) for k in a)
    if isinstance(a, list | tuple):
        return len(a) == len(b) and all(md_equal(x, y) for x, y in zip(a, b))
    if isinstance(a, np.ndarray):
        return a.shape == b.shape and bool(np.all(a == b))
    return a == b


def md_gallina(v, em):
    """Metadata value as a Gallina `mval string` (arrays by their real str())."""
    if v is None:
        return "(MNone string)"
    if isinstance(v, bool):
        return f"(MBool string {'true' if v else 'false'})"
    if isinstance(v, int):
        return f"(MInt string ({v})%Z)"
    if isinstance(v, float):
        return f"(MFloat string {em.str(str(v))})"
    if isinstance(v, str):
        return f"(MStr string {em.str(v)})"
    if isinstance(v, np.ndarray):
        return f"(MArr string {em.str(arr_oracle(v))})"
    if isinstance(v, list | tuple):
        return f"(MSeq string {'true' if isinstance(v, list) else 'false'} [" + "; ".join(md_gallina(x, em) for x in v) + "])"
    if isinstance(v, dict):
        return "(MDict string [" + "; ".join(f"({em.str(k)}, {md_gallina(v[k], em)})" for k in sorted(v)) + "])"
    raise L.TieBroken("metadata value outside the model: " + repr(v))


# ------------------------------------------------------------------------------------------------
# base forms and single-point mutations

class Ctx:
    def __init__(self, rng):
        cell = ufl.triangle
        self.cell = cell
        self.m = ufl.Mesh(elements.LagrangeElement(cell, 1, (2,)))
        self.m2 = ufl.Mesh(elements.LagrangeElement(cell, 2, (2,)))
        self.rng = rng

    def V(self, sh=(), deg=1, mesh=None):
        return ufl.FunctionSpace(mesh or self.m, elements.LagrangeElement(self.cell, deg, tuple(sh)))


def md_mutants(md, path=""):
    """All single-point mutations of a metadata tree: (name, mutated copy)."""
    out = []
    if isinstance(md, dict):
        for key in sorted(md):
            for nm, v in md_mutants(md[key], path + "/" + key):
                m2 = dict(md)
                m2[key] = v
                out.append((nm, m2))
            m2 = dict(md)
            del m2[key]
            out.append((path + "/" + key + ":dropped", m2))
    elif isinstance(md, list | tuple):
        mk = type(md)
        for n, x in enumerate(md):
            for nm, v in md_mutants(x, path + f"[{n}]"):
                out.append((nm, mk(list(md[:n]) + [v] + list(md[n + 1:]))))
        for a in range(len(md)):
            for b in range(a + 1, len(md)):
                if not md_equal(md[a], md[b]):
                    l2 = list(md)
                    l2[a], l2[b] = l2[b], l2[a]
                    out.append((path + f":swap{a}{b}", mk(l2)))
        if len(md) > 1:
            out.append((path + ":shorter", mk(md[:-1])))
        out.append((path + ":list<->tuple", (tuple if isinstance(md, list) else list)(md)))
    elif isinstance(md, bool):
        out.append((path + ":flipped", not md))
        out.append((path + ":bool->str", str(md)))
    elif isinstance(md, int):
        out.append((path + ":+1", md + 1))
        out.append((path + ":int->str", str(md)))
    elif isinstance(md, float):
        out.append((path + ":*2", md * 2))
        out.append((path + ":float->str", str(md)))
    elif isinstance(md, str):
        out.append((path + ":other", md + "x"))
    elif md is None:
        out.append((path + ":None->str", "None"))
    return out


def pick_k(k, seq):
    return seq[k % len(seq)]


def family(k, rng):
    """Return [(name, form, tag)]: the base form first, then its mutants / equal rebuilds.
    tag: 'same' (must have the base signature), 'diff' (must differ), or a known-collision kind."""
    c = Ctx(rng)
    V, V2, Vv, Vt = c.V(), c.V(deg=2), c.V((2,)), c.V((2, 2))
    f, g, h = ufl.Coefficient(V), ufl.Coefficient(V), ufl.Coefficient(V)
    A, B = ufl.Coefficient(Vt), ufl.Coefficient(Vt)
    w = ufl.Coefficient(Vv)
    kc = ufl.Constant(c.m)
    mB = ufl.Mesh(elements.LagrangeElement(c.cell, 1, (2,)))        # a second mesh, not an integration domain
    mC = ufl.Mesh(elements.LagrangeElement(c.cell, 1, (2,)))
    q = ufl.Coefficient(c.V(mesh=mB))
    u, v = ufl.TrialFunction(V), ufl.TestFunction(V)
    i, j = ufl.indices(2)
    lit = rng.choice([2, 3, 7, 0.5, 2.5])
    fx = rng.randrange(2)
    md0 = pick_k(k, [{"quadrature_degree": 2}, {"quadrature_degree": 3, "rule": "default"},
                      {"quadrature_degree": 2, "opts": {"a": 1, "b": [1, 2]}},
                      {"quadrature_degree": (1, 4), "rule": "default"},
                      {"quadrature_rule": "custom", "weights": [0.5, 0.25, 0.125],
                       "sub": {"degrees": (2, 3), "scheme": "default", "flag": True}}])
    sid0 = rng.choice([1, 2, (1, 2)])
    shape = k % 4

    def build(lit=lit, fx=fx, swap_idx=False, div_swap=False, conj=False, fdeg=None, argno=False,
              coef_other=False, sid=sid0, itype="dx", mesh=None, md=md0, pow_swap=False, cond_swap=False,
              fresh=False, dot_swap=False, extra_lit=None, fmesh=None, qmesh=mB, xmesh=None):
        ff, gg = (f, g)
        if fresh:
            # same construction from fresh index objects / an equal Coefficient object
            ii, jj = ufl.indices(2)
            ff = ufl.Coefficient(V, count=f.count())
        else:
            ii, jj = i, j
        if fdeg is not None:
            ff = ufl.Coefficient(c.V(deg=fdeg), count=f.count())
        if coef_other:
            ff = h
        if fmesh is not None:
            ff = ufl.Coefficient(c.V(mesh=fmesh), count=f.count())
        qq = q if qmesh is mB else ufl.Coefficient(c.V(mesh=qmesh), count=q.count())
        t1 = A[ii, jj] * (B[ii, jj] if swap_idx else B[jj, ii])
        t2 = (gg / (ff + lit)) if not div_swap else ((ff + lit) / gg)
        t3 = w[fx] * (ufl.conj(ff) if conj else ff)
        t4 = (ff ** gg) if not pow_swap else (gg ** ff)
        t5 = ufl.conditional(ufl.lt(ff, gg), gg, ff) if not cond_swap else ufl.conditional(ufl.lt(ff, gg), ff, gg)
        t6 = ufl.dot(A, w)[0] if not dot_swap else ufl.dot(w, A)[0]
        parts = [t1, t2, t3, t4, t5, t6]
        e = parts[shape] + parts[(shape + 1) % 6] * kc
        if shape % 2 == 0:
            e = e + parts[(shape + 3) % 6]
        e = e + qq * ufl.SpatialCoordinate(xmesh or c.m)[0]
        if extra_lit is not None:
            e = e * extra_lit
        vv = ufl.TestFunction(V) if not argno else ufl.TrialFunction(V)
        e = e * vv
        meas = {"dx": ufl.dx, "ds": ufl.ds, "dS": ufl.dS}[itype]
        dom = mesh or c.m
        if itype == "dS":
            e = e("+")
        return e * meas(sid, domain=dom, metadata=md)

    out = [("base", build(), "same")]
    out.append(("rebuilt", build(), "same"))
    out.append(("fresh-objects", build(fresh=True), "same"))
    out.append(("literal", build(lit=lit + 1), "diff"))
    out.append(("literal-float-digits", build(extra_lit=0.1), "diff0"))
    out.append(("literal-float-digits2", build(extra_lit=0.1 + 1e-15), "diff0b"))
    out.append(("fixed-index", build(fx=1 - fx), "diff"))
    out.append(("index-pattern", build(swap_idx=True), "diff"))
    out.append(("division-order", build(div_swap=True), "diff"))
    out.append(("power-order", build(pow_swap=True), "diff"))
    out.append(("conditional-branches", build(cond_swap=True), "diff"))
    out.append(("dot-order", build(dot_swap=True), "diff"))
    out.append(("conj", build(conj=True), "diff"))
    out.append(("element-degree", build(fdeg=2), "diff"))
    out.append(("argument-number", build(argno=True), "diff"))
    out.append(("other-coefficient", build(coef_other=True), "diff"))
    out.append(("coefficient-moved-to-second-mesh", build(fmesh=mB), "diff"))
    out.append(("second-mesh-coefficient-moved-to-integration-mesh", build(qmesh=c.m), "diff"))
    out.append(("second-mesh-replaced-by-third", build(qmesh=mC), "same"))
    out.append(("coordinate-of-second-mesh", build(xmesh=mB), "diff"))
    out.append(("coordinate-of-third-mesh", build(xmesh=mC), "diff"))
    # index slots: every placement of free / fixed indices in A[.,.] * B[.,.] and in component tensors
    ii, jj = ufl.indices(2)
    slots = [("i0", (ii, 0)), ("0i", (0, ii)), ("i1", (ii, 1)), ("1i", (1, ii)), ("ii", (ii, ii)),
             ("00", (0, 0)), ("01", (0, 1)), ("10", (1, 0)), ("ij", (ii, jj)), ("ji", (jj, ii)), ("j0", (jj, 0))]
    vt = ufl.TestFunction(V)
    for nm, pq in slots:
        out.append(("slots-" + nm, A[pq] * B[pq] * vt * ufl.dx(domain=c.m), "slots"))
    out.append(("slots-ij-ji", A[ii, jj] * B[jj, ii] * vt * ufl.dx(domain=c.m), "slots"))
    out.append(("slice-col0", ufl.inner(A[:, 0], w) * vt * ufl.dx(domain=c.m), "slots"))
    out.append(("slice-row0", ufl.inner(A[0, :], w) * vt * ufl.dx(domain=c.m), "slots"))
    out.append(("ct-col0", ufl.as_vector(A[ii, 0], ii)[1] * vt * ufl.dx(domain=c.m), "slots"))
    out.append(("ct-row0", ufl.as_vector(A[0, ii], ii)[1] * vt * ufl.dx(domain=c.m), "slots"))
    # several integrals that reuse the same Index objects (the index numbering is shared by the whole form)
    pv, qv, w2 = ufl.Coefficient(Vv), ufl.Coefficient(Vv), ufl.Coefficient(Vv)
    for na, (x, y) in (("ij", (ii, jj)), ("ji", (jj, ii))):
        for nb, (r, t) in (("ij", (ii, jj)), ("ji", (jj, ii)), ("ii", (ii, ii))):
            fm = A[ii, jj] * (w[x] * w2[y]) * vt * ufl.dx(1, domain=c.m) + pv[r] * pv[r] * vt * ufl.dx(2, domain=c.m) + \
                qv[t] * qv[t] * vt * ufl.dx(3, domain=c.m)
            out.append((f"multi-integral-{na}-{nb}", fm, "multi"))
    # variables: distinct labels on equal expressions, unexpanded diff
    v1, v2, v3 = ufl.variable(f * g), ufl.variable(f * g), ufl.variable(f + g)
    for nm, e in (("d-v1", ufl.diff(v1 ** 2 * v2, v1)), ("d-v2", ufl.diff(v1 ** 2 * v2, v2)),
                  ("d-v1-sym", ufl.diff(v2 ** 2 * v1, v2)), ("v1v2", v1 * v2 + v1), ("v1v2b", v1 * v2 + v2),
                  ("v1v1", v1 * v1 + v1), ("d-v3", ufl.diff(v1 * v3, v3)), ("d-v3b", ufl.diff(v1 * v3, v1))):
        out.append(("variables-" + nm, e * vt * ufl.dx(domain=c.m), "labels"))
    # the same form on meshes that differ only in the coordinate element (gdim, degree, family)
    from ufl.sobolevspace import L2
    coord = {"P1-flat": elements.LagrangeElement(c.cell, 1, (2,)), "P1-flat-again": elements.LagrangeElement(c.cell, 1, (2,)),
             "P1-manifold-gdim3": elements.LagrangeElement(c.cell, 1, (3,)), "P2-flat": elements.LagrangeElement(c.cell, 2, (2,)),
             "P2-manifold-gdim3": elements.LagrangeElement(c.cell, 2, (3,)),
             "DG1-flat": elements.FiniteElement("Discontinuous Lagrange", c.cell, 1, (2,), elements.identity_pullback, L2)}
    for nm, ce in coord.items():
        mx = ufl.Mesh(ce)
        Vx = ufl.FunctionSpace(mx, elements.LagrangeElement(c.cell, 1, ()))
        fx_ = ufl.Coefficient(Vx, count=f.count())
        fm = (ufl.TrialFunction(Vx) * ufl.TestFunction(Vx) + fx_ * ufl.CellVolume(mx) * ufl.TestFunction(Vx)) * ufl.dx(domain=mx)
        out.append(("domain-" + nm, fm, "domains"))
    # multi-mesh measures: the integral type used on every intersected mesh is part of the compiled meaning
    qC = ufl.Coefficient(c.V(mesh=mC), count=q.count() + 1000)
    prim = pick_k(k, ["ds", "dx", "dS"])

    def xform(pairs, coefs=(q,), prim=prim, sid=sid0):
        ms = ufl.Measure(prim, c.m, intersect_measures=tuple(ufl.Measure(t, mx) for t, mx in pairs))
        e = f * vt
        for cf in coefs:
            e = e * cf
        return e * ms(sid)

    for nm, fm in (("none", xform(())), ("B-ds", xform((("ds", mB),))), ("B-ds-rebuilt", xform((("ds", mB),))),
                   ("B-dS", xform((("dS", mB),))), ("B-dx", xform((("dx", mB),))),
                   ("C-ds", xform((("ds", mC),))), ("C-dS", xform((("dS", mC),))),
                   ("B-ds-other-primary", xform((("ds", mB),), prim="dx" if prim != "dx" else "ds")),
                   ("B-ds-other-subdomain", xform((("ds", mB),), sid=7)),
                   ("B-ds-no-coefficient", xform((("ds", mB),), coefs=())),
                   ("C-ds-no-coefficient", xform((("ds", mC),), coefs=())),
                   ("C-dS-no-coefficient", xform((("dS", mC),), coefs=())),
                   ("B-ds-C-dS", xform((("ds", mB), ("dS", mC)))),
                   ("C-dS-B-ds-listed-in-reverse", xform((("dS", mC), ("ds", mB)))),
                   ("B-dS-C-ds", xform((("dS", mB), ("ds", mC)))),
                   ("B-ds-C-ds", xform((("ds", mB), ("ds", mC)))),
                   ("B-ds-C-dS-both-coefficients", xform((("ds", mB), ("dS", mC)), coefs=(q, qC))),
                   ("B-dS-C-ds-both-coefficients", xform((("dS", mB), ("ds", mC)), coefs=(q, qC)))):
        out.append(("intersect-" + nm, fm, "xdoms"))
    out.append(("subdomain-id", build(sid=3 if sid0 != 3 else 4), "diff"))
    out.append(("subdomain-tuple", build(sid=(1, 3)), "diff"))
    out.append(("integral-type", build(itype="ds"), "diff"))
    out.append(("domain-coordinate-degree", build(mesh=c.m2), "diff"))
    for nm, mdm in md_mutants(md0):
        out.append(("metadata:" + nm, build(md=mdm), "md-generic"))
    md2 = dict(md0)
    md2["extra"] = "x"
    out.append(("metadata-key", build(md=md2), "diff"))
    out.append(("metadata-none", build(md=None), "diff"))
    # untyped metadata: the known collisions
    md3 = dict(md0)
    md3["extra"] = 3
    md4 = dict(md0)
    md4["extra"] = "3"
    out.append(("metadata-int", build(md=md3), "md"))
    out.append(("metadata-int-vs-str", build(md=md4), "md"))
    out.append(("metadata-list", build(md={"p": [1, 2], "q": None}), "mdl0"))
    out.append(("metadata-tuple", build(md={"p": (1, 2), "q": "None"}), "mdl1"))
    # arrays
    n = 5 + rng.randrange(4)
    wts = np.linspace(0.1, 0.9, n) / 3.0
    w2 = wts.copy()
    w2[rng.randrange(n)] += 1e-11
    w3 = wts.copy()
    w3[rng.randrange(n)] += 1e-3
    out.append(("metadata-array", build(md={"weights": wts}), "arr0"))
    out.append(("metadata-array-10th-digit", build(md={"weights": w2}), "arr1"))
    out.append(("metadata-array-3rd-digit", build(md={"weights": w3}), "arr2"))
    big = np.arange(1200, dtype=float)
    big2 = big.copy()
    big2[600] = -1.0
    out.append(("metadata-bigarray", build(md={"points": big}), "big0"))
    out.append(("metadata-bigarray-elt600", build(md={"points": big2}), "big1"))
    return out


# ------------------------------------------------------------------------------------------------
def main(run):
    rng = random.Random(run.seed * 104729 + 11)
    run.extra["canonicalize_metadata_variant"] = detect_mode()
    nfam = 6 if run.tier == "quick" else 40
    known = {k["id"]: k for k in vlib.load_known_findings("C11")}
    viol, known_inst = [], []
    sig_of, mean_of = {}, {}
    term_pairs = {}      # model thd -> set(real data) ; and reverse
    rev_pairs = {}
    coq_md, coq_expr, coq_xd = [], [], []
    mp = L.Mapper()

    def real_data_key(x):
        return repr(x)

    for k in range(nfam):
        fam = family(k, rng)
        rows = []
        for name, form, tag in fam:
            M = Meaning(form)
            mean = M.meaning()
            sig = form.signature()
            rows.append((name, form, tag, mean, sig, M))
            # terminal level: model signature data vs real _ufl_signature_data_
            ren = form._compute_renumbering()
            integrands = [itg.integrand() for itg in form.integrals()]
            th = compute_terminal_hashdata(integrands, ren)
            mi_fwd, mi_bwd = {}, {}
            for t, real in th.items():
                if isinstance(t, MultiIndex):
                    # the numbering order of the real traversal may differ from the model's, but inside one form
                    # model and real multi-index data must be in bijection
                    mi_fwd.setdefault(M.thd(t), set()).add(real)
                    mi_bwd.setdefault(real, set()).add(M.thd(t))
                    continue
                mk = M.thd(t)
                rk = real_data_key(real)
                term_pairs.setdefault(mk, set()).add(rk)
                rev_pairs.setdefault(rk, set()).add(mk)
            for real, ms in mi_bwd.items():
                if len(ms) > 1:
                    viol.append(("multiindex-collision", {
                        "failing_input": {"form": repr(form)[:4000], "str": str(form)[:600]},
                        "observed": f"compute_multiindex_hashdata gives {real!r} for the different multi-indices "
                                    f"{sorted(ms)} (model data: fixed >= 0, k-th free index -(k+1)) of this form",
                        "expected": "different hash data for multi-indices that differ after canonical renumbering"}))
            for mk, rs in mi_fwd.items():
                if len(rs) > 1:
                    viol.append(("multiindex-data", {"failing_input": {"form": repr(form)[:4000]},
                                                     "observed": f"multi-index {mk} hashed as {sorted(rs)}"}))
        base = rows[0]
        for (n1, f1, t1, m1, s1, M1), (n2, f2, t2, m2, s2, M2) in itertools.combinations(rows, 2):
            run.count_case((k, n1, n2), nontrivial=True)
            same_sig, same_mean = s1 == s2, m1 == m2
            rec = {"family": k, "seed": run.seed, "form_1": {"mutation": n1, "str": str(f1)[:700], "signature": s1,
                                                             "metadata": repr(f1.integrals()[0].metadata())[:300]},
                   "form_2": {"mutation": n2, "str": str(f2)[:700], "signature": s2,
                              "metadata": repr(f2.integrals()[0].metadata())[:300]},
                   "failing_input": {"form_1": repr(f1)[:6000], "form_2": repr(f2)[:6000]},
                   "observed": {"signature_1": s1, "signature_2": s2},
                   "reproduce": "bin/check C11 (family(k, rng) in py/props/C11.py rebuilds both forms; "
                                "failing_input holds their eval()-able repr)"}
            md1, md2 = f1.integrals()[0].metadata(), f2.integrals()[0].metadata()
            really_differ = not md_equal(md1, md2) or strip_md(m1) != strip_md(m2)
            if same_sig and really_differ:
                # a collision: forms with different compiled meaning share a signature
                if same_mean and strip_md(m1) == strip_md(m2) and not md_equal(md1, md2):
                    if md_equal_mod_seqtype(md1, md2):
                        kind, applies = "metadata-list-vs-tuple", not MODE["tag"]
                    elif has_array(md1) or has_array(md2):
                        kind, applies = "metadata-array-str", MODE["leaf"] == "str"
                    else:
                        kind, applies = "metadata-untyped", MODE["leaf"] == "str"
                    if kind in known and applies:
                        known_inst.append((kind, rec))
                        continue
                rec["expected"] = "different signatures (the forms differ in " + n1 + " / " + n2 + ")"
                viol.append(("collision", rec))
            elif not same_sig and not really_differ:
                rec["expected"] = "equal signatures (the forms are equal up to index / counter numbering)"
                viol.append(("incomplete", rec))
            elif same_sig != same_mean:
                rec["expected"] = f"model meaning equal = {same_mean}, real signature equal = {same_sig}"
                viol.append(("model-disagreement", rec))
        # Coq cases: integrals that agree in every other component of the meaning -> their [xdoms] token lists
        # are equal in the model exactly when the real signatures are
        xrows = [r for r in rows if r[2] == "xdoms"]
        for (n1, f1, t1, m1, s1, M1), (n2, f2, t2, m2, s2, M2) in itertools.combinations(xrows, 2):
            if len(m1) == 1 and len(m2) == 1 and m1[0][:3] + m1[0][4:] == m2[0][:3] + m2[0][4:]:
                coq_xd.append((m1[0][3], m2[0][3], s1 == s2))
        # Coq cases from this family: metadata pairs and integrand pairs against the base
        for (n2, f2, t2, m2, s2, M2) in rows[1:]:
            coq_md.append((base[1].integrals()[0].metadata(), f2.integrals()[0].metadata(),
                           canonicalize_metadata(base[1].integrals()[0].metadata()) ==
                           canonicalize_metadata(f2.integrals()[0].metadata())))
            e1, e2 = base[1].integrals()[0].integrand(), f2.integrals()[0].integrand()
            h1 = compute_expression_hashdata(e1, compute_terminal_hashdata([e1], base[1]._compute_renumbering()))
            h2 = compute_expression_hashdata(e2, compute_terminal_hashdata([e2], f2._compute_renumbering()))
            coq_expr.append((renumbered_tree(base[5], e1), renumbered_tree(M2, e2), h1 == h2))

    # terminal-level bijection
    for mk, rs in term_pairs.items():
        if len(rs) > 1:
            viol.append(("terminal-data", {"model_signature_data": repr(mk)[:500], "real_signature_data": sorted(rs)[:3],
                                           "expected": "one real _ufl_signature_data_ per model value (the real data "
                                                       "distinguishes terminals the model identifies)"}))
    for rk, ms in rev_pairs.items():
        if len(ms) > 1:
            viol.append(("terminal-collision", {"real_signature_data": rk[:500], "model_signature_data": [repr(m)[:300] for m in ms][:3],
                                                "expected": "terminals with different meaning have different "
                                                            "_ufl_signature_data_"}))

    # -- Coq: canon_md and strip evaluated by the model on the same data
    em = L.Emitter()
    body = []
    mdfun = "md_tok" if MODE["leaf"] == "str" else f"md_tok2 {'true' if MODE['tag'] else 'false'}"
    for n, (a, b, real_eq) in enumerate(coq_md):
        if a is None or b is None:
            continue
        ga, gb = md_gallina(a, em), md_gallina(b, em)
        if real_eq:
            body.append(f"Example md{n} : {mdfun} {ga} = {mdfun} {gb}.\nProof. vm_compute. reflexivity. Qed.")
        else:
            body.append(f"Example md{n} : {mdfun} {ga} <> {mdfun} {gb}.\nProof. vm_compute. discriminate. Qed.")
    files = []
    text = L.header(("Props.C29_model", "Props.C11_model"), zarith=True) + \
        "\n".join(em.lines) + "\n\n" + "\n".join(body) + "\n"
    p = os.path.join(vlib.GEN, "C11_md.v")
    vlib.write_if_changed(p, text)
    files.append(p)
    nsh = 4 if run.tier == "quick" else 12
    per = max(1, -(-len(coq_expr) // nsh))
    for s in range(0, len(coq_expr), per):
        em = L.Emitter()
        body = []
        for n, (ta, tb, real_eq) in enumerate(coq_expr[s:s + per]):
            if real_eq:
                body.append(f"Example e{s + n} : strip {em.name(ta)} = strip {em.name(tb)}.\nProof. vm_compute. reflexivity. Qed.")
            else:
                body.append(f"Example e{s + n} : strip {em.name(ta)} <> strip {em.name(tb)}.\n"
                            "Proof. vm_compute. intro E. discriminate E. Qed.")
        text = L.header(("Props.C29_model", "Props.C11_model")) + \
            "\n".join(em.lines) + "\n\n" + "\n".join(body) + "\n"
        p = os.path.join(vlib.GEN, f"C11_expr_{s // per}.v")
        vlib.write_if_changed(p, text)
        files.append(p)
    body = []

    def xd_gallina(xd):
        return "[" + "; ".join(f'({fsid(("dom", d))}%N, "{t}"%string)' for d, t in xd) + "]"

    for n, (xa, xb, real_eq) in enumerate(coq_xd):
        la, lb = (f"(map (xdom_tok unit) {xd_gallina(x)})" for x in (xa, xb))
        if real_eq:
            body.append(f"Example xd{n} : {la} = {lb}.\nProof. vm_compute. reflexivity. Qed.")
        else:
            body.append(f"Example xd{n} : {la} <> {lb}.\nProof. vm_compute. intro E. discriminate E. Qed.")
    if body:
        p = os.path.join(vlib.GEN, "C11_xdoms.v")
        vlib.write_if_changed(p, L.header(("Props.C29_model", "Props.C11_model")) + "\n".join(body) + "\n")
        files.append(p)
    run.extra["extra_domain_map_pairs_in_coq"] = len(coq_xd)
    hand = vlib.coqc("Props/C11_model.v")
    run.add_coq_result(hand)
    if not hand.ok:
        run.violation({"broken": "coq/Props/C11_model.v does not compile", "error": hand.err[-1500:]}, False)
    coq_fail = []
    for res in vlib.coqc_many(files):
        run.add_coq_result(res)
        if not res.ok:
            coq_fail.append((os.path.basename(res.path), res.failing_lemma(), (res.err or "")[-300:]))

    # -- verdict
    prio = {"collision": 0, "incomplete": 1, "multiindex-collision": 2}
    viol.sort(key=lambda v: prio.get(v[0], 5))
    real_v = [v for v in viol if v[0] != "model-disagreement"]
    for kind, rec in real_v[:6]:
        rec = dict(rec)
        rec["violated"] = kind
        run.violation(rec, True)
    if not real_v and (coq_fail or any(v[0] == "model-disagreement" for v in viol)):
        run.violation({"broken": "correspondence between the model of the hash data and the implementation",
                       "failing_coq_examples": coq_fail[:5],
                       "disagreements": [v[1] for v in viol if v[0] == "model-disagreement"][:3]}, False)
    for kind in sorted({k for k, _ in known_inst}):
        inst = [r for k, r in known_inst if k == kind]
        w = inst[0]
        run.known(f"{kind}: {len(inst)} pairs of forms with different metadata share a signature, e.g. "
                  f"{w['form_1']['mutation']} vs {w['form_2']['mutation']}: {w['form_1']['metadata'][:60]} vs "
                  f"{w['form_2']['metadata'][:60]}; model theorems " +
                  {"metadata-list-vs-tuple": "C11_repaired_sequence_type_refuted / C11_metadata_untyped_refuted "
                                             "(closed by C11_canon_md2_inj_tagged)",
                   "metadata-untyped": "C11_metadata_untyped_refuted, C11_signature_collision_untyped",
                   "metadata-array-str": "C11_signature_collision_from_array_str"}[kind])
    run.extra["known_class_instances"] = len(known_inst)
    run.extra["families"] = nfam
    run.extra["terminal_signature_data_values"] = len(term_pairs)
    run.sample({"mutations": [n for n, _, _ in family(0, random.Random(0))]})
    run.trusted.update([
        "Coq 8.16.1 kernel (coqc), vm_compute",
        "H = sha512 o str is a Section variable, injective by HYPOTHESIS in C11_sound (collisions of SHA-512 and "
        "ambiguities of Python's str() of nested data are outside the proof)",
        "str(int), str(float), str(ndarray) are Section variables; injectivity of str(ndarray) is refuted on the real numpy",
        "function-space / element data are opaque atoms in the model (repr of user elements)",
        "py/props/C11.py: Python mirror of `meaning` used for the pairwise comparison; T3 sampled on generated families",
    ])
    return run.finish(
        rule="case = pair of forms of one family (base, rebuilds, single-point mutants); obligations = hand theorems + "
             "one Coq Example per (base, mutant) metadata pair and integrand pair",
        assumptions=["metadata dict keys are strings; dicts are modelled with sorted keys",
                     "index numbering of the model uses its own traversal order (alpha-equivalent to the real one)"])


def strip_md(mean):
    return tuple(m[:5] for m in mean)


def has_array(md):
    if isinstance(md, np.ndarray):
        return True
    if isinstance(md, dict):
        return any(has_array(v) for v in md.values())
    if isinstance(md, list | tuple):
        return any(has_array(v) for v in md)
    return False


def renumbered_tree(M, e):
    """The C29/C12 tree of e with counters replaced by the model's canonical numbers."""
    memo = {}

    def go(x):
        k = id(x)
        if k in memo:
            return memo[k]
        tc = x._ufl_typecode_
        if x._ufl_is_terminal_:
            if isinstance(x, MultiIndex):
                d = ("M", tuple((True, int(i)) if isinstance(i, FixedIndex) else (False, M.idx[i]) for i in x._indices))
            elif isinstance(x, Argument):
                d = ("A", x.number(), x.part(), fsid(M.fs(x.ufl_function_space())))
            elif isinstance(x, Coefficient):
                d = ("C", M.rank[Coefficient][x.count()], fsid(M.fs(x.ufl_function_space())))
            elif isinstance(x, Label):
                d = ("B", M.rank[Label][x.count()])
            else:
                d = ("R", (("lit", M.thd(x)[1]),))
            r = ("L", tc, d)
        else:
            r = ("N", tc, tuple(go(o) for o in x.ufl_operands))
        memo[k] = r
        return r
    return go(e)


_FS = {}


def fsid(key):
    return _FS.setdefault(key, len(_FS))


def replay(run, data):
    print(data)
    return 0
