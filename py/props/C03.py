"""C03 - Spatial derivatives are lowered to exact derivatives of terminals.

Hand-written, unbounded part (coq/Props/C03_model.v): a Gallina model of the Grad rule set and the
theorem, by induction over all expressions of the modelled fragment, that its output denotes the
derivative in every differential algebra (Grad = an arbitrary family of derivations with chain-rule
laws), plus the normal-form theorem.

Tie to /repo (T2, regenerated on every run): the REAL pipeline
`apply_derivatives(apply_algebra_lowering(e))` is run on (a) one expression per differentiation rule
and operand pattern and (b) seeded random typed expressions with arbitrarily nested
grad/div/curl/nabla_grad/nabla_div/.dx; input and output are serialised node for node and Coq
proves, for all field values in every differential UFL algebra, den(out) c = den(in) c, after pushing
the derivations of the input side to the terminals with the derivation laws.  A second family traces
the reference-frame rules (Grad(ReferenceValue f) -> K_ji RefGrad, ReferenceGradRuleset) with the
chain rule through the cell map as hypothesis.  Every output must also satisfy the Gallina
predicate `grad_normal` (derivatives act on terminals only), checked by computation."""

import itertools
import os
import random

import ufl
import ufl.classes as C
from ufl.algorithms.apply_algebra_lowering import apply_algebra_lowering
from ufl.algorithms.apply_derivatives import apply_derivatives

import C03_coq
import C03_gen
import coqgen
import ufl2coq
import uflgen
import vlib
from elements import LagrangeElement

HAND_FILES = ["Props/C03_model.v", "Props/C03_findings.v"]

MAX_OUT_NODES = 120      # tree size of the implementation's output above which a random case is skipped
MAX_IN_NODES = 30
GEOMETRY_RULES = {"x", "x_component", "x_square", "x_sin", "grad_grad_x", "jacobian", "jacobian_inverse", "detJ",
                  "detJ_only", "facet_normal", "circumradius", "cell_volume", "constant", "constant_vec",
                  "dg0_coefficient", "literal", "zero_shortcut", "restricted_dg0_x", "restricted_normal_x", "jump_dg0_x",
                  "restricted_detJ_dx", "restricted_dg0_div", "restricted_literal", "sub0_scalar", "sub0_vector",
                  "sub0_grad_grad", "sub0_restricted", "restricted_inside", "restricted_outside", "restricted_const"}
# the lowering of the differential operators is written per dimension / per component: always traced on every cell
OPERATOR_RULES = {"curl_scalar", "curl_vec2", "curl_curl2", "curl_vec3", "curl_curl3", "div_curl", "curl_grad", "cross",
                  "curl_inner", "curl_list", "perp", "laplace", "div_vec", "div_tensor", "nabla_div_tensor", "nabla_grad_s",
                  "nabla_grad_v", "grad_div", "dx_fixed", "dx_free", "vector_terminal", "grad_grad"}


def pipeline(e):
    return apply_derivatives(apply_algebra_lowering(e))


def has_irrational_literal(e):
    """a float literal that is not a small rational: produced when UFL folds sin(0.5) etc. numerically at
    construction; its 53-bit dyadic value makes ring/field very slow and says nothing about differentiation"""
    from fractions import Fraction
    from ufl.corealg.traversal import unique_pre_traversal
    for x in unique_pre_traversal(e):
        if type(x).__name__ == "FloatValue":
            v = float(x._value)
            fr = Fraction(v).limit_denominator(5040)
            if not (v == 0 or (fr != 0 and abs(float(fr) - v) <= 4.5e-16 * abs(v))):
                return True
    return False


def tree_size(e, limit=100000):
    n, stack = 0, [e]
    while stack and n < limit:
        x = stack.pop()
        n += 1
        if not x._ufl_is_terminal_:
            stack.extend(x.ufl_operands)
    return n


# ---------------------------------------------------------------------------------------------
# known findings (known/C03.json): witnesses and decidable classes

def _has_domain(e):
    from ufl.domain import extract_domains
    return bool(extract_domains(e))


def class_curl_literal_component(e):
    """e contains curl(a) with a (lowered) a ListTensor one of whose components has no domain
    (python mirror of `lower_curl3 a = None`, coq/Props/C03_findings.v)"""
    from ufl.corealg.traversal import unique_pre_traversal
    for x in unique_pre_traversal(e):
        if type(x).__name__ == "Curl":
            try:
                a = apply_algebra_lowering(x.ufl_operands[0])
            except Exception:
                return True                      # an inner curl of the same class
            if type(a).__name__ == "ListTensor" and any(not _has_domain(o) for o in a.ufl_operands):
                return True
    return False


def class_abs_free_index(e):
    """some Abs node of the (lowered) expression has an operand with free indices (`abs_rule f df = None`)"""
    from ufl.corealg.traversal import unique_pre_traversal
    try:
        e = apply_algebra_lowering(e)
    except Exception:
        return False
    return any(type(x).__name__ == "Abs" and x.ufl_operands[0].ufl_free_indices for x in unique_pre_traversal(e))


KNOWN_CLASSES = {
    "curl-literal-component": (class_curl_literal_component, "Cannot determine geometric dimension"),
    "abs-free-index": (class_abs_free_index, "Expecting scalar arguments"),
}


def known_witness(kid):
    G = C03_gen.Gen(random.Random(0), "tetrahedron")
    i = ufl.Index()
    if kid == "curl-literal-component":
        return ufl.curl(ufl.as_vector([G.f[0], 0, G.f[1]])), G
    if kid == "abs-free-index":
        return ufl.grad(abs(G.v[0][i]) * G.v[1][i]), G
    raise KeyError(kid)


def attribute_known(e, ex, open_ids):
    """id of the open known finding whose class contains the failing input e (exception ex), or None"""
    for kid in open_ids:
        pred, msg = KNOWN_CLASSES[kid]
        if isinstance(ex, ValueError) and msg in str(ex) and pred(e):
            return kid
    return None


# ---------------------------------------------------------------------------------------------
# (a) one case per rule / operand pattern

def rule_cases(cell):
    g = C03_gen.GDIM[cell]
    G = C03_gen.Gen(random.Random(0), cell)
    f, h, w = G.f
    v, u = G.v
    T = G.T[0]
    x, c, cv, q0, J, K, detJ, n = G.x, G.c, G.cv, G.q0, G.J, G.K, G.detJ, G.n
    i, j = ufl.indices(2)
    grad, div, curl, ngrad, ndiv = ufl.grad, ufl.div, ufl.curl, ufl.nabla_grad, ufl.nabla_div
    L = [
        ("terminal", lambda: grad(f)), ("argument", lambda: grad(G.arg)), ("vector_terminal", lambda: grad(v)),
        ("constant", lambda: grad(c * f)), ("constant_vec", lambda: grad(cv[0] * f)), ("literal", lambda: grad(3 * f + 2.5)),
        ("dg0_coefficient", lambda: grad(q0 * f)),
        ("sum", lambda: grad(f + h)), ("product", lambda: grad(f * h)), ("product3", lambda: grad(f * h * w)),
        ("division", lambda: grad(f / h)), ("division_nested", lambda: grad(f / (h / w))),
        ("division_vec", lambda: grad(v / h)),
        ("power_int2", lambda: grad(f**2)), ("power_int3", lambda: grad((f * h)**3)), ("power_int1", lambda: grad(f**1)),
        ("power_int0", lambda: grad(h * f**0)),
        ("power_half", lambda: grad(f**0.5)), ("power_neg", lambda: grad(f**-1)), ("power_neg2", lambda: grad(f**-2)),
        ("power_general", lambda: grad(f**h)), ("power_const_exp", lambda: grad(f**c)),
        ("power_base_const", lambda: grad(c**f)),
        ("sqrt", lambda: grad(ufl.sqrt(f))), ("exp", lambda: grad(ufl.exp(f * h))), ("ln", lambda: grad(ufl.ln(f))),
        ("cos", lambda: grad(ufl.cos(f))), ("sin", lambda: grad(ufl.sin(f * h))), ("tan", lambda: grad(ufl.tan(f))),
        ("cosh", lambda: grad(ufl.cosh(f))), ("sinh", lambda: grad(ufl.sinh(f))), ("tanh", lambda: grad(ufl.tanh(f))),
        ("acos", lambda: grad(ufl.acos(f))), ("asin", lambda: grad(ufl.asin(f))), ("atan", lambda: grad(ufl.atan(f / h))),
        ("atan2", lambda: grad(ufl.atan2(f, h))), ("erf", lambda: grad(ufl.erf(f))),
        ("sqrt_2nd", lambda: div(grad(ufl.sqrt(f)))), ("ln_2nd", lambda: grad(grad(ufl.ln(f * h)))),
        ("atan_2nd", lambda: div(grad(ufl.atan(f)))), ("asin_2nd", lambda: grad(ufl.asin(f)).dx(0)),
        ("acos_2nd", lambda: grad(ufl.acos(f)).dx(g - 1)), ("tan_2nd", lambda: div(grad(ufl.tan(f)))),
        ("tanh_2nd", lambda: grad(ufl.tanh(f)).dx(0)), ("erf_2nd", lambda: grad(ufl.erf(f)).dx(0)),
        ("power_half_2nd", lambda: div(grad(f**0.5))), ("power_general_2nd", lambda: grad(f**h).dx(0)),
        ("abs", lambda: grad(abs(f))), ("abs_product", lambda: grad(abs(f * h))),
        ("conj", lambda: grad(ufl.conj(f) * h)), ("real", lambda: grad(ufl.real(f * h))), ("imag", lambda: grad(ufl.imag(f))),
        ("conditional", lambda: grad(ufl.conditional(ufl.lt(f, h), f * h, w))),
        ("conditional_const", lambda: grad(ufl.conditional(ufl.gt(f, h), c, 2.0))),
        ("conditional_vec", lambda: grad(ufl.conditional(ufl.And(ufl.ge(f, h), ufl.Not(ufl.eq(w, 0))), v, u))),
        ("min_value", lambda: grad(ufl.min_value(f, h))), ("max_value", lambda: grad(ufl.max_value(f * f, h))),
        ("indexed_fixed", lambda: grad(v[g - 1] * f)), ("indexed_free", lambda: ufl.as_tensor(grad(v[i] * u[i])[j], (j,))),
        ("indexed_tensor", lambda: grad(T[0, g - 1] * T[g - 1, 0])),
        ("index_sum", lambda: grad(v[i] * u[i])), ("index_sum_T", lambda: grad(T[i, i])),
        ("component_tensor", lambda: grad(ufl.as_tensor(v[i] * f, (i,)))),
        ("component_tensor2", lambda: grad(ufl.as_tensor(T[i, j] * f, (j, i)))),
        ("component_tensor_index", lambda: grad(ufl.as_tensor(T[i, j] * v[j], (i,))[0])),
        ("list_tensor", lambda: grad(ufl.as_vector([f * h] + [w] * (g - 1)))),
        ("list_tensor_const", lambda: grad(ufl.as_vector([f] + [c] * (g - 1)))),
        ("variable", lambda: grad(ufl.variable(f * h) * w)), ("variable_vec", lambda: grad(ufl.variable(v) * f)),
        ("restricted_inside", lambda: grad(f("+") * h("+"))), ("restricted_outside", lambda: grad(f * h)("-")),
        ("restricted_const", lambda: grad(c("+") * f("+"))),
        # the derivative is cellwise constant but depends on the side
        ("restricted_dg0_x", lambda: grad((q0 * x[0])("+"))), ("restricted_normal_x", lambda: grad((n[0] * x[g - 1])("-"))),
        ("jump_dg0_x", lambda: grad(ufl.jump(q0 * x[0]))), ("restricted_detJ_dx", lambda: (detJ * x[0] * x[0])("-").dx(0)),
        ("restricted_dg0_div", lambda: div((q0 * x)("+"))), ("restricted_literal", lambda: grad((3 * x[0] + f)("+"))),
        # elements that contain only P0 as Lagrange subspace but are not piecewise constant
        ("sub0_scalar", lambda: grad(G.s0 * f)), ("sub0_vector", lambda: div(G.r0 * f)),
        ("sub0_grad_grad", lambda: grad(grad(G.s0))), ("sub0_restricted", lambda: grad(G.s0("+") * x[0])),
        ("grad_grad", lambda: grad(grad(f))), ("grad_grad_product", lambda: grad(grad(f * h))),
        ("grad_grad_grad", lambda: grad(grad(grad(f)))), ("grad3_product", lambda: grad(grad(grad(f * h)))),
        ("laplace", lambda: div(grad(f))), ("laplace_product", lambda: div(grad(f * h))), ("laplace_quot", lambda: div(grad(f / h))),
        ("grad_div", lambda: grad(div(v))), ("div_vec", lambda: div(f * v)), ("div_tensor", lambda: div(f * T)),
        ("nabla_div_tensor", lambda: ndiv(f * T)), ("nabla_grad_s", lambda: ngrad(f * h)), ("nabla_grad_v", lambda: ngrad(f * v)),
        ("nabla_div_nabla_grad", lambda: ndiv(ngrad(f * h))),
        ("dx_fixed", lambda: (f * h).dx(g - 1)), ("dx_free", lambda: ufl.as_tensor((f * v[i]).dx(i, j), (j,))),
        ("dx_double", lambda: (f * h).dx(0, g - 1)),
        ("x", lambda: grad(x)), ("x_component", lambda: grad(x[0] * f)), ("x_square", lambda: div(grad(x[i] * x[i]))),
        ("x_sin", lambda: grad(ufl.sin(x[g - 1]) * f)), ("grad_grad_x", lambda: grad(grad(x[0] * x[g - 1]))),
        ("jacobian", lambda: grad(J[0, 0] * f)), ("jacobian_inverse", lambda: grad(K[0, g - 1] * f)),
        ("detJ", lambda: grad(detJ * f)), ("detJ_only", lambda: grad(detJ * c)),
        ("facet_normal", lambda: grad(n[0] * f)), ("circumradius", lambda: grad(G.h * f)), ("cell_volume", lambda: grad(f / G.vol)),
        ("dot", lambda: grad(ufl.dot(v, u))), ("inner_T", lambda: grad(ufl.inner(T, T))), ("outer", lambda: grad(ufl.outer(v, u))),
        ("matvec", lambda: div(ufl.dot(T, v))), ("transpose", lambda: div(ufl.transpose(T) * f)),
        ("sym", lambda: div(ufl.sym(grad(v)))), ("skew", lambda: ndiv(ufl.skew(grad(v)))), ("dev", lambda: div(ufl.dev(grad(v))) if g > 1 else div(ufl.sym(grad(v)))),
        ("tr", lambda: grad(ufl.tr(grad(v)))), ("zero_shortcut", lambda: grad(f * 0 + h)),
        ("in_condition", lambda: ufl.conditional(ufl.lt(f.dx(0), h), grad(f * h)[0], div(v))),
        ("scaled_context", lambda: w * grad(f * h)[0] + div(v * w)),
    ]
    if g == 2:
        L += [("curl_scalar", lambda: curl(f * h)), ("curl_vec2", lambda: curl(f * v)), ("curl_curl2", lambda: curl(curl(f * h))),
              ("perp", lambda: div(ufl.perp(v) * f)), ("det2", lambda: grad(ufl.det(grad(v))))]
    if g == 3:
        L += [("curl_vec3", lambda: curl(f * v)), ("curl_inner", lambda: ufl.inner(curl(v), u)),
              ("curl_list", lambda: curl(ufl.as_vector([f, 0, h * w]))), ("curl_curl3", lambda: curl(curl(v))), ("div_curl", lambda: div(curl(f * v))),
              ("cross", lambda: div(ufl.cross(v, u))), ("curl_grad", lambda: curl(grad(f * h)))]
    out = []
    for nm, build in L:
        try:
            out.append((f"{nm}_{cell[:3]}", build(), G, None))
        except Exception as ex:       # building a valid expression raised: reported by the caller
            out.append((f"{nm}_{cell[:3]}", None, G, f"{type(ex).__name__}: {ex}"))
    return out


# ---------------------------------------------------------------------------------------------
# (b') constructor shortcuts: Grad.__new__ / Div.__new__ ... fold "cellwise constant" operands to Zero when
# the expression is BUILT, so the input side of these cases is given as a Gallina term over the serialised
# operand (which contains no derivative) instead of being serialised from the constructed object

def ctor_cases(cell, rng, ncomp=6):
    g = C03_gen.GDIM[cell]
    G = C03_gen.Gen(random.Random(0), cell)
    f = G.f[0]
    x, c, detJ = G.x, G.c, G.detJ
    ops = [("x", x), ("x0_sq", x[0] * x[g - 1]), ("c_x0", c * x[0]), ("sin_x0", ufl.sin(x[0])), ("f", f),
           ("c_detJ", c * detJ), ("lit_c", 2.0 * c), ("x_scaled", detJ * x), ("cv", G.cv), ("x0_f", x[0] * f),
           ("sub0", G.s0), ("sub0_vec", G.r0), ("sub0_c", c * G.s0), ("q0", G.q0), ("q0_x", G.q0 * x)]
    out = []
    for nm, op in ops:
        for dn, build, spec in [("grad", ufl.grad, "Grad {op} %d" % g), ("nabla_grad", ufl.nabla_grad, "NablaGrad {op} %d" % g)] + (
                [("div", ufl.div, "Div {op} %d" % g)] if op.ufl_shape == (g,) else []):
            name = f"ctor_{dn}_{nm}_{cell[:3]}"
            try:
                res = pipeline(build(op))
            except Exception as ex:
                out.append((name, None, f"{dn}({op}) raised {type(ex).__name__}: {ex}"))
                continue
            ctx = ufl2coq.Ctx()
            kind, tid, _, _ = ctx.term(G.q0)
            comps = list(itertools.product(*[range(d) for d in res.ufl_shape]))
            if len(comps) > ncomp:
                comps = rng.sample(comps, ncomp)
            cs = coqgen.Case(name, out=res, spec="DEN s rho (" + spec.format(op=name + "_op") + ") {c}", named={"op": op},
                             hyps=[f"forall s c j, Dx j (env s {kind} {tid} c) = z0"], ctx=ctx, comps=comps,
                             tactic="c03_close", note={"family": "constructor", "operator": dn, "operand": str(op),
                                                       "cell": cell})
            cs.op = op
            cs.build = dn
            out.append((name, cs, None))
    return out


# ---------------------------------------------------------------------------------------------
# (c) reference-frame rules

def ref_cases(tier):
    """Grad of pulled-back form arguments and the ReferenceGradRuleset, on affine cells incl.
    gdim > tdim, and Grad of geometry on a non-affine (P2) mesh."""
    from ufl.algorithms.apply_function_pullbacks import apply_function_pullbacks
    out = []
    cfgs = [("interval", 1), ("interval", 2), ("triangle", 2), ("triangle", 3), ("tetrahedron", 3)]
    for cell, gdim in cfgs:
        m = uflgen.mesh(cell, gdim)
        t = m.topological_dimension
        sp = lambda sh: ufl.FunctionSpace(m, LagrangeElement(m.ufl_cell(), 2, sh))  # noqa: E731
        f, h = ufl.Coefficient(sp(())), ufl.Coefficient(sp(()))
        v = ufl.Coefficient(sp((gdim,)))
        x = ufl.SpatialCoordinate(m)
        K = ufl.JacobianInverse(m)
        rv = C.ReferenceValue
        i = ufl.Index()
        exprs = [("grad", ufl.grad(f)), ("grad_prod", ufl.grad(f * h)), ("grad_vec", ufl.grad(v)),
                 ("grad_x", ufl.grad(x[0] * f)), ("div", ufl.div(f * v))]
        if t <= 2 or tier == "thorough":
            exprs += [("grad_grad", ufl.grad(ufl.grad(f))), ("laplace_prod", ufl.div(ufl.grad(f * h)))]
        for nm, e in exprs:
            e1 = pipeline(e)
            e2 = apply_function_pullbacks(e1)
            out.append((f"pb_{nm}_{cell[:3]}{gdim}", e2, m, True))
        # reference gradients of compound expressions of reference values (ReferenceGradRuleset)
        rexprs = [("rgrad_prod", C.ReferenceGrad(rv(f) * rv(h))),
                  ("rgrad_quot", C.ReferenceGrad(rv(f) / rv(h))),
                  ("rgrad_K", C.ReferenceGrad(K[0, 0] * rv(f))),
                  ("rgrad_rgrad", C.ReferenceGrad(C.ReferenceGrad(rv(f) * rv(h)))),
                  ("rgrad_vec", C.ReferenceGrad(rv(v)[i] * rv(v)[i])),
                  ("rgrad_X", C.ReferenceGrad(C.CellCoordinate(m)[0] * rv(f)))]
        for nm, e in rexprs:
            out.append((f"{nm}_{cell[:3]}{gdim}", e, m, True))
    # non-affine: geometry is not cellwise constant, Grad(J) -> K_ji RefGrad(J)_rj
    for cell in ("triangle",) + (("tetrahedron",) if tier == "thorough" else ()):
        m = ufl.Mesh(LagrangeElement(uflgen.CELLS[cell], 2, (C03_gen.GDIM[cell],)))
        f = ufl.Coefficient(ufl.FunctionSpace(m, LagrangeElement(m.ufl_cell(), 1, ())))
        rf = C.ReferenceValue(f)
        J, K, detJ = ufl.Jacobian(m), ufl.JacobianInverse(m), ufl.JacobianDeterminant(m)
        x = ufl.SpatialCoordinate(m)
        for nm, e in [("na_J", ufl.grad(J[0, 0] * rf)), ("na_K", ufl.grad(K[0, 1] * rf)),
                      ("na_detJ", ufl.grad(detJ * rf)), ("na_x", ufl.grad(x[0] * rf)),
                      ("na_grad_grad", ufl.grad(ufl.grad(rf))), ("na_J_full", ufl.grad(J)),
                      ("na_rgrad_x", C.ReferenceGrad(x[0] * rf)), ("na_rgrad_J", C.ReferenceGrad(J[0, 0] * rf))]:
            out.append((f"{nm}_{cell[:3]}", e, m, False))
    return out


def ref_case(name, e, mesh, affine):
    out = apply_derivatives(e)
    ctx = ufl2coq.Ctx()
    K = ufl.JacobianInverse(mesh)
    kk, kid, _, _ = ctx.term(K)
    t, g = K.ufl_shape
    chain = " ".join(f"(mul (env s {kk} {kid} [{k}; j]) (DX {k} a))" for k in range(t))
    rhs = "z0"
    for k in range(t):
        rhs = f"(add {rhs} (mul (env s {kk} {kid} [{k}; j]) (DX {k} a)))"
    hyps = [f"forall j a, Dx j a = {rhs}"]
    if affine:
        for q in (K, ufl.Jacobian(mesh), ufl.JacobianDeterminant(mesh)):
            qk, qid, _, _ = ctx.term(q)
            hyps.append(f"forall s c k, DX k (env s {qk} {qid} c) = z0")
    comps = list(itertools.product(*[range(d) for d in out.ufl_shape]))
    if len(comps) > 9:
        comps = random.Random(len(name)).sample(comps, 9)
    return coqgen.Case(name, out=out, inp=e, hyps=hyps, ctx=ctx, comps=comps, tactic="c03r_close",
                       note={"family": "reference", "affine": affine, "cell": mesh.ufl_cell().cellname,
                             "gdim": g, "tdim": t})


# ---------------------------------------------------------------------------------------------

def make_case(name, e, gen, rng, note, ncomp):
    out = pipeline(e)
    ctx = ufl2coq.Ctx()
    kind, tid, _, _ = ctx.term(gen.q0)
    hyps = [f"forall s c j, Dx j (env s {kind} {tid} c) = z0"]
    comps = list(itertools.product(*[range(d) for d in out.ufl_shape]))
    if len(comps) > ncomp:
        comps = rng.sample(comps, ncomp)
    return coqgen.Case(name, out=out, inp=e, tactic="c03_close", comps=comps, note=note, ctx=ctx, hyps=hyps)


def random_cases(run, n):
    rng = random.Random(1000003 * run.seed + 17)
    cases, skipped = [], {"invalid_input": 0, "too_large": 0, "unsupported_node": 0}
    k = 0
    attempts = 0
    while len(cases) < n and attempts < 20 * n:
        attempts += 1
        cell = rng.choice(["interval", "triangle", "triangle", "tetrahedron"])
        order = rng.choice([1, 1, 2, 2, 3])
        depth = rng.choice([1, 2, 2, 3])
        if order == 3 and depth > 1:
            depth = 1                       # third derivatives only of small operands (proof size)
        sub = random.Random(rng.randrange(10**9))
        try:
            e, desc, gen = C03_gen.generate(sub, cell, depth, order)
        except (ValueError, AttributeError, RecursionError):
            skipped["invalid_input"] += 1          # the generator produced an ill-formed operand (UFL rejects it)
            continue
        if tree_size(e, 4 * MAX_IN_NODES) > MAX_IN_NODES:
            skipped["too_large"] += 1
            continue
        if has_irrational_literal(e):
            skipped["folded_float_literal"] = skipped.get("folded_float_literal", 0) + 1
            continue
        try:
            out = pipeline(e)
        except ValueError as ex:
            kid = attribute_known(e, ex, run.extra.get("open_known", []))
            if kid:
                run.extra.setdefault("known_finding_hits", {}).setdefault(kid, []).append(str(e)[:200])
                continue
            # UFL's own input validation (sqrt of a negative literal, 0**-1, ...): not a finding, counted
            skipped.setdefault("pipeline_ValueError", {}).setdefault(str(ex)[:60], 0)
            skipped["pipeline_ValueError"][str(ex)[:60]] += 1
            continue
        except Exception as ex:
            run.violation({"broken": "apply_derivatives(apply_algebra_lowering(e)) raised on a generated expression",
                           "input_expr": str(e), "input_repr": repr(e)[:4000], "note": desc,
                           "exception": f"{type(ex).__name__}: {ex}",
                           "reproduce": "bin/check C03 with VERIF_SEED=%d" % run.seed}, True)
            continue
        if tree_size(out, 4 * MAX_OUT_NODES) > MAX_OUT_NODES:
            skipped["too_large"] += 1
            continue
        try:
            c = make_case(f"r{k}", e, gen, sub, desc, 6)
            c.emit()
        except ufl2coq.Unsupported as ex:
            skipped["unsupported_node"] += 1           # fail-closed: the tie cannot be established for this case
            run.violation({"broken": "input or output contains a node outside the calculus (serializer is fail-closed)",
                           "message": str(ex), "input_expr": str(e), "input_repr": repr(e)[:4000],
                           "implementation_output": str(out)[:2000]}, False)
            continue
        cases.append(c)
        k += 1
    run.extra["random_skipped"] = skipped
    return cases


def normal_form_file(run, cases, name="C03_nf"):
    """Example <case>_nf : grad_normal <out> = true, by computation (coq/Props/C03_model.v)."""
    paths, lemmas_by_path = [], {}
    per = 60
    for b in range(0, len(cases), per):
        txt = ["Require Import UFLV.Core.Den UFLV.Props.C03_model.\n"]
        names = []
        for c in cases[b:b + per]:
            ser = ufl2coq.Ser(ufl2coq.Ctx(), prefix=f"{c.name}_m")
            t = ser.expr(c.out)
            txt.append(ser.definitions_text())
            txt.append(f"Definition {c.name}_out : expr := {t}.\n")
            txt.append(f"Example {c.name}_nf : grad_normal {c.name}_out = true. Proof. vm_compute. reflexivity. Qed.\n")
            names.append(f"{c.name}_nf")
        path = os.path.join(vlib.GEN, f"{name}_{b // per}.v")
        vlib.write_if_changed(path, "".join(txt))
        paths.append(path)
        lemmas_by_path[path] = names
    for f in os.listdir(vlib.GEN):
        if f.startswith(name + "_") and f.endswith(".v") and os.path.join(vlib.GEN, f) not in paths:
            os.remove(os.path.join(vlib.GEN, f))
    bad = []
    for r in vlib.coqc_many(paths, timeout=900):
        run.add_coq_result(r, lemmas_by_path[r.path])
        if not r.ok:
            bad.append((r.failing_lemma(), (r.err or "")[-300:]))
    return bad


def spec_env(seed, positive=False):
    """pyden environment whose notion of "constant on each cell" is the specification's (Constants, coefficients of
    elements with embedded_superdegree 0, the affine-constant geometry table), not ufl's is_cellwise_constant"""
    import pyden
    import ufl2coq

    class SpecEnv(pyden.Env):
        def value(self, t, comp, side):
            name = type(t).__name__
            h = getattr(self, "t_" + name, None)
            if h is not None:
                return h(t, comp, side)
            if name == "Constant":
                const = True
            elif name == "Coefficient":
                const = t.ufl_element().embedded_superdegree == 0
            elif name == "Argument":
                const = False
            else:
                const = name in C03_coq.AFFINE_CONSTANT_GEOMETRY
            key = (ufl2coq.Ctx.term_key(t), tuple(comp), side)
            return self.field(key, constant=const)
    return SpecEnv(nv=3, order=4, seed=seed, positive=positive)


def ctor_mismatch(case, trials, seed):
    """search oracle for the constructor cases: the derivative of the operand, computed on exact jets"""
    import pyden
    rng = random.Random(seed)
    for t in range(trials):
        env = spec_env(rng.randrange(10**9))
        for c in case.components():
            try:
                a = pyden.evaluate(case.out, env, {}, c)
                if case.build == "grad":
                    b = pyden.evaluate(case.op, env, {}, c[:-1]).diff(c[-1])
                elif case.build == "nabla_grad":
                    b = pyden.evaluate(case.op, env, {}, c[1:]).diff(c[0])
                else:
                    b = env.zero()
                    for j in range(case.op.ufl_shape[-1]):
                        b = b + pyden.evaluate(case.op, env, {}, tuple(c) + (j,)).diff(j)
            except Exception:
                return None
            if not a.close_to(b):
                return {"component": list(c), "implementation_value": str(a.value()), "expected_value": str(b.value()),
                        "operand": str(case.op), "operator": case.build}
    return None


def find_bad_derivative(out):
    """first derivative node of `out` that is not applied to Grad^k(terminal) (python mirror of
    grad_normal, used only to describe a violation)"""
    from ufl.corealg.traversal import unique_pre_traversal
    for x in unique_pre_traversal(out):
        n = type(x).__name__
        if n in ("Grad", "ReferenceGrad"):
            a = x.ufl_operands[0]
            while type(a).__name__ == n:
                a = a.ufl_operands[0]
            if type(a).__name__ == "ReferenceValue":
                a = a.ufl_operands[0]
            if not a._ufl_is_terminal_:
                return str(x)[:300]
        elif n in ("Div", "Curl", "NablaGrad", "NablaDiv", "VariableDerivative", "CoefficientDerivative"):
            return str(x)[:300]
    return None


def main(run):
    import pyden
    quick = run.tier == "quick"
    cases = []
    cells = ["triangle"] if quick else ["interval", "triangle", "tetrahedron"]
    rng0 = random.Random(run.seed)
    def add_rule(nm, e, gen, err, cell, ncomp):
        how = "python -c 'see rule_cases(\"%s\") in /verif/py/props/C03.py, entry %s'" % (cell, nm)
        if err is not None:
            run.violation({"broken": "constructing a valid expression with spatial derivatives raised",
                           "rule": nm, "cell": cell, "exception": err, "reproduce": how}, True)
            return
        try:
            cases.append(make_case(nm, e, gen, rng0, {"family": "rule", "rule": nm, "cell": cell}, ncomp))
        except ufl2coq.Unsupported as ex:
            run.violation({"broken": "output of the pipeline contains a node outside the calculus (fail-closed)",
                           "rule": nm, "cell": cell, "input_expr": str(e), "message": str(ex)}, False)
        except Exception as ex:
            run.violation({"broken": "apply_derivatives(apply_algebra_lowering(e)) raised on a valid expression",
                           "rule": nm, "cell": cell, "input_expr": str(e), "input_repr": repr(e)[:3000],
                           "exception": f"{type(ex).__name__}: {ex}", "reproduce": how}, True)

    for cell in cells:
        for nm, e, gen, err in rule_cases(cell):
            add_rule(nm, e, gen, err, cell, 3 if quick else 6)
    if quick:
        # on the other cells: every rule is built (construction errors are reported), the geometry / constant
        # rules (cell dependent) and every 10th other rule get obligations
        for cell in ("interval", "tetrahedron"):
            rc = rule_cases(cell)
            for k, (nm, e, gen, err) in enumerate(rc):
                if err is not None or nm.rsplit("_", 1)[0] in GEOMETRY_RULES | OPERATOR_RULES:
                    add_rule(nm, e, gen, err, cell, 2)
    for cell in ("interval", "triangle", "tetrahedron"):
        for name, cs, err in ctor_cases(cell, rng0, 2 if quick else 6):
            if err is not None:
                run.violation({"broken": "a spatial derivative of a valid operand raised", "case": name, "detail": err,
                               "reproduce": "ctor_cases(%r) in /verif/py/props/C03.py" % cell}, True)
            else:
                cases.append(cs)
    # known findings: replay the witnesses on the real code
    open_known = []
    for kf in vlib.load_known_findings("C03"):
        kid = kf["id"]
        if kid not in KNOWN_CLASSES:
            continue
        e, gen = known_witness(kid)
        try:
            pipeline(e)
        except ValueError as ex:
            if KNOWN_CLASSES[kid][1] in str(ex) and KNOWN_CLASSES[kid][0](e):
                open_known.append(kid)
                run.known(f"{kid}: apply_derivatives(apply_algebra_lowering({e})) raises ValueError('{ex}') "
                          f"[{', '.join(kf.get('model_theorems', []))}]")
                continue
            raise
        # the witness no longer fails (the defect was repaired): it becomes an ordinary obligation
        add_rule(f"known_{kid.replace('-', '_')}", e, gen, None, "tetrahedron", 6)
    run.extra["open_known"] = open_known
    rnd = random_cases(run, 30 if quick else 180)
    cases += rnd
    for c in cases:
        run.count_case((c.name, str(c.inp)))
    for c in rnd[:8] + cases[:3]:
        run.sample({"case": c.name, "note": c.note, "input": str(c.inp)[:300], "output": str(c.out)[:300]})
    hist = {}
    for c in rnd:
        for o in c.note.get("ops", []) + c.note.get("operators", []):
            hist[o] = hist.get(o, 0) + 1
    run.extra["random_operator_histogram"] = hist

    # numeric pre-check (exact jets): a case whose two sides already differ numerically is proved in its own
    # file with a short timeout, so that a broken rule does not make ring/field grind on false goals
    def oracle(case):
        if case.inp is None:
            return ctor_mismatch(case, 2, run.seed)
        return (pyden.find_mismatch(case.out, case.inp, trials=2, seed=run.seed, nv=3, order=4, env_factory=spec_env)
                or pyden.find_mismatch(case.out, case.inp, trials=2, seed=run.seed + 1, nv=3, order=4,
                                       env_factory=lambda sd: spec_env(sd, True)))
    witness = {}
    for c in cases:
        try:
            w = oracle(c)
        except Exception:
            w = None
        if w:
            witness[c.name] = w
    suspects = [c for c in cases if c.name in witness]
    normal = [c for c in cases if c.name not in witness]
    run.extra["numeric_precheck_suspects"] = [c.name for c in suspects]
    rcases = [ref_case(*t) for t in ref_cases(run.tier)]
    for c in rcases:
        run.count_case((c.name, str(c.inp)))
    run.sample({"case": rcases[0].name, "input": str(rcases[0].inp)[:300], "output": str(rcases[0].out)[:300]})
    for f_ in os.listdir(vlib.GEN):
        if f_.startswith("C03s_t2_"):
            os.remove(os.path.join(vlib.GEN, f_))

    # the three groups of Coq files are independent: check them concurrently
    def job_main():
        fl = C03_coq.emit_and_check(run, "C03", normal, timeout=1200 if quick else 2700,
                                    extra_header=C03_coq.extra_header(True), shards=16)
        if suspects:
            fl += C03_coq.emit_and_check(run, "C03s", suspects[:48], timeout=240, max_rounds=1,
                                         extra_header=C03_coq.extra_header(True), shards=min(16, len(suspects[:48])))
            for c in suspects[48:]:
                fl.append((c, c.name + "_numeric", "numeric pre-check: values differ (not sent to Coq)"))
        return fl

    def job_ref():
        return C03_coq.emit_and_check(run, "C03ref", rcases, timeout=1200 if quick else 2700,
                                      extra_header=C03_coq.extra_header_ref(), shards=4 if quick else 8)

    def job_nf_hand():
        bad = normal_form_file(run, cases + rcases)
        hands = [vlib.coqc(hf) for hf in HAND_FILES]          # after the nf files: they import C03_model.vo
        return bad, hands

    import concurrent.futures as cf
    with cf.ThreadPoolExecutor(3) as ex:
        f_main, f_ref, f_nf = ex.submit(job_main), ex.submit(job_ref), ex.submit(job_nf_hand)
        failing, failing_r = f_main.result(), f_ref.result()
        nf_bad, hands = f_nf.result()
    for hf, hand in zip(HAND_FILES, hands):
        run.add_coq_result(hand)
        if not hand.ok:
            run.violation({"broken": f"hand-written theorems coq/{hf} do not compile",
                           "message": (hand.err or "")[-1500:]}, False)

    seen = set()
    for case, lemma, msg in failing + failing_r:
        if case is None:
            run.violation({"broken": "generated obligations file does not compile / timed out", "message": msg}, False)
            continue
        if case.name in seen:
            continue
        seen.add(case.name)
        w = witness.get(case.name)
        if w:
            pass
        elif case.inp is None:
            w = ctor_mismatch(case, 10 if quick else 60, run.seed)
        elif case.tactic == "c03_close":
            w = pyden.find_mismatch(case.out, case.inp, trials=30 if quick else 200, seed=run.seed, nv=3, order=4,
                                    env_factory=spec_env)
            if not w:      # fields with positive values (powers / logarithms / square roots of the operands)
                w = pyden.find_mismatch(case.out, case.inp, trials=30 if quick else 200, seed=run.seed + 1, nv=3, order=4,
                                        env_factory=lambda sd: spec_env(sd, True))
        rep = {"broken_obligation": lemma, "case": case.name, "note": case.note, "coq_message": msg,
               "input_expr": str(case.inp) if case.inp is not None else f"{case.build}({case.op})",
               "input_repr": repr(case.inp)[:4000] if case.inp is not None else repr(case.op)[:4000],
               "implementation_output": str(case.out)[:3000],
               "expected": "den(apply_derivatives(apply_algebra_lowering(e))) = den(e) with Grad = exact derivative",
               "reproduce": "PYTHONPATH=$UFL_REPO:/verif/py python -c 'from ufl.algorithms.apply_derivatives "
                            "import apply_derivatives; from ufl.algorithms.apply_algebra_lowering import "
                            "apply_algebra_lowering; ...' on input_repr; or bin/check C03 (VERIF_SEED=%d)" % run.seed}
        if w:
            rep["witness"] = w
        run.violation(rep, bool(w))
    by_name = {c.name: c for c in cases + rcases}
    for lemma, msg in nf_bad:
        c = by_name.get((lemma or "")[:-3])
        if c is None:
            run.violation({"broken": "normal-form obligations file does not compile", "message": msg}, False)
            continue
        bad = find_bad_derivative(c.out)
        run.violation({"broken_obligation": lemma, "case": c.name, "input_expr": str(c.inp),
                       "input_repr": repr(c.inp)[:4000], "implementation_output": str(c.out)[:3000],
                       "expected": "every derivative in the output acts on Grad^k(terminal)",
                       "observed_non_terminal_derivative": bad}, bad is not None)

    run.trusted.update([
        "Coq 8.16.1 kernel (coqc); vm_compute used for normalisation, no native_compute",
        "py/ufl2coq.py serializer (node-for-node, fail-closed)",
        "den of Grad/Div/Curl/NablaGrad/NablaDiv in coq/Core/Den.v as the specification of the differential operators",
        "derivation laws (py/C03_coq.py): Derivation record of Core/Alg.v, chain rule per math function, power rule, "
        "almost-everywhere derivatives of abs/min/max, dx_i/dx_j = delta_ij, zero derivative of Constants, "
        "degree-0 coefficients and (affine simplex cells) cellwise constant geometric quantities (own table)",
        "erf'(x) = c exp(-x^2) with c the binary64 value of 2/sqrt(pi)",
        "reference family: chain rule Dx j a = sum_k K[k,j] DX k a assumed for the traced configuration",
        "py/C03_gen.py typed expression generator (bounds the sampled configurations)",
    ])
    return run.finish(
        rule="one case per (rule/operand pattern, cell) and per generated expression (seeded; depth<=3, derivative "
             "order<=3, output tree size<=%d); every (sampled, <=9) component of the result is one obligation proved "
             "for all field values; distinct = distinct (name, input expression)" % MAX_OUT_NODES,
        assumptions=["the family D_j are derivations with the stated chain-rule laws (Section hypotheses)",
                     "affine simplex cells for the constant-geometry laws; characteristic zero for literal fractions",
                     "Bessel functions, CellAvg/FacetAvg, ExprList/ExprMapping, BaseFormOperators and mixed "
                     "MeshSequence domains are outside the traced fragment"])
