"""C14 - The arity check accepts exactly multilinear integrands.

Hand-written, unbounded (coq/Props/C14_model.v, C14_sound.v): a Gallina model `arity`/`check` of
ArityChecker / check_integrand_arity (one function per handler, dispatch through the class table
`class_handler`) and the theorem, by induction over ALL expressions and for every UFL algebra:
accepted  =>  (conjugate-)linear in every argument number, exactly the declared arguments occur.

Ties to /repo, re-established on every run:
  T1  the handler table of ArityChecker (methods + aliases, parsed with `ast`) composed with the MRO
      dispatch of MultiFunction is regenerated into coq/Gen/C14_table.v; one `Example` per node class
      compares it with `class_handler` of the model;
  T3  generated integrands (fixed probes + seeded typed generator; real and complex mode): the REAL
      ArityChecker result (arity tuple or ArityMismatch) and the REAL check_integrand_arity verdict must
      equal `arity` / `check` of the model on the serialised expression (`Example ... vm_compute`).
Search oracle: every integrand accepted by the real code is evaluated over Q(i) jets
(py/C14_oracle.py) and tested for additivity/(conjugate-)homogeneity per argument number."""

import ast
import json
import os

import ufl
import ufl.classes as C
from ufl.algorithms.check_arities import ArityChecker, ArityMismatch, check_integrand_arity
from ufl.corealg.map_dag import map_expr_dag

import C14_gen as G
import C14_oracle as O
import pyden
import ufl2coq
import vlib

HAND_FILES = ["Props/C14_model.v", "Props/C14_sound.v"]

SRC = os.path.join(vlib.REPO, "ufl", "algorithms", "check_arities.py")

# handler definitions of ArityChecker that the model knows (name -> hkind of C14_model.v)
KNOWN_HANDLERS = {
    "terminal": "H_terminal", "argument": "H_argument", "nonlinear_operator": "H_nonlinear",
    "sum": "H_sum", "division": "H_division", "product": "H_product", "inner": "H_inner", "dot": "H_dot",
    "outer": "H_outer", "linear_operator": "H_linear", "conj": "H_conj", "variable": "H_variable",
    "conditional": "H_conditional", "linear_indexed_type": "H_indexed", "list_tensor": "H_list_tensor",
}

# node classes of the model (constructors of `cls`) -> the UFL classes they stand for
CLS = {
    "C_Zero": ["Zero"], "C_ScalarValue": ["IntValue", "FloatValue", "ComplexValue", "ScalarValue", "RealValue"],
    "C_Identity": ["Identity"], "C_PermutationSymbol": ["PermutationSymbol"],
    "C_Coefficient": ["Coefficient"], "C_Argument": ["Argument"], "C_Constant": ["Constant"],
    "C_GeometricQuantity": list(ufl2coq.GEOMETRY_KINDS),
    "C_Sum": ["Sum"], "C_Product": ["Product"], "C_Division": ["Division"], "C_Power": ["Power"],
    "C_Abs": ["Abs"], "C_Conj": ["Conj"], "C_Real": ["Real"], "C_Imag": ["Imag"],
    "C_Indexed": ["Indexed"], "C_IndexSum": ["IndexSum"], "C_ComponentTensor": ["ComponentTensor"],
    "C_ListTensor": ["ListTensor"], "C_Conditional": ["Conditional"],
    "C_MinValue": ["MinValue"], "C_MaxValue": ["MaxValue"], "C_MathFunction": list(ufl2coq.MATHFN),
    "C_Atan2": ["Atan2"], "C_BesselFunction": list(ufl2coq.BESSEL), "C_Variable": ["Variable"],
    "C_PositiveRestricted": ["PositiveRestricted"], "C_NegativeRestricted": ["NegativeRestricted"],
    "C_Grad": ["Grad"], "C_ReferenceGrad": ["ReferenceGrad"], "C_Div": ["Div"], "C_NablaGrad": ["NablaGrad"],
    "C_NablaDiv": ["NablaDiv"], "C_Curl": ["Curl"], "C_ReferenceValue": ["ReferenceValue"],
    "C_Transposed": ["Transposed"], "C_Outer": ["Outer"], "C_Inner": ["Inner"], "C_Dot": ["Dot"],
    "C_Cross": ["Cross"], "C_Perp": ["Perp"], "C_Trace": ["Trace"], "C_Determinant": ["Determinant"],
    "C_Inverse": ["Inverse"], "C_Cofactor": ["Cofactor"], "C_Deviatoric": ["Deviatoric"], "C_Skew": ["Skew"],
    "C_Sym": ["Sym"], "C_CellAvg": ["CellAvg"], "C_FacetAvg": ["FacetAvg"],
    "C_Condition": ["EQ", "NE", "LT", "GT", "LE", "GE", "AndCondition", "OrCondition", "NotCondition"],
}


# ---------------------------------------------------------------------------------------------
# T1: the dispatch table from the source

def source_handler_table():
    """name -> hkind (or None when the handler has a body the model does not know), from the AST of
    class ArityChecker: `def name(...)` and `alias = name` statements."""
    tree = ast.parse(open(SRC).read())
    cls = [n for n in tree.body if isinstance(n, ast.ClassDef) and n.name == "ArityChecker"]
    if len(cls) != 1:
        raise ufl2coq.Unsupported("class ArityChecker not found in check_arities.py")
    table, problems = {}, []
    for st in cls[0].body:
        if isinstance(st, ast.Expr) and isinstance(st.value, ast.Constant):
            continue                                           # docstring
        if isinstance(st, ast.FunctionDef):
            if st.name == "__init__":
                continue
            table[st.name] = KNOWN_HANDLERS.get(st.name)       # None: unknown body
            continue
        if isinstance(st, ast.Assign) and len(st.targets) == 1 and isinstance(st.targets[0], ast.Name) \
                and isinstance(st.value, ast.Name):
            table[st.targets[0].id] = table.get(st.value.id)
            if st.value.id not in table:
                problems.append(f"alias {st.targets[0].id} = {st.value.id} refers to an unknown handler")
            continue
        problems.append(f"unsupported statement in ArityChecker at line {st.lineno}: {type(st).__name__}")
    return table, problems


def handler_of_class(klass, table):
    """MultiFunction.__init__: first class of the MRO whose _ufl_handler_name_ is a handler."""
    for c in klass.mro():
        hn = getattr(c, "_ufl_handler_name_", None)
        if hn is None:
            continue
        if hn in table:
            return hn, table[hn]
        if hn in ("ufl_type",):
            break
    return None, None


def emit_table(run, aborted=()):
    table, problems = source_handler_table()
    src_kind = {}
    lines = ["(* generated from ufl/algorithms/check_arities.py (AST of class ArityChecker + MRO dispatch) *)",
             "Require Import UFLV.Core.Den UFLV.Props.C14_model.",
             "Definition src_handler (c : cls) : option hkind :=", "  match c with"]
    info = {}
    for cn, names in CLS.items():
        kinds = set()
        for n in names:
            k = getattr(C, n, None)
            if k is None:
                continue
            hn, kind = handler_of_class(k, table)
            kinds.add(kind)
            info.setdefault(cn, {})[n] = hn
        kind = kinds.pop() if len(kinds) == 1 else None
        src_kind[cn] = kind
        lines.append(f"  | {cn} => {'Some ' + kind if kind else 'None'}")
    lines.append("  end.")
    names = []
    for cn in CLS:
        if cn in aborted:
            lines.append(f"Example table_{cn} : src_handler {cn} = Some (class_handler {cn}). Proof. Abort. (* FAILED *)")
        else:
            lines.append(f"Example table_{cn} : src_handler {cn} = Some (class_handler {cn}). Proof. reflexivity. Qed.")
            names.append(f"table_{cn}")
    # classes outside the model's syntax: must be cut off as nonlinear operators / plain terminals
    covered = {n for ns in CLS.values() for n in ns}
    uncovered_bad = []
    for k in C.all_ufl_classes:
        if k.__name__ in covered or not issubclass(k, C.Expr):
            continue
        hn, kind = handler_of_class(k, table)
        want = "H_terminal" if issubclass(k, C.Terminal) else "H_nonlinear"
        if k._ufl_is_abstract_:
            continue
        if kind != want:
            uncovered_bad.append((k.__name__, hn, kind, want))
    path = os.path.join(vlib.GEN, "C14_table.v")
    vlib.write_if_changed(path, "\n".join(lines) + "\n")
    return path, names, info, problems, uncovered_bad, table, src_kind


# ---------------------------------------------------------------------------------------------
# T3: real code vs model on generated integrands

def real_results(e, args, cm):
    """(arity, verdict): arity = sorted list of (id, conj) or None when ArityChecker raises;
    verdict = True/False of check_integrand_arity."""
    try:
        tup = map_expr_dag(ArityChecker(tuple(args)), e, compress=False)
        arity = sorted({(G.arg_id(a), bool(cj)) for a, cj in tup})
    except ArityMismatch:
        arity = None
    try:
        check_integrand_arity(e, tuple(args), cm)
        verdict = True
    except ArityMismatch:
        verdict = False
    return arity, verdict


def coq_arity(a):
    if a is None:
        return "Err"
    return "OK [" + "; ".join(f"({i}, {'true' if f else 'false'})" for i, f in a) + "]"


def build_cases(run):
    cases = []
    for name, e, args, cm in G.probes():
        nm = "".join(ch if ch.isalnum() else "P" if ch == "+" else "M" if ch == "-" else "_" for ch in name)
        cases.append({"name": f"p_{nm}_{'c' if cm else 'r'}", "e": e, "args": args, "cm": cm, "probe": name})
    for name, e, args, cm in G.small_scope(run.tier):
        try:
            ufl2coq.Ser(G.C14Ctx()).expr(e)
        except ufl2coq.Unsupported:
            continue
        cases.append({"name": f"s_{name}_{'c' if cm else 'r'}", "e": e, "args": args, "cm": cm, "probe": name})
    n = 200 if run.tier == "quick" else 3000
    gen = G.Gen(1000 + run.seed)
    k = fails = 0
    while k < n and fails < 5 * n:
        try:
            e, args, cm = gen.integrand()
            ufl2coq.Ser(G.C14Ctx()).expr(e)
        except (ufl2coq.Unsupported, ValueError, IndexError, TypeError, ArithmeticError) as ex:
            fails += 1
            continue
        cases.append({"name": f"g{k}", "e": e, "args": args, "cm": cm, "probe": None})
        k += 1
    return cases


NSH = 8

HEADER = ("Require Import UFLV.Core.Den UFLV.Props.C14_model.\n"
          "Definition num (i : nat) : nat := Nat.div i 100.\n")


def case_defs(c):
    ser = ufl2coq.Ser(G.C14Ctx(), prefix=f"{c['name']}_n")
    t = ser.expr(c["e"])
    return ser.definitions_text() + f"Definition {c['name']}_e : expr := {t}.\n"


def run_model(cases):
    """pass 1: evaluate the model on every case (Eval vm_compute), returns {name: (arity, verdict)} as text"""
    nsh = NSH if len(cases) > 1000 else 3
    shards = [cases[i::nsh] for i in range(nsh)]
    paths = []
    for k, sh in enumerate(shards):
        if not sh:
            continue
        txt = [HEADER]
        for c in sh:
            txt.append(case_defs(c))
            al = ufl2coq.natlist([G.arg_id(a) for a in c["args"]])
            txt.append(f"Eval vm_compute in (arity num {c['name']}_e, check num {c['name']}_e {al} "
                       f"{'true' if c['cm'] else 'false'}).\n")
        p = os.path.join(vlib.GEN, f"C14_eval_{k}.v")
        vlib.write_if_changed(p, "".join(txt))
        paths.append((p, sh))
    res = vlib.coqc_many([p for p, _ in paths], timeout=600)
    out = {}
    bad = []
    for (p, sh), r in zip(paths, res):
        if not r.ok:
            bad.append((p, (r.err or "")[-400:]))
            continue
        blocks = [b.strip() for b in r.out.split("= ")[1:]]
        if len(blocks) != len(sh):
            bad.append((p, f"expected {len(sh)} results, got {len(blocks)}"))
            continue
        for c, b in zip(sh, blocks):
            body = b.split("\n     : ")[0]
            body = " ".join(body.split())
            out[c["name"]] = body
    return out, bad


def expected_text(c):
    return f"({coq_arity(c['real_arity'])}, {'true' if c['real_verdict'] else 'false'})"


def emit_examples(cases, disagree):
    nsh = NSH if len(cases) > 1000 else 3
    shards = [cases[i::nsh] for i in range(nsh)]
    paths = []
    for k, sh in enumerate(shards):
        if not sh:
            continue
        txt = [HEADER]
        names, failed = [], []
        for c in sh:
            txt.append(case_defs(c))
            al = ufl2coq.natlist([G.arg_id(a) for a in c["args"]])
            nm = c["name"]
            a_stmt = f"arity num {nm}_e = {coq_arity(c['real_arity'])}"
            c_stmt = f"check num {nm}_e {al} {'true' if c['cm'] else 'false'} = {'true' if c['real_verdict'] else 'false'}"
            if nm in disagree:
                # the model disagrees with the implementation: the obligations are recorded as FAILED
                txt.append(f"Example ar_{nm} : {a_stmt}. Proof. vm_compute. Abort. (* FAILED *)\n")
                txt.append(f"Example ck_{nm} : {c_stmt}. Proof. vm_compute. Abort. (* FAILED *)\n")
                failed += [f"ar_{nm}", f"ck_{nm}"]
            else:
                txt.append(f"Example ar_{nm} : {a_stmt}. Proof. vm_compute. reflexivity. Qed.\n")
                txt.append(f"Example ck_{nm} : {c_stmt}. Proof. vm_compute. reflexivity. Qed.\n")
                names += [f"ar_{nm}", f"ck_{nm}"]
        p = os.path.join(vlib.GEN, f"C14_cases_{k}.v")
        vlib.write_if_changed(p, "".join(txt))
        paths.append((p, names, failed))
    for f in os.listdir(vlib.GEN):
        if f.startswith("C14_cases_") and f.endswith(".v") and os.path.join(vlib.GEN, f) not in [p for p, _, _ in paths]:
            os.remove(os.path.join(vlib.GEN, f))
    res = vlib.coqc_many([p for p, _, _ in paths], timeout=600)
    return [(p, names, failed, r) for (p, names, failed), r in zip(paths, res)]


def record_examples(run, items):
    for p, names, failed, r in items:
        run.add_coq_result(r, names)
        rel = os.path.relpath(p, vlib.COQ)
        for f in failed:
            run.obligations.append((f, rel))
            run.failed.append((f, rel, "model and implementation disagree"))
    run.checker_cmds.append("coqc -Q coq UFLV coq/Gen/C14_cases_*.v")
    return [r for _, _, _, r in items if not r.ok]


# ---------------------------------------------------------------------------------------------

def describe(c):
    return {"case": c["name"], "integrand": str(c["e"])[:600], "integrand_repr": repr(c["e"])[:3000],
            "declared_arguments": [str(a) for a in c["args"]], "complex_mode": c["cm"]}


def oracle(c, trials=2, seed=0):
    try:
        return O.linearity_witness(c["e"], c["args"], c["cm"], seed=seed, trials=trials)
    except (pyden.Unsupported, ZeroDivisionError, ValueError, OverflowError, KeyError, IndexError) as ex:
        return {"unsupported": repr(ex)[:200]}


def known_class(c, known_ids):
    cl = []
    if "list-tensor-constant-component" in known_ids and G.in_class_list_tensor(c["e"]):
        cl.append("list-tensor-constant-component")
    if "dot-booked-as-conjugating" in known_ids and G.in_class_dot(c["e"], c["cm"]):
        cl.append("dot-booked-as-conjugating")
    return cl


def replay_known(run, k):
    """Re-run the witness of a known finding on the real code."""
    S = G.uflgen.space(())
    V = G.uflgen.space((2,))
    v, f = ufl.Argument(S, 0), ufl.Coefficient(V)
    vv, uu = ufl.Argument(V, 0), ufl.Argument(V, 1)
    if k["id"] == "list-tensor-constant-component":
        e, args, cm = ufl.inner(ufl.as_vector([v, 1.0]), f), [v], False
    elif k["id"] == "dot-booked-as-conjugating":
        e, args, cm = ufl.dot(uu, vv), [vv, uu], True
    else:
        return None
    _, verdict = real_results(e, args, cm)
    w = O.linearity_witness(e, args, cm, seed=1, trials=2)
    return {"integrand": str(e), "complex_mode": cm, "accepted_by_check_integrand_arity": verdict,
            "nonlinearity_witness": w, "reproduced": bool(verdict and w)}


def main(run):
    known = vlib.load_known_findings("C14")
    known_ids = {k["id"] for k in known}

    # hand-written development (built by ensure_core): record its obligations
    for hf, r in zip(HAND_FILES, vlib.coqc_many(HAND_FILES)):
        run.add_coq_result(r)
        if not r.ok:
            run.violation({"broken": f"hand-written {hf} does not compile", "error": (r.err or "")[-1500:]}, False)
            return run.finish("hand-written development broken")
    bad = vlib.scan_forbidden([os.path.join(vlib.COQ, f) for f in HAND_FILES])
    if bad:
        run.violation({"broken": "forbidden vernacular in hand-written files", "where": bad}, False)

    # ---- T1
    tpath, tnames, tinfo, problems, uncovered_bad, table, src_kind = emit_table(run)
    tres = vlib.coqc(tpath)
    t1_broken = []
    if not tres.ok:
        # which classes differ?  evaluate the model's table once and compare in Python
        p1 = os.path.join(vlib.GEN, "C14_table_model.v")
        with open(p1, "w") as fh:
            fh.write("Require Import UFLV.Core.Den UFLV.Props.C14_model.\n" +
                     "".join(f"Eval vm_compute in (class_handler {cn}).\n" for cn in CLS))
        r1 = vlib.coqc(p1)
        vals = [b.split()[0] for b in r1.out.split("= ")[1:]] if r1.ok else []
        if len(vals) == len(CLS):
            t1_broken = [cn for cn, mv in zip(CLS, vals) if src_kind.get(cn) != mv]
        else:
            t1_broken = list(CLS)
        tpath, tnames, tinfo, problems, uncovered_bad, table, src_kind = emit_table(run, aborted=set(t1_broken))
        tres = vlib.coqc(tpath)
        rel = os.path.relpath(tpath, vlib.COQ)
        for cn in t1_broken:
            run.obligations.append((f"table_{cn}", rel))
            run.failed.append((f"table_{cn}", rel, f"ArityChecker dispatches {CLS[cn]} to {src_kind.get(cn)}, "
                               "the model's class_handler differs"))
    run.add_coq_result(tres, tnames)
    run.checker_cmds.append("coqc -Q coq UFLV coq/Gen/C14_table.v")
    run.extra["t1_handlers_in_source"] = {k: v for k, v in table.items()}
    run.extra["t1_class_dispatch"] = {k: sorted(set(v.values()), key=str) for k, v in tinfo.items()}

    import time
    tt = {'t1_done': round(time.time() - run.t0, 1)}
    run.extra['timing_s'] = tt
    # ---- T3
    cases = build_cases(run)
    for c in cases:
        c["real_arity"], c["real_verdict"] = real_results(c["e"], c["args"], c["cm"])
        run.count_case((str(c["e"]), [str(a) for a in c["args"]], c["cm"]), nontrivial=bool(G.has_args(c["e"])))
    tt['real_code_done'] = round(time.time() - run.t0, 1)
    # one pass on an unchanged tree: the Examples state the implementation's results; only if a file fails
    # is the model evaluated separately (Eval) to learn ALL disagreements, which are then recorded as failed
    model, evalbad, disagree = {}, [], {}
    items = emit_examples(cases, {})
    if any(not it[3].ok for it in items):
        model, evalbad = run_model(cases)
        for c in cases:
            m = model.get(c["name"])
            if m is not None and m != expected_text(c):
                disagree[c["name"]] = m
        items = emit_examples(cases, disagree)
    tt['model_eval_done'] = round(time.time() - run.t0, 1)
    broken_files = record_examples(run, items)
    tt['examples_done'] = round(time.time() - run.t0, 1)
    acc = [c for c in cases if c["real_verdict"]]
    run.extra["accepted"] = len(acc)
    run.extra["rejected"] = len(cases) - len(acc)
    run.extra["complex_mode_cases"] = sum(1 for c in cases if c["cm"])
    for c in cases[:3] + [c for c in cases if c["probe"] is None][:5]:
        run.sample({"case": c["name"], "integrand": str(c["e"])[:160], "complex": c["cm"],
                    "real": expected_text(c), "model": model.get(c["name"], "= real (Example checked)")})

    # ---- oracle on everything the real code accepts
    found_violation = False
    known_hits = {}
    n_oracle = n_unsup = 0
    for c in acc:
        w = oracle(c, trials=2 if run.tier == "quick" else 3, seed=run.seed)
        if w is None:
            n_oracle += 1
            continue
        if "unsupported" in w:
            n_unsup += 1
            continue
        n_oracle += 1
        cl = known_class(c, known_ids)
        if cl and c["name"] not in disagree:
            known_hits.setdefault(cl[0], []).append(c["name"])
            continue
        rep = describe(c)
        rep.update({"what": "check_integrand_arity ACCEPTS an integrand that is not (conjugate-)multilinear",
                    "witness": w, "model_result": model.get(c["name"]), "real_result": expected_text(c),
                    "reproduce": "PYTHONPATH=$UFL_REPO:/verif/py python -c 'see integrand_repr; "
                                 "ufl.algorithms.check_arities.check_integrand_arity(e, args, complex_mode)'"})
        run.violation(rep, True)
        found_violation = True
        if len(run.violations) >= 5:
            break
    tt['oracle_done'] = round(time.time() - run.t0, 1)
    run.extra["oracle_checked"] = n_oracle
    run.extra["oracle_unsupported"] = n_unsup
    run.extra["known_class_hits"] = {k: len(v) for k, v in known_hits.items()}

    # ---- broken ties without a failing input so far
    if (disagree or t1_broken or problems or uncovered_bad or evalbad or broken_files) and not found_violation:
        # model and code disagree although every accepted integrand passed the oracle: look harder
        hit = None
        for c in cases:
            if c["name"] in disagree and c["real_verdict"]:
                w = oracle(c, trials=6, seed=run.seed + 7)
                if w and "unsupported" not in w and not known_class(c, known_ids):
                    hit = (c, w)
                    break
        if hit:
            c, w = hit
            rep = describe(c)
            rep.update({"what": "accepted integrand is not multilinear", "witness": w,
                        "model_result": model.get(c["name"]), "real_result": expected_text(c)})
            run.violation(rep, True)
        else:
            ex = [dict(describe(c), model_result=disagree[c["name"]], real_result=expected_text(c))
                  for c in cases if c["name"] in disagree][:5]
            run.violation({"broken": "tie between ArityChecker and the Coq model could not be re-established",
                           "dispatch_classes_that_differ": t1_broken, "source_problems": problems,
                           "classes_outside_model_with_unexpected_handler": uncovered_bad,
                           "model_evaluation_failures": evalbad,
                           "case_files_failing": [(r.path, (r.err or "")[-300:]) for r in broken_files],
                           "disagreements (model vs implementation)": ex,
                           "note": "every integrand accepted by the implementation passed the numeric "
                                   "multilinearity oracle; disagreements are rejections of multilinear "
                                   "integrands or a refactoring the translator does not understand"}, False)

    # ---- known findings: replay the witnesses on the real code
    for k in known:
        r = replay_known(run, k)
        if r is None:
            continue
        run.extra.setdefault("known_replay", {})[k["id"]] = r
        if r["reproduced"]:
            run.known(f"id={k['id']} {k['what']} | witness {r['integrand']} complex_mode={r['complex_mode']} "
                      f"accepted, oracle: {r['nonlinearity_witness']['kind']}; generated cases in class: "
                      f"{len(known_hits.get(k['id'], []))}")
        else:
            run.extra.setdefault("known_not_reproduced", []).append(k["id"])

    run.trusted.update([
        "Coq 8.16.1 kernel (coqc); vm_compute for the model evaluations",
        "py/ufl2coq.py serializer (node-for-node, fail-closed) with py/C14_gen.C14Ctx numbering arguments as 100*number+part",
        "den of coq/Core/Den.v as the meaning of integrands; Section hypotheses of C14_sound.v (conj is an involutive "
        "ring morphism, D/DX additive and commuting with the scalar, conditions select pointwise)",
        "T3 is sampled: handler BODIES of ArityChecker are tied to the model by agreement on generated integrands "
        "(arity tuple and verdict), the dispatch table by T1 on every run",
        "MultiFunction MRO dispatch re-implemented in py/props/C14.py (handler_of_class) and cross-checked by T3",
    ])
    return run.finish(
        rule="case = (integrand, declared arguments, complex mode); non-trivial = integrand contains an Argument; "
             "two obligations per case (arity tuple, check verdict) + one per node class (dispatch) + hand-written theorems",
        assumptions=["linearity is joint in all Arguments of one number (parts of a mixed space belong together)",
                     "scalars a with D(a*x) = a*D(x) (constants)",
                     "the two former findings (list tensor with constant component, dot booked as conjugating) are fixed in "
                     "/repo; the model follows the repaired handlers and C14_sound holds without guards"])
