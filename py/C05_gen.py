"""C05: exhaustive small-scope enumeration of constructor / operator requests.

Every request is (a) executed on the REAL implementation (`thunk`), (b) given a *raw* specification
that does not go through the constructor under test:
  * `raw(S)`      -> Gallina text of the raw node built from the serialised operands, or
  * `craw(S, c)`  -> Gallina text of a scalar raw node for component c (operators whose request is
                     defined component-wise: a*b, A[...], A/b, -A), with `exp_shape`, `exp_fi`;
  * `pyraw()`     -> the same raw node(s) as UFL objects constructed WITHOUT `__new__` (only used by
                     the numeric search oracle py/pyden.py).
"""

import itertools
from fractions import Fraction

import ufl
import ufl.classes as C
from ufl.classes import (Abs, ComponentTensor, Conditional, Conj, Division, FixedIndex, Imag, Index,
                         Indexed, IndexSum, ListTensor, MultiIndex, Operator, Power, Product, Real,
                         Sum, Zero)
from ufl.constantvalue import as_ufl

import uflgen

# ----------------------------------------------------------------------------------------------
# raw UFL nodes, bypassing __new__ (search oracle only)


def raw_node(cls, *ops):
    o = Operator.__new__(cls)
    if cls in (Sum, Product, Division, Power):
        o._init(*ops)
    elif cls in (Abs, Conj, Real, Imag):
        Operator.__init__(o, tuple(ops))
    elif cls in (Indexed, IndexSum, ComponentTensor, ListTensor, Conditional):
        o._initialised = False
        cls.__init__(o, *ops)
    else:
        o.__init__(*ops)
    return o


def mi_of(items):
    return MultiIndex(tuple(FixedIndex(x) if isinstance(x, int) else x for x in items))


# ----------------------------------------------------------------------------------------------
# Gallina text helpers (serializer level)


class S:
    """Serialisation helper handed to raw()/craw(): operands -> Gallina text in a shared Ctx."""

    def __init__(self, ser):
        self.ser = ser
        self.ctx = ser.ctx

    def e(self, x):
        return self.ser.expr(as_ufl(x))

    def i(self, idx):
        return str(self.ctx.index(idx.count()))

    def mi(self, items):
        out = []
        for x in items:
            if isinstance(x, Index):
                out.append(f"Free {self.i(x)}")
            else:
                out.append(f"Fixed {int(x)}")
        return "[" + "; ".join(out) + "]"

    def ixd(self, pairs):
        return "[" + "; ".join(f"({self.i(i)}, {d})" for i, d in pairs) + "]"

    def cond(self, c):
        return self.ser._cond(c)


def G(*parts):
    return "(" + " ".join(parts) + ")"


def fi_of(e):
    return dict(zip(e.ufl_free_indices, e.ufl_index_dimensions))


# ----------------------------------------------------------------------------------------------


class Req:
    """One request to a constructor/operator."""

    def __init__(self, group, label, thunk, operands, raw=None, craw=None, pyraw=None, pycraw=None,
                 exp_shape=None, exp_fi=None, must_raise=False, hyp="plain", value=True, info=None):
        self.group, self.label, self.thunk = group, label, thunk
        self.operands = [as_ufl(o) for o in operands if not isinstance(o, (MultiIndex, tuple, Index))]
        self.extra_indices = [o for o in operands if isinstance(o, Index)]
        for o in operands:
            if isinstance(o, MultiIndex):
                self.extra_indices += [x for x in o if isinstance(x, Index)]
            if isinstance(o, tuple):
                self.extra_indices += [x for x in o if isinstance(x, Index)]
        self.raw, self.craw, self.pyraw, self.pycraw = raw, craw, pyraw, pycraw
        self.exp_shape, self.exp_fi = exp_shape, exp_fi     # exp_fi: dict Index count -> dim
        self.must_raise = must_raise
        self.hyp = hyp
        self.value = value          # False: value obligation excluded (floating-point folding)
        self.info = info or {}
        self.out = None
        self.exc = None

    def run(self):
        try:
            self.out = self.thunk()
        except Exception as ex:  # noqa: BLE001
            self.exc = ex
        return self

    def describe(self):
        def safe(fn, o):
            try:
                return fn(o)[:300]
            except RecursionError:
                return "<cyclic expression>"
        return {"group": self.group, "request": self.label,
                "operands": [safe(str, o) for o in self.operands],
                "operand_reprs": [safe(repr, o) for o in self.operands]}


# ----------------------------------------------------------------------------------------------
# literal interpretation (as ufl2coq reads literals) to decide whether a float fold is exact


def lit_value(e):
    n = type(e).__name__
    if n == "Zero" and e.ufl_shape == () and not e.ufl_free_indices:
        return Fraction(0)
    if n == "IntValue":
        return Fraction(int(e._value))
    if n == "FloatValue":
        x = float(e._value)
        if x == int(x) and abs(x) < 2**53:
            return Fraction(int(x))
        fr = Fraction(x).limit_denominator(5040)
        if fr != 0 and abs(float(fr) - x) <= 4.5e-16 * abs(x):
            return fr
        return Fraction(x)
    return None


def is_literal(e):
    return isinstance(e, C.ScalarValue)


def fold_expect(op, a, b):
    """Both operands literal.  Returns (exact, approx): `exact` is the exact rational value of the
    requested operation under ufl2coq's reading of the operand literals when a correctly rounded float
    of it is read back as the same rational (then the value obligation is provable and is emitted,
    whatever the implementation returned), else None; `approx` is the value computed here with Python
    arithmetic on the operand values (used to validate folds that are genuinely floating point)."""
    x, y = a._value if not isinstance(a, Zero) else 0, b._value if not isinstance(b, Zero) else 0
    try:
        approx = {"Sum": lambda: x + y, "Product": lambda: x * y, "Division": lambda: x / y,
                  "Power": lambda: x ** y}[op]()
    except (ZeroDivisionError, OverflowError, ValueError):
        approx = None
    va, vb = lit_value(a), lit_value(b)
    exact = None
    if va is not None and vb is not None:
        try:
            if op == "Sum":
                exact = va + vb
            elif op == "Product":
                exact = va * vb
            elif op == "Division":
                exact = va / vb
            elif op == "Power" and vb.denominator == 1 and vb >= 0:
                exact = va ** int(vb)
        except ZeroDivisionError:
            exact = None
    if exact is not None:
        back = lit_value(as_ufl(float(exact))) if exact != 0 else Fraction(0)
        if back != exact:
            exact = None
    return exact, approx


# ----------------------------------------------------------------------------------------------
# operand pool


class Pool:
    def __init__(self):
        co = uflgen.coef
        self.f, self.g = co(()), co(())
        self.v, self.w = co((2,)), co((2,))
        self.u3 = co((3,))
        self.M, self.M2 = co((2, 2)), co((2, 2))
        self.N = co((2, 3))
        self.T3 = co((2, 2, 2))
        self.i, self.j, self.k = Index(), Index(), Index()
        i, j, k = self.i, self.j, self.k
        f, g, v, w, M = self.f, self.g, self.v, self.w, self.M
        self.Zi = Zero((), (i.count(),), (2,))
        self.Zj = Zero((), (j.count(),), (2,))
        self.Zij = Zero((), (i.count(), j.count()), (2, 2))
        self.Zv = Zero((2,))
        self.Zm = Zero((2, 2))
        self.Zvi = Zero((2,), (i.count(),), (2,))
        self.vi, self.wi, self.vj, self.wj = (Indexed(v, mi_of((i,))), Indexed(w, mi_of((i,))),
                                              Indexed(v, mi_of((j,))), Indexed(w, mi_of((j,))))
        self.Mij, self.Mji = Indexed(M, mi_of((i, j))), Indexed(M, mi_of((j, i)))
        self.Mii = Indexed(M, mi_of((i, i)))           # diagonal, free i (summand of tr)
        self.Mi0 = Indexed(M, mi_of((i, 0)))
        self.u3i = Indexed(self.u3, mi_of((i,)))
        self.fg = f * g
        self.fpg = f + g
        self.LT1 = ListTensor(f, g)
        self.LT2 = ListTensor(self.vi, self.wi)               # shape (2,), free i
        self.LT3 = ListTensor(ListTensor(f, g), ListTensor(g, self.fg))
        self.LT4 = ListTensor(self.vj, Product(as_ufl(2), self.vj))   # free j
        self.LTz = ListTensor(Zero(), f)
        self.CT1 = ComponentTensor(self.Mij, mi_of((j, i)))    # transpose of M
        self.CT2 = ComponentTensor(self.Mij, mi_of((j,)))      # column, free i
        self.CT3 = ComponentTensor(Product(self.vi, self.wj), mi_of((i, j)))   # outer product
        self.vw = Product(self.vi, self.wi)                   # free i (summand of v.w)
        self.viwj = Product(self.vi, self.wj)
        # operands that DEPEND on an index that a later binder will bind ("diagonal" Indexed nodes: the tensor has
        # the free index i and is indexed with i again, as index-renaming passes produce them)
        self.cLT2 = raw_node(Conj, self.LT2)                                  # shape (2,), free i, no indexing hook
        self.Li = ListTensor(ListTensor(self.vi, self.wi), ListTensor(self.wi, self.vi))   # shape (2,2), free i
        self.cLi = raw_node(Conj, self.Li)
        self.dLT2 = raw_node(Indexed, self.LT2, mi_of((i,)))                  # LT2[i], free i
        self.dcLT2 = raw_node(Indexed, self.cLT2, mi_of((i,)))
        self.dCT2 = raw_node(Indexed, self.CT2, mi_of((i,)))                  # CT2 has free i
        self.dLi = raw_node(Indexed, self.Li, mi_of((i, j)))                  # free i, j
        self.dcLi = raw_node(Indexed, self.cLi, mi_of((i, j)))
        self.dotvw = IndexSum(self.vw, mi_of((i,)))
        self.trM = IndexSum(self.Mii, mi_of((i,)))


# ----------------------------------------------------------------------------------------------
# groups


def binop_requests(P, tier):
    """Sum / Product / Division / Power class constructors on scalar-ish operands."""
    reqs = []
    cls_by = {"Sum": Sum, "Product": Product, "Division": Division, "Power": Power}
    cplx = 1 + 2j
    scal = [("0", 0), ("1", 1), ("m1", -1), ("2", 2), ("2p5", 2.5), ("1p0", 1.0), ("cplx", cplx),
            ("f", P.f), ("g", P.g), ("fg", P.fg), ("v0", P.v[0]), ("vi", P.vi), ("wi", P.wi),
            ("vj", P.vj), ("Zi", P.Zi), ("Zj", P.Zj), ("Mij", P.Mij), ("Mji", P.Mji), ("Zij", P.Zij),
            ("u3i", P.u3i), ("dotvw", P.dotvw), ("trM", P.trM)]
    shaped = [("v", P.v), ("w", P.w), ("Zv", P.Zv), ("LT1", P.LT1), ("u3", P.u3), ("M", P.M),
              ("Zm", P.Zm), ("CT1", P.CT1), ("LT2", P.LT2), ("Zvi", P.Zvi), ("CT2", P.CT2)]

    def attrs(x):
        x = as_ufl(x)
        return x.ufl_shape, x.ufl_free_indices, x.ufl_index_dimensions

    def mk(op, na, a, nb, b, must_raise):
        cls = cls_by[op]
        ua, ub = as_ufl(a), as_ufl(b)
        value = True
        hyp = "plain"
        if is_literal(ua) and is_literal(ub):
            value = None     # decided after the run by fold_exact
        if op == "Power":
            hyp = "power"
            bz = isinstance(ub, Zero)
            nat_exp = isinstance(ub, C.IntValue) and int(ub._value) >= 0
            if isinstance(ua, Zero) and not nat_exp and not bz:
                value = False           # 0**2.5 -> 0 : abstract kpow, floating point
            if is_literal(ua) and is_literal(ub) and not nat_exp:
                value = False
        if op == "Division":
            hyp = "division"
        return Req(op, f"{op}({na}, {nb})", lambda: cls(a, b), [a, b],
                   raw=lambda s: G(op, s.e(a), s.e(b)),
                   pyraw=lambda: raw_node(cls, ua, ub), must_raise=must_raise, hyp=hyp, value=value,
                   info={"op": op, "lit_fold": is_literal(ua) and is_literal(ub)})

    for (na, a), (nb, b) in itertools.product(scal + shaped, repeat=2):
        sa, sb = attrs(a), attrs(b)
        if (na in [n for n, _ in shaped]) != (nb in [n for n, _ in shaped]) and tier == "quick" \
                and (na, nb) not in (("f", "v"), ("v", "f"), ("vi", "Zvi")):
            continue
        reqs.append(mk("Sum", na, a, nb, b, must_raise=(sa != sb)))
    for (na, a), (nb, b) in itertools.product(scal + [("v", P.v)], repeat=2):
        if na == "cplx" and nb == "cplx":
            continue
        sa, sb = attrs(a), attrs(b)
        da, db = dict(zip(sa[1], sa[2])), dict(zip(sb[1], sb[2]))
        if any(da[c] != db[c] for c in da if c in db):
            continue        # same index with two dimensions: no requested meaning (Product does not check)
        reqs.append(mk("Product", na, a, nb, b, must_raise=bool(sa[0] or sb[0])))
    dens = [("0", 0), ("1", 1), ("m1", -1), ("2", 2), ("2p5", 2.5), ("1p0", 1.0), ("f", P.f), ("fg", P.fg),
            ("v0", P.v[0]), ("vi", P.vi), ("v", P.v), ("dotvw", P.dotvw)]
    for (na, a), (nb, b) in itertools.product(scal + [("v", P.v)], dens):
        sa, sb = attrs(a), attrs(b)
        bad = bool(sa[0]) or bool(sb[0]) or bool(sb[1]) or isinstance(as_ufl(b), Zero)
        reqs.append(mk("Division", na, a, nb, b, must_raise=bad))
    bases = [("0", 0), ("1", 1), ("m1", -1), ("2", 2), ("2p5", 2.5), ("f", P.f), ("fg", P.fg), ("v0", P.v[0]),
             ("vi", P.vi), ("v", P.v), ("dotvw", P.dotvw)]
    exps = [("0", 0), ("1", 1), ("2", 2), ("3", 3), ("m1", -1), ("2p5", 2.5), ("1p0", 1.0), ("f", P.f),
            ("vi", P.vi), ("v", P.v)]
    for (na, a), (nb, b) in itertools.product(bases, exps):
        sa, sb = attrs(a), attrs(b)
        bad = bool(sa[0] or sa[1] or sb[0] or sb[1])
        ua, ub = as_ufl(a), as_ufl(b)
        if isinstance(ua, Zero) and isinstance(ub, C.ScalarValue) and float(ub._value) < 0:
            bad = True
        reqs.append(mk("Power", na, a, nb, b, must_raise=bad))
    return reqs


def unary_requests(P, tier):
    reqs = []
    f, v = P.f, P.v
    base = [("f", f), ("v", v), ("vi", P.vi), ("Z", Zero()), ("Zi", P.Zi), ("Zv", P.Zv), ("fg", P.fg),
            ("LT2", P.LT2)]
    lits = [("2", 2), ("m1", -1), ("2p5", 2.5), ("m2p5", -2.5), ("cplx", 1 + 2j)]
    clss = {"Abs": Abs, "Conj": Conj, "Real": Real, "Imag": Imag}
    ops = list(base)
    for n, x in base:
        if isinstance(as_ufl(x), Zero):
            continue
        for cn, cls in clss.items():
            ops.append((f"{cn}({n})", raw_node(cls, as_ufl(x))))   # nested RAW operand (so that every hook is reached)
    for cn, cls in clss.items():
        for n, x in ops:
            ux = as_ufl(x)
            reqs.append(Req(cn, f"{cn}({n})", (lambda cls=cls, ux=ux: cls(ux)), [ux],
                            raw=(lambda s, cn=cn, ux=ux: G(cn, s.e(ux))),
                            pyraw=(lambda cls=cls, ux=ux: raw_node(cls, ux)), hyp="cplx"))
        for n, x in lits:
            ux = as_ufl(x)
            reqs.append(Req(cn, f"{cn}({n})", (lambda cls=cls, ux=ux: cls(ux)), [ux],
                            raw=(lambda s, cn=cn, ux=ux: G(cn, s.e(ux))),
                            pyraw=(lambda cls=cls, ux=ux: raw_node(cls, ux)), hyp="cplx", value=False,
                            info={"unary_literal": cn, "pyvalue": x}))
    return reqs


def consistent_dims(A, items):
    dims = dict(fi_of(A))
    for pos, x in enumerate(items):
        if isinstance(x, Index):
            d = A.ufl_shape[pos]
            if dims.setdefault(x.count(), d) != d:
                return False
        elif int(x) >= A.ufl_shape[pos]:
            return False
    return True


def indexed_requests(P, tier):
    reqs = []
    i, j, k = P.i, P.j, P.k
    m = Index()
    IS1 = raw_or(IndexSum, ComponentTensor(Indexed(P.M, mi_of((i, k))), mi_of((k,))), mi_of((i,)))
    IS2 = P.M * P.w
    L = P.LT4
    CTK = ComponentTensor(Indexed(L, mi_of((m,))), mi_of((j,)))      # as_tensor(L[m],(j,)), free m
    CT8 = ComponentTensor(Indexed(P.LT2, mi_of((k,))), mi_of((i,)))  # free k
    CT9 = ComponentTensor(Indexed(P.LT1, mi_of((k,))), mi_of((k,))) if False else None
    CTL = ComponentTensor(Product(Indexed(P.LT1, mi_of((i,))), P.vj), mi_of((i, j)))
    CTLT = ComponentTensor(Indexed(P.LT3, mi_of((i, j))), mi_of((j, i)))
    CTm = ComponentTensor(Indexed(P.LT2, mi_of((k,))), mi_of((k,))) if False else None
    CTfix = ComponentTensor(Indexed(P.T3, mi_of((0, i, j))), mi_of((j, i)))
    CTlt1 = ComponentTensor(Indexed(P.LT3, mi_of((k, j))), mi_of((j, k)))
    CTsel = ComponentTensor(Product(Indexed(P.LT1, mi_of((k,))), P.vj), mi_of((k, j)))
    SUMv = P.v + P.w
    SUMl = P.LT1 + P.v
    # component tensors whose operand depends on the bound index (built without __new__ so that the operand is
    # the same on every tree)
    CTd = raw_node(ComponentTensor, P.dcLT2, mi_of((i,)))
    CTd2 = raw_node(ComponentTensor, P.dLT2, mi_of((i,)))
    CTd3 = raw_node(ComponentTensor, P.dcLi, mi_of((i, j)))
    CTd4 = raw_node(ComponentTensor, P.dcLi, mi_of((j,)))          # binds j only; operand free in i
    CTd5 = raw_node(ComponentTensor, raw_node(Indexed, P.Li, mi_of((i, j))), mi_of((j, i)))
    IS3 = IndexSum(ListTensor(Product(P.vi, P.wj), Product(P.wi, P.vj)), mi_of((i,)))     # shape (2,), free j
    cLT2 = raw_node(Conj, P.LT2)                                     # shape (2,), free i, no indexing hook
    CTm = ComponentTensor(Indexed(cLT2, mi_of((j,))), mi_of((i, j)))  # binds an index that is not in kk
    CTm2 = ComponentTensor(Indexed(cLT2, mi_of((j,))), mi_of((j, i)))
    tens = [("v", P.v), ("M", P.M), ("Zv", P.Zv), ("Zm", P.Zm), ("Zvi", P.Zvi), ("LT1", P.LT1),
            ("LT2", P.LT2), ("LT3", P.LT3), ("LT4", P.LT4), ("LTz", P.LTz), ("CT1", P.CT1),
            ("CT2", P.CT2), ("CT3", P.CT3), ("CTK", CTK), ("CT8", CT8), ("CTL", CTL), ("CTLT", CTLT),
            ("CTfix", CTfix), ("CTlt1", CTlt1), ("CTsel", CTsel), ("CTm", CTm), ("CTm2", CTm2), ("IS1", IS1), ("IS2", IS2),
            ("CTd", CTd), ("CTd2", CTd2), ("CTd3", CTd3), ("CTd4", CTd4), ("CTd5", CTd5), ("IS3", IS3),
            ("cLT2", P.cLT2), ("cLi", P.cLi),
            ("SUMv", SUMv), ("SUMl", SUMl), ("N", P.N), ("I2", ufl.Identity(2))]
    if tier == "thorough":
        tens.append(("T3", P.T3))
        tens.append(("CTT", ComponentTensor(Indexed(P.T3, mi_of((i, j, k))), mi_of((k, i, j)))))
    alphabet = [0, 1, i, j, k]
    for n, A in tens:
        r = len(A.ufl_shape)
        alpha = list(alphabet)
        if n in ("CTK",):
            alpha.append(m)
        if n == "IS2":
            alpha.append(IS2.ufl_operands[1][0])       # the bound index of M*w
        for items in itertools.product(alpha, repeat=r):
            bad = not consistent_dims(A, items)
            mi = mi_of(items)
            lab = "[" + ",".join(str(x) if isinstance(x, int) else f"i{[i, j, k].index(x) if x in (i, j, k) else 'x'}"
                                 for x in items) + "]"
            reqs.append(Req("Indexed", f"Indexed({n}, {lab})", (lambda A=A, mi=mi: Indexed(A, mi)), [A, mi],
                            raw=(lambda s, A=A, items=items: G("Indexed", s.e(A), s.mi(items))),
                            pyraw=(lambda A=A, mi=mi: raw_node(Indexed, A, mi)), must_raise=bad,
                            info={"A": A, "mi": mi}))
    return reqs


def raw_or(cls, *ops):
    """operand construction: use the real constructor (operands are *given* expressions)"""
    return cls(*ops)


def indexsum_requests(P, tier):
    reqs = []
    i, j, k = P.i, P.j, P.k
    summands = [("Zi", P.Zi), ("Zij", P.Zij), ("Zvi", P.Zvi), ("vi", P.vi), ("vw", P.vw),
                ("f*vi", Product(P.f, P.vi)), ("vi*f", raw_node(Product, P.vi, P.f)),
                ("vj*wi", Product(P.vj, P.wi)), ("Mij*wj", Product(P.Mij, P.wj)), ("Mii", P.Mii),
                ("2*vi", Product(as_ufl(2), P.vi)), ("f*Zi?", P.f), ("CT2", P.CT2), ("LT2", P.LT2),
                ("vi+wi", P.vi + P.wi), ("Mij", P.Mij), ("f*(g*vi)", Product(P.f, Product(P.g, P.vi))),
                ("(f*vi)*(g*wj)", Product(Product(P.f, P.vi), Product(P.g, P.wj))),
                ("u3i", P.u3i), ("vw*dot", Product(P.vw, P.dotvw)),
                ("dLT2", P.dLT2), ("f*dLT2", Product(P.f, P.dLT2)), ("dcLi", P.dcLi), ("vj*dLT2", Product(P.vj, P.dLT2))]
    for (n, s_), x in itertools.product(summands, (i, j, k)):
        fi = fi_of(s_)
        bad = x.count() not in fi
        d = fi.get(x.count(), 0)
        mi = mi_of((x,))
        reqs.append(Req("IndexSum", f"IndexSum({n}, i{[i, j, k].index(x)})",
                        (lambda s_=s_, mi=mi: IndexSum(s_, mi)), [s_, mi],
                        raw=(lambda s, s_=s_, x=x, d=d: G("IndexSum", s.e(s_), s.i(x), str(d))),
                        pyraw=(lambda s_=s_, mi=mi: raw_node(IndexSum, s_, mi)), must_raise=bad))
    return reqs


def ct_requests(P, tier):
    reqs = []
    i, j, k = P.i, P.j, P.k
    T3 = P.T3
    scal = [("Zi", P.Zi), ("Zij", P.Zij), ("vi", P.vi), ("Mij", P.Mij), ("Mji", P.Mji), ("Mi0", P.Mi0),
            ("T3ijk", Indexed(T3, mi_of((i, j, k)))), ("T30ij", Indexed(T3, mi_of((0, i, j)))),
            ("viwj", P.viwj), ("Mii", P.Mii), ("LT2[j]", Indexed(P.LT2, mi_of((j,)))),
            ("f*Mij", Product(P.f, P.Mij)), ("CT2[j]", raw_node(Indexed, P.CT2, mi_of((j,)))),
            ("Mij+Mji", P.Mij + P.Mji), ("f", P.f),
            ("dLT2", P.dLT2), ("dcLT2", P.dcLT2), ("dCT2", P.dCT2), ("dLi", P.dLi), ("dcLi", P.dcLi),
            ("f*dLT2", Product(P.f, P.dLT2))]
    tuples = []
    for r in (1, 2, 3):
        tuples += list(itertools.permutations((i, j, k), r))
    for (n, s_), ii in itertools.product(scal, tuples):
        fi = fi_of(s_)
        bad = any(x.count() not in fi for x in ii)
        mi = mi_of(ii)
        pairs = [(x, fi.get(x.count(), 0)) for x in ii]
        lab = ",".join(f"i{[i, j, k].index(x)}" for x in ii)
        for via in ("ComponentTensor", "as_tensor"):
            if via == "as_tensor" and tier == "quick" and len(ii) == 3:
                continue
            th = (lambda s_=s_, mi=mi: ComponentTensor(s_, mi)) if via == "ComponentTensor" \
                else (lambda s_=s_, ii=ii: ufl.as_tensor(s_, ii))
            reqs.append(Req(via, f"{via}({n}, ({lab}))", th, [s_, mi],
                            raw=(lambda s, s_=s_, pairs=pairs: G("ComponentTensor", s.e(s_), s.ixd(pairs))),
                            pyraw=(lambda s_=s_, mi=mi: raw_node(ComponentTensor, s_, mi)), must_raise=bad))
    return reqs


def lt_requests(P, tier):
    reqs = []
    i, j, k = P.i, P.j, P.k
    a, b = Index(), Index()
    f, g, v, w, M, T3 = P.f, P.g, P.v, P.w, P.M, P.T3

    def I(A, *items):
        return Indexed(A, mi_of(items))

    def CT(e, *ii):
        return ComponentTensor(e, mi_of(ii))

    lists = [
        ("zeros", [Zero(), Zero()]), ("zeros_i", [P.Zi, P.Zi]), ("zeros_v", [P.Zv, P.Zv]),
        ("f,g", [f, g]), ("f,0", [f, Zero()]), ("0,f", [Zero(), f]), ("1,2", [as_ufl(1), as_ufl(2)]),
        ("vi,wi", [P.vi, P.wi]), ("vi,wj", [P.vi, P.wj]), ("v,u3", [v, P.u3]), ("f,v", [f, v]),
        ("vi,u3i", [P.vi, P.u3i]), ("v,w", [v, w]), ("Zi,vi", [P.Zi, P.vi]),
        ("v0,v1", [I(v, 0), I(v, 1)]), ("v1,v0", [I(v, 1), I(v, 0)]), ("v0,w1", [I(v, 0), I(w, 1)]),
        ("v0,v0", [I(v, 0), I(v, 0)]),
        ("Mj0,Mj1", [I(M, j, 0), I(M, j, 1)]), ("M0j,M1j", [I(M, 0, j), I(M, 1, j)]),
        ("M00,M01", [I(M, 0, 0), I(M, 0, 1)]), ("M10,M11", [I(M, 1, 0), I(M, 1, 1)]),
        ("Mi0,Mj1", [I(M, i, 0), I(M, j, 1)]), ("Mi0,Mi1", [I(M, i, 0), I(M, i, 1)]),
        ("M00,M11", [I(M, 0, 0), I(M, 1, 1)]),
        ("u30,u31", [I(P.u3, 0), I(P.u3, 1)]), ("u3:3", [I(P.u3, 0), I(P.u3, 1), I(P.u3, 2)]),
        ("N0:3", [I(P.N, 0, 0), I(P.N, 0, 1), I(P.N, 0, 2)]), ("Ni:3", [I(P.N, i, 0), I(P.N, i, 1), I(P.N, i, 2)]),
        ("T3ij0,T3ij1", [I(T3, i, j, 0), I(T3, i, j, 1)]), ("T3ji0,T3ij1", [I(T3, j, i, 0), I(T3, i, j, 1)]),
        ("T30j0,T30j1", [I(T3, 0, j, 0), I(T3, 0, j, 1)]),
        # common prefix that repeats an index / uses a free index of the tensor
        ("T3ii0,T3ii1", [raw_node(Indexed, T3, mi_of((i, i, 0))), raw_node(Indexed, T3, mi_of((i, i, 1)))]),
        ("cLi[i,0],cLi[i,1]", [raw_node(Indexed, P.cLi, mi_of((i, 0))), raw_node(Indexed, P.cLi, mi_of((i, 1)))]),
        ("cLi[j,0],cLi[j,1]", [raw_node(Indexed, P.cLi, mi_of((j, 0))), raw_node(Indexed, P.cLi, mi_of((j, 1)))]),
        ("ct cLi0a,cLi1a", [CT(raw_node(Indexed, P.cLi, mi_of((0, a))), a), CT(raw_node(Indexed, P.cLi, mi_of((1, a))), a)]),
        ("ct cLi0i,cLi1i", [raw_node(ComponentTensor, raw_node(Indexed, P.cLi, mi_of((0, i))), mi_of((i,))),
                            raw_node(ComponentTensor, raw_node(Indexed, P.cLi, mi_of((1, i))), mi_of((i,)))]),
        ("LT2[0],LT2[1]", [raw_node(Indexed, P.LT2, mi_of((0,))), raw_node(Indexed, P.LT2, mi_of((1,)))]),
        ("CT1[i,0],CT1[i,1]", [raw_node(Indexed, P.CT1, mi_of((i, 0))), raw_node(Indexed, P.CT1, mi_of((i, 1)))]),
        # [v[0,:], v[1,:]] -> v
        ("ct M0a,M1a", [CT(I(M, 0, a), a), CT(I(M, 1, a), a)]),
        ("ct M0a,M1b", [CT(I(M, 0, a), a), CT(I(M, 1, b), b)]),
        ("ct M1a,M0a", [CT(I(M, 1, a), a), CT(I(M, 0, a), a)]),
        ("ct M0a,M21a", [CT(I(M, 0, a), a), CT(I(P.M2, 1, a), a)]),
        ("ct Ma0,Ma1", [CT(I(M, a, 0), a), CT(I(M, a, 1), a)]),
        ("ct T0ab,T1ab (a,b)", [CT(I(T3, 0, a, b), a, b), CT(I(T3, 1, a, b), a, b)]),
        ("ct T0ab,T1ab (b,a)", [CT(I(T3, 0, a, b), b, a), CT(I(T3, 1, a, b), b, a)]),
        ("ct T0ab,T1ab (a,)", [CT(I(T3, 0, a, b), a), CT(I(T3, 1, a, b), a)]),
        ("ct T0ab,T1ab (b,)", [CT(I(T3, 0, a, b), b), CT(I(T3, 1, a, b), b)]),
        ("ct T0ab(a,b),T1ab(b,a)", [CT(I(T3, 0, a, b), a, b), CT(I(T3, 1, a, b), b, a)]),
        ("ct T0ab,T1ba (a,b)", [CT(I(T3, 0, a, b), a, b), CT(I(T3, 1, b, a), a, b)]),
        ("ct T0a0,T1a0", [CT(I(T3, 0, a, 0), a), CT(I(T3, 1, a, 0), a)]),
        ("ct N0a,N1a", [CT(I(P.N, 0, a), a), CT(I(P.N, 1, a), a)]),
        ("ct f*M0a,f*M1a", [CT(Product(f, I(M, 0, a)), a), CT(Product(f, I(M, 1, a)), a)]),
        ("ct Mia (a,), i free", [CT(I(T3, 0, i, a), a), CT(I(T3, 1, i, a), a)]),
    ]
    for n, es in lists:
        es = [as_ufl(e) for e in es]
        att = {(e.ufl_shape, e.ufl_free_indices, e.ufl_index_dimensions) for e in es}
        bad = len(att) != 1
        reqs.append(Req("ListTensor", f"ListTensor({n})", (lambda es=es: ListTensor(*es)), es,
                        raw=(lambda s, es=es: G("ListTensor", "[" + "; ".join(s.e(e) for e in es) + "]")),
                        pyraw=(lambda es=es: raw_node(ListTensor, *es)), must_raise=bad, info={"es": es}))
    # as_vector / as_matrix / as_tensor on nested python lists
    nested = [("as_vector[f,g]", lambda: ufl.as_vector([f, g]), "[{f}; {g}]", [f, g]),
              ("as_vector[f,1]", lambda: ufl.as_vector([f, 1]), None, [f, as_ufl(1)]),
              ("as_vector[v0,v1]", lambda: ufl.as_vector([v[0], v[1]]), None, [v[0], v[1]]),
              ("as_vector[0,0]", lambda: ufl.as_vector([0, 0]), None, [Zero(), Zero()])]
    for n, th, _, es in nested:
        reqs.append(Req("as_vector", n, th, es,
                        raw=(lambda s, es=es: G("ListTensor", "[" + "; ".join(s.e(e) for e in es) + "]")),
                        pyraw=(lambda es=es: raw_node(ListTensor, *es))))
    rows = [[f, g], [g, P.fg]]
    reqs.append(Req("as_matrix", "as_matrix[[f,g],[g,fg]]", lambda: ufl.as_matrix(rows), rows[0] + rows[1],
                    raw=lambda s: G("ListTensor", "[" + "; ".join(
                        G("ListTensor", "[" + "; ".join(s.e(e) for e in r) + "]") for r in rows) + "]"),
                    pyraw=lambda: raw_node(ListTensor, *[raw_node(ListTensor, *r) for r in rows])))
    rows2 = [[M[0, 0], M[0, 1]], [M[1, 0], M[1, 1]]]
    reqs.append(Req("as_matrix", "as_matrix[[M00,M01],[M10,M11]]", lambda: ufl.as_matrix(rows2),
                    rows2[0] + rows2[1],
                    raw=lambda s: G("ListTensor", "[" + "; ".join(
                        G("ListTensor", "[" + "; ".join(s.e(e) for e in r) + "]") for r in rows2) + "]"),
                    pyraw=lambda: raw_node(ListTensor, *[raw_node(ListTensor, *r) for r in rows2])))
    return reqs


# ---- operators with component-wise requests -------------------------------------------------


def sum_over(s, text, rep):
    for x, d in rep:
        text = G("IndexSum", text, s.i(x), str(d))
    return text


def py_sum_over(e, rep):
    for x, d in rep:
        e = raw_node(IndexSum, e, mi_of((x,)))
    return e


def mult_requests(P, tier):
    reqs = []
    i, j, k = P.i, P.j, P.k
    byc = {x.count(): x for x in (i, j, k)}
    ops = [("f", P.f), ("2", 2), ("0", 0), ("2p5", 2.5), ("1", 1), ("vi", P.vi), ("wi", P.wi), ("wj", P.wj),
           ("Mij", P.Mij), ("Zi", P.Zi), ("v", P.v), ("w", P.w), ("Zv", P.Zv), ("M", P.M), ("M2", P.M2),
           ("u3", P.u3), ("N", P.N), ("LT1", P.LT1), ("Zm", P.Zm), ("LT2", P.LT2), ("Zvi", P.Zvi),
           ("CT2", P.CT2), ("CT1", P.CT1), ("fg", P.fg), ("Mji", P.Mji), ("trM", P.trM)]
    K = Index()
    for (na, a), (nb, b) in itertools.product(ops, repeat=2):
        if isinstance(a, (int, float)) and isinstance(b, (int, float)):
            continue
        ua, ub = as_ufl(a), as_ufl(b)
        fa, fb = fi_of(ua), fi_of(ub)
        if any(fa[c] != fb[c] for c in fa if c in fb):
            continue
        rep = [(byc[c], fa[c]) for c in fa if c in fb]
        exp_fi = {c: d for c, d in list(fa.items()) + list(fb.items()) if not (c in fa and c in fb)}
        r1, r2 = len(ua.ufl_shape), len(ub.ufl_shape)
        kw = dict(exp_fi=exp_fi, info={"mult": (na, nb)})
        th = (lambda a=a, b=b: a * b)
        lab = f"{na} * {nb}"
        lit = is_literal(ua) and is_literal(ub)
        if r1 == 0 and r2 == 0:
            reqs.append(Req("mult", lab, th, [ua, ub],
                            raw=(lambda s, ua=ua, ub=ub, rep=rep: sum_over(s, G("Product", s.e(ua), s.e(ub)), rep)),
                            pyraw=(lambda ua=ua, ub=ub, rep=rep: py_sum_over(raw_node(Product, ua, ub), rep)),
                            value=(None if lit else True), info={"op": "Product", "lit_fold": lit}))
        elif r1 == 0 or r2 == 0:
            sc, te = (ua, ub) if r1 == 0 else (ub, ua)
            reqs.append(Req("mult", lab, th, [ua, ub], exp_shape=te.ufl_shape,
                            craw=(lambda s, c, sc=sc, te=te, rep=rep: sum_over(
                                s, G("Product", s.e(sc), G("Indexed", s.e(te), s.mi(c))), rep)),
                            pycraw=(lambda c, sc=sc, te=te, rep=rep: py_sum_over(
                                raw_node(Product, sc, raw_node(Indexed, te, mi_of(c))), rep)), **kw))
        elif r1 == 2 and r2 in (1, 2):
            if ua.ufl_shape[1] != ub.ufl_shape[0]:
                continue    # contraction over axes of different length: no requested meaning (_mult does not check)
            bad = bool(rep)
            d = ua.ufl_shape[1]
            reqs.append(Req("mult", lab, th, [ua, ub, K], exp_shape=ua.ufl_shape[:1] + ub.ufl_shape[1:],
                            must_raise=bad,
                            craw=(lambda s, c, ua=ua, ub=ub, d=d: G(
                                "IndexSum", G("Product", G("Indexed", s.e(ua), s.mi((c[0], K))),
                                              G("Indexed", s.e(ub), s.mi((K,) + tuple(c[1:])))), s.i(K), str(d))),
                            pycraw=(lambda c, ua=ua, ub=ub: raw_node(
                                IndexSum, raw_node(Product, raw_node(Indexed, ua, mi_of((c[0], K))),
                                                   raw_node(Indexed, ub, mi_of((K,) + tuple(c[1:])))), mi_of((K,)))),
                            **kw))
        else:
            reqs.append(Req("mult", lab, th, [ua, ub], must_raise=True))
    return reqs


def getitem_requests(P, tier, rng):
    reqs = []
    i, j, k = P.i, P.j, P.k
    byc = {x.count(): x for x in (i, j, k)}
    tens = [("v", P.v), ("M", P.M), ("Zm", P.Zm), ("Zvi", P.Zvi), ("LT3", P.LT3), ("CT1", P.CT1),
            ("LT2", P.LT2), ("I2", ufl.Identity(2)), ("v+w", P.v + P.w), ("CT3", P.CT3), ("CT2", P.CT2),
            ("LT1", P.LT1), ("N", P.N), ("T3", P.T3), ("M*w", P.M * P.w),
            ("CTd", raw_node(ComponentTensor, P.dcLT2, mi_of((i,)))),
            ("CTd2", raw_node(ComponentTensor, P.dLT2, mi_of((i,)))), ("cLT2", P.cLT2)]
    sl = slice(None)
    alpha = [0, 1, i, j, sl]
    for n, A in tens:
        r = len(A.ufl_shape)
        comps = list(itertools.product(alpha, repeat=r))
        for r2 in range(0, r):
            for pre in itertools.product(alpha, repeat=r2):
                for cut in range(0, r2 + 1):
                    comps.append(pre[:cut] + (Ellipsis,) + pre[cut:])
        if r >= 3 and tier == "quick":
            comps = rng.sample(comps, 60)
        for comp in comps:
            # expand to all_indices with markers
            items = []      # per axis: int | Index | ('s', n)
            ns = 0
            for x in comp:
                if x is Ellipsis:
                    for _ in range(r - len(comp) + 1):
                        items.append(("s", ns))
                        ns += 1
                elif x == sl and isinstance(x, slice):
                    items.append(("s", ns))
                    ns += 1
                else:
                    items.append(x)
            assert len(items) == r
            fa = fi_of(A)
            cnt = {}
            bad = False
            for pos, x in enumerate(items):
                if isinstance(x, Index):
                    cnt[x.count()] = cnt.get(x.count(), 0) + 1
                    d = A.ufl_shape[pos]
                    if fa.setdefault(x.count(), d) != d:
                        bad = True
                elif isinstance(x, int) and x >= A.ufl_shape[pos]:
                    bad = True
            orig_fa = fi_of(A)
            rep = [(byc[c], fa[c]) for c, m_ in cnt.items() if m_ == 2 or (m_ == 1 and c in orig_fa)]
            if any(m_ > 2 or (m_ == 2 and c in orig_fa) for c, m_ in cnt.items()):
                continue     # index used three times: no defined meaning
            repc = {x.count() for x, _ in rep}
            exp_fi = {c: d for c, d in fa.items() if c not in repc}
            exp_shape = tuple(A.ufl_shape[pos] for pos, x in enumerate(items) if isinstance(x, tuple))
            key = comp if len(comp) != 1 else comp[0]

            def fill(c, items=items):
                return tuple(c[x[1]] if isinstance(x, tuple) else x for x in items)

            lab = "[" + ",".join("..." if x is Ellipsis else ":" if isinstance(x, slice) else
                                 str(x) if isinstance(x, int) else f"i{[i, j, k].index(x)}" for x in comp) + "]"
            reqs.append(Req("getitem", f"{n}{lab}", (lambda A=A, key=key: A[key]), [A, i, j],
                            exp_shape=exp_shape, exp_fi=exp_fi, must_raise=bad,
                            craw=(lambda s, c, A=A, fill=fill, rep=rep: sum_over(
                                s, G("Indexed", s.e(A), s.mi(fill(c))), rep)),
                            pycraw=(lambda c, A=A, fill=fill, rep=rep: py_sum_over(
                                raw_node(Indexed, A, mi_of(fill(c))), rep)),
                            info={"getitem": n, "bare_key": not isinstance(key, tuple)}))
    return reqs


def misc_requests(P, tier):
    reqs = []
    i, j = P.i, P.j
    f, g, v, w, M = P.f, P.g, P.v, P.w, P.M
    m1 = as_ufl(-1)
    # division operator
    for (na, a), (nb, b) in itertools.product(
            [("f", f), ("v", v), ("M", M), ("vi", P.vi), ("Zv", P.Zv), ("LT1", P.LT1), ("LT2", P.LT2), ("2", as_ufl(2))],
            [("g", g), ("2", 2), ("1", 1), ("2p5", 2.5), ("fg", P.fg)]):
        ub = as_ufl(b)
        lit = is_literal(a) and is_literal(ub)
        if a.ufl_shape == ():
            reqs.append(Req("div", f"{na} / {nb}", (lambda a=a, b=b: a / b), [a, ub], hyp="division",
                            raw=(lambda s, a=a, ub=ub: G("Division", s.e(a), s.e(ub))),
                            pyraw=(lambda a=a, ub=ub: raw_node(Division, a, ub)),
                            value=(None if lit else True), info={"op": "Division", "lit_fold": lit}))
        else:
            reqs.append(Req("div", f"{na} / {nb}", (lambda a=a, b=b: a / b), [a, ub], hyp="division",
                            exp_shape=a.ufl_shape, exp_fi=fi_of(a),
                            craw=(lambda s, c, a=a, ub=ub: G("Division", G("Indexed", s.e(a), s.mi(c)), s.e(ub))),
                            pycraw=(lambda c, a=a, ub=ub: raw_node(Division, raw_node(Indexed, a, mi_of(c)), ub))))
    # negation / subtraction
    for na, a in [("f", f), ("v", v), ("M", M), ("vi", P.vi), ("Z", Zero()), ("2", as_ufl(2)), ("2p5", as_ufl(2.5)),
                  ("Zv", P.Zv), ("LT2", P.LT2), ("Zvi", P.Zvi), ("m1", m1), ("CT1", P.CT1)]:
        lit = is_literal(a)
        if a.ufl_shape == ():
            reqs.append(Req("neg", f"-{na}", (lambda a=a: -a), [a],
                            raw=(lambda s, a=a: G("Product", s.e(m1), s.e(a))),
                            pyraw=(lambda a=a: raw_node(Product, m1, a)),
                            value=(None if lit else True), info={"op": "Product", "lit_fold": lit, "neg": True}))
        else:
            reqs.append(Req("neg", f"-{na}", (lambda a=a: -a), [a], exp_shape=a.ufl_shape, exp_fi=fi_of(a),
                            craw=(lambda s, c, a=a: G("Product", s.e(m1), G("Indexed", s.e(a), s.mi(c)))),
                            pycraw=(lambda c, a=a: raw_node(Product, m1, raw_node(Indexed, a, mi_of(c))))))
    for (na, a), (nb, b) in [(("f", f), ("g", g)), (("v", v), ("w", w)), (("f", f), ("f", f)), (("v", v), ("Zv", P.Zv)),
                             (("vi", P.vi), ("wi", P.wi)), (("f", f), ("2", as_ufl(2))), (("Z", Zero()), ("f", f)),
                             (("M", M), ("CT1", P.CT1))]:
        if a.ufl_shape == ():
            reqs.append(Req("sub", f"{na} - {nb}", (lambda a=a, b=b: a - b), [a, b],
                            raw=(lambda s, a=a, b=b: G("Sum", s.e(a), G("Product", s.e(m1), s.e(b)))),
                            pyraw=(lambda a=a, b=b: raw_node(Sum, a, raw_node(Product, m1, b)))))
        else:
            reqs.append(Req("sub", f"{na} - {nb}", (lambda a=a, b=b: a - b), [a, b], exp_shape=a.ufl_shape,
                            exp_fi=fi_of(a),
                            craw=(lambda s, c, a=a, b=b: G("Sum", G("Indexed", s.e(a), s.mi(c)),
                                                           G("Product", s.e(m1), G("Indexed", s.e(b), s.mi(c))))),
                            pycraw=(lambda c, a=a, b=b: raw_node(Sum, raw_node(Indexed, a, mi_of(c)), raw_node(
                                Product, m1, raw_node(Indexed, b, mi_of(c)))))))
    # transpose
    Zn = Zero((2, 3))
    Zni = Zero((2, 3), (i.count(),), (2,))
    for na, a in [("M", M), ("N", P.N), ("Zn", Zn), ("Zni", Zni), ("CT1", P.CT1), ("LT3", P.LT3)]:
        reqs.append(Req("transpose", f"{na}.T", (lambda a=a: a.T), [a],
                        raw=(lambda s, a=a: G("Transposed", s.e(a))),
                        pyraw=(lambda a=a: raw_node(C.Transposed, a)), hyp="cplx"))
    # power operator
    reqs.append(Req("pow", "f**2", lambda: f ** 2, [f], hyp="power",
                    raw=lambda s: G("Power", s.e(f), s.e(as_ufl(2))), pyraw=lambda: raw_node(Power, f, as_ufl(2))))
    reqs.append(Req("pow", "v**2", lambda: v ** 2, [v], raw=lambda s: G("Inner", s.e(v), s.e(v)),
                    pyraw=lambda: raw_node(C.Inner, v, v), hyp="cplx"))
    reqs.append(Req("pow", "f**g", lambda: f ** g, [f, g], hyp="power",
                    raw=lambda s: G("Power", s.e(f), s.e(g)), pyraw=lambda: raw_node(Power, f, g)))
    # conditional
    cnd = ufl.lt(f, g)
    cl = ufl.lt(as_ufl(1), as_ufl(2))
    fg2 = f * g
    for (nt, t), (nf, fl) in itertools.product(
            [("f", f), ("g", g), ("fg", P.fg), ("fg'", fg2), ("2", as_ufl(2)), ("v", v), ("w", w), ("vi", P.vi),
             ("wi", P.wi), ("Z", Zero())], repeat=2):
        if t.ufl_shape != fl.ufl_shape or t.ufl_free_indices != fl.ufl_free_indices:
            continue
        for nc, c in (("f<g", cnd), ("1<2", cl)):
            reqs.append(Req("conditional", f"conditional({nc}, {nt}, {nf})",
                            (lambda c=c, t=t, fl=fl: ufl.conditional(c, t, fl)), [t, fl, f, g], hyp="cond",
                            raw=(lambda s, c=c, t=t, fl=fl: G("Conditional", s.cond(c), s.e(t), s.e(fl))),
                            pyraw=(lambda c=c, t=t, fl=fl: raw_node(Conditional, c, t, fl)), info={"cond": c}))
    # restrictions (math functions: mathfold_requests)
    for na, a in [("f", f), ("v", v), ("vi", P.vi)]:
        for sd, bl in (("+", "true"), ("-", "false")):
            reqs.append(Req("restricted", f"{na}('{sd}')", (lambda a=a, sd=sd: a(sd)), [a],
                            raw=(lambda s, a=a, bl=bl: G("Restricted", bl, s.e(a))),
                            pyraw=(lambda a=a, sd=sd: raw_node(C.PositiveRestricted if sd == "+" else C.NegativeRestricted, a))))
    return reqs


def tensoralgebra_requests(P, tier):
    """Constructors and public wrappers of ufl/tensoralgebra.py / ufl/operators.py at every combination of
    operand ranks (scalar / vector / matrix), zeros with and without free indices, operands with free
    indices and compound operands.  The raw request is the compound node itself (Core's den gives it its
    mathematical meaning, incl. the complex conjugates of outer/inner)."""
    reqs = []
    i, j = P.i, P.j
    f, g, v, w, M = P.f, P.g, P.v, P.w, P.M
    u3b = uflgen.coef((3,))
    Zu3 = Zero((3,))
    Zmi = Zero((2, 2), (i.count(),), (2,))
    Zs = Zero()
    pool = [("f", f), ("g", g), ("fg", P.fg), ("2", as_ufl(2)), ("vi", P.vi), ("wj", P.wj), ("Z", Zs), ("Zi", P.Zi),
            ("v", v), ("w", w), ("u3", P.u3), ("u3b", u3b), ("Zv", P.Zv), ("Zvi", P.Zvi), ("Zu3", Zu3),
            ("LT1", P.LT1), ("LT2", P.LT2), ("CT2", P.CT2),
            ("M", M), ("M2", P.M2), ("N", P.N), ("Zm", P.Zm), ("Zmi", Zmi), ("CT1", P.CT1), ("LT3", P.LT3)]
    if tier == "thorough":
        pool.append(("T3", P.T3))
    binary = [("outer", ufl.outer, C.Outer, "Outer"), ("inner", ufl.inner, C.Inner, "Inner"),
              ("dot", ufl.dot, C.Dot, "Dot"), ("cross", ufl.cross, C.Cross, "Cross")]
    for (nm, fn, cls, node), (na, a), (nb, b) in itertools.product(binary, pool, pool):
        sa, sb = a.ufl_shape, b.ufl_shape
        fa, fb = fi_of(a), fi_of(b)
        if set(fa) & set(fb):
            continue            # shared free indices: no requested meaning (non-overlapping merge)
        if len(sa) + len(sb) > 4:
            continue
        if nm == "inner" and sa != sb:
            continue
        if nm == "dot" and not ((sa and sb and sa[-1] == sb[0]) or (not sa and not sb)):
            continue
        if nm == "cross" and not (sa == (3,) and sb == (3,)):
            continue
        if nm == "dot" and len(sa) + len(sb) - 2 > 2 and tier == "quick":
            continue
        rawnode = "Product" if (nm == "dot" and not sa) else node    # scalar "dot" is the product
        rawcls = C.Product if rawnode == "Product" else cls
        for via, th in (("fn", (lambda fn=fn, a=a, b=b: fn(a, b))), ("cls", (lambda cls=cls, a=a, b=b: cls(a, b)))):
            reqs.append(Req(nm, f"{nm}{'' if via == 'fn' else '.cls'}({na}, {nb})", th, [a, b], hyp="cplx",
                            raw=(lambda s, rawnode=rawnode, a=a, b=b: G(rawnode, s.e(a), s.e(b))),
                            pyraw=(lambda rawcls=rawcls, a=a, b=b: raw_node(rawcls, a, b))))
    # n-ary outer
    for (na, a), (nb, b), (nc, c) in [(("f", f), ("v", v), ("w", w)), (("v", v), ("f", f), ("w", w)),
                                      (("f", f), ("g", g), ("v", v)), (("v", v), ("w", w), ("f", f))]:
        reqs.append(Req("outer", f"outer({na}, {nb}, {nc})", (lambda a=a, b=b, c=c: ufl.outer(a, b, c)), [a, b, c],
                        hyp="cplx", raw=(lambda s, a=a, b=b, c=c: G("Outer", G("Outer", s.e(a), s.e(b)), s.e(c))),
                        pyraw=(lambda a=a, b=b, c=c: raw_node(C.Outer, raw_node(C.Outer, a, b), c))))
    unary = [("transpose", ufl.transpose, C.Transposed, "Transposed", lambda x: len(x.ufl_shape) in (0, 2)),
             ("perp", ufl.perp, C.Perp, "Perp", lambda x: x.ufl_shape == (2,)),
             ("tr", ufl.tr, C.Trace, "Trace", lambda x: len(x.ufl_shape) == 2 and x.ufl_shape[0] == x.ufl_shape[1]),
             ("det", ufl.det, C.Determinant, "Determinant",
              lambda x: (x.ufl_shape == () or (len(x.ufl_shape) == 2 and x.ufl_shape[0] == x.ufl_shape[1]))
              and not x.ufl_free_indices),
             ("inv", ufl.inv, C.Inverse, "Inverse",
              lambda x: (x.ufl_shape == () or (len(x.ufl_shape) == 2 and x.ufl_shape[0] == x.ufl_shape[1]))
              and not x.ufl_free_indices and not isinstance(x, Zero)),
             ("cofac", ufl.cofac, C.Cofactor, "Cofactor",
              lambda x: len(x.ufl_shape) == 2 and x.ufl_shape[0] == x.ufl_shape[1] and not x.ufl_free_indices
              and not isinstance(x, Zero)),
             ("dev", ufl.dev, C.Deviatoric, "Deviatoric",
              lambda x: len(x.ufl_shape) == 2 and x.ufl_shape[0] == x.ufl_shape[1] and not x.ufl_free_indices),
             ("skew", ufl.skew, C.Skew, "Skew",
              lambda x: len(x.ufl_shape) == 2 and x.ufl_shape[0] == x.ufl_shape[1] and not x.ufl_free_indices),
             ("sym", ufl.sym, C.Sym, "Sym",
              lambda x: len(x.ufl_shape) == 2 and x.ufl_shape[0] == x.ufl_shape[1] and not x.ufl_free_indices)]
    for (nm, fn, cls, node, ok), (na, a) in itertools.product(unary, pool):
        good = ok(a)
        if nm in ("perp", "det", "inv", "cofac") and a.ufl_free_indices:
            continue        # index-free operator types: operands with free indices have no requested meaning
        if nm == "tr" and len(a.ufl_shape) == 2 and a.ufl_shape[0] != a.ufl_shape[1]:
            continue        # trace of a non-square matrix: accepted by Trace, no requested meaning
        reqs.append(Req(nm, f"{nm}({na})", (lambda fn=fn, a=a: fn(a)), [a], hyp="cplx", must_raise=not good,
                        raw=(lambda s, node=node, a=a: G(node, s.e(a))),
                        pyraw=(lambda cls=cls, a=a: raw_node(cls, a))))
    # diag / diag_vector: component-wise requests
    for na, a in [("v", v), ("M", M), ("Zv", P.Zv), ("LT1", P.LT1), ("CT1", P.CT1)]:
        n_ = a.ufl_shape[-1]
        r = len(a.ufl_shape)
        reqs.append(Req("diag", f"diag({na})", (lambda a=a: ufl.diag(a)), [a], exp_shape=(n_, n_), exp_fi=fi_of(a),
                        craw=(lambda s, c, a=a, r=r: (G("Indexed", s.e(a), s.mi((c[0],) * r)) if c[0] == c[1]
                                                     else "(Zero [] [])")),
                        pycraw=(lambda c, a=a, r=r: (raw_node(Indexed, a, mi_of((c[0],) * r)) if c[0] == c[1] else Zero()))))
        if r == 2:
            reqs.append(Req("diag_vector", f"diag_vector({na})", (lambda a=a: ufl.diag_vector(a)), [a],
                            exp_shape=(n_,), exp_fi=fi_of(a),
                            craw=(lambda s, c, a=a: G("Indexed", s.e(a), s.mi((c[0], c[0])))),
                            pycraw=(lambda c, a=a: raw_node(Indexed, a, mi_of((c[0], c[0]))))))
    return reqs


def mathfold_requests(P, tier):
    """Math functions (unary, atan2, bessel, min/max, sign, elementwise ops).  On symbolic operands the raw
    request is the function node; on literal operands the constructors fold with Python's math/cmath, which
    is floating point and cannot be proved in an abstract algebra: EVERY such fold is validated against the
    reference function on a grid of literals (incl. zero and negative arguments, both arguments of two-argument
    functions); where the reference is undefined (math domain error) the constructor must raise as well."""
    import cmath
    import math
    reqs = []
    f, g, v, w = P.f, P.g, P.v, P.w
    unary = [("sqrt", ufl.sqrt, C.Sqrt, "FSqrt"), ("exp", ufl.exp, C.Exp, "FExp"), ("ln", ufl.ln, C.Ln, "FLn"),
             ("cos", ufl.cos, C.Cos, "FCos"), ("sin", ufl.sin, C.Sin, "FSin"), ("tan", ufl.tan, C.Tan, "FTan"),
             ("cosh", ufl.cosh, C.Cosh, "FCosh"), ("sinh", ufl.sinh, C.Sinh, "FSinh"),
             ("tanh", ufl.tanh, C.Tanh, "FTanh"), ("acos", ufl.acos, C.Acos, "FAcos"),
             ("asin", ufl.asin, C.Asin, "FAsin"), ("atan", ufl.atan, C.Atan, "FAtan"), ("erf", ufl.erf, C.Erf, "FErf")]
    greal = [0, 1, -1, 2, -2, 3, 0.5, -0.5, 2.5, -2.5, 1.0, 10, 0.001]
    gcplx = [1 + 2j, -1 - 0.5j, 2j]

    def ref1(nm, x):
        fn = {"ln": "log"}.get(nm, nm)
        if isinstance(x, complex):
            return getattr(cmath, fn)(x)
        try:
            return getattr(math, fn)(float(x))
        except ValueError:
            if nm == "sqrt":
                return cmath.sqrt(x)
            raise

    for nm, fn, cls, tag in unary:
        for na, a in [("f", f), ("fg", P.fg), ("v0", v[0]), ("f+g", P.fpg)]:
            for via, th in (("", (lambda fn=fn, a=a: fn(a))), (".cls", (lambda cls=cls, a=a: cls(a)))):
                reqs.append(Req("math", f"{nm}{via}({na})", th, [a],
                                raw=(lambda s, tag=tag, a=a: G("Math", tag, s.e(a))),
                                pyraw=(lambda cls=cls, a=a: raw_node(cls, a))))
        for na, a in [("v", v), ("vi", P.vi)]:
            reqs.append(Req("math", f"{nm}({na})", (lambda fn=fn, a=a: fn(a)), [a], must_raise=True))
        for x in greal + gcplx:
            if nm == "erf" and isinstance(x, complex):
                continue        # no reference function (and the constructor rejects it)
            try:
                ref = complex(ref1(nm, x))
                bad = False
            except (ValueError, OverflowError, ZeroDivisionError):
                ref, bad = None, True
            ux = as_ufl(x)
            for via, th in (("", (lambda fn=fn, x=x: as_ufl(fn(x)))), (".cls", (lambda cls=cls, ux=ux: as_ufl(cls(ux))))):
                reqs.append(Req("mathfold", f"{nm}{via}({x})", th, [ux], value=False, must_raise=bad,
                                raw=(lambda s, tag=tag, ux=ux: G("Math", tag, s.e(ux))),
                                info={"fold_ref": ref}))
    # atan2
    g2 = [0, 1, -1, 2, -2.5, 0.5, -0.5, 3]
    for y, x in itertools.product(g2, repeat=2):
        ref = complex(math.atan2(float(y), float(x)))
        uy, ux = as_ufl(y), as_ufl(x)
        for via, th in (("", (lambda y=y, x=x: as_ufl(ufl.atan2(y, x)))),
                        (".cls", (lambda uy=uy, ux=ux: as_ufl(C.Atan2(uy, ux))))):
            reqs.append(Req("mathfold", f"atan2{via}({y}, {x})", th, [uy, ux], value=False,
                            raw=(lambda s, uy=uy, ux=ux: G("Atan2", s.e(uy), s.e(ux))), info={"fold_ref": ref}))
    for (na, a), (nb, b) in [(("f", f), ("g", g)), (("f", f), ("2", 2)), (("m1", -1), ("f", f)), (("0", 0), ("f", f)),
                             (("fg", P.fg), ("m2p5", -2.5)), (("f", f), ("0", 0)), (("v0", v[0]), ("w1", w[1]))]:
        ua, ub = as_ufl(a), as_ufl(b)
        reqs.append(Req("math", f"atan2({na}, {nb})", (lambda a=a, b=b: ufl.atan2(a, b)), [ua, ub],
                        raw=(lambda s, ua=ua, ub=ub: G("Atan2", s.e(ua), s.e(ub))),
                        pyraw=(lambda ua=ua, ub=ub: raw_node(C.Atan2, ua, ub))))
    for (na, a), (nb, b) in [(("cplx", 1 + 2j), ("f", f)), (("f", f), ("cplx", 1 + 2j)), (("v", v), ("f", f)),
                             (("f", f), ("vi", P.vi))]:
        reqs.append(Req("math", f"atan2({na}, {nb})", (lambda a=a, b=b: ufl.atan2(a, b)), [as_ufl(a), as_ufl(b)],
                        must_raise=True))
    # bessel functions, min/max, sign
    for nm, fn, tag in [("bessel_J", ufl.bessel_J, "BJ"), ("bessel_Y", ufl.bessel_Y, "BY"),
                        ("bessel_I", ufl.bessel_I, "BI"), ("bessel_K", ufl.bessel_K, "BK")]:
        for nu, (na, a) in itertools.product((0, 1, 2), [("f", f), ("fg", P.fg)]):
            reqs.append(Req("math", f"{nm}({nu}, {na})", (lambda fn=fn, nu=nu, a=a: fn(nu, a)), [as_ufl(nu), a],
                            raw=(lambda s, tag=tag, nu=nu, a=a: G("Bessel", tag, s.e(as_ufl(nu)), s.e(a)))))
    for nm, fn, node, cls in [("max_value", ufl.max_value, "MaxV", C.MaxValue), ("min_value", ufl.min_value, "MinV", C.MinValue)]:
        for (na, a), (nb, b) in [(("f", f), ("g", g)), (("f", f), ("2", 2)), (("0", 0), ("f", f)), (("1", 1), ("2", 2)),
                                 (("fg", P.fg), ("m1", -1))]:
            ua, ub = as_ufl(a), as_ufl(b)
            reqs.append(Req("math", f"{nm}({na}, {nb})", (lambda fn=fn, a=a, b=b: fn(a, b)), [ua, ub],
                            raw=(lambda s, node=node, ua=ua, ub=ub: G(node, s.e(ua), s.e(ub))),
                            pyraw=(lambda cls=cls, ua=ua, ub=ub: raw_node(cls, ua, ub))))
        reqs.append(Req("math", f"{nm}(v, f)", (lambda fn=fn: fn(v, f)), [v, f], must_raise=True))
    zero, m1, one = as_ufl(0), as_ufl(-1), as_ufl(1)
    for na, a in [("f", f), ("fg", P.fg), ("v0", v[0])]:
        reqs.append(Req("math", f"sign({na})", (lambda a=a: ufl.sign(a)), [a], hyp="cond",
                        raw=(lambda s, a=a: G("Conditional", G("Cmp", "CEQ", s.e(a), s.e(zero)), s.e(zero),
                                              G("Conditional", G("Cmp", "CLT", s.e(a), s.e(zero)), s.e(m1), s.e(one)))),
                        pyraw=(lambda a=a: raw_node(Conditional, ufl.eq(a, 0), zero,
                                                    raw_node(Conditional, ufl.lt(a, 0), m1, one)))))
    # elementwise operators
    for nm, fn, node, cls in [("elem_mult", ufl.elem_mult, "Product", Product), ("elem_div", ufl.elem_div, "Division", Division),
                              ("elem_pow", ufl.elem_pow, "Power", Power)]:
        for (na, a), (nb, b) in [(("v", v), ("w", w)), (("M", P.M), ("M2", P.M2)), (("LT1", P.LT1), ("v", v))]:
            reqs.append(Req("elem", f"{nm}({na}, {nb})", (lambda fn=fn, a=a, b=b: fn(a, b)), [a, b],
                            exp_shape=a.ufl_shape, exp_fi={}, hyp=("power" if nm == "elem_pow" else "division"),
                            craw=(lambda s, c, node=node, a=a, b=b: G(node, G("Indexed", s.e(a), s.mi(c)),
                                                                      G("Indexed", s.e(b), s.mi(c)))),
                            pycraw=(lambda c, cls=cls, a=a, b=b: raw_node(cls, raw_node(Indexed, a, mi_of(c)),
                                                                          raw_node(Indexed, b, mi_of(c))))))
    return reqs


def has_diag(e, depth=4):
    """e contains an Indexed node whose tensor already has one of the indexing indices as a free index, or
    that repeats an index (operands that depend on an index a binder may bind)"""
    if isinstance(e, Indexed):
        A, mi = e.ufl_operands
        cs = [x.count() for x in mi if isinstance(x, Index)]
        if len(set(cs)) != len(cs) or set(cs) & set(A.ufl_free_indices):
            return True
    if depth == 0 or e._ufl_is_terminal_:
        return False
    return any(has_diag(o, depth - 1) for o in e.ufl_operands if not isinstance(o, MultiIndex))


def hot(req):
    """requests that reach a folding branch (zero / literal operands, nested shortcuts): always kept"""
    if req.group == "getitem" and isinstance(req.operands[0], (C.Identity, C.PermutationSymbol)):
        return True
    if any(has_diag(o) for o in req.operands):
        return True
    if req.group in ("outer", "inner", "dot", "cross"):
        return False        # large, homogeneous groups: every branch is reached by many requests
    return any(isinstance(o, (Zero, C.ScalarValue)) for o in req.operands) or req.group in (
        "ListTensor", "IndexSum", "Indexed", "conditional", "Abs", "Conj", "Real", "Imag", "as_vector", "as_matrix",
        "div", "neg", "sub", "transpose", "pow", "math", "restricted", "perp", "tr", "det", "inv", "cofac", "dev",
        "skew", "sym", "diag", "diag_vector", "cross", "mathfold", "elem") or any(has_diag(o) for o in req.operands)


def all_requests(tier, rng, groups=None, seed=0):
    # fresh operands per run; Index counters only matter relatively
    P = Pool()
    reqs = _all_requests(P, tier, rng)
    if groups:
        reqs = [r for r in reqs if r.group in groups]
    if tier == "quick":
        # quick tier: all "hot" requests, one quarter of the others (rotating with the seed)
        keep = []
        for n, r in enumerate(reqs):
            if hot(r) or n % 4 == seed % 4:
                keep.append(r)
        reqs = keep
    return P, reqs


def _all_requests(P, tier, rng):
    reqs = []
    reqs += binop_requests(P, tier)
    reqs += unary_requests(P, tier)
    reqs += indexed_requests(P, tier)
    reqs += indexsum_requests(P, tier)
    reqs += ct_requests(P, tier)
    reqs += lt_requests(P, tier)
    reqs += mult_requests(P, tier)
    reqs += getitem_requests(P, tier, rng)
    reqs += misc_requests(P, tier)
    reqs += tensoralgebra_requests(P, tier)
    reqs += mathfold_requests(P, tier)
    return reqs
