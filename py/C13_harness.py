"""C13 tie T3 (validation + search oracle): real objects of every translated class, built from a table of
attribute values; pairs differ in exactly ONE attribute (or only in the *presentation* of one attribute:
equal under == but e.g. a dict with another insertion order).  Values are produced by thunks so that
equal values are distinct Python objects (no `is` shortcut hides a missing comparison)."""

import itertools
import pickle
import random

import ufl
from ufl import (
    Argument, Coefficient, Constant, FunctionSpace, Measure, Mesh, interval, tetrahedron, triangle,
)
from ufl.classes import (
    Coargument, Cofunction, ComplexValue, FloatValue, Form, Identity, Integral, IntValue, Label,
    MultiIndex, PermutationSymbol, Variable, Zero,
)
from ufl.core.multiindex import FixedIndex, Index
from ufl.functionspace import DualSpace
from ufl.protocols import id_or_none
from ufl.pullback import identity_pullback
from ufl.sobolevspace import H1

import elements


def FE(cell, deg, shape=()):
    """A plain elements.FiniteElement (its repr evaluates back to an object of the same type)."""
    return elements.FiniteElement("Lagrange", cell, deg, shape, identity_pullback, H1)


class SubdomainData:
    def __init__(self, tag):
        self.tag = tag

    def __repr__(self):
        return f"SubdomainData({self.tag!r})"


_SD = [SubdomainData("A"), SubdomainData("B")]     # compared by identity: shared objects


def mesh_thunks():
    return [lambda: Mesh(FE(triangle, 1, (2,)), 9101), lambda: Mesh(FE(triangle, 1, (2,)), 9102),
            lambda: Mesh(FE(tetrahedron, 1, (3,)), 9103), lambda: Mesh(FE(triangle, 2, (2,)), 9101)]


def space_thunks(dual=False):
    mk = DualSpace if dual else FunctionSpace
    m = mesh_thunks()
    return [lambda: mk(m[0](), FE(triangle, 1)), lambda: mk(m[0](), FE(triangle, 2)),
            lambda: mk(m[1](), FE(triangle, 1)), lambda: mk(m[0](), FE(triangle, 1, (2,))),
            lambda: mk(m[0](), FE(triangle, 1), label="boundary")]


def const(*vals):
    return [(lambda v=v: v) for v in vals]


def integrand_thunks():
    def mk(k):
        def th():
            V = FunctionSpace(Mesh(FE(triangle, 1, (2,)), 9101), FE(triangle, 1))
            f, g = Coefficient(V, 9201), Coefficient(V, 9202)
            v = Argument(V, 0)
            return [f * v, g * v, f * g * v, ufl.sin(f) * v][k]
        return th
    return [mk(0), mk(1), mk(2), mk(3)]


def integral_thunks():
    igs, ms = integrand_thunks(), mesh_thunks()
    return [lambda: Integral(igs[0](), "cell", ms[0](), "everywhere", {}, None),
            lambda: Integral(igs[1](), "cell", ms[0](), 1, {"quadrature_degree": 2}, None),
            lambda: Integral(igs[0](), "exterior_facet", ms[0](), 2, {}, None)]


class ClassTable:
    """fields: attr -> list of value thunks (index 0 = base value); presentations: attr -> list of thunks
    whose values are == to the base value but may print differently; build(values) -> object."""

    def __init__(self, cls, fields, build, presentations=None, eq="__eq__"):
        self.cls, self.fields, self.build = cls, fields, build
        self.presentations = presentations or {}
        self.eq = eq


def tables():
    T = {}
    ms, sp, dsp = mesh_thunks(), space_thunks(), space_thunks(dual=True)
    T["Constant"] = ClassTable(Constant, {"_ufl_domain": ms, "_ufl_shape": const((), (2,), (3,), (2, 2)),
                                          "_count": const(9301, 9302)},
                               lambda v: Constant(v["_ufl_domain"], v["_ufl_shape"], v["_count"]))
    T["Coefficient"] = ClassTable(Coefficient, {"_ufl_function_space": sp, "_count": const(9311, 9312)},
                                  lambda v: Coefficient(v["_ufl_function_space"], v["_count"]))
    T["Cofunction"] = ClassTable(Cofunction, {"_ufl_function_space": dsp, "_count": const(9321, 9322)},
                                 lambda v: Cofunction(v["_ufl_function_space"], v["_count"]), eq="equals")
    T["Argument"] = ClassTable(Argument, {"_ufl_function_space": sp, "_number": const(0, 1, 2),
                                          "_part": const(None, 0, 1)},
                               lambda v: Argument(v["_ufl_function_space"], v["_number"], v["_part"]))
    T["Coargument"] = ClassTable(Coargument, {"_ufl_function_space": dsp, "_number": const(0, 1, 2),
                                              "_part": const(None, 0, 1)},
                                 lambda v: Coargument(v["_ufl_function_space"], v["_number"], v["_part"]),
                                 eq="equals")
    T["Zero"] = ClassTable(Zero, {"ufl_shape": const((2,), (3,), (), (2, 2)),
                                  "ufl_free_indices": const((9401,), (9402,)),
                                  "ufl_index_dimensions": const((2,), (3,))},
                           lambda v: Zero(v["ufl_shape"], v["ufl_free_indices"], v["ufl_index_dimensions"]))
    import numpy as np
    T["IntValue"] = ClassTable(IntValue, {"_value": const(150, 151, 3, -3, 10 ** 20)}, lambda v: IntValue(v["_value"]),
                               presentations={"_value": const(np.int64(150), np.int32(150), np.uint8(150))})
    import sys
    T["FloatValue"] = ClassTable(FloatValue, {"_value": const(2.5, 3.5, 1e-9, 0.1, 0.30000000000000004, 0.3, 1.1 * 1.1,
                                                              2 ** 0.5 * 1e10, sys.float_info.max, 5e-324, 1 / 3,
                                                              -2.675, 1e22, 123456789.12345679)},
                                 lambda v: FloatValue(v["_value"]),
                                 presentations={"_value": const(np.float64(2.5), np.float32(2.5))})
    T["ComplexValue"] = ClassTable(ComplexValue, {"_value": const(1 + 2j, 1 + 3j, 2j)},
                                   lambda v: ComplexValue(v["_value"]),
                                   presentations={"_value": const(np.complex128(1 + 2j), np.complex64(1 + 2j))})
    T["Identity"] = ClassTable(Identity, {"_dim": const(2, 3)}, lambda v: Identity(v["_dim"]))
    T["PermutationSymbol"] = ClassTable(PermutationSymbol, {"_dim": const(2, 3)},
                                        lambda v: PermutationSymbol(v["_dim"]))
    T["Variable"] = ClassTable(
        Variable, {"ufl_operands[0]": integrand_thunks() + [lambda: Coefficient(space_thunks()[3](), 9205),
                                                           lambda: ufl.as_ufl(2.5)],
                   "ufl_operands[1]": [lambda: Label(9531), lambda: Label(9532)]},
        lambda v: Variable(v["ufl_operands[0]"], v["ufl_operands[1]"]))
    T["Label"] = ClassTable(Label, {"_count": const(9501, 9502)}, lambda v: Label(v["_count"]))
    T["Index"] = ClassTable(Index, {"_count": const(9511, 9512)}, lambda v: Index(v["_count"]))
    T["FixedIndex"] = ClassTable(FixedIndex, {"_value": const(0, 1, 7)}, lambda v: FixedIndex(v["_value"]))
    T["MultiIndex"] = ClassTable(
        MultiIndex, {"_indices": [lambda: (Index(9521),), lambda: (Index(9522),),
                                  lambda: (FixedIndex(0), Index(9521)), lambda: (FixedIndex(1),),
                                  lambda: (FixedIndex(0),), lambda: ()]},
        lambda v: MultiIndex(v["_indices"]))
    for gname in geometry_class_names():
        gcls = getattr(ufl.classes, gname)
        T[gname] = ClassTable(gcls, {"_domain": ms}, lambda v, gcls=gcls: gcls(v["_domain"]))
    T["Mesh"] = ClassTable(Mesh, {"_ufl_coordinate_element": [lambda: FE(triangle, 1, (2,)),
                                                              lambda: FE(triangle, 2, (2,)),
                                                              lambda: FE(tetrahedron, 1, (3,))],
                                  "_ufl_id": const(9601, 9602)},
                           lambda v: Mesh(v["_ufl_coordinate_element"], v["_ufl_id"]))
    for nm, mk in (("FunctionSpace", FunctionSpace), ("DualSpace", DualSpace)):
        T[nm] = ClassTable(mk, {"_ufl_domain": ms[:2] + ms[3:], "_ufl_element": [lambda: FE(triangle, 1),
                                                                                lambda: FE(triangle, 2),
                                                                                lambda: FE(triangle, 1, (2,))],
                                "_label": const("", "boundary")},
                           lambda v, mk=mk: mk(v["_ufl_domain"], v["_ufl_element"], label=v["_label"]))
    md = [lambda: {"quadrature_degree": 2, "scheme": "default", "opts": {"a": 1, "b": [{"p": 1, "q": 2}]}}, lambda: {}, lambda: {"quadrature_degree": 3, "scheme": "default"},
          lambda: {"quadrature_degree": 2}, lambda: {"quadrature_degree": 2, "scheme": "vertex"},
          lambda: {"quadrature_degree": 2, "scheme": "default", "nested": {"a": [1, 2]}}]
    # == to the base metadata as dicts, keys inserted in another order (top level / nested / inside a list)
    md_pres = [lambda: {"scheme": "default", "opts": {"a": 1, "b": [{"p": 1, "q": 2}]}, "quadrature_degree": 2},
               lambda: {"quadrature_degree": 2, "scheme": "default", "opts": {"b": [{"p": 1, "q": 2}], "a": 1}},
               lambda: {"quadrature_degree": 2, "scheme": "default", "opts": {"a": 1, "b": [{"q": 2, "p": 1}]}}]
    T["Integral"] = ClassTable(
        Integral,
        {"_integrand": integrand_thunks(), "_integral_type": const("cell", "exterior_facet", "interior_facet"),
         "_ufl_domain": ms[:2] + ms[3:], "_subdomain_id": const(1, 2, "everywhere", (1, 2)),
         "_metadata": md, "_subdomain_data": [lambda: None, lambda: _SD[0], lambda: _SD[1]],
         "_extra_domain_integral_type_map": [lambda: {}, lambda: {ms[1](): "cell"},
                                             lambda: {ms[1](): "exterior_facet"},
                                             lambda: {ms[1](): "cell", ms[3](): "cell"}]},
        lambda v: Integral(v["_integrand"], v["_integral_type"], v["_ufl_domain"], v["_subdomain_id"],
                           v["_metadata"], v["_subdomain_data"],
                           extra_domain_integral_type_map=v["_extra_domain_integral_type_map"]),
        presentations={"_metadata": md_pres,
                       "_extra_domain_integral_type_map": []})
    its = integral_thunks()
    T["Form"] = ClassTable(Form, {"_integrals": [lambda: [its[0](), its[1]()], lambda: [its[0]()],
                                                 lambda: [its[0](), its[2]()], lambda: [],
                                                 lambda: [its[1](), its[2]()]]},
                           lambda v: Form(v["_integrals"]), eq="equals")
    shared_md = [{"quadrature_degree": 2}, {"quadrature_degree": 2}, {}]
    _vals = [2, 3]
    T["Measure"] = ClassTable(
        Measure,
        {"_integral_type": const("cell", "exterior_facet"), "_subdomain_id": const("everywhere", 1, (1, 2)),
         "_domain": [lambda: None] + ms[:2],
         "_subdomain_data": [lambda: None, lambda: _SD[0], lambda: _SD[1]],
         # Measure compares metadata VALUES by identity: share the value objects
         "_metadata": [lambda: {"quadrature_degree": _vals[0]}, lambda: {"quadrature_degree": _vals[1]},
                       lambda: {}, lambda: {"degree": _vals[0]}],
         "_intersect_measures": [lambda: (), lambda: (Measure("ds", ms[1]()),)]},
        lambda v: Measure(v["_integral_type"], domain=v["_domain"], subdomain_id=v["_subdomain_id"],
                          metadata=v["_metadata"], subdomain_data=v["_subdomain_data"],
                          intersect_measures=v["_intersect_measures"] or None))
    return T


def geometry_class_names():
    from ufl.geometry import GeometricQuantity
    return sorted(c.__name__ for c in ufl.classes.all_ufl_classes
                  if issubclass(c, GeometricQuantity) and not c._ufl_is_abstract_)


# ------------------------------------------------------------------------------------------------

def real_eq(tab, a, b):
    if tab.eq == "equals":
        return bool(a.equals(b))
    r = a == b
    return bool(r)


def get_attr(o, name):
    if "[" in name:
        base, idx = name[:-1].split("[")
        return getattr(o, base)[int(idx)]
    return getattr(o, name)


def view(v, x):
    if v == 0:
        return x
    if v == 1:
        return id_or_none(x)
    if v == 2:
        return sorted((k, id(val)) for k, val in list(x.items()))
    if v == 3:
        return len(x)
    if v == 5:
        return None
    raise ValueError(v)


def model_eq(spec, a, b):
    """The generated spec evaluated on the attribute values of two real objects."""
    for c in spec.eqs:
        if c[0] == "crepr":
            ok = repr(a) == repr(b)
        elif c[0] == "chash":
            ok = hash(a) == hash(b)
        else:
            oa = a if c[1] == "Self" else b
            ob = a if c[4] == "Self" else b
            x, y = get_attr(oa, spec.fields[c[2]]), get_attr(ob, spec.fields[c[5]])
            if c[3] == 5:
                ok = all(p == q for p, q in zip(x, y))
            else:
                ok = bool(view(c[3], x) == view(c[6], y))
        if not ok:
            return False
    return True


def pairs_of_class(tab, rng=None, limit=None):
    """[(label, a, b)]: equal rebuilds, one-attribute mutations, presentation variants."""
    base = {f: th[0] for f, th in tab.fields.items()}

    def build(over=None):
        vals = {f: th() for f, th in base.items()}
        if over:
            for f, th in over.items():
                vals[f] = th()
        return tab.build(vals)
    out = []
    try:
        a = build()
    except Exception as ex:     # e.g. a facet quantity on a cell without facets
        return [("unbuildable", None, repr(ex))]
    out.append(({"kind": "rebuild"}, a, build()))
    for f, ths in tab.fields.items():
        for i, th in enumerate(ths[1:], 1):
            try:
                b = build({f: th})
            except Exception:
                continue
            out.append(({"kind": "mutate", "field": f, "alt": i}, build(), b))
            # and a second base point: everything else at its last alternative
    for f, ths in tab.presentations.items():
        for i, th in enumerate(ths):
            out.append(({"kind": "presentation", "field": f, "alt": i}, build(), build({f: th})))
    # second base point: all attributes at alternative 1 (where available), mutate one back
    alt = {f: (th[1] if len(th) > 1 else th[0]) for f, th in tab.fields.items()}
    try:
        def build2(over=None):
            vals = {f: th() for f, th in alt.items()}
            if over:
                for f, th in over.items():
                    vals[f] = th()
            return tab.build(vals)
        a2 = build2()
        out.append(({"kind": "rebuild", "base": 1}, a2, build2()))
        for f, ths in tab.fields.items():
            if len(ths) > 1:
                out.append(({"kind": "mutate", "field": f, "alt": 0, "base": 1}, build2(), build2({f: ths[0]})))
    except Exception:
        pass
    return out


def snapshot(o):
    """What comparing must not change."""
    s = {"repr": repr(o)}
    try:
        s["hash"] = hash(o)
    except TypeError:
        s["hash"] = None
    if isinstance(o, Form):
        from ufl.algorithms.signature import compute_form_signature
        try:
            s["signature"] = compute_form_signature(o, o._compute_renumbering())
        except Exception as ex:
            s["signature"] = "ERR " + type(ex).__name__
    if isinstance(o, ufl.core.expr.Expr):
        try:
            s["shape"] = (o.ufl_shape, o.ufl_free_indices, o.ufl_index_dimensions)
        except Exception:
            s["shape"] = None
        s["operands"] = tuple(id(x) for x in o.ufl_operands)
    return s


def snapshot_value(o):
    s = snapshot(o)
    s.pop("operands", None)     # operand identity may change (eager DAG sharing); value must not
    return s


def check_pair(tab, spec, label, a, b):
    """Returns list of problems (dicts) for one pair on the real code."""
    probs = []
    sa, sb = snapshot_value(a), snapshot_value(b)
    e_ab = real_eq(tab, a, b)
    e_ba = real_eq(tab, b, a)
    m_ab = model_eq(spec, a, b) if spec is not None else None
    if snapshot_value(a) != sa or snapshot_value(b) != sb:
        probs.append({"what": "comparison changed repr/hash/signature of an operand",
                      "before": [sa, sb], "after": [snapshot_value(a), snapshot_value(b)]})
    if e_ab != e_ba:
        probs.append({"what": "== is not symmetric", "a==b": e_ab, "b==a": e_ba})
    if not real_eq(tab, a, a) or not real_eq(tab, b, b):
        probs.append({"what": "== is not reflexive"})
    if m_ab is not None and m_ab != e_ab:
        probs.append({"what": "generated eqb model disagrees with the implementation's ==",
                      "model": m_ab, "impl": e_ab, "correspondence": True})
    if e_ab:
        if repr(a) != repr(b):
            probs.append({"what": "a == b but repr(a) != repr(b)"})
        try:
            if hash(a) != hash(b):
                probs.append({"what": "a == b but hash(a) != hash(b)"})
        except TypeError:
            pass
    elif label.get("kind") == "rebuild":
        probs.append({"what": "an object rebuilt from equal attribute values is not == to the original"})
    for p in probs:
        p.update({"class": tab.cls.__name__, "pair": label, "repr_a": repr(a)[:600], "repr_b": repr(b)[:600]})
    return probs


def check_transitivity(tab, objs):
    probs = []
    n = len(objs)
    eq = [[real_eq(tab, objs[i], objs[j]) for j in range(n)] for i in range(n)]
    for i, j, k in itertools.product(range(n), repeat=3):
        if eq[i][j] and eq[j][k] and not eq[i][k]:
            probs.append({"what": "== is not transitive", "class": tab.cls.__name__,
                          "a": repr(objs[i])[:300], "b": repr(objs[j])[:300], "c": repr(objs[k])[:300]})
            return probs
    return probs


# ------------------------------------------------------------------------------------------------
# round trips

def eval_namespace():
    import ufl.classes
    import ufl.pullback
    import ufl.sobolevspace
    ns = {}
    ns.update(vars(ufl))
    ns.update({k: getattr(ufl.classes, k) for k in dir(ufl.classes) if not k.startswith("_")})
    ns.update({k: getattr(ufl.pullback, k) for k in dir(ufl.pullback) if not k.startswith("_")})
    ns.update({k: getattr(ufl.sobolevspace, k) for k in dir(ufl.sobolevspace) if not k.startswith("_")})
    ns["Index"], ns["FixedIndex"], ns["MultiIndex"] = Index, FixedIndex, MultiIndex
    ns["Measure"], ns["DualSpace"] = Measure, DualSpace
    ns["SubdomainData"] = SubdomainData

    class utils:
        FiniteElement = elements.FiniteElement
        MixedElement = elements.MixedElement
        SymmetricElement = elements.SymmetricElement
    ns["utils"] = utils
    return ns


class Bystanders:
    """Objects that exist before a round trip and must be exactly as they were afterwards: the flyweights that
    __new__ hands out (Zero of each shape, small IntValues, fixed indices / multi-indices) and expressions
    containing them."""

    def __init__(self):
        m = Mesh(FE(triangle, 1, (2,)), 9791)
        V = FunctionSpace(m, FE(triangle, 1))
        f = Coefficient(V, 9792)
        w = Coefficient(FunctionSpace(m, FE(triangle, 1, (2,))), 9793)
        objs = {"Zero()": Zero(), "Zero((2,))": Zero((2,)), "Zero((3,))": Zero((3,)), "Zero((2, 2))": Zero((2, 2)),
                "IntValue(1)": IntValue(1), "IntValue(2)": IntValue(2), "IntValue(-1)": IntValue(-1),
                "FixedIndex(0)": FixedIndex(0), "MultiIndex((FixedIndex(0),))": MultiIndex((FixedIndex(0),)),
                "as_vector([f, 0])": ufl.as_vector([f, 0]), "conditional(f<1, 0, f)": ufl.conditional(ufl.lt(f, 1), 0, f),
                "w[0]*2": w[0] * 2, "f**1 + 1": f + 1}
        self.objs = objs
        self.state = {k: self.fingerprint(o) for k, o in objs.items()}
        self.reported = set()

    @staticmethod
    def fingerprint(o):
        d = [repr(o)]
        for a in ("ufl_shape", "ufl_free_indices", "ufl_index_dimensions"):
            try:
                d.append(getattr(o, a))
            except Exception:    # noqa: BLE001
                d.append(None)
        try:
            d.append(hash(o))
        except Exception:    # noqa: BLE001
            d.append(None)
        return tuple(d)

    def changed(self):
        out = []
        for k, o in self.objs.items():
            now = self.fingerprint(o)
            if now != self.state[k] and k not in self.reported:
                self.reported.add(k)
                out.append({"object": k, "before": str(self.state[k])[:300], "after": str(now)[:300]})
        return out


def roundtrip(o, eq, ns, bystanders=None):
    """-> list of problems: eval(repr(o)) == o and pickle.loads(pickle.dumps(o)) == o, and no OTHER existing
    object (the flyweights __new__ hands out, expressions containing them) changes"""
    probs = []
    try:
        r = eval(repr(o), dict(ns))
        if not eq(r, o) or repr(r) != repr(o):
            probs.append({"what": "eval(repr(x)) is not equal to x", "repr": repr(o)[:600], "repr_back": repr(r)[:600]})
    except Exception as ex:
        probs.append({"what": "eval(repr(x)) raised " + type(ex).__name__ + ": " + str(ex)[:200], "repr": repr(o)[:600]})
    if bystanders is not None:
        for c in bystanders.changed():
            probs.append({"what": "eval(repr(x)) changed another, already existing object", "repr": repr(o)[:600],
                          "bystander": c})
    try:
        p = pickle.loads(pickle.dumps(o))
        if not eq(p, o) or repr(p) != repr(o):
            probs.append({"what": "pickle round trip is not equal to x", "repr": repr(o)[:600], "repr_back": repr(p)[:600]})
    except Exception as ex:
        probs.append({"what": "pickle round trip raised " + type(ex).__name__ + ": " + str(ex)[:200],
                      "repr": repr(o)[:600]})
    if bystanders is not None:
        for c in bystanders.changed():
            probs.append({"what": "pickle.loads(pickle.dumps(x)) changed another, already existing object (a shared "
                                  "instance handed out by __new__ was overwritten by the pickled state)",
                          "repr": repr(o)[:600], "bystander": c})
    return probs


# ------------------------------------------------------------------------------------------------
# expressions: generator, one-node mutation, structural model

class ExprGen:
    def __init__(self, seed):
        self.rng = random.Random(seed)
        m = Mesh(FE(triangle, 1, (2,)), 9701)
        self.mesh = m
        V, W = FunctionSpace(m, FE(triangle, 1)), FunctionSpace(m, FE(triangle, 2, (2,)))
        self.V, self.W = V, W
        self.scal = [Coefficient(V, 9711), Coefficient(V, 9712), Constant(m, (), 9713), Argument(V, 0),
                     Argument(V, 1), ufl.CellVolume(m), ufl.as_ufl(2), ufl.as_ufl(2.5), ufl.as_ufl(151),
                     ufl.as_ufl(1 + 2j), Coefficient(FunctionSpace(m, FE(triangle, 1), label="boundary"), 9711),
                     ufl.as_ufl(0.1 + 0.2), ufl.as_ufl(1.1 * 1.1), ufl.as_ufl(1 / 3)]
        self.vec = [Coefficient(W, 9721), Coefficient(W, 9722), Constant(m, (2,), 9723), Argument(W, 0),
                    ufl.SpatialCoordinate(m), ufl.FacetNormal(m)]
        self.idx = [Index(9731), Index(9732), Index(9733)]

    def fresh_terminal(self, t):
        """A distinct but equal object (where the class allows rebuilding from repr)."""
        return t

    def scalar(self, d):
        for _ in range(6):
            try:
                e = self._scalar(d)
                if e.ufl_shape == () and not e.ufl_free_indices:
                    return e
            except Exception:
                continue
        return self.rng.choice(self.scal)

    def vector(self, d):
        for _ in range(6):
            try:
                e = self._vector(d)
                if e.ufl_shape == (2,) and not e.ufl_free_indices:
                    return e
            except Exception:
                continue
        return self.rng.choice(self.vec)

    def _scalar(self, d):
        r = self.rng
        if d <= 0 or r.random() < 0.2:
            return r.choice(self.scal)
        k = r.choice([0, 1, 2, 3, 4, 5, 6, 7, 8, 9, 10, 11, 11, 11, 12, 13])
        if k == 0:
            return self.scalar(d - 1) + self.scalar(d - 1)
        if k == 1:
            return self.scalar(d - 1) * self.scalar(d - 1)
        if k == 2:
            return self.scalar(d - 1) / (2 + abs(self.scalar(d - 1)))
        if k == 3:
            return ufl.sin(self.scalar(d - 1))
        if k == 4:
            return self.scalar(d - 1) ** 2
        if k == 5:
            return ufl.inner(self.vector(d - 1), self.vector(d - 1))
        if k == 6:
            return self.vector(d - 1)[r.randrange(2)]
        if k == 7:
            i = r.choice(self.idx)
            return self.vector(d - 1)[i] * self.vector(d - 1)[i]
        if k == 8:
            return ufl.conditional(ufl.lt(self.scalar(d - 1), self.scalar(d - 1)), self.scalar(d - 1), self.scalar(d - 1))
        if k == 9:
            return ufl.variable(self.scalar(d - 1))
        if k == 10:
            return ufl.div(self.vector(d - 1))
        if k == 11:
            e = self.scalar(d - 1)      # shared subexpression
            return r.choice([lambda: e * ufl.exp(e), lambda: ufl.sin(e) + ufl.cos(e) * e,
                             lambda: ufl.max_value(e, 2 * e), lambda: ufl.conditional(ufl.lt(e, 1), e, -e)])()
        if k == 12:
            return ufl.conj(self.scalar(d - 1))
        return abs(self.scalar(d - 1))

    def _vector(self, d):
        r = self.rng
        if d <= 0 or r.random() < 0.3:
            return r.choice(self.vec)
        k = r.randrange(6)
        if k == 0:
            return self.vector(d - 1) + self.vector(d - 1)
        if k == 1:
            return self.scalar(d - 1) * self.vector(d - 1)
        if k == 2:
            return ufl.as_vector([self.scalar(d - 1), self.scalar(d - 1)])
        if k == 3:
            return ufl.grad(self.scalar(d - 1))
        if k == 4:
            i = r.choice(self.idx)
            return ufl.as_vector(self.vector(d - 1)[i] * self.scalar(d - 1), i)
        return ufl.dot(ufl.grad(self.vector(d - 1)), self.vector(d - 1))


def rebuild(e, mutate_at=None, counter=None, gen=None):
    """Rebuild expression e bottom-up from fresh nodes (so `is` shortcuts do not apply); if mutate_at
    is the pre-order number of a node, replace that node: a terminal by another terminal of the same
    shape, an operator by an operator whose LAST operand is replaced (or by one of its operands)."""
    counter = counter if counter is not None else [0]
    me = counter[0]
    counter[0] += 1
    if e._ufl_is_terminal_:
        if mutate_at == me and gen is not None:
            try:
                pool = gen.scal if e.ufl_shape == () else gen.vec
                cands = [t for t in pool if t.ufl_shape == e.ufl_shape and not (t == e)]
                if cands and not isinstance(e, (MultiIndex, Label)):
                    return gen.rng.choice(cands)
            except Exception:
                pass
            if isinstance(e, MultiIndex):
                ii = tuple(FixedIndex(1 - int(i)) if isinstance(i, FixedIndex) else i for i in e.indices())
                return MultiIndex(ii)
        return e
    ops = [rebuild(o, mutate_at, counter, gen) for o in e.ufl_operands]
    if mutate_at == me and gen is not None:
        # mutate the LAST operand that is an ordinary expression
        for j in range(len(ops) - 1, -1, -1):
            o = ops[j]
            if isinstance(o, (MultiIndex, Label)):
                continue
            try:
                if o.ufl_shape == () and not o.ufl_free_indices:
                    ops[j] = o + gen.scal[0] if not (o == gen.scal[0]) else o + gen.scal[1]
                    break
                if len(o.ufl_shape) == 1 and not o.ufl_free_indices:
                    ops[j] = o + gen.vec[0]
                    break
            except Exception:
                continue
    try:
        return e._ufl_expr_reconstruct_(*ops)
    except Exception:
        return e


def rebuild_shared(e, memo=None):
    """Fresh operator nodes with the SAME sharing as e (one new object per old object)."""
    memo = {} if memo is None else memo
    if e._ufl_is_terminal_:
        return e
    if id(e) in memo:
        return memo[id(e)]
    ops = [rebuild_shared(o, memo) for o in e.ufl_operands]
    try:
        r = e._ufl_expr_reconstruct_(*ops)
    except Exception:
        r = e
    memo[id(e)] = r
    return r


def count_nodes(e):
    return 1 + sum(count_nodes(o) for o in e.ufl_operands)


def struct_eq(a, b):
    """The specification: same class, terminals equal by their class's ==, operands pairwise equal."""
    if type(a) is not type(b):
        return False
    if a._ufl_is_terminal_:
        return bool(a == b)
    if len(a.ufl_operands) != len(b.ufl_operands):
        return False
    return all(struct_eq(x, y) for x, y in zip(a.ufl_operands, b.ufl_operands))


def all_nodes(*roots):
    seen, out, stack = set(), [], list(roots)
    while stack:
        n = stack.pop()
        if id(n) in seen:
            continue
        seen.add(id(n))
        out.append(n)
        stack.extend(n.ufl_operands)
    return out


def weak_hash_verdict(a, b):
    """a == b computed on fresh copies whose cached hashes are all forced to 0: the hash cut-off of
    expr_equals cannot decide, the stack loop has to (the theorem holds for every hash function; the
    implementation must not rely on the hash being injective).  Returns (verdict, reprs unchanged?)."""
    a2, b2 = rebuild_shared(a), rebuild_shared(b)
    nodes = all_nodes(a2, b2)
    saved = [(n, n._hash) for n in nodes]
    ra, rb = repr(a2), repr(b2)
    for n in nodes:
        n._hash = 0
    try:
        v = bool(a2 == b2)
        v2 = bool(b2 == a2)
        same = (repr(a2) == ra and repr(b2) == rb)
    finally:
        for n, h in saved:
            n._hash = h
    return v, v2, same


HASH_MOD = 2 ** 61 - 1      # CPython: hash(n) == n % (2**61 - 1) for non-negative ints


def hash_collision_pairs(gen):
    """Pairs of structurally DIFFERENT expressions with EQUAL hash, obtained without touching any cache:
    they differ only in the count of an Index, and hash(n) == hash(n + 2**61 - 1), so the tuple hashes
    of Index / MultiIndex / every operator above collide.  They pass the hash cut-off of expr_equals, so
    the verdict (and everything the comparison does to its operands) comes from the stack loop."""
    w, w2, s = gen.vec[0], gen.vec[1], gen.scal[0]
    g = gen.scal[1]
    templates = [
        ("w[i]", lambda i, j: w[i]),
        ("as_vector(w[i]*s, i)", lambda i, j: ufl.as_vector(w[i] * s, i)),
        ("w[i]*w2[i]", lambda i, j: w[i] * w2[i]),
        ("s*(w[i]*w2[i]) + g", lambda i, j: s * (w[i] * w2[i]) + g),
        ("sin(w[i]*w2[i])*g", lambda i, j: ufl.sin(w[i] * w2[i]) * g),
        ("outer[i,j]", lambda i, j: ufl.as_tensor(w[i] * w2[j], (i, j))),
        ("grad(w)[i,j]*grad(w2)[i,j]", lambda i, j: ufl.grad(w)[i, j] * ufl.grad(w2)[i, j]),
        ("conditional", lambda i, j: ufl.conditional(ufl.lt(w[i] * w2[i], g), s, g) * ufl.exp(w[j] * w[j])),
    ]
    out = []
    for k, (name, t) in enumerate(templates):
        n, m = 9751 + 2 * k, 9752 + 2 * k
        try:
            a = t(Index(n), Index(m))
            b = t(Index(n + HASH_MOD), Index(m))          # differs in the first index only
            c = t(Index(n), Index(m + HASH_MOD))          # differs in the second index only
        except Exception:    # noqa: BLE001
            continue
        for tag, x, y in (("first index", a, b), ("second index", a, c), ("both", b, c)):
            try:
                if hash(x) == hash(y) and not struct_eq(x, y):
                    out.append(({"kind": "hash-collision", "template": name, "differs": tag,
                                 "how": "Index counts n and n + 2**61-1 have equal hash"}, x, y))
            except Exception:    # noqa: BLE001
                continue
    return out


def literal_presentation_pairs(gen):
    """The same expression written with python literals and with numpy scalars (the way literals arrive from
    user code that computes with numpy): the literal terminals are == (equal values), so the expressions must be
    ==, with equal hash and repr."""
    import numpy as np
    f, g = gen.scal[0], gen.scal[1]
    w = gen.vec[0]
    lits = [(300, np.int64(300)), (7, np.int32(7)), (2.5, np.float64(2.5)), (0.1, np.float64(0.1)),
            (1 + 2j, np.complex128(1 + 2j)), (1000, np.uint16(1000))]
    templates = [("f*c", lambda c: f * c), ("c*f + g", lambda c: c * f + g), ("f**2/c", lambda c: f ** 2 / c),
                 ("as_ufl(c)", lambda c: ufl.as_ufl(c)), ("sin(f)*c*w[0]", lambda c: ufl.sin(f) * c * w[0]),
                 ("conditional(f<c, f, c)", lambda c: ufl.conditional(ufl.lt(f, c.real), f, c))]
    out = []
    for (py, npv) in lits:
        for name, t in templates:
            try:
                a, b = t(py), t(npv)
            except Exception:    # noqa: BLE001
                continue
            out.append(({"kind": "literal-presentation", "template": name, "python": repr(py), "numpy": repr(npv)}, a, b))
    return out


def roundtrip_extras(gen):
    """Expressions whose round trip goes through the flyweight caches of __new__: zeros carrying free indices,
    zeros of tensor shape, small and large integers, fixed multi-indices."""
    f, w = gen.scal[0], gen.vec[0]
    i, j = Index(9761), Index(9762)
    ex = [("0*w[i]", 0 * w[i]), ("0*w[i]*w[j]", 0 * w[i] * w[j]), ("f + 0*w[i]*w[i]", f + 0 * (w[i] * w[i])),
          ("as_vector([0*f, f])", ufl.as_vector([0 * f, f])), ("Zero((2,), (i,), (2,))", Zero((2,), (9761,), (2,))),
          ("Zero((), (i, j), (2, 3))", Zero((), (9761, 9762), (2, 3))), ("w*0", w * 0), ("grad(w)*0", ufl.grad(w) * 0),
          ("f*1 + 99", f + 99), ("f + 100", f + 100), ("w[1]", w[1]), ("outer(w, w)[0, 1]", ufl.outer(w, w)[0, 1]),
          ("conditional(f<1, 0*w[i], w[i])", ufl.conditional(ufl.lt(f, 1), 0 * w[i], w[i]))]
    return [({"kind": "roundtrip-extra", "expr": n}, e) for n, e in ex]
