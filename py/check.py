"""Entry point of every check: py/check.py <id> [--tier quick|thorough] [--replay file]."""
import argparse
import importlib
import json
import os
import sys
import traceback

import vlib


def main():
    ap = argparse.ArgumentParser()
    ap.add_argument("pid")
    ap.add_argument("--tier", default=os.environ.get("VERIF_TIER", "quick"))
    ap.add_argument("--replay", default=None)
    a = ap.parse_args()
    run = vlib.Run(a.pid, tier=a.tier)
    try:
        mod = importlib.import_module(f"props.{a.pid}")
        if a.replay:
            return mod.replay(run, json.load(open(a.replay)))
        ok, res = vlib.ensure_core(getattr(mod, "HAND_FILES", ()))
        if not ok:
            bad = [r for r in res if not r.ok]
            run.violation({"broken": "core Coq development does not build",
                           "file": bad[0].path, "error": bad[0].err[-2000:]}, False)
            return run.finish("core build failed")
        if run.tier == "thorough" and getattr(mod, "HAND_FILES", ()):
            # independent re-check of the property's hand-written development with coqchk; recorded in the
            # evidence by Run.finish through run.extra
            ok2, summ, tail = vlib.coqchk(list(getattr(mod, "HAND_FILES")))
            run.extra["coqchk"] = dict(summ, ok=ok2, modules=list(getattr(mod, "HAND_FILES")))
            run.checker_cmds.append("coqchk -silent -o -Q coq UFLV <hand files of the property>")
            for k in ("axioms", "type_in_type", "unsafe_fixpoints", "assumed_positivity"):
                if summ.get(k) not in ("<none>", None):
                    run.trusted.add(f"coqchk {k}: {summ.get(k)}")
            if ok2 is None:
                run.assumptions.append("coqchk (independent re-check of the hand-written files) did not finish within "
                                       "its time limit on this run; the files were accepted by coqc")
            elif not ok2:
                run.violation({"broken": "coqchk rejects the compiled hand-written development", "output": tail}, False)
        return mod.main(run)
    except Exception:
        tb = traceback.format_exc()
        sys.stderr.write(tb)
        run.violation({"broken": "the check's harness raised while running against /repo "
                                 "(the tie between model and code could not be established)",
                       "traceback": tb[-4000:]}, False)
        return run.finish("harness raised; see replay", explanation="harness exception")


if __name__ == "__main__":
    sys.exit(main())
