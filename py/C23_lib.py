"""C23 helpers: T1 `ast` reader of CheckComparisons / ComplexNodeRemoval, seeded generator of
integrands, a complex-valued numeric evaluator used as the property oracle when a tie breaks."""

import ast
import cmath
import math
import os
import random

import ufl
import ufl.classes as C
from ufl.core.multiindex import FixedIndex, Index

import uflgen


class TieBroken(Exception):
    pass


# ------------------------------------------------------------------------------------------------
# T1: handler tables from the source

TEMPLATES = {
    "HDefault": (["self", "o"], "ops", '''
types = {self.nodetype[op] for op in ops}
if types:
    t = "S" if "S" in types else "S"
else:
    t = "S"
o = self.reuse_if_untouched(o, *ops)
self.nodetype[o] = t
return o
'''),
    "HCompare": (["self", "o"], "ops", '''
types = {self.nodetype[op] for op in ops}
if "S" in types:
    raise ComplexComparisonError("S")
else:
    o = o._ufl_expr_reconstruct_(*map(WRAP, ops))
    self.nodetype[o] = "S"
    return o
'''),
    "HConst": (["self", "o"], "ops", '''
o = self.reuse_if_untouched(o, *ops)
self.nodetype[o] = "S"
return o
'''),
    "HPower": (["self", "o", "base", "exponent"], None, '''
o = self.reuse_if_untouched(o, base, exponent)
try:
    exponent = float(exponent)
    if self.nodetype[base] == "S" and int(exponent) == exponent:
        self.nodetype[o] = "S"
        return o
except TypeError:
    pass
self.nodetype[o] = "S"
return o
'''),
    "HPowerLit": (["self", "o", "base", "exponent"], None, '''
o = self.reuse_if_untouched(o, base, exponent)
if isinstance(exponent, CLS):
    exponent = float(exponent)
    if self.nodetype[base] == "S" and int(exponent) == exponent:
        self.nodetype[o] = "S"
        return o
self.nodetype[o] = "S"
return o
'''),
    "HTerminal": (["self", "term"], "ops", '''
if isinstance(term, CLS):
    self.nodetype[term] = "S"
else:
    self.nodetype[term] = "S"
return term
'''),
    "HIndexed": (["self", "o", "expr", "multiindex"], None, '''
o = self.reuse_if_untouched(o, expr, multiindex)
self.nodetype[o] = self.nodetype[expr]
return o
'''),
    "HChild": (["self", "o", "a"], None, '''
return a
'''),
    "HRaise": (["self", "o", "a"], None, '''
raise EXC("S")
'''),
    "HTerminalRaise": (["self", "t"], "ops", '''
if isinstance(t, CLS):
    raise EXC("S")
else:
    return t
'''),
}


class _Norm(ast.NodeTransformer):
    """Replace string constants, isinstance class unions, wrap / exception names by placeholders and
    record what was there."""

    def __init__(self):
        self.strings, self.classes, self.wraps, self.excs = [], [], [], []

    def visit_Constant(self, n):
        if isinstance(n.value, str):
            self.strings.append(n.value)
            return ast.copy_location(ast.Constant("S"), n)
        return n

    def visit_Call(self, n):
        if isinstance(n.func, ast.Name) and n.func.id == "isinstance" and len(n.args) == 2:
            self.classes.append(_union_names(n.args[1]))
            return ast.Call(ast.Name("isinstance", ast.Load()), [self.visit(n.args[0]), ast.Name("CLS", ast.Load())], [])
        if isinstance(n.func, ast.Name) and n.func.id == "map" and len(n.args) == 2 and isinstance(n.args[0], ast.Name):
            self.wraps.append(n.args[0].id)
            return ast.Call(ast.Name("map", ast.Load()), [ast.Name("WRAP", ast.Load()), self.visit(n.args[1])], [])
        return self.generic_visit(n)

    def visit_Raise(self, n):
        if isinstance(n.exc, ast.Call) and isinstance(n.exc.func, ast.Name) and n.cause is None:
            self.excs.append(n.exc.func.id)
            args = [self.visit(a) for a in n.exc.args]
            name = "ComplexComparisonError" if n.exc.func.id == "ComplexComparisonError" else "EXC"
            return ast.Raise(ast.Call(ast.Name(name, ast.Load()), args, []), None)
        return self.generic_visit(n)


def _union_names(n):
    if isinstance(n, ast.Name):
        return [n.id]
    if isinstance(n, ast.BinOp) and isinstance(n.op, ast.BitOr):
        return _union_names(n.left) + _union_names(n.right)
    if isinstance(n, ast.Tuple):
        return [x for e in n.elts for x in _union_names(e)]
    raise TieBroken("isinstance class expression outside the whitelist: " + ast.dump(n))


def _body_dump(stmts):
    body = list(stmts)
    if body and isinstance(body[0], ast.Expr) and isinstance(body[0].value, ast.Constant) \
            and isinstance(body[0].value.value, str):
        body = body[1:]
    nrm = _Norm()
    out = [ast.dump(nrm.visit(s)) for s in body]
    return out, nrm


_TEMPLATE_DUMPS = None


def _templates():
    global _TEMPLATE_DUMPS
    if _TEMPLATE_DUMPS is None:
        _TEMPLATE_DUMPS = {}
        for k, (args, var, src) in TEMPLATES.items():
            d, _ = _body_dump(ast.parse(src).body)
            _TEMPLATE_DUMPS[k] = (args, var, d)
    return _TEMPLATE_DUMPS


def classify(fn):
    args = [a.arg for a in fn.args.args]
    var = fn.args.vararg.arg if fn.args.vararg else None
    if fn.args.kwonlyargs or fn.args.kwarg or fn.args.defaults or fn.decorator_list:
        raise TieBroken(f"handler {fn.name}: unexpected signature")
    d, nrm = _body_dump(fn.body)
    for kind, (targs, tvar, td) in _templates().items():
        if d == td and args == targs and var == tvar:
            s = nrm.strings
            if kind == "HDefault":
                return ("HDefault", s[0], s[1], s[2], s[3])
            if kind == "HCompare":
                return ("HCompare", s[0], nrm.wraps[0], s[2])
            if kind == "HConst":
                return ("HConst", s[0])
            if kind == "HPower":
                return ("HPower", s[0], s[1], s[2])
            if kind == "HPowerLit":
                if sorted(nrm.classes[0]) != ["RealValue", "Zero"]:
                    raise TieBroken(f"handler {fn.name}: literal-exponent test on {nrm.classes[0]}")
                return ("HPowerLit", s[0], s[1], s[2])
            if kind == "HTerminal":
                return ("HTerminal", tuple(nrm.classes[0]), s[0], s[1])
            if kind == "HIndexed":
                return ("HIndexed",)
            if kind == "HChild":
                return ("HChild",)
            if kind == "HRaise":
                return ("HRaise", nrm.excs[0])
            if kind == "HTerminalRaise":
                return ("HTerminalRaise", nrm.classes[0][0] if len(nrm.classes[0]) == 1 else "|".join(nrm.classes[0]),
                        nrm.excs[0])
    raise TieBroken(f"handler {fn.name}: body matches no known rule shape")


def parse_class(path, clsname):
    tree = ast.parse(open(path).read())
    cls = [n for n in tree.body if isinstance(n, ast.ClassDef) and n.name == clsname]
    if len(cls) != 1:
        raise TieBroken(f"class {clsname} not found in {path}")
    cls = cls[0]
    if [ast.dump(b) for b in cls.bases] != [ast.dump(ast.Name("MultiFunction", ast.Load()))]:
        raise TieBroken(f"{clsname}: unexpected bases")
    rules, aliases, problems = [], [], []
    for st in cls.body:
        if isinstance(st, ast.Expr) and isinstance(st.value, ast.Constant) and isinstance(st.value.value, str):
            continue
        if isinstance(st, ast.FunctionDef):
            if st.name == "__init__":
                d, _ = _body_dump(st.body)
                want, _ = _body_dump(ast.parse("MultiFunction.__init__(self)\nself.nodetype = {}\n").body)
                if d != want:
                    problems.append("__init__: unexpected body")
                continue
            try:
                rules.append((st.name, classify(st)))
            except TieBroken as ex:
                problems.append(str(ex))
            continue
        if isinstance(st, ast.Assign) and len(st.targets) == 1 and isinstance(st.targets[0], ast.Name):
            t = st.targets[0].id
            if isinstance(st.value, ast.Name):
                aliases.append((t, st.value.id))
                continue
            if ast.dump(st.value) == ast.dump(ast.parse("MultiFunction.reuse_if_untouched").body[0].value):
                rules.append((t, ("HReuse",)))
                continue
        problems.append(f"{clsname}: statement outside the whitelist at line {st.lineno}")
    return rules, aliases, problems


def parse_entry(path, fname, clsname, argname):
    tree = ast.parse(open(path).read())
    fn = [n for n in tree.body if isinstance(n, ast.FunctionDef) and n.name == fname]
    if len(fn) != 1:
        return [f"function {fname} not found"]
    d, _ = _body_dump(fn[0].body)
    want, _ = _body_dump(ast.parse(f"return map_integrand_dags({clsname}(), {argname})").body)
    return [] if d == want else [f"{fname}: body is not `return map_integrand_dags({clsname}(), {argname})`"]


def coq_str(s):
    return '"' + s.replace('"', '""') + '"'


def coq_rule(r):
    k = r[0]
    if k == "HTerminal":
        return f"(HTerminal [{'; '.join(coq_str(x) for x in r[1])}] {coq_str(r[2])} {coq_str(r[3])})"
    if len(r) == 1:
        return k
    return "(" + k + " " + " ".join(coq_str(x) for x in r[1:]) + ")"


def dispatch_table(algo_cls, names, aliases):
    """handler each listed node class is dispatched to by a live instance (aliases resolved)."""
    from ufl.corealg.multifunction import MultiFunction
    inst = algo_cls()
    hn = MultiFunction._handlers_cache[algo_cls][0]
    al = dict(aliases)
    out = []
    for n in names:
        cls = getattr(C, n)
        h = hn[cls._ufl_typecode_]
        out.append((n, al.get(h, h)))
    return out, inst


# ------------------------------------------------------------------------------------------------
# generator

class Gen:
    def __init__(self, seed):
        self.r = random.Random(seed)
        m = uflgen.mesh("triangle")
        self.mesh = m
        self.x = ufl.SpatialCoordinate(m)
        self.n = ufl.FacetNormal(m)
        self.vol = ufl.CellVolume(m)
        self.v = uflgen.arg(0)
        self.vv = uflgen.arg(1, (2,))
        self.f = uflgen.coef()
        self.f2 = uflgen.coef()
        self.g = uflgen.coef((2,))
        self.c = uflgen.const()
        self.cv = uflgen.const((2,))

    # leaves
    def real_leaf(self):
        r = self.r
        return r.choice([
            lambda: self.v, lambda: self.x[r.randrange(2)], lambda: self.vol, lambda: self.n[r.randrange(2)],
            lambda: self.vv[r.randrange(2)], lambda: ufl.as_ufl(r.choice([1, 2, 3, -1, -2, 5])),
            lambda: ufl.as_ufl(r.choice([0.5, 2.0, -1.5, 0.25, 3.0])), lambda: ufl.grad(self.v)[r.randrange(2)],
            lambda: ufl.div(self.vv), lambda: self.v, lambda: self.x[0], lambda: self.x[0] - 2,
            lambda: -abs(self.f) - 0.5,
        ])()

    def complex_leaf(self, literal=True):
        r = self.r
        opts = [lambda: self.f, lambda: self.f2, lambda: self.c, lambda: self.g[r.randrange(2)],
                lambda: self.cv[r.randrange(2)], lambda: ufl.grad(self.f)[r.randrange(2)]]
        if literal:
            opts.append(lambda: ufl.as_ufl(complex(r.choice([1, 2, -1]), r.choice([1, -2, 0.5]))))
        return r.choice(opts)()

    def vector(self, d, real):
        r = self.r
        if d <= 0 or r.random() < 0.4:
            pool = [self.x, self.vv, self.n] if real else [self.g, self.cv, self.x, self.vv]
            return r.choice(pool)
        k = r.randrange(6)
        if k == 0:
            return ufl.conj(self.vector(d - 1, real))
        if k == 1:
            return ufl.real(self.vector(d - 1, real))
        if k == 2:
            return self.vector(d - 1, real) + self.vector(d - 1, real)
        if k == 3:
            return ufl.conditional(self.cond(d - 1, real), self.vector(d - 1, real), self.vector(d - 1, real))
        if k == 4:
            return ufl.as_vector([self.scalar(d - 1, real), self.scalar(d - 1, real)])
        return self.scalar(d - 1, real) * self.vector(d - 1, real)

    def cond(self, d, real):
        r = self.r
        k = r.randrange(10)
        if k < 6:
            op = r.choice([ufl.lt, ufl.gt, ufl.le, ufl.ge])
            # ordering operands: mostly real so that accepted cases are common
            ra = real or r.random() < 0.7
            return op(self.scalar(d - 1, ra), self.scalar(d - 1, ra))
        if k < 8:
            return r.choice([ufl.eq, ufl.ne])(self.scalar(d - 1, real), self.scalar(d - 1, real))
        if k == 8:
            return r.choice([ufl.And, ufl.Or])(self.cond(d - 1, real), self.cond(d - 1, real))
        return ufl.Not(self.cond(d - 1, real))

    def scalar(self, d, real, mode="complex"):
        e = ufl.as_ufl(self._scalar(d, real, mode))
        if isinstance(e, C.ScalarValue) and abs(e._value) > 1e12:
            raise OverflowError("literal too large")
        return e

    def _scalar(self, d, real, mode="complex"):
        """real=True: only constructions the analysis can type real (keeps comparisons acceptable)."""
        r = self.r
        if d <= 0 or r.random() < 0.18:
            if real or r.random() < 0.5:
                return self.real_leaf()
            return self.complex_leaf(literal=(mode == "complex" or r.random() < 0.15))
        k = r.randrange(30)
        s = lambda rr=real: self.scalar(d - 1, rr, mode)   # noqa: E731
        if k < 3:
            return s() + s()
        if k < 6:
            return s() * s()
        if k < 8:
            return s() / s()
        if k < 11:
            e = r.choice([2, 3, -2, -1, 2.0, 4] + ([] if real else [0.5, 1.5, -0.5]))
            return s() ** e
        if k == 11:
            # exponents whose float() evaluation reaches a form-argument terminal make the real
            # CheckComparisons.power run for ever (known finding power-exponent-float-recursion)
            return s() ** r.choice([self.x[0], self.x[1], 2 * self.x[0]])
        if k == 12:
            return abs(s(real if r.random() < 0.5 else False))
        if k == 13:
            return ufl.conj(s())
        if k == 14:
            return ufl.real(s(real if r.random() < 0.5 else False))
        if k == 15:
            if mode == "real" and r.random() < 0.6:
                return ufl.real(s())
            return ufl.imag(s(real if r.random() < 0.5 else False))
        if k == 16:
            return ufl.sqrt(s()) if not real else ufl.exp(s())
        if k < 19:
            fns = [ufl.exp, ufl.cos, ufl.sin, ufl.tan, ufl.cosh, ufl.sinh, ufl.tanh, ufl.atan, ufl.erf]
            if self.partial_fns:
                fns += [ufl.ln, ufl.acos, ufl.asin]
            return r.choice(fns)(s())
        if k == 19:
            return ufl.atan2(s(True), s(True))
        if k < 23:
            return ufl.conditional(self.cond(d, real), s(), s())
        if k < 26:
            ra = real or r.random() < 0.75
            return r.choice([ufl.max_value, ufl.min_value])(s(ra), s(ra))
        if k == 26:
            a, b = self.vector(d - 1, real), self.vector(d - 1, real)
            i = Index()
            return a[i] * b[i]
        if k == 27:
            return self.vector(d - 1, real)[r.randrange(2)]
        if k == 28:
            if r.random() < 0.5:
                return ufl.variable(s())
            return r.choice([ufl.inner, ufl.dot])(self.vector(d - 1, real), self.vector(d - 1, real))
        if self.bessel and r.random() < 0.5:
            return r.choice([ufl.bessel_J, ufl.bessel_Y, ufl.bessel_I, ufl.bessel_K])(
                r.choice([0, 1, 2, 0.5, 1.5]), s() if r.random() < 0.5 else self.x[r.randrange(2)] - 2)
        return s()('+') if r.random() < 0.5 else s()

    partial_fns = True
    bessel = True

    def nest(self, e, mode):
        """Wrap e in 2-4 layers of conj / real (rarely imag / complex-literal factor), separated by
        products / sums with coefficients so that the constructors do not fold the layers: Conj, Real,
        Imag and complex literals then sit BELOW Real / Conj nodes (and each other)."""
        r = self.r
        for _ in range(r.choice([2, 2, 3, 4])):
            k = r.randrange(20)
            sep = r.choice([lambda a: a * self.f, lambda a: a + self.f2, lambda a: self.c * a,
                            lambda a: a / (self.f2 + 3), lambda a: abs(a) + a, lambda a: a])
            if k < 8:
                e = ufl.real(sep(e))
            elif k < 16:
                e = ufl.conj(sep(e))
            elif k < 18 or mode == "complex":
                e = ufl.imag(sep(e)) if mode == "complex" or r.random() < 0.5 else ufl.real(sep(e))
            else:
                e = complex(0, r.choice([1, 2, -1])) * sep(e)
        return e

    def below(self, e):
        """complex mode: put e (which contains ordering comparisons) below the nodes whose handlers are
        not the default rule: real / imag / abs / conj / power / sqrt / indexed"""
        r = self.r
        for _ in range(r.choice([1, 2, 2, 3])):
            k = r.randrange(8)
            if k == 0:
                e = ufl.real(e + self.f)
            elif k == 1:
                e = ufl.imag(e * self.f)
            elif k == 2:
                e = abs(e - self.c)
            elif k == 3:
                e = ufl.conj(e) * self.v
            elif k == 4:
                e = (e + self.v) ** r.choice([2, 3, -1, 0.5])
            elif k == 5:
                e = ufl.sqrt(e * e + 1)
            elif k == 6:
                i = Index()
                e = ufl.conditional(ufl.gt(self.v, 0), ufl.as_vector([e, self.v]), self.vv)[i] * self.x[i]
            else:
                e = r.choice([ufl.exp, ufl.cos, ufl.tanh])(e)
        return e

    def expr(self, mode):
        """One integrand.  Raises nothing: construction errors (division by zero, folding domain
        errors) are retried."""
        r = self.r
        for _ in range(200):
            try:
                d = r.choice([3, 3, 4, 4, 5])
                real = r.random() < (0.5 if mode == "complex" else 0.3)
                e = self.scalar(d, real, mode)
                if mode == "real" and r.random() < 0.45:
                    e = ufl.as_ufl(self.nest(e, mode))
                elif mode == "complex" and r.random() < 0.3 and count_tree(e, lambda x: isinstance(x, ORDERING)):
                    e = ufl.as_ufl(self.below(e))
                if tree_size(e) < 5 and r.random() < 0.9:
                    continue
                if tree_size(e) > 120:
                    continue
                return e
            except Exception:      # construction errors of UFL (shape, zero division, domain, ...)
                continue
        raise RuntimeError("generator could not build an expression")


# ------------------------------------------------------------------------------------------------
# complex-valued numeric evaluator (the property itself as oracle)

class Skip(Exception):
    pass


ORDERING = (C.LT, C.GT, C.LE, C.GE, C.MinValue, C.MaxValue)
PARTIAL_FNS = (C.Ln, C.Acos, C.Asin, C.BesselFunction)
KNOWN_CLASS_ACTIVE = True     # False once the source types ln/acos/asin/Bessel complex (finding fixed)


class Valuation:
    def __init__(self, seed, complex_data):
        self.r = random.Random(seed)
        self.complex_data = complex_data
        self.vals = {}

    def term(self, key, isreal):
        if key not in self.vals:
            re = self.r.choice([-1, 1]) * self.r.uniform(0.3, 1.7)
            im = 0.0 if (isreal or not self.complex_data) else self.r.choice([-1, 1]) * self.r.uniform(0.3, 1.7)
            self.vals[key] = complex(re, im)
        return self.vals[key]


def _is_real_terminal(t):
    return isinstance(t, (C.Argument, C.GeometricQuantity))


def _key(t):
    if isinstance(t, (C.Coefficient, C.Constant)):
        return (type(t).__name__, t.count())
    if isinstance(t, C.Argument):
        return ("Argument", t.number(), t.ufl_shape)
    return (type(t).__name__,)


class Eval:
    def __init__(self, val):
        self.val = val
        self.sites = []          # (node, operand, value) for every ordering operand visited
        self.max_imag = 0.0

    def ev(self, e, rho, c=()):
        v = self._ev(e, rho, c)
        if isinstance(v, complex) and v.imag == 0:
            v = complex(v.real + 0.0, 0.0)      # no signed zeros: they select branches of ln / acos / pow
        if isinstance(v, complex):
            self.max_imag = max(self.max_imag, abs(v.imag))
        return v

    def _ev(self, e, rho, c):
        ev = self.ev
        if isinstance(e, C.Zero):
            return 0j
        if isinstance(e, C.ScalarValue):
            return complex(e._value)
        if isinstance(e, C.Identity):
            return 1 + 0j if c[0] == c[1] else 0j
        if isinstance(e, (C.Grad, C.Div)) and e.ufl_operands[0]._ufl_is_terminal_:
            t = e.ufl_operands[0]
            return self.val.term((type(e).__name__, _key(t), tuple(c)), _is_real_terminal(t))
        if e._ufl_is_terminal_:
            if isinstance(e, (C.Coefficient, C.Constant, C.Argument, C.GeometricQuantity)):
                return self.val.term((_key(e), tuple(c)), _is_real_terminal(e))
            raise Skip(type(e).__name__)
        ops = e.ufl_operands
        if isinstance(e, C.Sum):
            return ev(ops[0], rho, c) + ev(ops[1], rho, c)
        if isinstance(e, C.Product):
            return ev(ops[0], rho) * ev(ops[1], rho)
        if isinstance(e, C.Division):
            b = ev(ops[1], rho)
            if abs(b) < 1e-6:
                raise Skip("small divisor")
            return ev(ops[0], rho) / b
        if isinstance(e, C.Power):
            a, b = ev(ops[0], rho), ev(ops[1], rho)
            if abs(a) < 1e-6:
                raise Skip("power of ~0")
            if b.imag == 0 and b.real == int(b.real) and abs(b.real) < 64:
                return a ** int(b.real)
            return cmath.exp(b * cmath.log(a))
        if isinstance(e, C.Abs):
            return complex(abs(ev(ops[0], rho, c)))
        if isinstance(e, C.Conj):
            return ev(ops[0], rho, c).conjugate()
        if isinstance(e, C.Real):
            return complex(ev(ops[0], rho, c).real)
        if isinstance(e, C.Imag):
            return complex(ev(ops[0], rho, c).imag)
        if isinstance(e, C.Indexed):
            comp = tuple(int(i) if isinstance(i, FixedIndex) else rho[i.count()] for i in ops[1])
            return ev(ops[0], rho, comp)
        if isinstance(e, C.IndexSum):
            (i,) = ops[1]
            tot = 0j
            for k in range(e.dimension()):
                r2 = dict(rho)
                r2[i.count()] = k
                tot += ev(ops[0], r2, c)
            return tot
        if isinstance(e, C.ComponentTensor):
            r2 = dict(rho)
            for i, k in zip(ops[1], c):
                r2[i.count()] = k
            return ev(ops[0], r2, ())
        if isinstance(e, C.ListTensor):
            return ev(ops[c[0]], rho, tuple(c[1:]))
        if isinstance(e, C.Conditional):
            b = self.cond(ops[0], rho)
            t, f = ev(ops[1], rho, c), ev(ops[2], rho, c)   # both branches: every site is visited
            return t if b else f
        if isinstance(e, (C.MinValue, C.MaxValue)):
            a, b = ev(ops[0], rho), ev(ops[1], rho)
            self.sites.append((e, ops[0], a))
            self.sites.append((e, ops[1], b))
            if isinstance(e, C.MinValue):
                return a if a.real <= b.real else b
            return a if a.real >= b.real else b
        if isinstance(e, C.MathFunction):
            a = ev(ops[0], rho)
            nm = e._name
            try:
                if nm == "erf":
                    if abs(a.imag) > 1e-12:
                        raise Skip("erf of complex")
                    return complex(math.erf(a.real))
                return complex(getattr(cmath, {"ln": "log"}.get(nm, nm))(a))
            except (ValueError, OverflowError, ZeroDivisionError):
                raise Skip("math domain")
        if isinstance(e, C.BesselFunction):
            nu, z = ev(ops[0], rho), ev(ops[1], rho)
            if abs(nu.imag) > 1e-12:
                raise Skip("complex order")
            kind = {"cyl_bessel_j": "J", "cyl_bessel_y": "Y", "cyl_bessel_i": "I", "cyl_bessel_k": "K"}[e._name]
            return bessel(kind, nu.real, z)
        if isinstance(e, C.Atan2):
            a, b = ev(ops[0], rho), ev(ops[1], rho)
            if abs(a.imag) > 1e-12 or abs(b.imag) > 1e-12:
                raise Skip("atan2 of complex")
            return complex(math.atan2(a.real, b.real))
        if isinstance(e, C.Variable):
            return ev(ops[0], rho, c)
        if isinstance(e, C.Restricted):
            return ev(ops[0], rho, c)
        if isinstance(e, (C.Inner, C.Dot)) and len(ops[0].ufl_shape) == 1:
            tot = 0j
            for k in range(ops[0].ufl_shape[0]):
                b = ev(ops[1], rho, (k,))
                tot += ev(ops[0], rho, (k,)) * (b.conjugate() if isinstance(e, C.Inner) else b)
            return tot
        raise Skip(type(e).__name__)

    def cond(self, cn, rho):
        ops = cn.ufl_operands
        if isinstance(cn, (C.LT, C.GT, C.LE, C.GE)):
            a, b = self.ev(ops[0], rho), self.ev(ops[1], rho)
            self.sites.append((cn, ops[0], a))
            self.sites.append((cn, ops[1], b))
            return {"LT": a.real < b.real, "GT": a.real > b.real, "LE": a.real <= b.real,
                    "GE": a.real >= b.real}[type(cn).__name__]
        if isinstance(cn, C.EQ):
            return self.ev(ops[0], rho) == self.ev(ops[1], rho)
        if isinstance(cn, C.NE):
            return self.ev(ops[0], rho) != self.ev(ops[1], rho)
        if isinstance(cn, C.AndCondition):
            a, b = self.cond(ops[0], rho), self.cond(ops[1], rho)
            return a and b
        if isinstance(cn, C.OrCondition):
            a, b = self.cond(ops[0], rho), self.cond(ops[1], rho)
            return a or b
        if isinstance(cn, C.NotCondition):
            return not self.cond(ops[0], rho)
        raise Skip(type(cn).__name__)


def _rgamma(x):
    if x <= 0 and x == int(x):
        return 0.0
    return 1.0 / math.gamma(x)


def _bessel_series(nu, z, sgn):
    """sum_k sgn^k / (k! Gamma(k+nu+1)) (z/2)^(2k+nu), principal branch of (z/2)^nu"""
    if abs(z) > 12:
        raise Skip("bessel argument too large for the series")
    if z == 0:
        raise Skip("bessel at 0")
    h = z / 2
    pw = cmath.exp(nu * cmath.log(h)) if nu != int(nu) else h ** int(nu)
    tot, term_pow, fact = 0j, 1 + 0j, 1.0
    for k in range(80):
        if k > 0:
            term_pow *= h * h * sgn
            fact *= k
        tot += term_pow * _rgamma(k + nu + 1) / fact
    return pw * tot


def bessel(kind, nu, z):
    """J_nu, I_nu by their power series (complex z, principal branch); Y_nu, K_nu through the formulas for
    non-integer order (integer orders are perturbed by 1e-6: enough to decide whether the value is real)."""
    z = complex(z)
    if kind == "J":
        return _bessel_series(nu, z, -1.0)
    if kind == "I":
        return _bessel_series(nu, z, 1.0)
    n = nu if nu != int(nu) else nu + 1e-6
    sn = math.sin(n * math.pi)
    if kind == "Y":
        return (_bessel_series(n, z, -1.0) * math.cos(n * math.pi) - _bessel_series(-n, z, -1.0)) / sn
    return (math.pi / 2) * (_bessel_series(-n, z, 1.0) - _bessel_series(n, z, 1.0)) / sn


def subtree_has(e, classes):
    seen, stack = set(), [e]
    while stack:
        x = stack.pop()
        if id(x) in seen:
            continue
        seen.add(id(x))
        if isinstance(x, classes):
            return True
        if not x._ufl_is_terminal_:
            stack.extend(x.ufl_operands)
    return False


def nodes(e):
    seen, stack, out = set(), [e], []
    while stack:
        x = stack.pop()
        if id(x) in seen:
            continue
        seen.add(id(x))
        out.append(x)
        if not x._ufl_is_terminal_:
            stack.extend(x.ufl_operands)
    return out


def tree_size(e, memo=None):
    memo = {} if memo is None else memo
    k = id(e)
    if k not in memo:
        memo[k] = 1 if e._ufl_is_terminal_ else 1 + sum(
            tree_size(o, memo) for o in e.ufl_operands if not isinstance(o, (C.MultiIndex, C.Label)))
    return memo[k]


def count_tree(e, pred, memo=None):
    """number of tree positions (not DAG nodes) satisfying pred"""
    memo = {} if memo is None else memo
    k = id(e)
    if k not in memo:
        n = 1 if pred(e) else 0
        if not e._ufl_is_terminal_:
            n += sum(count_tree(o, pred, memo) for o in e.ufl_operands)
        memo[k] = n
    return memo[k]


def close(a, b):
    return abs(a - b) <= 1e-8 * max(1.0, abs(a), abs(b))


def oracle_complex(inp, out, seed, trials=6):
    """Property oracle, complex mode, for an ACCEPTED input.  Returns a list of problems, each
    {kind, detail, known_class(bool)}."""
    probs = []
    for n in nodes(out):
        if isinstance(n, ORDERING):
            for o in n.ufl_operands:
                if not isinstance(o, (C.Real, C.RealValue, C.Zero)):
                    probs.append({"kind": "unwrapped-operand", "node": str(n)[:200], "operand": str(o)[:200],
                                  "known_class": False})
    for t in range(trials):
        val = Valuation(seed * 1000 + t, complex_data=True)
        try:
            ei = Eval(val)
            vi = ei.ev(inp, {}, ())
            eo = Eval(val)
            vo = eo.ev(out, {}, ())
        except (Skip, ZeroDivisionError, OverflowError):
            continue
        hits = []
        for node, op, v in ei.sites:
            if abs(v.imag) > 1e-9 * max(1.0, abs(v)):
                hits.append({"kind": "complex-comparison-accepted", "node": str(node)[:200],
                             "operand": str(op)[:200], "operand_value": repr(v),
                             "valuation": {str(k): repr(x) for k, x in val.vals.items()},
                             "known_class": KNOWN_CLASS_ACTIVE and subtree_has(op, PARTIAL_FNS)})
        if hits:
            # prefer a site that is not explained by the known finding (ln/acos/asin/Bessel typed real)
            probs.append(next((h for h in hits if not h["known_class"]), hits[0]))
        elif not close(vi, vo):
            probs.append({"kind": "value-changed", "input_value": repr(vi), "output_value": repr(vo),
                          "valuation": {str(k): repr(x) for k, x in val.vals.items()}, "known_class": False})
        if probs:
            break
    return probs


def oracle_real(inp, out, seed, trials=6):
    """Property oracle, real mode, for an ACCEPTED input: no Conj/Real/Imag/ComplexValue survives and the
    value is unchanged for real data (valuations in which some intermediate value of the input is
    not real -- sqrt of a negative number -- are not real data and are skipped)."""
    probs = []
    for n in nodes(out):
        if isinstance(n, (C.Conj, C.Real, C.Imag, C.ComplexValue)):
            probs.append({"kind": "complex-node-survives", "node": str(n)[:200]})
            break
    for t in range(trials):
        val = Valuation(seed * 1000 + t, complex_data=False)
        try:
            ei = Eval(val)
            vi = ei.ev(inp, {}, ())
            if ei.max_imag > 1e-12:
                continue
            eo = Eval(val)
            vo = eo.ev(out, {}, ())
        except (Skip, ZeroDivisionError, OverflowError):
            continue
        if not close(vi, vo):
            probs.append({"kind": "value-changed", "input_value": repr(vi), "output_value": repr(vo),
                          "valuation": {str(k): repr(x) for k, x in val.vals.items()}})
            break
    return probs


# ------------------------------------------------------------------------------------------------
# small-scope exhaustive searches (run only after a tie broke): the property itself is the oracle

def real_mode_problem(inp, out, seed=777):
    """property of real mode on one input: None if it holds"""
    if out is None:
        return None
    bad_in = [n for n in nodes(inp) if isinstance(n, (C.Imag, C.ComplexValue))]
    if bad_in:
        return {"kind": "imag-or-complex-literal-accepted", "node": str(bad_in[0])[:200]}
    probs = oracle_real(inp, out, seed, 8)
    return probs[0] if probs else None


def small_scope_real(run_real, lower=None):
    """all nestings (depth 1..3) of {conj, real, imag, complex-literal factor} over a coefficient, layers
    separated by products with distinct coefficients so that no constructor folds them"""
    import itertools
    f = uflgen.coef()
    gs = [uflgen.coef(), uflgen.coef(), uflgen.coef()]
    W = {"conj": ufl.conj, "real": ufl.real, "imag": ufl.imag, "cplx": lambda a: 2j * a}
    found = []
    for depth in (1, 2, 3):
        for names in itertools.product(W, repeat=depth):
            try:
                e = f
                for k, nm in enumerate(reversed(names)):
                    e = W[nm](gs[k] * e)
                e = ufl.as_ufl(e)
                if lower is not None:
                    e = lower(e)
                out = run_real(e)
            except Exception:
                continue
            p = real_mode_problem(e, out)
            if p:
                found.append({"nesting": "(".join(names), "input": str(e), "input_repr": repr(e)[:2000],
                              "output": str(out), "problem": p})
                if len(found) >= 3:
                    return found
    return found


def small_scope_complex(run_complex):
    """ordering comparison / min / max with real and with complex operands, below 0..2 layers of the nodes
    that have their own handler (real, imag, abs, conj, power, sqrt, indexed) or the default one"""
    import itertools
    m = uflgen.mesh("triangle")
    x = ufl.SpatialCoordinate(m)
    v, vv, f, c = uflgen.arg(0), uflgen.arg(1, (2,)), uflgen.coef(), uflgen.const()
    operands = [(v, x[0]), (f, v), (v, c), (2j * abs(v), x[1]), (f ** 2, v), (v ** 0.5, v), (abs(f), ufl.imag(f)),
                (ufl.sqrt(v), x[0]), (v * x[0] + 1, 2.0),
                # operands in the class of the known finding (reported only when that finding is fixed/inactive)
                (ufl.ln(x[0]), v), (ufl.acos(3 * x[0]), v), (ufl.asin(3 * v), x[1]), (ufl.bessel_Y(1, x[0]), v)]
    operands += [(a, v) for _n, a in function_operands(x, f)]
    sites = []
    for a, b in operands:
        sites.append(lambda a=a, b=b: ufl.conditional(ufl.lt(a, b), v, 2 * v))
        sites.append(lambda a=a, b=b: ufl.max_value(a, b))
        sites.append(lambda a=a, b=b: ufl.conditional(ufl.Not(ufl.ge(a, b)), x[0], x[1]))

    def idx(e):
        i = Index()
        return ufl.conditional(ufl.gt(v, 0), ufl.as_vector([e, v]), vv)[i] * x[i]
    U = {"id": lambda e: e, "real": lambda e: ufl.real(e + f), "imag": lambda e: ufl.imag(e * f),
         "abs": lambda e: abs(e - c), "conj": lambda e: ufl.conj(e) * v, "pow": lambda e: (e + v) ** 2,
         "sqrt": lambda e: ufl.sqrt(e * e + 1), "indexed": idx, "exp": lambda e: ufl.exp(e),
         "sum": lambda e: e + f}
    found = []
    for u1, u2 in itertools.product(U, repeat=2):
        for mk in sites:
            try:
                e = ufl.as_ufl(U[u1](U[u2](mk())))
                out, _t = run_complex(e)
            except Exception:
                continue
            if out is None:
                continue
            probs = [p for p in oracle_complex(e, out, 4243, 8) if not p.get("known_class")]
            if probs:
                found.append({"below": f"{u1}({u2}(.))", "input": str(e), "input_repr": repr(e)[:2000],
                              "output": str(out), "problem": probs[0]})
                if len(found) >= 3:
                    return found
    return found


def handler_arity(algo_cls):
    """(handler name -> number of parameters incl. self, cutoff?) for every handler a live instance uses"""
    from ufl.corealg.multifunction import MultiFunction, get_num_args
    inst = algo_cls()
    names = sorted(set(MultiFunction._handlers_cache[algo_cls][0]))
    return [(n, get_num_args(getattr(inst, n)) == 2) for n in names]


MATH_FNS = {"Sqrt": ufl.sqrt, "Exp": ufl.exp, "Ln": ufl.ln, "Cos": ufl.cos, "Sin": ufl.sin, "Tan": ufl.tan,
            "Cosh": ufl.cosh, "Sinh": ufl.sinh, "Tanh": ufl.tanh, "Acos": ufl.acos, "Asin": ufl.asin,
            "Atan": ufl.atan, "Erf": ufl.erf}
BESSEL_FNS = {"BesselJ": ufl.bessel_J, "BesselY": ufl.bessel_Y, "BesselI": ufl.bessel_I, "BesselK": ufl.bessel_K}
# classes whose value leaves the real line for some real argument (principal branches): the analysis must
# type them complex (or an open finding must say so)
MUST_BE_COMPLEX = ["Sqrt", "Ln", "Acos", "Asin", "BesselJ", "BesselY", "BesselI", "BesselK"]


def function_operands(x, f, only=None):
    """(class name, F(r)) for every math function and every Bessel kind (orders 0, 1, 1/2, 3/2) at real-typed
    operands r that take negative / out-of-domain values"""
    args = [x[0] - 2, -abs(f) - 0.5, 3 * x[1]]
    out = []
    for n, F in MATH_FNS.items():
        if only is None or n in only:
            out += [(n, F(a)) for a in args]
    for n, F in BESSEL_FNS.items():
        if only is None or n in only:
            out += [(n, F(nu, a)) for nu in (0.5, 1.5, 0, 1) for a in args]
    return out


def variant_witnesses(classes, run_complex, limit=2):
    """The source does not type the node classes `classes` complex.  Look for an ordering comparison on such a
    node, at a real-typed operand, that the real do_comparison_check accepts although the value is not real."""
    m = uflgen.mesh("triangle")
    x = ufl.SpatialCoordinate(m)
    f, v = uflgen.coef(), uflgen.arg(0)
    found = {}
    for n, a in function_operands(x, f, only=set(classes)):
        if len(found.get(n, [])) >= limit:
            continue
        for mk in (lambda a=a: ufl.conditional(ufl.lt(a, 0), 1, 2), lambda a=a: ufl.max_value(a, v)):
            try:
                e = mk()
                out, _t = run_complex(e)
            except Exception:
                continue
            if out is None:
                continue
            saved = globals()["KNOWN_CLASS_ACTIVE"]
            globals()["KNOWN_CLASS_ACTIVE"] = False
            try:
                probs = oracle_complex(e, out, 4244, 10)
            finally:
                globals()["KNOWN_CLASS_ACTIVE"] = saved
            if probs:
                found.setdefault(n, []).append({"class": n, "input": str(e), "input_repr": repr(e)[:2000],
                                                "output": str(out), "problem": probs[0]})
                break
    return found


# ------------------------------------------------------------------------------------------------
# pipeline forms: nonlinear operators UNDER derivatives, through the real compute_form_data

class PipeGen:
    def __init__(self, seed):
        self.r = random.Random(seed)
        m = uflgen.mesh("triangle")
        self.x = ufl.SpatialCoordinate(m)
        self.f, self.f2 = uflgen.coef(), uflgen.coef()
        self.g = uflgen.coef((2,))
        self.c = uflgen.const()
        self.v, self.du = uflgen.arg(0), uflgen.arg(1)
        self.dx = ufl.dx(m)

    def R(self, d, base=None):
        """real-typed scalar"""
        r = self.r
        if d <= 0 or r.random() < 0.25:
            return r.choice([lambda: self.x[r.randrange(2)], lambda: abs(base if base is not None else self.f),
                             lambda: ufl.real(self.f2), lambda: ufl.imag(self.g[r.randrange(2)]),
                             lambda: abs(self.g[r.randrange(2)]), lambda: ufl.as_ufl(r.choice([0.5, 2, -1.5]))])()
        k = r.randrange(11)
        R, P = (lambda: self.R(d - 1, base)), (lambda: self.P(d - 1, base))
        if k == 0:
            return R() + R()
        if k == 1:
            return R() * R()
        if k == 2:
            return R() ** r.choice([2, 3])
        if k == 3:
            return r.choice([ufl.cos, ufl.exp, ufl.tanh])(R())
        if k == 4:
            return ufl.max_value(R(), R())
        if k == 5:
            return ufl.min_value(R(), R())
        if k == 6:
            return ufl.conditional(r.choice([ufl.lt, ufl.ge, ufl.gt, ufl.le])(R(), R()), R(), R())
        if k == 7:
            return ufl.sign(R())
        if k == 8:
            return abs(P())
        if k == 9:
            return ufl.real(P()) if r.random() < 0.5 else ufl.imag(P())
        return R() / (2 + abs(P()))

    def P(self, d, base=None):
        """possibly complex scalar"""
        r = self.r
        if d <= 0 or r.random() < 0.2:
            return r.choice([lambda: base if base is not None else self.f, lambda: self.f, lambda: self.c,
                             lambda: self.g[r.randrange(2)], lambda: self.f2])()
        k = r.randrange(12)
        R, P = (lambda: self.R(d - 1, base)), (lambda: self.P(d - 1, base))
        if k == 0:
            return P() + P()
        if k == 1:
            return P() * R()
        if k == 2:
            return P() * P()
        if k == 3:
            return ufl.conj(P())
        if k == 4:
            return P() ** r.choice([2, 3, 0.5])
        if k == 5:
            return ufl.sqrt(P())
        if k == 6:
            return ufl.conditional(r.choice([ufl.lt, ufl.gt])(R(), R()), P(), P())
        if k == 7:
            return abs(P()) * P()
        if k == 8:
            return ufl.exp(P()) if r.random() < 0.5 else ufl.sin(P())
        if k == 9:
            return ufl.max_value(R(), R()) * P()
        if k == 10:
            return ufl.sign(R()) * P()
        return R()

    def form(self):
        r = self.r
        for _ in range(100):
            try:
                d = r.choice([2, 3, 3, 4])
                k = r.randrange(7)
                v, du, dx, x = self.v, self.du, self.dx, self.x
                if k == 0:
                    e = self.P(d)
                    return "derivative(e*conj(v)*dx, f, du)", ufl.derivative(e * ufl.conj(v) * dx, self.f, du)
                if k == 1:
                    e = self.P(d)
                    return "e.dx(i)*conj(v)*dx", e.dx(r.randrange(2)) * ufl.conj(v) * dx
                if k == 2:
                    e = self.P(d)
                    return "inner(grad(e), grad(v))*dx", ufl.inner(ufl.grad(e), ufl.grad(v)) * dx
                if k == 3:
                    e = self.P(d)
                    return "div([e, e*x0])*conj(v)*dx", ufl.div(ufl.as_vector([e, e * x[0]])) * ufl.conj(v) * dx
                if k == 4:
                    w = ufl.variable(self.P(1))
                    e = self.P(d, base=w)
                    return "diff(e(w), w)*conj(v)*dx", ufl.diff(e, w) * ufl.conj(v) * dx
                if k == 5:
                    e = self.R(d)
                    return "derivative(derivative(R*dx, f, v), f, du)", ufl.derivative(
                        ufl.derivative(e * dx, self.f, ufl.conj(v) if False else v), self.f, du)
                e = self.P(d)
                return "derivative(e.dx(0)*conj(v)*dx, f, du)", ufl.derivative(e.dx(0) * ufl.conj(v) * dx, self.f, du)
            except Exception:
                continue
        raise RuntimeError("pipeline generator could not build a form")


def bad_ordering_site(out):
    """first ordering comparison / min / max with an operand that is not Real(.) / real literal / Zero"""
    for n in nodes(out):
        if isinstance(n, ORDERING):
            for o in n.ufl_operands:
                if not isinstance(o, (C.Real, C.RealValue, C.Zero)):
                    return {"site": str(n)[:300], "operand": str(o)[:300]}
    return None


def complex_node(out):
    for n in nodes(out):
        if isinstance(n, (C.Conj, C.Real, C.Imag, C.ComplexValue)):
            return {"node": str(n)[:300], "class": type(n).__name__}
    return None
