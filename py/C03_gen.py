"""Typed random generator of UFL expressions containing spatial derivative operators (C03).

All randomness comes from the `random.Random` passed in (derived from run.seed).  Expressions are
well-formed by construction: `scalar/vector/matrix(depth, free)` return an expression of that shape
whose free indices are a subset of `free` (Index objects of dimension gdim).  The terminals of one
generator instance are fresh objects, so that every case numbers its terminals from 0."""

import ufl
import ufl.classes as C
from ufl.core.multiindex import Index, MultiIndex

import uflgen
from ufl.algorithms.analysis import extract_type
from ufl.domain import extract_domains
from elements import FiniteElement, LagrangeElement
from ufl.pullback import identity_pullback
from ufl.sobolevspace import L2

GDIM = {"interval": 1, "triangle": 2, "tetrahedron": 3}

MATH = ["sin", "cos", "exp", "ln", "sqrt", "tan", "sinh", "cosh", "tanh", "atan", "asin", "acos", "erf"]


class Gen:
    def __init__(self, rng, cell="triangle", max_leaves=6, allow=None):
        self.rng = rng
        self.cell = cell
        self.g = GDIM[cell]
        self.mesh = uflgen.mesh(cell)
        g = self.g
        sp = lambda sh, deg=2: ufl.FunctionSpace(self.mesh, LagrangeElement(self.mesh.ufl_cell(), deg, sh))  # noqa: E731
        self.f = [ufl.Coefficient(sp(())) for _ in range(3)]
        self.v = [ufl.Coefficient(sp((g,))) for _ in range(2)]
        self.T = [ufl.Coefficient(sp((g, g))) for _ in range(2)]
        self.arg = ufl.Argument(sp(()), 0)
        self.varg = ufl.Argument(sp((g,)), 1)
        self.c = ufl.Constant(self.mesh, ())
        self.cv = ufl.Constant(self.mesh, (g,))
        self.q0 = ufl.Coefficient(sp((), 0))          # cellwise constant coefficient (degree 0)
        # NOT cellwise constant although the largest contained Lagrange space is P0 (embedded_subdegree 0 <
        # embedded_superdegree 1: P0-enriched / lowest-order face or edge elements)
        sub0 = lambda sh: ufl.FunctionSpace(self.mesh, FiniteElement(  # noqa: E731
            "P0 enriched", self.mesh.ufl_cell(), 1, sh, identity_pullback, L2, subdegree=0))
        self.s0 = ufl.Coefficient(sub0(()))
        self.r0 = ufl.Coefficient(sub0((g,)))
        self.x = ufl.SpatialCoordinate(self.mesh)
        self.J = ufl.Jacobian(self.mesh)
        self.K = ufl.JacobianInverse(self.mesh)
        self.detJ = ufl.JacobianDeterminant(self.mesh)
        self.n = ufl.FacetNormal(self.mesh)
        self.h = ufl.Circumradius(self.mesh)
        self.vol = ufl.CellVolume(self.mesh)
        self.budget = max_leaves
        self.allow = allow          # optional set of operator names to restrict to
        self.used = []              # operator names used (for the evidence histogram)

    # ------------------------------------------------------------------ helpers
    def pick(self, xs):
        return xs[self.rng.randrange(len(xs))]

    def note(self, name):
        self.used.append(name)

    def fixed(self):
        return self.rng.randrange(self.g)

    def dom(self, e):
        """make sure e lives on the mesh before a derivative operator is applied to it (derivatives of
        literal-only expressions are rejected by UFL: that is invalid input, not a finding)"""
        e = ufl.as_ufl(e)
        if extract_domains(e):
            return e
        e2 = self.pick(self.f) * e
        if extract_domains(e2):
            return e2
        r = len(e.ufl_shape)          # e folded to a Zero: use a terminal of the same shape instead
        return self.pick(self.f) if r == 0 else self.pick(self.v) if r == 1 else self.pick(self.T)

    def idx(self, free):
        """a fixed index or (if available) a free index in scope"""
        if free and self.rng.random() < 0.6:
            return self.pick(free)
        return self.fixed()

    def leaf_scalar(self, free):
        self.budget -= 1
        r = self.rng.random()
        if free and r < 0.5:
            i = self.pick(free)
            k = self.rng.randrange(4)
            if k == 0:
                return self.pick(self.v)[i]
            if k == 1:
                return self.x[i]
            if k == 2:
                return self.pick(self.T)[i, self.idx(free)]
            return self.pick(self.T)[self.fixed(), i]
        k = self.rng.randrange(17)
        if k == 16:
            return self.pick([self.s0, self.r0[self.fixed()]])
        if k <= 3:
            return self.pick(self.f)
        if k == 4:
            return self.arg
        if k == 5:
            return self.c
        if k == 6:
            return self.x[self.fixed()]
        if k == 7:
            return self.pick(self.v)[self.fixed()]
        if k == 8:
            return self.pick(self.T)[self.fixed(), self.fixed()]
        if k == 9:
            return self.pick([self.J, self.K])[self.fixed() % self.J.ufl_shape[0], self.fixed()]
        if k == 10:
            return self.pick([self.detJ, self.h, self.vol])
        if k == 11:
            return self.n[self.fixed()]
        if k == 12:
            return self.q0
        if k == 13:
            return ufl.as_ufl(self.pick([2, 3, -1, 5]))
        if k == 14:
            return ufl.as_ufl(self.pick([0.5, 1.5, 2.0, 0.25]))
        return self.cv[self.fixed()]

    # ------------------------------------------------------------------ scalars
    def scalar(self, d, free=()):
        free = list(free)
        if d <= 0 or self.budget <= 1:
            return self.leaf_scalar(free)
        ops = ["sum", "sum", "prod", "prod", "prod", "div", "neg", "powi", "powf", "powg", "math", "math",
               "abs", "cplx", "cond", "minmax", "atan2", "var", "isum", "dot", "inner", "index", "index",
               "dx", "dx", "divv", "trgrad", "restr", "leaf"]
        if self.allow:
            ops = [o for o in ops if o in self.allow] or ["leaf"]
        op = self.pick(ops)
        self.note(op)
        s = lambda: self.scalar(d - 1, free)  # noqa: E731
        if op == "sum":
            return s() + s()
        if op == "prod":
            return s() * s()
        if op == "div":
            return s() / s()
        if op == "neg":
            return -s()
        if op == "powi":
            return s() ** self.pick([2, 3, 1, 0, 4])
        if op == "powf":
            return s() ** self.pick([0.5, 1.5, -1, -2, 2.5])
        if op == "powg":
            return s() ** s()
        if op == "math":
            return getattr(ufl, self.pick(MATH))(s())
        if op == "abs":
            return abs(s())
        if op == "cplx":
            return self.pick([ufl.conj, ufl.real, ufl.imag])(s())
        if op == "cond":
            return ufl.conditional(self.condition(d - 1, free), s(), s())
        if op == "minmax":
            return self.pick([ufl.min_value, ufl.max_value])(s(), s())
        if op == "atan2":
            return ufl.atan2(s(), s())
        if op == "var":
            return ufl.variable(s())
        if op == "isum":
            i = Index()
            body = self.scalar(d - 1, free + [i])
            if i.count() in body.ufl_free_indices:
                return C.IndexSum(body, MultiIndex((i,)))
            return body
        if op == "dot":
            return ufl.dot(self.vector(d - 1, free), self.vector(d - 1, free))
        if op == "inner":
            if self.rng.random() < 0.5:
                return ufl.inner(self.vector(d - 1, free), self.vector(d - 1, free))
            return ufl.inner(self.matrix(d - 1, free), self.matrix(d - 1, free))
        if op == "index":
            if self.rng.random() < 0.6:
                return self.vector(d - 1, free)[self.idx(free)]
            return self.matrix(d - 1, free)[self.idx(free), self.idx(free)]
        if op == "dx":
            return self.dom(s()).dx(self.idx(free))
        if op == "divv":
            return self.pick([ufl.div, ufl.nabla_div])(self.dom(self.vector(d - 1, free)))
        if op == "trgrad":
            return ufl.tr(self.pick([ufl.grad, ufl.nabla_grad])(self.dom(self.vector(d - 1, free))))
        if op == "restr":
            # a restricted sub-expression (also products whose derivative is cellwise constant but side dependent)
            k = self.rng.randrange(4)
            if k == 0:
                t = self.pick(self.f + [self.v[0][self.fixed()]])
            elif k == 1:
                t = self.pick([self.q0, self.n[self.fixed()], self.detJ, self.s0]) * self.x[self.fixed()]
            else:
                t = self.scalar(d - 1, [])
                if extract_type(ufl.as_ufl(t), C.Restricted) or not extract_domains(ufl.as_ufl(t)):
                    t = self.pick(self.f)
            self.budget -= 1
            return t(self.pick(["+", "-"]))
        return self.leaf_scalar(free)

    def condition(self, d, free):
        r = self.rng.random()
        if d > 0 and r < 0.15:
            return ufl.And(self.condition(d - 1, free), self.condition(d - 1, free))
        if d > 0 and r < 0.25:
            return ufl.Or(self.condition(d - 1, free), self.condition(d - 1, free))
        if d > 0 and r < 0.32:
            return ufl.Not(self.condition(d - 1, free))
        op = self.pick([ufl.lt, ufl.gt, ufl.le, ufl.ge, ufl.eq, ufl.ne])
        return op(self.scalar(d - 1 if d > 0 else 0, free), self.scalar(0, free))

    # ------------------------------------------------------------------ vectors (shape (g,))
    def leaf_vector(self, free):
        self.budget -= 1
        k = self.rng.randrange(9)
        if k == 8:
            return self.r0
        if k <= 2:
            return self.pick(self.v)
        if k == 3:
            return self.x
        if k == 4:
            return self.cv
        if k == 5:
            return self.varg
        if k == 6:
            return self.n
        return self.pick(self.T)[self.idx(free), :]

    def vector(self, d, free=()):
        free = list(free)
        g = self.g
        if d <= 0 or self.budget <= 1:
            return self.leaf_vector(free)
        ops = ["vsum", "scale", "list", "astensor", "grad", "ngrad", "matvec", "vcond", "vvar", "vdiv",
               "vdx", "vleaf"]
        if g == 3:
            ops += ["cross", "curl3"]
        if g == 2:
            ops += ["curl2s", "perp"]
        if self.allow:
            ops = [o for o in ops if o in self.allow] or ["vleaf"]
        op = self.pick(ops)
        self.note(op)
        if op == "vsum":
            return self.vector(d - 1, free) + self.vector(d - 1, free)
        if op == "scale":
            return self.scalar(d - 1, free) * self.vector(d - 1, free)
        if op == "list":
            return ufl.as_vector([self.scalar(d - 1, free) for _ in range(g)])
        if op == "astensor":
            i = Index()
            body = self.scalar(d - 1, free + [i])
            if i.count() not in body.ufl_free_indices:
                body = body * self.pick(self.v)[i]
            return ufl.as_tensor(body, (i,))
        if op == "grad":
            return ufl.grad(self.dom(self.scalar(d - 1, free)))
        if op == "ngrad":
            return ufl.nabla_grad(self.dom(self.scalar(d - 1, free)))
        if op == "matvec":
            return ufl.dot(self.matrix(d - 1, free), self.vector(d - 1, free))
        if op == "vcond":
            return ufl.conditional(self.condition(d - 1, free), self.vector(d - 1, free), self.vector(d - 1, free))
        if op == "vvar":
            return ufl.variable(self.vector(d - 1, free))
        if op == "vdiv":
            return self.pick([ufl.div, ufl.nabla_div])(self.dom(self.matrix(d - 1, free)))
        if op == "vdx":
            return self.dom(self.vector(d - 1, free)).dx(self.idx(free))
        if op == "cross":
            return ufl.cross(self.vector(d - 1, free), self.vector(d - 1, free))
        if op == "curl3":
            return ufl.curl(self.dom(self.vector(d - 1, free)))
        if op == "curl2s":
            return ufl.curl(self.dom(self.scalar(d - 1, free)))
        if op == "perp":
            return ufl.perp(self.vector(d - 1, free))
        return self.leaf_vector(free)

    # ------------------------------------------------------------------ matrices (shape (g, g))
    def leaf_matrix(self, free):
        self.budget -= 1
        k = self.rng.randrange(5)
        if k <= 2:
            return self.pick(self.T)
        if k == 3 and self.J.ufl_shape == (self.g, self.g):
            return self.pick([self.J, self.K])
        return ufl.Identity(self.g)

    def matrix(self, d, free=()):
        free = list(free)
        if d <= 0 or self.budget <= 1:
            return self.leaf_matrix(free)
        ops = ["msum", "mscale", "gradv", "ngradv", "outer", "mastensor", "transpose", "symskew", "mcond",
               "mleaf", "mdx"]
        if self.allow:
            ops = [o for o in ops if o in self.allow] or ["mleaf"]
        op = self.pick(ops)
        self.note(op)
        if op == "msum":
            return self.matrix(d - 1, free) + self.matrix(d - 1, free)
        if op == "mscale":
            return self.scalar(d - 1, free) * self.matrix(d - 1, free)
        if op == "gradv":
            return ufl.grad(self.dom(self.vector(d - 1, free)))
        if op == "ngradv":
            return ufl.nabla_grad(self.dom(self.vector(d - 1, free)))
        if op == "outer":
            return ufl.outer(self.vector(d - 1, free), self.vector(d - 1, free))
        if op == "mastensor":
            i, j = Index(), Index()
            body = self.scalar(d - 1, free + [i, j])
            fi = body.ufl_free_indices
            if i.count() not in fi:
                body = body * self.pick(self.v)[i]
            if j.count() not in fi:
                body = body * self.x[j]
            return ufl.as_tensor(body, self.pick([(i, j), (j, i)]))
        if op == "transpose":
            return ufl.transpose(self.matrix(d - 1, free))
        if op == "symskew":
            return self.pick([ufl.sym, ufl.skew] + ([ufl.dev] if self.g > 1 else []))(self.matrix(d - 1, free))
        if op == "mcond":
            return ufl.conditional(self.condition(d - 1, free), self.matrix(d - 1, free), self.matrix(d - 1, free))
        if op == "mdx":
            return self.dom(self.matrix(d - 1, free)).dx(self.idx(free))
        return self.leaf_matrix(free)

    # ------------------------------------------------------------------ derivative wrappers
    def wrap(self, e, order):
        """apply `order` randomly chosen spatial derivative operators that fit the shape of e"""
        names = []
        for _ in range(order):
            sh = e.ufl_shape
            r = len(sh)
            ops = []
            if r <= 2:
                ops += ["grad", "nabla_grad", "dx"]
            if r >= 1 and sh[-1] == self.g:
                ops += ["div"]
            if r >= 1 and sh[0] == self.g:
                ops += ["nabla_div"]
            if (self.g == 2 and sh in ((), (2,))) or (self.g == 3 and sh == (3,)):
                ops += ["curl"]
            op = self.pick(ops)
            names.append(op)
            e = self.dom(e)
            if op == "dx":
                e = e.dx(self.fixed())
            else:
                e = getattr(ufl, op)(e)
        return e, names


def generate(rng, cell, depth, order, kind=None, max_leaves=6, allow=None):
    """One test expression: a derivative operator chain of length `order` around a generated operand of
    the given kind, possibly placed inside a small algebraic context.  Returns (expr, descriptor)."""
    gen = Gen(rng, cell, max_leaves=max_leaves, allow=allow)
    kind = kind or gen.pick(["scalar", "scalar", "vector", "matrix"])
    body = {"scalar": gen.scalar, "vector": gen.vector, "matrix": gen.matrix}[kind](depth, [])
    if gen.rng.random() < 0.15 and not extract_type(ufl.as_ufl(body), C.Restricted) and extract_domains(ufl.as_ufl(body)):
        body = body(gen.pick(["+", "-"]))           # derivative operators applied OUTSIDE a restriction
    e, names = gen.wrap(body, order)
    ctx = gen.rng.random()
    how = "bare"
    if ctx < 0.15 and not extract_type(e, C.Restricted):
        e = e(gen.pick(["+", "-"]))
        how = "restricted"
    elif ctx < 0.35:
        # inside an algebraic context: s * e + e'
        s = gen.pick(gen.f)
        e = s * e
        how = "scaled"
    desc = {"cell": cell, "kind": kind, "depth": depth, "ops": names, "context": how,
            "operators": sorted(set(gen.used))}
    return e, desc, gen
