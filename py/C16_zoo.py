"""C16 form zoo: forms with 0-2 arguments built from arity-homogeneous terms (bilinear / linear /
argument-free), with the affine structure nested inside products, quotients, indexing, list
tensors, restrictions, conditionals and variables, over several measures / subdomain ids /
metadata, on scalar, vector, mixed-element and MixedFunctionSpace (parts) spaces."""

import random

import ufl
from ufl import (
    Argument, Coefficient, FunctionSpace, MixedFunctionSpace, TestFunctions, TrialFunctions,
    as_tensor, as_vector, avg, conditional, conj, dot, dS, ds, dx, grad, gt, imag, inner, jump, lt,
    outer, real, split, variable,
)

import uflgen
from elements import LagrangeElement, MixedElement

CELL = "triangle"


class Z:
    """One zoo entry."""

    def __init__(self, name, form, f=None, nz=(), raw_ok=True, energy=True, adjoint=True, decomp=True,
                 deriv=False, note="", bil=None, raw_quick=False):
        self.name, self.form, self.f = name, form, f
        self.bil = bil              # bilinear form given to adjoint / energy_norm (default: the form itself)
        self.raw_quick = raw_quick  # raw (compute_form_*) path also in the quick tier
        self.nz = list(nz)          # denominators (argument-free), assumed non-zero
        self.raw_ok = raw_ok        # compute_form_* can be applied to the unexpanded form
        self.energy, self.adjoint, self.decomp = energy, adjoint, decomp
        self.deriv = deriv          # needs Dx_add / Dx_mul (grad applied to a compound)
        self.note = note


def base():
    m = uflgen.mesh(CELL)
    V = uflgen.space((), CELL)
    W = uflgen.space((2,), CELL)
    return m, V, W


def zoo(tier, seed):
    m, V, W = base()
    v, u = Argument(V, 0), Argument(V, 1)
    vv, uu = Argument(W, 0), Argument(W, 1)
    f, g, h = Coefficient(V), Coefficient(V), Coefficient(V)
    w = Coefficient(W)
    out = []
    A = out.append

    A(Z("basic", u * v * dx + f * v * dx, f=g))
    A(Z("poisson", raw_quick=True, form=inner(grad(u), grad(v)) * dx + u * v * f / g * ds(1) - f * v * dx
        + g * v * ds(1, metadata={"quadrature_degree": 2}) + f * g * dx(2), f=h, nz=[g]))
    A(Z("nested_affine", (u + f) * v * dx + (u * g - h) * (v * f) * ds, f=h))
    A(Z("affine_both", (u + f) * (v + g) * dx((1, 2)) + h * dx((1, 2)), f=h, decomp=False,
        note="functional part g*f and a trial-only part u*g inside the product"))
    A(Z("vector", raw_quick=True, form=inner(as_vector([uu[0] * f, uu[1]]), vv) * dx + dot(w, vv) * dx(1)
        + inner(grad(uu), grad(vv)) * dx, f=Coefficient(W)))
    # mixed element: arguments on a MixedElement space, split
    ME = FunctionSpace(m, MixedElement([LagrangeElement(m.ufl_cell(), 1, ()), LagrangeElement(m.ufl_cell(), 1, (2,))]))
    vm, um = Argument(ME, 0), Argument(ME, 1)
    q, r = split(vm)
    s, t = split(um)
    A(Z("mixed_element", raw_quick=True, form=s * q * dx + dot(t, r) * dx + dot(grad(s), r) * dx - f * q * dx - dot(w, r) * ds,
        f=Coefficient(ME)))
    A(Z("facet", jump(u) * jump(v) * dS + avg(f) * v("+") * dS + u * v * dx - g("-") * v("-") * dS(3), f=h))
    A(Z("conditional", conditional(lt(f, g), f, g) * u * v * dx - conditional(gt(f, h), h, f) * v * dx(3), f=h))
    i, j, k, l = ufl.indices(4)
    A(Z("index_notation", uu[i] * vv[i] * dx + as_tensor(grad(uu)[i, j], (j, i))[k, l] * grad(vv)[k, l] * dx
        + (w[i] * vv[i]) * dx, f=Coefficient(W)))
    A(Z("quotients", (u * v + f * v) / (g + h) * dx + ((u - f) / g) * v * ds, f=h, nz=[g + h, g]))
    A(Z("complex_nodes", conj(u) * v * dx + real(f) * v * dx + imag(g) * conj(v) * ds + real(u) * imag(h) * v * ds,
        f=h))
    A(Z("list_tensor", raw_quick=True, form=inner(as_vector([u + f, 2 * u]), as_vector([v, v * g])) * dx
        + as_vector([f * v, u * v])[1] * ds, f=h))
    A(Z("linear_only", f * v * dx + g * v.dx(0) * ds, f=h, energy=False, adjoint=False))
    A(Z("functional_only", f * g * dx + h * ds(2), f=None, energy=False, adjoint=False))
    A(Z("bilinear_only", u.dx(0) * v * dx + f * u * v.dx(1) * ds(4), f=g))
    var = variable(u * f + g)
    A(Z("variable", raw_quick=True, form=var * v * dx + variable(f) * v * ds, f=h, raw_ok=True,
        note="variable handler (raw path; expand_derivatives strips the labels)"))
    A(Z("outer_dot", raw_quick=True, form=inner(outer(uu, w), outer(vv, w)) * dx + dot(uu + w, vv) * ds, f=Coefficient(W)))
    A(Z("trial_only_term", u * v * dx + u * f * dx + g * v * dx, f=h, decomp=False,
        note="u*f*dx has no test function: dropped by every part (comment in compute_form_with_arity)"))
    A(Z("grad_of_sum", raw_quick=True, form=inner(grad(u * f + g), grad(v)) * dx, f=h, deriv=True,
        note="grad handler on an affine compound; obligations use Dx additivity / Leibniz"))
    # affine sums UNDER the linear wrappers (restriction, conj/real/imag, grad, variable, indexing):
    # the handlers must rebuild the wrapper around the extracted part of their operand
    A(Z("affine_under_restriction", raw_quick=True, form=(u - f)("+") * v("-") * dS + (u * g + h)("-") * v("+") * dS(2)
        + avg(u - f) * jump(v) * dS, f=h))
    A(Z("affine_under_conj_real_imag", raw_quick=True, form=conj(u - f) * v * dx + real(u * g + h) * v * ds
        + imag(u - f) * conj(v) * dx(1), f=h,
        note="conj/real/imag of an affine sum: lhs/rhs parts are conj-/real-linear images of the parts"))
    A(Z("affine_under_grad", raw_quick=True, form=inner(grad(u + f), grad(v)) * dx
        + as_vector([u - f, u * g])[0] * v * dx(2) + variable(u - f) * v * ds, f=h, deriv=True,
        energy=False, adjoint=False))
    A(Z("affine_under_index", raw_quick=True, form=(uu - w)[0] * vv[1] * ds + (uu + w)[i] * vv[i] * dx
        + as_tensor((uu - w)[j] * f, (j,))[k] * vv[k] * dx(1), f=Coefficient(W)))
    # MixedFunctionSpace: arguments with parts
    P2 = FunctionSpace(m, LagrangeElement(m.ufl_cell(), 2, ()))
    MS = MixedFunctionSpace(V, P2)
    v0, v1 = TestFunctions(MS)
    u0, u1 = TrialFunctions(MS)
    A(Z("parts_diag", u0 * v0 * dx + inner(grad(u1), grad(v1)) * dx + f * v0 * dx + g * v1.dx(0) * ds,
        f=[Coefficient(V), Coefficient(P2)], energy=False, note="MixedFunctionSpace, diagonal blocks",
        bil=u0 * v0 * dx + inner(grad(u1), grad(v1)) * dx))
    A(Z("parts_offdiag", raw_quick=True, form=u0 * v0 * dx + u0.dx(0) * v1 * dx + inner(grad(u1), grad(v1)) * dx + f * v0 * dx
        + g * v1.dx(0) * dx, f=[Coefficient(V), Coefficient(P2)], energy=False,
        note="MixedFunctionSpace, block (1,0) non-empty",
        bil=u0 * v0 * dx + u0.dx(0) * v1 * ds + inner(grad(u1), grad(v1)) * dx))

    # list tensors with literal zeros in every position next to components of different arity
    A(Z("list_tensor_zero_positions", raw_quick=True,
        form=inner(as_vector([u.dx(0), 0]), grad(v)) * dx(1) + inner(as_vector([0, u]), grad(v)) * dx(2)
        + inner(as_vector([u, 0]), as_vector([v, v * g])) * dx(3) + inner(as_vector([0, u * g]), as_vector([v * g, v])) * dx(4)
        + dot(as_vector([0, u, 0]), as_vector([v, v * g, v])) * dx(5)
        + dot(as_vector([u, 0, 0]), as_vector([v, v * g, v])) * dx(6)
        + dot(as_vector([0, 0, u + f]), as_vector([v, v * g, v])) * dx(7)
        + inner(as_vector([f, 0]), as_vector([v, v])) * ds + inner(as_vector([0, f]), grad(v)) * ds(1)
        + inner(ufl.as_matrix([[u, 0], [0, 0]]), outer(grad(v), w)) * ds(2)
        + inner(ufl.as_matrix([[0, 0], [0, u - f]]), outer(grad(v), w)) * ds(3)
        + f * v * dx, f=h,
        note="every position of the zero component; the arguments of a list tensor are those of ANY component"))
    # MixedFunctionSpace forms that use a strict subset of the parts (action with a coefficient list must
    # pair by part), and interior-facet terms with every combination of restrictions through the block
    # extraction behind lhs/rhs/system
    A(Z("parts_trial1_only", raw_quick=True, form=u1 * v0 * dx + inner(grad(u1), grad(v1)) * dx + f * v1 * dx + g * v0 * ds,
        f=[Coefficient(V), Coefficient(P2)], energy=False, adjoint=False,
        note="only the part-1 trial function occurs"))
    A(Z("parts_trial0_test1_only", raw_quick=True, form=u0.dx(0) * v1 * dx + u0 * v1 * ds + f * v1 * dx,
        f=[Coefficient(V), Coefficient(P2)], energy=False, adjoint=False,
        note="only trial part 0 and test part 1 occur"))
    A(Z("parts_linear_part1_only", raw_quick=True, form=f * v1 * dx + g * v1.dx(1) * ds,
        f=[Coefficient(V), Coefficient(P2)], energy=False, adjoint=False,
        note="linear form on the part-1 test function only: action replaces it by f[1]"))
    A(Z("parts_facet", raw_quick=True,
        form=u0("-") * v0("+") * dS + u0("+") * v1("-") * dS + jump(u1) * avg(v1) * dS(1)
        + u1("-").dx(0) * v0("-") * dS(1) + f("-") * v1("-") * dS + avg(g) * v0("+") * dS + h("+") * v0("-") * dS(1)
        + u0 * v0 * dx,
        f=[Coefficient(V), Coefficient(P2)], energy=False, adjoint=False,
        note="MixedFunctionSpace, interior facets, every combination of '+'/'-' restrictions"))

    # seeded random combinations of a term pool (measures, subdomain ids, metadata vary)
    rng = random.Random(seed)
    n_rand = 4 if tier == "quick" else 24
    meas = [dx, dx(1), ds, ds(2), dx(metadata={"quadrature_degree": 3}), ds((1, 3)), dS]
    def R(x, mm):       # restrict for interior facets
        return x("+") if mm.integral_type() == "interior_facet" else x
    bil = [lambda M: R(u, M) * R(v, M), lambda M: R(f, M) * R(u, M) * R(v, M),
           lambda M: inner(R(grad(u), M), R(grad(v), M)),
           lambda M: R(u.dx(0), M) * R(v, M) / R(g, M), lambda M: (R(u, M) * R(g, M) + R(u, M)) * R(v.dx(1), M)]
    lin = [lambda M: R(f, M) * R(v, M), lambda M: -R(g, M) * R(v.dx(0), M), lambda M: R(f * g, M) * R(v, M),
           lambda M: dot(R(w, M), R(grad(v), M))]
    fun = [lambda M: R(f, M) * R(g, M), lambda M: R(h, M)]
    for n in range(n_rand):
        terms, desc, nz = [], [], []
        for pool, nm, kmax in ((bil, "b", 2), (lin, "l", 2), (fun, "c", 1)):
            for _ in range(rng.randint(0 if nm != "b" else 1, kmax)):
                k_ = rng.randrange(len(pool))
                mi = rng.randrange(len(meas))
                sign = rng.choice([1, 1, -1])
                terms.append(sign * pool[k_](meas[mi]) * meas[mi])
                desc.append(f"{'-' if sign < 0 else '+'}{nm}{k_}@{mi}")
                if nm == "b" and k_ == 3:
                    nz.append(R(g, meas[mi]))
        F = terms[0]
        for t_ in terms[1:]:
            F = F + t_
        A(Z(f"rand{n}", F, f=h, nz=nz, note=" ".join(desc)))
    return out
