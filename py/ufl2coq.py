"""Serialise UFL expressions node-for-node into the Gallina type `expr` of coq/Core/Syntax.v.

Fail-closed: any node type without an entry below raises Unsupported, and the caller treats
that as a broken tie (never as success).  Terminals become `Term kind id shape`; the mapping
terminal -> (kind, id) is kept in a Ctx so that the input and the output of a pass share it.
"""

import math
from fractions import Fraction

import ufl
import ufl.classes as C
from ufl.core.multiindex import FixedIndex, Index


class Unsupported(Exception):
    pass


# terminal kinds (Term k id sh).  0..9 form arguments; >= 10 geometry, by class name.
KIND_COEFFICIENT, KIND_ARGUMENT, KIND_CONSTANT = 0, 1, 2
GEOMETRY_KINDS = [
    "SpatialCoordinate", "CellCoordinate", "FacetCoordinate", "RidgeCoordinate", "CellOrigin",
    "FacetOrigin", "RidgeOrigin", "CellFacetOrigin", "CellRidgeOrigin", "Jacobian",
    "FacetJacobian", "RidgeJacobian", "CellFacetJacobian", "CellRidgeJacobian",
    "FacetRidgeJacobian", "ReferenceCellEdgeVectors", "ReferenceFacetEdgeVectors",
    "CellVertices", "CellEdgeVectors", "FacetEdgeVectors", "JacobianDeterminant",
    "FacetJacobianDeterminant", "RidgeJacobianDeterminant", "CellFacetJacobianDeterminant",
    "CellRidgeJacobianDeterminant", "JacobianInverse", "FacetJacobianInverse",
    "RidgeJacobianInverse", "CellFacetJacobianInverse", "CellRidgeJacobianInverse",
    "FacetNormal", "CellNormal", "ReferenceNormal", "ReferenceCellVolume",
    "ReferenceFacetVolume", "ReferenceRidgeVolume", "CellVolume", "Circumradius",
    "CellDiameter", "FacetArea", "MinCellEdgeLength", "MaxCellEdgeLength",
    "MinFacetEdgeLength", "MaxFacetEdgeLength", "CellOrientation", "FacetOrientation",
    "QuadratureWeight",
]
KIND_OF_GEOMETRY = {n: 10 + i for i, n in enumerate(GEOMETRY_KINDS)}

MATHFN = {
    "Sqrt": "FSqrt", "Exp": "FExp", "Ln": "FLn", "Cos": "FCos", "Sin": "FSin", "Tan": "FTan",
    "Cosh": "FCosh", "Sinh": "FSinh", "Tanh": "FTanh", "Acos": "FAcos", "Asin": "FAsin",
    "Atan": "FAtan", "Erf": "FErf",
}
CMPOP = {"EQ": "CEQ", "NE": "CNE", "LT": "CLT", "GT": "CGT", "LE": "CLE", "GE": "CGE"}
BESSEL = {"BesselJ": "BJ", "BesselY": "BY", "BesselI": "BI", "BesselK": "BK"}
UNARY = {
    "Abs": "Abs", "Conj": "Conj", "Real": "Real", "Imag": "Imag", "Transposed": "Transposed",
    "Perp": "Perp", "Trace": "Trace", "Determinant": "Determinant", "Inverse": "Inverse",
    "Cofactor": "Cofactor", "Deviatoric": "Deviatoric", "Skew": "Skew", "Sym": "Sym",
    "Curl": "Curl",
}
BINARY = {
    "Sum": "Sum", "Product": "Product", "Division": "Division", "Power": "Power",
    "MinValue": "MinV", "MaxValue": "MaxV", "Atan2": "Atan2", "Outer": "Outer",
    "Inner": "Inner", "Dot": "Dot", "Cross": "Cross",
}


def znum(z):
    z = int(z)
    return f"({z})%Z" if z < 0 else f"{z}%Z"


def natlist(t):
    return "[" + "; ".join(str(int(x)) for x in t) + "]"


def dyadic(x):
    """binary64 -> (m, e) with x == m * 2**e exactly, m odd or 0."""
    x = float(x)
    if x == 0.0:
        return 0, 0
    if math.isinf(x) or math.isnan(x):
        raise Unsupported("non-finite float literal")
    fr = Fraction(x)
    m, d = fr.numerator, fr.denominator
    if d == 1:
        e = 0
        while m % 2 == 0:
            m //= 2
            e += 1
        return m, e
    return m, -(d.bit_length() - 1)


def real_literal(x):
    """A float literal denotes the small rational it rounds (|x - p/q| <= 2 ulp, q <= 5040) when
    there is one -- UFL writes 2.0/3 for two thirds -- and its exact dyadic value otherwise."""
    x = float(x)
    if x == int(x) and abs(x) < 2**53:
        return f"(RatV {znum(int(x))} 1)"
    fr = Fraction(x).limit_denominator(5040)
    if fr != 0 and abs(float(fr) - x) <= 4.5e-16 * abs(x):
        return f"(RatV {znum(fr.numerator)} {fr.denominator})"
    m, ex = dyadic(x)
    return f"(RealV {znum(m)} {znum(ex)})"


class Ctx:
    """Numbering of terminals, indices and labels shared by all expressions of one case."""

    def __init__(self):
        self.terms = {}       # key -> (kind, id, shape, description)
        self.order = []
        self.indices = {}     # Index count -> small nat
        self.labels = {}
        self.next_id = {}

    def term(self, t):
        key = self.term_key(t)
        if key not in self.terms:
            kind = self.kind_of(t)
            n = self.next_id.get(kind, 0)
            self.next_id[kind] = n + 1
            self.terms[key] = (kind, n, tuple(t.ufl_shape), repr(t)[:120])
            self.order.append(key)
        return self.terms[key]

    @staticmethod
    def term_key(t):
        if isinstance(t, (C.Coefficient, C.Constant)):
            return (type(t).__name__, t.count())
        if isinstance(t, C.Argument):
            return ("Argument", t.number(), t.part(), repr(t.ufl_function_space()))
        if isinstance(t, C.GeometricQuantity):
            return (type(t).__name__, t.ufl_domain().ufl_id())
        raise Unsupported(f"terminal {type(t).__name__}")

    @staticmethod
    def kind_of(t):
        if isinstance(t, C.Coefficient):
            return KIND_COEFFICIENT
        if isinstance(t, C.Argument):
            return KIND_ARGUMENT
        if isinstance(t, C.Constant):
            return KIND_CONSTANT
        n = type(t).__name__
        if n in KIND_OF_GEOMETRY:
            return KIND_OF_GEOMETRY[n]
        raise Unsupported(f"terminal {n}")

    def index(self, count):
        if count not in self.indices:
            self.indices[count] = len(self.indices)
        return self.indices[count]

    def label(self, count):
        if count not in self.labels:
            self.labels[count] = len(self.labels)
        return self.labels[count]


class Ser:
    """Serializer.  `share=True` emits a Coq Definition for every repeated non-leaf node so that
    DAG sharing does not blow up the text; `defs` is the list of (name, body)."""

    def __init__(self, ctx=None, prefix="n", share=True, refvalue_terminal=False):
        # refvalue_terminal: serialise ReferenceValue(f) as its own terminal `Term (50 + kind f) id refshape`
        # (needed when the reference value differs from the physical value, i.e. non-identity pullbacks)
        self.refvalue_terminal = refvalue_terminal
        self.ctx = ctx or Ctx()
        self.prefix = prefix
        self.share = share
        self.defs = []
        self.memo = {}
        self.nodes = 0

    # -- public
    def expr(self, e):
        if self.share:
            self._count_uses(e)
        return self._expr(e)

    def def_names(self):
        return [n for n, _ in self.defs]

    def definitions_text(self):
        return "".join(f"Definition {n} : expr := {b}.\n" for n, b in self.defs)

    # -- internals
    def _count_uses(self, e):
        self.uses = getattr(self, "uses", {})
        stack = [e]
        while stack:
            x = stack.pop()
            k = id(x)
            self.uses[k] = self.uses.get(k, 0) + 1
            if self.uses[k] == 1 and not x._ufl_is_terminal_:
                stack.extend(x.ufl_operands)

    def _expr(self, e):
        k = id(e)
        if k in self.memo:
            return self.memo[k]
        s = self._node(e)
        self.nodes += 1
        if self.share and not e._ufl_is_terminal_ and self.uses.get(k, 0) > 1 and len(s) > 40:
            name = f"{self.prefix}{len(self.defs)}"
            self.defs.append((name, s))
            s = name
        self.memo[k] = s
        self._keep = getattr(self, "_keep", [])
        self._keep.append(e)  # keep alive so id() stays unique
        return s

    def _mi(self, mi):
        out = []
        for i in mi:
            if isinstance(i, FixedIndex):
                out.append(f"Fixed {int(i)}")
            elif isinstance(i, Index):
                out.append(f"Free {self.ctx.index(i.count())}")
            else:
                raise Unsupported(f"index {type(i).__name__}")
        return "[" + "; ".join(out) + "]"

    def _fi(self, e):
        return "[" + "; ".join(
            f"({self.ctx.index(i)}, {d})" for i, d in zip(e.ufl_free_indices, e.ufl_index_dimensions)
        ) + "]"

    def _cond(self, c):
        n = type(c).__name__
        if n in CMPOP:
            a, b = c.ufl_operands
            return f"(Cmp {CMPOP[n]} {self._expr(a)} {self._expr(b)})"
        if n == "AndCondition":
            return f"(AndC {self._cond(c.ufl_operands[0])} {self._cond(c.ufl_operands[1])})"
        if n == "OrCondition":
            return f"(OrC {self._cond(c.ufl_operands[0])} {self._cond(c.ufl_operands[1])})"
        if n == "NotCondition":
            return f"(NotC {self._cond(c.ufl_operands[0])})"
        raise Unsupported(f"condition {n}")

    def _node(self, e):
        n = type(e).__name__
        ops = e.ufl_operands
        if n == "Zero":
            return f"(Zero {natlist(e.ufl_shape)} {self._fi(e)})"
        if n == "IntValue":
            return f"(IntV {znum(e._value)})"
        if n == "FloatValue":
            return real_literal(e._value)
        if n == "ComplexValue":
            rm, re_ = dyadic(e._value.real)
            im, ie = dyadic(e._value.imag)
            return f"(CplxV {znum(rm)} {znum(re_)} {znum(im)} {znum(ie)})"
        if n == "Identity":
            return f"(Identity {e.ufl_shape[0]})"
        if n == "PermutationSymbol":
            return f"(PermSym {len(e.ufl_shape)})"
        if e._ufl_is_terminal_:
            kind, tid, sh, _ = self.ctx.term(e)
            return f"(Term {kind} {tid} {natlist(sh)})"
        if n in UNARY:
            return f"({UNARY[n]} {self._expr(ops[0])})"
        if n in BINARY:
            return f"({BINARY[n]} {self._expr(ops[0])} {self._expr(ops[1])})"
        if n in MATHFN:
            return f"(Math {MATHFN[n]} {self._expr(ops[0])})"
        if n in BESSEL:
            return f"(Bessel {BESSEL[n]} {self._expr(ops[0])} {self._expr(ops[1])})"
        if n == "Indexed":
            return f"(Indexed {self._expr(ops[0])} {self._mi(ops[1])})"
        if n == "IndexSum":
            (i,) = ops[1]
            return f"(IndexSum {self._expr(ops[0])} {self.ctx.index(i.count())} {e.dimension()})"
        if n == "ComponentTensor":
            ix = "[" + "; ".join(
                f"({self.ctx.index(i.count())}, {d})" for i, d in zip(ops[1], e.ufl_shape)
            ) + "]"
            return f"(ComponentTensor {self._expr(ops[0])} {ix})"
        if n == "ListTensor":
            return "(ListTensor [" + "; ".join(self._expr(o) for o in ops) + "])"
        if n == "Conditional":
            return f"(Conditional {self._cond(ops[0])} {self._expr(ops[1])} {self._expr(ops[2])})"
        if n == "Variable":
            return f"(Vari {self._expr(ops[0])} {self.ctx.label(ops[1].count())})"
        if n == "PositiveRestricted":
            return f"(Restricted true {self._expr(ops[0])})"
        if n == "NegativeRestricted":
            return f"(Restricted false {self._expr(ops[0])})"
        if n in ("Grad", "ReferenceGrad", "NablaGrad"):
            dim = e._dim
            cn = {"Grad": "Grad", "ReferenceGrad": "RefGrad", "NablaGrad": "NablaGrad"}[n]
            return f"({cn} {self._expr(ops[0])} {dim})"
        if n in ("Div", "NablaDiv"):
            f = ops[0]
            dim = f.ufl_shape[-1] if n == "Div" else f.ufl_shape[0]
            return f"({n} {self._expr(f)} {dim})"
        if n == "ReferenceValue":
            if self.refvalue_terminal:
                kind, tid, _sh, _ = self.ctx.term(ops[0])
                return f"(Term {50 + kind} {tid} {natlist(e.ufl_shape)})"
            return f"(RefValue {self._expr(ops[0])} {natlist(e.ufl_shape)})"
        raise Unsupported(f"node {n}")


def coq_shape_checks(name, e, ctx):
    """Example lines tying the model's shape/fidx to the implementation's attributes."""
    fi = "[" + "; ".join(
        f"({ctx.index(i)}, {d})" for i, d in sorted(
            ((ctx.index(i), d) for i, d in zip(e.ufl_free_indices, e.ufl_index_dimensions)))
    ) + "]"
    return (
        f"Example {name}_shape : shape {name} = {natlist(e.ufl_shape)}. Proof. reflexivity. Qed.\n"
    )
