"""C05: complex-valued numeric mirror of coq/Core/Den.v on UFL objects (search oracle only).

py/pyden.py evaluates over exact rationals, where conj/real are the identity and imag is 0, so a change
that drops or misplaces a complex conjugate is invisible to it.  This evaluator uses Python complex
numbers (terminals = random complex constants) and is used after pyden found nothing, to produce the
concrete failing input of a broken obligation that involves the complex structure."""

import cmath
import itertools
import random

from ufl.core.multiindex import FixedIndex, Index

import pyden
from ufl2coq import Ctx


class Unsupported(Exception):
    pass


class CEnv:
    def __init__(self, seed=0):
        self.rng = random.Random(seed)
        self.cache = {}

    def value(self, t, comp, side):
        key = (Ctx.term_key(t), tuple(comp), side)
        if key not in self.cache:
            r = self.rng
            self.cache[key] = complex(r.randint(1, 9) / r.choice([1, 2, 4]), r.randint(-9, 9) / r.choice([1, 2, 4]) or 0.5)
        return self.cache[key]


MATH = {"Sqrt": cmath.sqrt, "Exp": cmath.exp, "Ln": cmath.log, "Cos": cmath.cos, "Sin": cmath.sin,
        "Tan": cmath.tan, "Cosh": cmath.cosh, "Sinh": cmath.sinh, "Tanh": cmath.tanh, "Acos": cmath.acos,
        "Asin": cmath.asin, "Atan": cmath.atan}


def _idx(i, rho):
    if isinstance(i, FixedIndex):
        return int(i)
    if isinstance(i, Index):
        return rho[i.count()]
    raise Unsupported("index")


def ceval(e, env, rho, c=(), side=None):
    n = type(e).__name__
    ops = e.ufl_operands if not e._ufl_is_terminal_ else ()
    c = tuple(c)
    ev = lambda x, cc=(), r=rho, s=side: ceval(x, env, r, tuple(cc), s)  # noqa: E731
    if n == "Zero":
        return 0j
    if n in ("IntValue", "FloatValue", "ComplexValue"):
        return complex(e._value)
    if n == "Identity":
        return 1 + 0j if c[0] == c[1] else 0j
    if n == "PermutationSymbol":
        return complex(pyden.perm_sign(c))
    if e._ufl_is_terminal_:
        return env.value(e, c, side)
    if n == "Sum":
        return ev(ops[0], c) + ev(ops[1], c)
    if n == "Product":
        return ev(ops[0]) * ev(ops[1])
    if n == "Division":
        return ev(ops[0]) / ev(ops[1])
    if n == "Power":
        return ev(ops[0]) ** ev(ops[1])
    if n == "Abs":
        return complex(abs(ev(ops[0], c)))
    if n == "Conj":
        return ev(ops[0], c).conjugate()
    if n == "Real":
        return complex(ev(ops[0], c).real)
    if n == "Imag":
        return complex(ev(ops[0], c).imag)
    if n == "Indexed":
        return ev(ops[0], tuple(_idx(i, rho) for i in ops[1]))
    if n == "IndexSum":
        (i,) = ops[1]
        tot = 0j
        for k in range(e.dimension()):
            r2 = dict(rho)
            r2[i.count()] = k
            tot += ev(ops[0], c, r2)
        return tot
    if n == "ComponentTensor":
        r2 = dict(rho)
        for i, k in zip(ops[1], c):
            r2[i.count()] = k
        return ev(ops[0], (), r2)
    if n == "ListTensor":
        return ev(ops[c[0]], c[1:])
    if n == "Conditional":
        return ev(ops[1], c) if _cond(ops[0], env, rho, side) else ev(ops[2], c)
    if n in MATH:
        return MATH[n](ev(ops[0]))
    if n == "Variable":
        return ev(ops[0], c)
    if n == "PositiveRestricted":
        return ev(ops[0], c, rho, "+")
    if n == "NegativeRestricted":
        return ev(ops[0], c, rho, "-")
    if n == "Transposed":
        return ev(ops[0], c[::-1])
    if n == "Outer":
        ra = len(ops[0].ufl_shape)
        return ev(ops[0], c[:ra]).conjugate() * ev(ops[1], c[ra:])
    if n == "Inner":
        tot = 0j
        for I in itertools.product(*[range(d) for d in ops[0].ufl_shape]):
            tot += ev(ops[0], I) * ev(ops[1], I).conjugate()
        return tot
    if n == "Dot":
        if not ops[0].ufl_shape:
            return ev(ops[0]) * ev(ops[1])
        ra = len(ops[0].ufl_shape) - 1
        tot = 0j
        for k in range(ops[0].ufl_shape[-1]):
            tot += ev(ops[0], c[:ra] + (k,)) * ev(ops[1], (k,) + c[ra:])
        return tot
    if n == "Cross":
        i = c[0]
        a, b = ops
        return ev(a, ((i + 1) % 3,)) * ev(b, ((i + 2) % 3,)) - ev(a, ((i + 2) % 3,)) * ev(b, ((i + 1) % 3,))
    if n == "Perp":
        return -ev(ops[0], (1,)) if c[0] == 0 else ev(ops[0], (0,))
    if n == "Trace":
        return sum((ev(ops[0], (i, i)) for i in range(ops[0].ufl_shape[0])), 0j)
    if n in ("Determinant", "Inverse", "Cofactor"):
        a = ops[0]
        sh = a.ufl_shape
        if sh == ():
            return ev(a) if n == "Determinant" else 1 / ev(a)
        M = lambda i, j: ev(a, (i, j))  # noqa: E731
        nn = sh[0]
        if n == "Determinant":
            return complex(pyden.det_f(nn, M))
        if n == "Cofactor":
            return complex(pyden.cof_f(nn, M, c[0], c[1]))
        return pyden.cof_f(nn, M, c[1], c[0]) / pyden.det_f(nn, M)
    if n == "Deviatoric":
        a = ops[0]
        nn = a.ufl_shape[0]
        r = ev(a, c)
        if c[0] == c[1]:
            r -= sum((ev(a, (k, k)) for k in range(nn)), 0j) / nn
        return r
    if n == "Skew":
        return (ev(ops[0], c) - ev(ops[0], c[::-1])) / 2
    if n == "Sym":
        return (ev(ops[0], c) + ev(ops[0], c[::-1])) / 2
    raise Unsupported(n)


def _cond(cn, env, rho, side):
    n = type(cn).__name__
    ops = cn.ufl_operands
    if n in ("EQ", "NE", "LT", "GT", "LE", "GE"):
        a = ceval(ops[0], env, rho, (), side).real
        b = ceval(ops[1], env, rho, (), side).real
        return {"EQ": a == b, "NE": a != b, "LT": a < b, "GT": a > b, "LE": a <= b, "GE": a >= b}[n]
    if n == "AndCondition":
        return _cond(ops[0], env, rho, side) and _cond(ops[1], env, rho, side)
    if n == "OrCondition":
        return _cond(ops[0], env, rho, side) or _cond(ops[1], env, rho, side)
    if n == "NotCondition":
        return not _cond(ops[0], env, rho, side)
    raise Unsupported(n)


def close(a, b, tol=1e-9):
    return abs(a - b) <= tol * (1 + abs(a) + abs(b))
