"""C27: constructors must not re-initialise existing objects.

Python's protocol `C(*args)`: obj = C.__new__(C, *args); if isinstance(obj, C): obj.__init__(*args).
Many UFL classes simplify in __new__ by returning an EXISTING node (an operand, a cached flyweight ...).
When that node is an instance of C, __init__ runs again on it - it must then be a no-op, otherwise the
input is rewritten (typically ufl_operands := (self,), a cycle).

Static part (T1, `protocol_table`): for every class with its own __new__, read with `ast`
  * whether __new__ can return something that is not a freshly allocated object,
  * whether __init__ writes operands / attributes, and whether it is guarded (flag initialised to False in
    __new__, tested first thing in __init__, set to True at its end; or `hasattr(self, "ufl_operands")`).
Dynamic part (`run_probes`): a zoo of expressions covering the operator classes; for every node x of
class C: C applied to instances of itself, operand substitution by every zoo node, eta-expansions
(ComponentTensor(A[ii], ii), ListTensor(A[0], A[1], ..), Indexed(ComponentTensor ...)), and the public
wrappers (abs, det, transpose, ...) on every zoo node.  After each call the operands of everything involved
are compared with their fingerprint; at the end every zoo expression must have its original repr."""

import ast
import inspect
import textwrap

import ufl
from ufl import (
    Coefficient, Constant, FunctionSpace, Mesh, TestFunction, TrialFunction, as_matrix, as_tensor, as_vector,
    triangle,
)
from ufl.classes import ComponentTensor, Expr, Indexed, ListTensor, MultiIndex, Zero
from ufl.core.multiindex import FixedIndex, Index
from ufl.pullback import identity_pullback
from ufl.sobolevspace import H1

import elements


def FE(cell, deg, shape=()):
    return elements.FiniteElement("Lagrange", cell, deg, shape, identity_pullback, H1)


# ------------------------------------------------------------------------------------------------
# static protocol table

def _fn(cls, name):
    f = cls.__dict__.get(name)
    if f is None:
        for b in cls.__mro__[1:]:
            if name in b.__dict__:
                f = b.__dict__[name]
                break
    f = getattr(f, "__func__", f)
    try:
        return ast.parse(textwrap.dedent(inspect.getsource(f))).body[0]
    except (OSError, TypeError):
        return None


def _is_alloc(n):
    """X.__new__(cls) / super().__new__(cls) / object.__new__(cls)"""
    return isinstance(n, ast.Call) and isinstance(n.func, ast.Attribute) and n.func.attr == "__new__"


def protocol_entry(cls):
    """-> dict describing how cls takes part in the __new__/__init__ protocol (fail closed: unknown -> risky)"""
    new = _fn(cls, "__new__")
    init = _fn(cls, "__init__")
    e = {"class": cls.__name__, "returns_existing": [], "init_writes": [], "guard": None}
    if new is None or init is None:
        e["note"] = "source not available"
        return e
    fresh = set()
    for st in ast.walk(new):
        if isinstance(st, ast.Assign) and len(st.targets) == 1 and isinstance(st.targets[0], ast.Name) \
                and _is_alloc(st.value):
            fresh.add(st.targets[0].id)
    flag_false = set()
    for st in ast.walk(new):
        if isinstance(st, ast.Assign) and len(st.targets) == 1 and isinstance(st.targets[0], ast.Attribute) \
                and isinstance(st.targets[0].value, ast.Name) and st.targets[0].value.id in fresh \
                and isinstance(st.value, ast.Constant) and st.value.value is False:
            flag_false.add(st.targets[0].attr)
    import sys
    glob = vars(sys.modules[cls.__module__])
    params = {a.arg for a in new.args.args[1:]} | ({new.args.vararg.arg} if new.args.vararg else set())

    def related(k):
        return isinstance(k, type) and (issubclass(k, cls) or issubclass(cls, k)) and k is not object

    def resolve_types(t):
        """classes named in the second argument of isinstance (Name, a | b, tuple)"""
        if isinstance(t, ast.Name):
            return [glob.get(t.id)]
        if isinstance(t, ast.BinOp) and isinstance(t.op, ast.BitOr):
            return resolve_types(t.left) + resolve_types(t.right)
        if isinstance(t, ast.Tuple):
            return [x for e_ in t.elts for x in resolve_types(e_)]
        return [None]

    def visit(stmts, facts):
        """facts: name -> list of classes the name is known to be an instance of (innermost isinstance test)"""
        for st in stmts:
            if isinstance(st, ast.If):
                f2 = dict(facts)
                t = st.test
                if isinstance(t, ast.Call) and isinstance(t.func, ast.Name) and t.func.id == "isinstance" \
                        and isinstance(t.args[0], ast.Name):
                    f2[t.args[0].id] = resolve_types(t.args[1])
                visit(st.body, f2)
                visit(st.orelse, facts)
            elif isinstance(st, (ast.For, ast.While, ast.With, ast.Try)):
                visit(getattr(st, "body", []), facts)
                visit(getattr(st, "orelse", []), facts)
            elif isinstance(st, ast.Return) and st.value is not None:
                v = st.value
                if _is_alloc(v) or (isinstance(v, ast.Name) and v.id in fresh):
                    continue
                txt = ast.unparse(v)[:60]
                if isinstance(v, ast.Call) and isinstance(v.func, ast.Name) and isinstance(glob.get(v.func.id), type):
                    if related(glob[v.func.id]):
                        e["returns_existing"].append(txt + "   [constructor of a related class]")
                    else:
                        e.setdefault("returns_other_class", []).append(txt)
                    continue
                root = v
                while isinstance(root, (ast.Attribute, ast.Subscript)):
                    root = root.value
                if isinstance(root, ast.Name) and root.id not in fresh and not isinstance(glob.get(root.id), type):
                    known = facts.get(root.id) if root is v else None
                    if known and all(isinstance(k, type) and not related(k) for k in known):
                        e.setdefault("returns_other_class", []).append(txt + "   [isinstance of unrelated classes]")
                    else:
                        e["returns_existing"].append(txt)
                    continue
                e.setdefault("returns_derived", []).append(txt)
    visit(new.body, {})
    # __init__: writes to self
    body = [s for s in init.body if not (isinstance(s, ast.Expr) and isinstance(s.value, ast.Constant))]
    writes = []
    for st in ast.walk(init):
        if isinstance(st, (ast.Assign, ast.AugAssign)):
            tgts = st.targets if isinstance(st, ast.Assign) else [st.target]
            for t in tgts:
                if isinstance(t, ast.Attribute) and isinstance(t.value, ast.Name) and t.value.id == "self":
                    writes.append(t.attr)
        if isinstance(st, ast.Call) and isinstance(st.func, ast.Attribute) and st.func.attr == "__init__" \
                and len(st.args) >= 2:
            writes.append("ufl_operands (via %s.__init__)" % ast.unparse(st.func.value))
    e["init_writes"] = sorted(set(writes))
    # guard: first statement `if self.<flag>: return` with flag False in __new__ and set True in __init__,
    # or `if hasattr(self, "ufl_operands"): return`
    if body and isinstance(body[0], ast.If) and len(body[0].body) == 1 and isinstance(body[0].body[0], ast.Return):
        t = body[0].test
        if isinstance(t, ast.Attribute) and isinstance(t.value, ast.Name) and t.value.id == "self":
            flag = t.attr
            set_true = any(isinstance(st, ast.Assign) and isinstance(st.targets[0], ast.Attribute)
                           and st.targets[0].attr == flag and isinstance(st.value, ast.Constant)
                           and st.value.value is True for st in body[1:])
            if flag in flag_false and set_true:
                e["guard"] = f"flag self.{flag}"
            else:
                e["guard_broken"] = (f"`if self.{flag}: return` but the flag is "
                                     + ("never set to True in __init__" if not set_true else "not initialised in __new__"))
        elif isinstance(t, ast.Call) and isinstance(t.func, ast.Name) and t.func.id == "hasattr" \
                and isinstance(t.args[0], ast.Name) and t.args[0].id == "self":
            e["guard"] = "hasattr(self, %s)" % ast.unparse(t.args[1])
    e["safe"] = (not e["returns_existing"]) or bool(e["guard"]) or not [w for w in e["init_writes"] if w != "_hash"]
    return e


def protocol_table():
    import ufl.classes as uc
    import importlib
    form = importlib.import_module("ufl.form")
    classes = [c for c in uc.all_ufl_classes if "__new__" in c.__dict__]
    for extra in ("FormSum", "ZeroBaseForm"):
        c = getattr(form, extra, None)
        if c is not None and c not in classes and "__new__" in c.__dict__:
            classes.append(c)
    return [protocol_entry(c) for c in sorted(classes, key=lambda c: c.__name__)]


# ------------------------------------------------------------------------------------------------
# zoo

def zoo(seed=0):
    m = Mesh(FE(triangle, 1, (2,)), 9990 + seed % 7)
    V, W, T = FunctionSpace(m, FE(triangle, 2)), FunctionSpace(m, FE(triangle, 1, (2,))), \
        FunctionSpace(m, FE(triangle, 1, (2, 2)))
    f, g, u, v = Coefficient(V), Coefficient(V), TrialFunction(V), TestFunction(V)
    w, z, A, B = Coefficient(W), Coefficient(W), Coefficient(T), Coefficient(T)
    c = Constant(m)
    i, j, k, l = ufl.indices(4)
    x = ufl.SpatialCoordinate(m)
    n = ufl.FacetNormal(m)
    M = as_tensor(w[i] * z[j], (i, j))
    Z = [
        ("abs", abs(f)), ("conj", ufl.conj(f)), ("real", ufl.real(f)), ("imag", ufl.imag(g)),
        ("sum", f + g), ("product", f * g), ("division", f / g), ("power", f ** g), ("neg", -f),
        ("sqrt", ufl.sqrt(f)), ("exp", ufl.exp(f)), ("ln", ufl.ln(f)), ("sin", ufl.sin(f)), ("cos", ufl.cos(f)),
        ("tan", ufl.tan(f)), ("sinh", ufl.sinh(f)), ("cosh", ufl.cosh(f)), ("tanh", ufl.tanh(f)),
        ("acos", ufl.acos(f)), ("asin", ufl.asin(f)), ("atan", ufl.atan(f)), ("erf", ufl.erf(f)),
        ("atan2", ufl.atan2(f, g)), ("bessel", ufl.bessel_J(1, f)),
        ("min", ufl.min_value(f, g)), ("max", ufl.max_value(f, g)),
        ("conditional", ufl.conditional(ufl.lt(f, g), f, g)), ("not", ufl.conditional(ufl.Not(ufl.lt(f, g)), f, c)),
        ("and", ufl.conditional(ufl.And(ufl.lt(f, g), ufl.gt(f, c)), f, c)),
        ("variable", ufl.variable(f * g)), ("diff", ufl.diff(ufl.variable(f) ** 2, ufl.variable(f))),
        ("grad", ufl.grad(f)), ("grad2", ufl.grad(w)), ("div", ufl.div(w)), ("curl", ufl.curl(w)),
        ("nabla_grad", ufl.nabla_grad(w)), ("nabla_div", ufl.nabla_div(w)), ("dx", f.dx(0)),
        ("refgrad", ufl.classes.ReferenceGrad(f)), ("refdiv", ufl.classes.ReferenceDiv(w)),
        ("refvalue", ufl.classes.ReferenceValue(f)),
        ("inner", ufl.inner(w, z)), ("dot", ufl.dot(A, w)), ("outer", ufl.outer(w, z)), ("cross", ufl.cross(
            as_vector([f, g, c]), as_vector([g, c, f]))), ("perp", ufl.perp(w)),
        ("transposed", ufl.transpose(A)), ("tr", ufl.tr(A)), ("det", ufl.det(A)), ("inv", ufl.inv(A)),
        ("dev", ufl.dev(A)), ("skew", ufl.skew(A)), ("sym", ufl.sym(A)), ("cofac", ufl.cofac(A)),
        ("det_sum", ufl.det(A + B)), ("det_scaled", 2 * ufl.det(A)),
        ("indexed", w[0]), ("indexed_free", A[i, j] * B[i, j]), ("indexsum", w[i] * z[i]),
        ("componenttensor", M), ("componenttensor_T", as_tensor(A[i, j], (j, i))),
        ("ct_of_product", as_tensor(f * A[i, j], (i, j))), ("ct_vector", as_vector(w[i] * f, i)),
        ("transpose_ct", ufl.transpose(M)), ("listtensor", as_vector([f, g])), ("listmatrix", as_matrix([[f, g], [c, f]])),
        ("listtensor_rows", as_tensor([A[0, :], A[1, :]])),
        ("restricted", f("+")), ("restricted_grad", ufl.grad(f)("-")), ("jump", ufl.jump(f)), ("avg", ufl.avg(f)),
        ("cell_avg", ufl.cell_avg(f)), ("facet_avg", ufl.facet_avg(f)),
        ("derivative", ufl.derivative(f * f * ufl.dx(m), f).integrals()[0].integrand()),
        ("zero", Zero()), ("zero_vec", Zero((2,))), ("zero_fi", 0 * w[k]), ("one", ufl.as_ufl(1)), ("two_five", ufl.as_ufl(2.5)),
        ("identity", ufl.Identity(2)), ("x", x), ("n", n), ("f", f), ("w", w), ("A", A), ("c", c), ("u", u), ("v", v),
        ("exprlist", ufl.classes.ExprList(f, g)),
    ]
    return Z


def harvest(Z):
    """All distinct nodes below the zoo expressions (operators and terminals), by identity."""
    seen, out, stack = set(), [], [e for _, e in Z]
    while stack:
        e = stack.pop()
        if id(e) in seen or not isinstance(e, Expr):
            continue
        seen.add(id(e))
        out.append(e)
        stack.extend(e.ufl_operands)
    return out


def fingerprint(e):
    try:
        return (type(e).__name__, tuple(id(o) for o in e.ufl_operands))
    except Exception as ex:     # noqa: BLE001
        return ("ERR", type(ex).__name__)


def short(e):
    try:
        s = str(e)
    except RecursionError:
        s = "<cyclic>"
    except Exception:    # noqa: BLE001
        s = "<?>"
    return f"{type(e).__name__}: {s[:70]}"


WRAPPERS = [
    ("abs", abs), ("conj", ufl.conj), ("real", ufl.real), ("imag", ufl.imag), ("neg", lambda x: -x),
    ("det", ufl.det), ("tr", ufl.tr), ("transpose", ufl.transpose), ("inv", ufl.inv), ("dev", ufl.dev),
    ("skew", ufl.skew), ("sym", ufl.sym), ("cofac", ufl.cofac), ("perp", ufl.perp), ("sqrt", ufl.sqrt),
    ("exp", ufl.exp), ("ln", ufl.ln), ("sin", ufl.sin), ("cos", ufl.cos), ("grad", ufl.grad), ("div", ufl.div),
    ("curl", ufl.curl), ("nabla_grad", ufl.nabla_grad), ("nabla_div", ufl.nabla_div),
    ("cell_avg", ufl.cell_avg), ("facet_avg", ufl.facet_avg), ("variable", ufl.variable),
    ("plus", lambda x: x("+")), ("as_tensor", lambda x: as_tensor(x)), ("as_ufl", ufl.as_ufl),
    ("elem_mult", lambda x: ufl.elem_mult(x, x)), ("inner", lambda x: ufl.inner(x, x)),
    ("outer", lambda x: ufl.outer(x, x)), ("dot", lambda x: ufl.dot(x, x)), ("times0", lambda x: 0 * x),
    ("times1", lambda x: 1 * x), ("plus0", lambda x: x + 0), ("div1", lambda x: x / 1), ("pow1", lambda x: x ** 1),
    ("diag", ufl.diag), ("diag_vector", ufl.diag_vector), ("exterior_derivative", None),
]


def run_probes(seed=0, limit_candidates=70):
    """-> (number of constructor calls, list of failures).  A failure is a dict with the call and the node
    whose operands changed."""
    Z = zoo(seed)
    nodes = harvest(Z)
    base_repr = {name: repr(e) for name, e in Z}
    fp = {id(n): fingerprint(n) for n in nodes}
    saved = {id(n): (n, n.ufl_operands, getattr(n, "_hash", None)) for n in nodes if not n._ufl_is_terminal_}
    failures, calls = [], [0]

    import signal

    class Timeout(Exception):
        pass

    def on_alarm(signum, frame):
        raise Timeout()
    old_handler = signal.signal(signal.SIGALRM, on_alarm)

    def check(desc, involved):
        bad = []
        stack, seen = list(involved), set()
        while stack:
            o = stack.pop()
            if not isinstance(o, Expr) or id(o) in seen:
                continue
            seen.add(id(o))
            if id(o) in fp:
                now = fingerprint(o)
                if now != fp[id(o)]:
                    bad.append(o)
                    continue            # do not descend into a possibly cyclic node
                stack.extend(o.ufl_operands)
        for o in bad:
            failures.append({"call": desc, "changed_node": short(o),
                             "self_referential": any(x is o for x in o.ufl_operands),
                             "operands_before": fp[id(o)][1], "operands_after": fingerprint(o)[1]})
            # repair the node so that later probes do not run into the cycle
            if id(o) in saved:
                try:
                    o.ufl_operands = saved[id(o)][1]
                    o._hash = saved[id(o)][2]
                except Exception:    # noqa: BLE001
                    fp[id(o)] = fingerprint(o)

    def attempt(desc, fn, involved):
        calls[0] += 1
        import time as _t
        import os as _os
        _t0 = _t.time()
        if _os.environ.get("C27_CTOR_TRACE"):
            with open(_os.environ["C27_CTOR_TRACE"], "a") as _f:
                _f.write(desc + "\n")
        signal.setitimer(signal.ITIMER_REAL, 5.0)
        try:
            r = fn()
        except Timeout:
            r = None
            failures.append({"call": desc, "changed_node": "(call did not terminate within 5 s)"})
        except RecursionError:
            r = None
        except (KeyboardInterrupt, SystemExit):
            raise
        except BaseException:    # noqa: BLE001   (invalid operand combinations are expected)
            r = None
        finally:
            signal.setitimer(signal.ITIMER_REAL, 0)
        if _t.time() - _t0 > 0.3:
            slow.append((round(_t.time() - _t0, 2), desc))
        check(desc, list(involved) + ([r] if isinstance(r, Expr) else []))

    slow = []
    run_probes.slow = slow
    cands = nodes[:limit_candidates] if len(nodes) > limit_candidates else nodes
    # prefer one candidate per class first
    by_cls = {}
    for n_ in nodes:
        by_cls.setdefault(type(n_), n_)
    cands = list(by_cls.values()) + [n_ for n_ in cands if n_ not in by_cls.values()]
    cands = cands[:limit_candidates]
    names = {id(e): nm for nm, e in Z}

    def nm(e):
        return names.get(id(e), short(e))

    # 1. class constructors: C on instances of C, operand substitution
    for x in nodes:
        if x._ufl_is_terminal_:
            continue
        C = type(x)
        ops = list(x.ufl_operands)
        if len(ops) == 1:
            attempt(f"{C.__name__}({nm(x)})   [the class applied to an instance of itself]", lambda: C(x), [x])
        attempt(f"{C.__name__}(*operands of {nm(x)})   [reconstruction]", lambda: C(*ops), [x] + ops)
        if C.__name__.startswith("Bessel"):
            continue        # float(nu) of a symbolic nu recurses in C and crashes the interpreter (not our property)
        for kpos in range(len(ops)):
            for y in cands:
                if isinstance(y, MultiIndex) != isinstance(ops[kpos], MultiIndex):
                    continue
                args = ops[:kpos] + [y] + ops[kpos + 1:]
                attempt(f"{C.__name__}({', '.join(nm(a) for a in args)})", lambda: C(*args), [x, y] + ops)
    # 2. eta expansions / inverse constructions
    for a in nodes:
        try:
            sh = a.ufl_shape
            fi = a.ufl_free_indices
        except Exception:    # noqa: BLE001
            continue
        if sh and not fi and len(sh) <= 3:
            ii = tuple(Index() for _ in sh)
            mi = MultiIndex(ii)
            attempt(f"ComponentTensor(Indexed({nm(a)}, ii), ii)", lambda: ComponentTensor(Indexed(a, mi), mi), [a])
            attempt(f"as_tensor({nm(a)}[ii], ii)", lambda: as_tensor(a[ii], ii), [a])
            attempt(f"ListTensor(*[{nm(a)}[k] for k])", lambda: ListTensor(*[a[k_] for k_ in range(sh[0])]), [a])
            if len(sh) == 2:
                attempt(f"ListTensor(*[{nm(a)}[k, :] for k])",
                        lambda: ListTensor(*[a[k_, :] for k_ in range(sh[0])]), [a])
                attempt(f"as_tensor({nm(a)}[j, i], (i, j)) twice",
                        lambda: as_tensor(as_tensor(a[ii[1], ii[0]], ii)[ii[1], ii[0]], ii), [a])
                attempt(f"transpose(transpose({nm(a)}))", lambda: ufl.transpose(ufl.transpose(a)), [a])
        if not sh and not fi:
            attempt(f"{nm(a)} + 0", lambda: a + Zero(), [a])
            attempt(f"Sum({nm(a)}, Zero())", lambda: ufl.classes.Sum(a, Zero()), [a])
            attempt(f"Product({nm(a)}, 1)", lambda: ufl.classes.Product(a, ufl.as_ufl(1)), [a])
            attempt(f"Division({nm(a)}, 1)", lambda: ufl.classes.Division(a, ufl.as_ufl(1)), [a])
            attempt(f"Power({nm(a)}, 1)", lambda: ufl.classes.Power(a, ufl.as_ufl(1)), [a])
            attempt(f"Conditional(c, {nm(a)}, {nm(a)})",
                    lambda: ufl.classes.Conditional(ufl.lt(a, 1), a, a), [a])
    # 3. public wrappers
    for wname, wfn in WRAPPERS:
        if wfn is None:
            continue
        for a in nodes:
            if isinstance(a, MultiIndex):
                continue
            attempt(f"{wname}({nm(a)})", lambda: wfn(a), [a])
    # final: nothing in the zoo changed its repr
    for name, e in Z:
        try:
            r = repr(e)
        except RecursionError:
            r = "<RecursionError>"
        if r != base_repr[name] and not any(f.get("zoo") == name for f in failures):
            failures.append({"call": "(after all probes)", "zoo": name, "changed_node": short(e),
                             "repr_before": base_repr[name][:300], "repr_after": r[:300]})
    signal.signal(signal.SIGALRM, old_handler)
    return calls[0], failures


if __name__ == "__main__":
    import json
    import sys
    import warnings
    warnings.simplefilter("ignore")
    seed = int(sys.argv[1]) if len(sys.argv) > 1 else 0
    ncalls, fails = run_probes(seed)
    json.dump({"calls": ncalls, "failures": fails[:40], "n_failures": len(fails),
               "protocol": protocol_table(), "slow": getattr(run_probes, "slow", [])[:10]}, sys.stdout, default=str)
