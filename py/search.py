"""Search for concrete failing inputs on the real implementation (never a proof; used only after
an obligation or a correspondence broke, to produce the replay)."""


def value_mismatch(out, inp, trials=40, seed=0, hyps_nonzero=()):
    try:
        import pyden
    except Exception:
        return None
    return pyden.find_mismatch(out, inp, trials=trials, seed=seed)
