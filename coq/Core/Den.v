(* Denotation of UFL expressions in an arbitrary UFL algebra.
   den env D DX side rho e c  =  the value of component c of e, where
     env  : side -> kind -> id -> component -> K      values of terminals
     D j  : the j-th physical spatial derivative (any function K -> K; theorems that need the
            Leibniz rule assume [Derivation (D j)])
     DX j : the j-th reference derivative
     side : restriction context (None outside any restriction)
     rho  : valuation of free indices *)
Require Export UFLV.Core.Syntax.

Section Den.
Variable A : ualg.
Open Scope K_scope.

Definition side := option bool.
Variable env : side -> nat -> nat -> list nat -> A.
Variable D DX : nat -> A -> A.
Variable ki : A.           (* the imaginary unit used by complex literals *)

Definition upd (rho : nat -> nat) (i k : nat) : nat -> nat :=
  fun j => if Nat.eqb j i then k else rho j.
Fixpoint upds (rho : nat -> nat) (ix : list (nat * nat)) (c : list nat) : nat -> nat :=
  match ix, c with
  | (i, _) :: ix', k :: c' => upds (upd rho i k) ix' c'
  | _, _ => rho
  end.
Definition idxval (rho : nat -> nat) (i : idx) : nat :=
  match i with Fixed n => n | Free j => rho j end.

Definition kdyad (m e : Z) : A :=
  match e with
  | Z0 => of_Z m
  | Zpos p => of_Z m * of_pos (2 ^ p)
  | Zneg p => of_Z m / of_pos (2 ^ p)
  end.

(* sign of the sequence c as a permutation of 0..n-1: 0 if an entry repeats *)
Fixpoint inversions_of (x : nat) (l : list nat) : nat :=
  match l with [] => 0 | y :: t => ((if Nat.ltb y x then 1 else 0) + inversions_of x t)%nat end.
Fixpoint has_dup (l : list nat) : bool :=
  match l with [] => false | x :: t => existsb (Nat.eqb x) t || has_dup t end.
Fixpoint inversions (l : list nat) : nat :=
  match l with [] => 0 | x :: t => (inversions_of x t + inversions t)%nat end.
Definition perm_sign (c : list nat) : A :=
  if has_dup c then k0 else if Nat.even (inversions c) then k1 else - k1.

Definition split_last (c : list nat) : list nat * nat := (removelast c, last c 0).

(* sum over all multi-components of a shape *)
Fixpoint ksum_shape (sh : list nat) (f : list nat -> A) : A :=
  match sh with
  | [] => f []
  | d :: s => ksum d (fun k => ksum_shape s (fun c => f (k :: c)))
  end.

(* determinant by expansion along the first row; minors by index skipping *)
Definition skip (i r : nat) : nat := if Nat.ltb r i then r else S r.
Definition minor (M : nat -> nat -> A) (i j : nat) : nat -> nat -> A :=
  fun r c => M (skip i r) (skip j c).
Definition sgn (n : nat) : A := if Nat.even n then k1 else - k1.
Fixpoint det (n : nat) (M : nat -> nat -> A) : A :=
  match n with
  | O => k1
  | S m => ksum (S m) (fun j => sgn j * M 0 j * det m (minor M 0 j))
  end.
Definition cofactor (n : nat) (M : nat -> nat -> A) (i j : nat) : A :=
  match n with O => k1 | S m => sgn (i + j)%nat * det m (minor M i j) end.
Definition adjugate (n : nat) (M : nat -> nat -> A) (i j : nat) : A := cofactor n M j i.
(* Gram matrix M^T M of an m x n matrix *)
Definition gram (m : nat) (M : nat -> nat -> A) : nat -> nat -> A :=
  fun i j => ksum m (fun k => M k i * M k j).

Definition matrix_of (f : list nat -> A) : nat -> nat -> A := fun i j => f [i; j].

Fixpoint den (s : side) (rho : nat -> nat) (e : expr) (c : list nat) {struct e} : A :=
  match e with
  | Zero _ _ => k0
  | IntV z => of_Z z
  | RealV m e => kdyad m e
  | CplxV rm re im ie => kdyad rm re + ki * kdyad im ie
  | RatV p q => of_Z p / of_pos q
  | Identity _ => match c with [i; j] => if Nat.eqb i j then k1 else k0 | _ => k0 end
  | PermSym _ => perm_sign c
  | Term k id _ => env s k id c
  | Sum a b => den s rho a c + den s rho b c
  | Product a b => den s rho a [] * den s rho b []
  | Division a b => den s rho a [] / den s rho b []
  | Power a b =>
      match b with
      | IntV Z0 => k1
      | IntV (Zpos p) => kpown (den s rho a []) (Pos.to_nat p)
      | _ => kpow (den s rho a []) (den s rho b [])
      end
  | Abs a => kabs (den s rho a c)
  | Conj a => kconj (den s rho a c)
  | Real a => kre (den s rho a c)
  | Imag a => kim (den s rho a c)
  | Indexed a mi => den s rho a (map (idxval rho) mi)
  | IndexSum a i d => ksum d (fun k => den s (upd rho i k) a c)
  | ComponentTensor a ix => den s (upds rho ix c) a []
  | ListTensor es =>
      match c with
      | [] => k0
      | k :: c' =>
          (fix nth_den (l : list expr) (n : nat) {struct l} : A :=
             match l, n with
             | [], _ => k0
             | e0 :: _, O => den s rho e0 c'
             | _ :: t, S n' => nth_den t n'
             end) es k
      end
  | Conditional cnd t f => kcond (denc s rho cnd) (den s rho t c) (den s rho f c)
  | MinV a b => kmin (den s rho a []) (den s rho b [])
  | MaxV a b => kmax (den s rho a []) (den s rho b [])
  | Math f a => kfn f (den s rho a [])
  | Atan2 a b => katan2 (den s rho a []) (den s rho b [])
  | Bessel k nu a => kbessel k (den s rho nu []) (den s rho a [])
  | Vari a _ => den s rho a c
  | Restricted p a => den (Some p) rho a c
  | Grad a _ => let (c', j) := split_last c in D j (den s rho a c')
  | RefGrad a _ => let (c', j) := split_last c in DX j (den s rho a c')
  | Div a g => ksum g (fun j => D j (den s rho a (c ++ [j])))
  | NablaGrad a _ => match c with j :: c' => D j (den s rho a c') | [] => k0 end
  | NablaDiv a g => ksum g (fun j => D j (den s rho a (j :: c)))
  | Curl a =>
      match shape a, c with
      | [], [i] =>          (* 2D curl of a scalar: (df/dy, -df/dx) *)
          if Nat.eqb i 0 then D 1 (den s rho a []) else - D 0 (den s rho a [])
      | [2], [] => D 0 (den s rho a [1]) - D 1 (den s rho a [0])
      | _, [i] => D ((i + 1) mod 3)%nat (den s rho a [((i + 2) mod 3)%nat])
                  - D ((i + 2) mod 3)%nat (den s rho a [((i + 1) mod 3)%nat])
      | _, _ => k0
      end
  | RefValue a _ => den s rho a c
  | Transposed a => den s rho a (rev c)
  | Outer a b =>
      let ra := length (shape a) in
      kconj (den s rho a (firstn ra c)) * den s rho b (skipn ra c)
  | Inner a b => ksum_shape (shape a) (fun I => den s rho a I * kconj (den s rho b I))
  | Dot a b =>
      let ra := (length (shape a) - 1)%nat in
      ksum (last (shape a) 0)
           (fun k => den s rho a (firstn ra c ++ [k]) * den s rho b (k :: skipn ra c))
  | Cross a b =>
      match c with
      | [i] => den s rho a [((i + 1) mod 3)%nat] * den s rho b [((i + 2) mod 3)%nat]
               - den s rho a [((i + 2) mod 3)%nat] * den s rho b [((i + 1) mod 3)%nat]
      | _ => k0
      end
  | Perp a => match c with
              | [0] => - den s rho a [1]
              | [1] => den s rho a [0]
              | _ => k0
              end
  | Trace a => ksum (hd 0 (shape a)) (fun i => den s rho a [i; i])
  | Determinant a =>
      match shape a with
      | [] => den s rho a []
      | [m; n] => if Nat.eqb m n then det n (matrix_of (den s rho a))
                  else kfn FSqrt (det n (gram m (matrix_of (den s rho a))))
      | _ => k0
      end
  | Inverse a =>
      match shape a, c with
      | [], _ => k1 / den s rho a []
      | [m; n], [i; j] =>
          if Nat.eqb m n then adjugate n (matrix_of (den s rho a)) i j / det n (matrix_of (den s rho a))
          else (* pseudo-inverse (A^T A)^-1 A^T *)
            let G := gram m (matrix_of (den s rho a)) in
            ksum n (fun k => adjugate n G i k / det n G * den s rho a [j; k])
      | _, _ => k0
      end
  | Cofactor a =>
      match shape a, c with
      | [_; n], [i; j] => cofactor n (matrix_of (den s rho a)) i j
      | _, _ => k0
      end
  | Deviatoric a =>
      match shape a, c with
      | [_; n], [i; j] =>
          den s rho a [i; j]
          - (if Nat.eqb i j then ksum n (fun k => den s rho a [k; k]) / of_nat n else k0)
      | _, _ => k0
      end
  | Skew a => match c with
              | [i; j] => (den s rho a [i; j] - den s rho a [j; i]) / (k1 + k1)
              | _ => k0
              end
  | Sym a => match c with
             | [i; j] => (den s rho a [i; j] + den s rho a [j; i]) / (k1 + k1)
             | _ => k0
             end
  end
with denc (s : side) (rho : nat -> nat) (cn : cond) {struct cn} : B A :=
  match cn with
  | Cmp op a b => bcmp op (den s rho a []) (den s rho b [])
  | AndC a b => band (denc s rho a) (denc s rho b)
  | OrC a b => bor (denc s rho a) (denc s rho b)
  | NotC a => bnot (denc s rho a)
  end.

End Den.

Arguments den {_}. Arguments denc {_}. Arguments upd _ _ _ _ /. Arguments idxval _ _ /.
Arguments det {_}. Arguments adjugate {_}. Arguments cofactor {_}. Arguments gram {_}.
Arguments minor {_}. Arguments matrix_of {_}. Arguments ksum_shape {_}. Arguments kdyad {_}.
Arguments perm_sign {_}. Arguments sgn {_}.
