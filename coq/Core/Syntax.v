(* Deep embedding of UFL expressions: one constructor per concrete Expr node class that the
   serializer py/ufl2coq.py emits (the serializer is fail-closed on anything else). *)
Require Export UFLV.Core.Alg.

Inductive idx := Fixed (n : nat) | Free (i : nat).

Inductive expr :=
 | Zero (sh : list nat) (fi : list (nat * nat))
 | IntV (z : Z)
 | RealV (m e : Z)                      (* the binary64 value m * 2^e, exact *)
 | CplxV (rm re im ie : Z)              (* rm*2^re + i * im*2^ie *)
 | RatV (p : Z) (q : positive)          (* float literal recognised as the rational p/q (ufl2coq.py) *)
 | Identity (n : nat)
 | PermSym (n : nat)
 | Term (k id : nat) (sh : list nat)    (* terminal of kind k (see ufl2coq.KINDS), number id *)
 | Sum (a b : expr) | Product (a b : expr) | Division (a b : expr) | Power (a b : expr)
 | Abs (a : expr) | Conj (a : expr) | Real (a : expr) | Imag (a : expr)
 | Indexed (a : expr) (mi : list idx)
 | IndexSum (a : expr) (i d : nat)
 | ComponentTensor (a : expr) (ix : list (nat * nat))     (* (index id, dimension) *)
 | ListTensor (es : list expr)
 | Conditional (c : cond) (t f : expr)
 | MinV (a b : expr) | MaxV (a b : expr)
 | Math (f : mathfn) (a : expr) | Atan2 (a b : expr) | Bessel (k : bkind) (nu a : expr)
 | Vari (a : expr) (label : nat)
 | Restricted (plus : bool) (a : expr)
 | Grad (a : expr) (g : nat) | RefGrad (a : expr) (t : nat)
 | Div (a : expr) (g : nat) | NablaGrad (a : expr) (g : nat) | NablaDiv (a : expr) (g : nat)
 | Curl (a : expr)
 | RefValue (a : expr) (sh : list nat)
 | Transposed (a : expr) | Outer (a b : expr) | Inner (a b : expr) | Dot (a b : expr)
 | Cross (a b : expr) | Perp (a : expr) | Trace (a : expr) | Determinant (a : expr)
 | Inverse (a : expr) | Cofactor (a : expr) | Deviatoric (a : expr) | Skew (a : expr) | Sym (a : expr)
with cond :=
 | Cmp (op : cmpop) (a b : expr)
 | AndC (a b : cond) | OrC (a b : cond) | NotC (a : cond).

(* ufl_shape *)
Fixpoint shape (e : expr) : list nat :=
  match e with
  | Zero sh _ => sh
  | IntV _ | RealV _ _ | CplxV _ _ _ _ | RatV _ _ => []
  | Identity n => [n; n]
  | PermSym n => repeat n n
  | Term _ _ sh => sh
  | Sum a _ => shape a
  | Product _ _ | Division _ _ | Power _ _ => []
  | Abs a | Conj a | Real a | Imag a => shape a
  | Indexed _ _ => []
  | IndexSum a _ _ => shape a
  | ComponentTensor _ ix => map snd ix
  | ListTensor es => length es :: match es with e :: _ => shape e | [] => [] end
  | Conditional _ t _ => shape t
  | MinV _ _ | MaxV _ _ => []
  | Math _ _ | Atan2 _ _ | Bessel _ _ _ => []
  | Vari a _ => shape a
  | Restricted _ a => shape a
  | Grad a g => shape a ++ [g]
  | RefGrad a t => shape a ++ [t]
  | Div a _ => removelast (shape a)
  | NablaGrad a g => g :: shape a
  | NablaDiv a _ => tl (shape a)
  | Curl a => match shape a with [] => [2] | [2] => [] | _ => [3] end
  | RefValue _ sh => sh
  | Transposed a => rev (shape a)
  | Outer a b => shape a ++ shape b
  | Inner _ _ => []
  | Dot a b => removelast (shape a) ++ tl (shape b)
  | Cross _ _ => [3]
  | Perp _ => [2]
  | Trace _ | Determinant _ => []
  | Inverse a => rev (shape a)
  | Cofactor a | Deviatoric a | Skew a | Sym a => shape a
  end.

(* sorted association lists index id -> dimension (ufl_free_indices / ufl_index_dimensions) *)
Fixpoint fi_insert (i d : nat) (l : list (nat * nat)) : list (nat * nat) :=
  match l with
  | [] => [(i, d)]
  | (j, e) :: t => if Nat.ltb i j then (i, d) :: l
                   else if Nat.eqb i j then l else (j, e) :: fi_insert i d t
  end.
Definition fi_merge (l1 l2 : list (nat * nat)) : list (nat * nat) :=
  fold_left (fun acc p => fi_insert (fst p) (snd p) acc) l1 l2.
Definition fi_remove (i : nat) (l : list (nat * nat)) : list (nat * nat) :=
  filter (fun p => negb (Nat.eqb (fst p) i)) l.

Fixpoint mi_free (mi : list idx) (sh : list nat) : list (nat * nat) :=
  match mi, sh with
  | Free i :: t, d :: s => fi_insert i d (mi_free t s)
  | _ :: t, _ :: s => mi_free t s
  | _, _ => []
  end.

Fixpoint fidx (e : expr) : list (nat * nat) :=
  match e with
  | Zero _ fi => fi
  | IntV _ | RealV _ _ | CplxV _ _ _ _ | RatV _ _ | Identity _ | PermSym _ | Term _ _ _ => []
  | Sum a _ => fidx a
  | Product a b | Division a b | Power a b => fi_merge (fidx a) (fidx b)
  | Abs a | Conj a | Real a | Imag a => fidx a
  | Indexed a mi => fi_merge (fidx a) (mi_free mi (shape a))
  | IndexSum a i _ => fi_remove i (fidx a)
  | ComponentTensor a ix => fold_left (fun acc p => fi_remove (fst p) acc) ix (fidx a)
  | ListTensor es => match es with e :: _ => fidx e | [] => [] end
  | Conditional _ t _ => fidx t
  | MinV a b | MaxV a b | Atan2 a b => fi_merge (fidx a) (fidx b)
  | Bessel _ _ a => fidx a
  | Math _ a => fidx a
  | Vari a _ | Restricted _ a => fidx a
  | Grad a _ | RefGrad a _ | Div a _ | NablaGrad a _ | NablaDiv a _ | Curl a | RefValue a _ => fidx a
  | Transposed a | Perp a | Trace a | Determinant a | Inverse a | Cofactor a | Deviatoric a
  | Skew a | Sym a => fidx a
  | Outer a b | Inner a b | Dot a b | Cross a b => fi_merge (fidx a) (fidx b)
  end.

(* number of nodes (tree size) *)
Fixpoint size (e : expr) : nat :=
  match e with
  | Zero _ _ | IntV _ | RealV _ _ | CplxV _ _ _ _ | RatV _ _ | Identity _ | PermSym _ | Term _ _ _ => 1
  | Sum a b | Product a b | Division a b | Power a b | MinV a b | MaxV a b | Atan2 a b
  | Bessel _ a b | Outer a b | Inner a b | Dot a b | Cross a b => S (size a + size b)
  | Abs a | Conj a | Real a | Imag a | Indexed a _ | IndexSum a _ _ | ComponentTensor a _
  | Math _ a | Vari a _ | Restricted _ a | Grad a _ | RefGrad a _ | Div a _ | NablaGrad a _
  | NablaDiv a _ | Curl a | RefValue a _ | Transposed a | Perp a | Trace a | Determinant a
  | Inverse a | Cofactor a | Deviatoric a | Skew a | Sym a => S (size a)
  | ListTensor es => S ((fix go (l : list expr) := match l with [] => 0 | e :: t => size e + go t end) es)
  | Conditional c t f => S (csize c + size t + size f)
  end
with csize (c : cond) : nat :=
  match c with
  | Cmp _ a b => S (size a + size b)
  | AndC a b | OrC a b => S (csize a + csize b)
  | NotC a => S (csize a)
  end.
