(* The "UFL algebra": the abstract structure in which UFL expressions take values.
   Everything is a record field or a predicate over it: nothing is postulated, every
   theorem of the development quantifies over an arbitrary [ualg]. *)
Require Export ZArith Ring Field List Lia Bool.
Export ListNotations.

Inductive mathfn := FSqrt | FExp | FLn | FCos | FSin | FTan | FCosh | FSinh | FTanh
                  | FAcos | FAsin | FAtan | FErf.
Inductive cmpop := CEQ | CNE | CLT | CGT | CLE | CGE.
Inductive bkind := BJ | BY | BI | BK.

Record ualg := {
  K :> Type;
  k0 : K; k1 : K;
  kadd : K -> K -> K; kmul : K -> K -> K; ksub : K -> K -> K; kopp : K -> K;
  kdiv : K -> K -> K; kinv : K -> K;
  kfield : field_theory k0 k1 kadd kmul ksub kopp kdiv kinv (@eq K);
  (* complex structure *)
  kconj : K -> K; kre : K -> K; kim : K -> K; kabs : K -> K;
  (* function symbols *)
  kfn : mathfn -> K -> K;
  kpow : K -> K -> K;
  katan2 : K -> K -> K;
  kbessel : bkind -> K -> K -> K;
  (* conditions ("regions") *)
  B : Type;
  bcmp : cmpop -> K -> K -> B; band : B -> B -> B; bor : B -> B -> B; bnot : B -> B;
  kcond : B -> K -> K -> K;
  kmin : K -> K -> K; kmax : K -> K -> K;
}.

Arguments k0 {_}. Arguments k1 {_}. Arguments kadd {_}. Arguments kmul {_}. Arguments ksub {_}.
Arguments kopp {_}. Arguments kdiv {_}. Arguments kinv {_}. Arguments kconj {_}. Arguments kre {_}.
Arguments kim {_}. Arguments kabs {_}. Arguments kfn {_}. Arguments kpow {_}. Arguments katan2 {_}.
Arguments kbessel {_}. Arguments bcmp {_}. Arguments band {_}. Arguments bor {_}. Arguments bnot {_}.
Arguments kcond {_}. Arguments kmin {_}. Arguments kmax {_}.

Declare Scope K_scope.
Delimit Scope K_scope with K.
Bind Scope K_scope with K.
Notation "x + y" := (kadd x y) : K_scope.
Notation "x * y" := (kmul x y) : K_scope.
Notation "x - y" := (ksub x y) : K_scope.
Notation "- x" := (kopp x) : K_scope.
Notation "x / y" := (kdiv x y) : K_scope.

Section Basics.
Variable A : ualg.
Add Field Af0 : (kfield A).
Open Scope K_scope.

(* integer literals, binary so that large literals stay small terms *)
Fixpoint of_pos (p : positive) : A :=
  match p with
  | xH => k1
  | xO q => (k1 + k1) * of_pos q
  | xI q => k1 + (k1 + k1) * of_pos q
  end.
Definition of_Z (z : Z) : A :=
  match z with Z0 => k0 | Zpos p => of_pos p | Zneg p => - of_pos p end.
Definition of_nat (n : nat) : A := of_Z (Z.of_nat n).

(* sum_{k<n} f k *)
Fixpoint ksum (n : nat) (f : nat -> A) : A :=
  match n with O => k0 | S m => ksum m f + f m end.

(* natural power *)
Fixpoint kpown (x : A) (n : nat) : A :=
  match n with O => k1 | S m => x * kpown x m end.

Lemma of_pos_add p q : of_pos (p + q) = of_pos p + of_pos q.
Proof.
  revert q; induction p as [p IH|p IH|]; intros q; destruct q as [q|q|]; cbn [of_pos Pos.add];
  rewrite ?Pos.add_carry_spec, ?Pos.add_1_r, ?Pos.add_1_l; cbn [of_pos].
  - replace (Pos.succ (p+q)) with (p + Pos.succ q)%positive by lia. rewrite IH.
    replace (Pos.succ q) with (q+1)%positive by lia.
    assert (H: forall r, of_pos (r+1) = of_pos r + k1).
    { clear. induction r; cbn [of_pos Pos.add]; try ring.
      replace (Pos.succ r) with (r+1)%positive by lia. rewrite IHr. ring. }
    rewrite H. ring.
  - rewrite IH. ring.
  - assert (H: forall r, of_pos (Pos.succ r) = of_pos r + k1).
    { clear. induction r; cbn [of_pos Pos.succ]; try ring. rewrite IHr. ring. }
    rewrite H. ring.
  - rewrite IH. ring.
  - rewrite IH. ring.
  - ring.
  - assert (H: forall r, of_pos (Pos.succ r) = of_pos r + k1).
    { clear. induction r; cbn [of_pos Pos.succ]; try ring. rewrite IHr. ring. }
    rewrite H. ring.
  - ring.
  - ring.
Qed.

Lemma ksum_ext n f g : (forall k, k < n -> f k = g k) -> ksum n f = ksum n g.
Proof. induction n as [|n IH]; intros H; cbn; [reflexivity|]. rewrite IH, H; auto. Qed.

Lemma ksum_add n f g : ksum n (fun k => f k + g k) = ksum n f + ksum n g.
Proof. induction n as [|n IH]; cbn; [ring|]. rewrite IH. ring. Qed.

Lemma ksum_scal n c f : ksum n (fun k => c * f k) = c * ksum n f.
Proof. induction n as [|n IH]; cbn; [ring|]. rewrite IH. ring. Qed.

Lemma ksum_zero n : ksum n (fun _ => k0) = (k0 : A).
Proof. induction n as [|n IH]; cbn; [reflexivity|]. rewrite IH. ring. Qed.

Lemma ksum_swap n m (f : nat -> nat -> A) :
  ksum n (fun i => ksum m (fun j => f i j)) = ksum m (fun j => ksum n (fun i => f i j)).
Proof.
  induction n as [|n IH]; cbn.
  - rewrite ksum_zero. reflexivity.
  - rewrite IH, <- ksum_add. reflexivity.
Qed.

(* a derivation of the algebra: additive, Leibniz, chain rule for every function symbol *)
Record Derivation (d : A -> A) : Prop := {
  d_add : forall x y, d (x + y) = d x + d y;
  d_mul : forall x y, d (x * y) = d x * y + x * d y;
  d_div : forall x y, d (x / y) = (d x - (x / y) * d y) / y;
  d_conj : forall x, d (kconj x) = kconj (d x);
  d_re : forall x, d (kre x) = kre (d x);
  d_im : forall x, d (kim x) = kim (d x);
  d_cond : forall b x y, d (kcond b x y) = kcond b (d x) (d y);
}.

Lemma self_double (x : A) : x = x + x -> x = k0.
Proof. intros E. transitivity (x + x - x); [ring|]. rewrite <- E. ring. Qed.
Lemma d_zero d : Derivation d -> d k0 = k0.
Proof. intros H. apply self_double. rewrite <- (d_add d H). f_equal. ring. Qed.
Lemma d_one d : Derivation d -> d k1 = k0.
Proof. intros H. apply self_double. pose proof (d_mul d H k1 k1) as E.
  replace (k1 * k1) with (k1:A) in E by ring. rewrite E at 1. ring. Qed.
Lemma d_opp d x : Derivation d -> d (- x) = - d x.
Proof. intros H. pose proof (d_add d H x (- x)) as E. replace (x + - x) with (k0:A) in E by ring.
  rewrite (d_zero d H) in E. transitivity (k0 - d x); [rewrite E|]; ring. Qed.
Lemma d_sub d x y : Derivation d -> d (x - y) = d x - d y.
Proof. intros H. replace (x - y) with (x + - y) by ring. rewrite (d_add d H), (d_opp d _ H). ring. Qed.
Lemma d_of_pos d p : Derivation d -> d (of_pos p) = k0.
Proof. intros H. induction p as [p IH|p IH|]; cbn [of_pos];
  repeat first [rewrite (d_add d H) | rewrite (d_mul d H) | rewrite IH | rewrite (d_one d H)]; ring. Qed.
Lemma d_of_Z d z : Derivation d -> d (of_Z z) = k0.
Proof. intros H. destruct z; cbn [of_Z]; rewrite ?(d_opp d _ H), ?(d_of_pos d _ H), ?(d_zero d H); ring. Qed.
Lemma d_ksum d n f : Derivation d -> d (ksum n f) = ksum n (fun k => d (f k)).
Proof. intros H. induction n as [|n IH]; cbn; [apply d_zero; auto|]. rewrite (d_add d H), IH. reflexivity. Qed.

End Basics.

Arguments of_pos {_}. Arguments of_Z {_}. Arguments of_nat {_}. Arguments ksum {_}. Arguments kpown {_}.
Arguments Derivation {_}.
