(* Tactics used by the generated (traced) obligations. *)
Require Export UFLV.Core.Den.

(* Side conditions of [field]: each is [X <> 0]; it is discharged from a hypothesis [H : Y <> 0]
   with Y = X by [ring], or from characteristic zero (X a numeral). *)
Ltac nz_from_hyps :=
  match goal with
  | H : ?Y <> ?z |- ?X <> ?z =>
      let E := fresh "E" in
      intro E; apply H; (transitivity X; [ring | exact E])
  end.

Ltac nz_char0_p char0 p :=
  match goal with
  | |- ?X <> _ =>
      let E := fresh "E" in
      intro E; apply (char0 p); cbn; (transitivity X; [ring | exact E])
  end.

Ltac nz_char0 char0 :=
  first [ nz_char0_p char0 2%positive | nz_char0_p char0 3%positive | nz_char0_p char0 4%positive
        | nz_char0_p char0 6%positive | nz_char0_p char0 1%positive | nz_char0_p char0 5%positive
        | nz_char0_p char0 8%positive | nz_char0_p char0 9%positive | nz_char0_p char0 12%positive
        | nz_char0_p char0 16%positive | nz_char0_p char0 18%positive | nz_char0_p char0 24%positive
        | nz_char0_p char0 27%positive | nz_char0_p char0 32%positive | nz_char0_p char0 36%positive
        | nz_char0_p char0 48%positive | nz_char0_p char0 64%positive | nz_char0_p char0 7%positive
        | nz_char0_p char0 10%positive ].

Ltac nz_solve char0 :=
  repeat match goal with |- _ /\ _ => split end;
  first [ assumption | nz_from_hyps | nz_char0 char0 ].

(* Normalise [den] applications to polynomial expressions over the algebra's operations.  The
   algebra's operations are Section variables in the generated files, so full evaluation stops at
   them. *)
Ltac norm_goal :=
  match goal with
  | |- ?L = ?R =>
      let l := eval vm_compute in L in
      let r := eval vm_compute in R in
      change (l = r)
  end.
Ltac norm_hyp H :=
  match type of H with
  | ?L <> ?R =>
      let l := eval vm_compute in L in
      let r := eval vm_compute in R in
      change (l <> r) in H
  | ?L = ?R =>
      let l := eval vm_compute in L in
      let r := eval vm_compute in R in
      change (l = r) in H
  end.
Ltac ufl_close char0 := norm_goal; first [ reflexivity | ring | field; nz_solve char0 ].
