(* C10 (and C09): hand-written models of the index rewriting passes of UFL and their generic
   traversal combinators.

   [emapM f e]   rebuild e with f applied to every immediate sub-expression (the default
                 `expr = reuse_if_untouched` handler of MultiFunction / map_expr_dag), in the option
                 monad (None = the implementation raises);
   [efold]       fold over the immediate sub-expressions;  [children] lists them;
   [irep m e]    IndexReplacer(fimap=m) applied with map_expr_dag: replaces indices in EVERY
                 MultiIndex, including the binding positions of IndexSum / ComponentTensor, and in
                 the free-index annotation of Zero -- faithful to the code, NOT capture avoiding;
   [rct e]       remove_component_tensors (IndexRemover, post-order);
   renumber_indices is [irep m] for the total injective map m that IndexRelabeller builds. *)
Require Import UFLV.Core.Den.
Import ListNotations.
Definition bind {X Y} (o : option X) (f : X -> option Y) : option Y :=
  match o with Some x => f x | None => None end.
Definition mapM {X Y} (f : X -> option Y) : list X -> option (list Y) :=
  fix go (l : list X) : option (list Y) :=
  match l with
  | [] => Some []
  | x :: t => bind (f x) (fun y => bind (go t) (fun t' => Some (y :: t')))
  end.
Section EMap.
Variable f : expr -> option expr.
Definition ap1 (C : expr -> expr) a := bind (f a) (fun a' => Some (C a')).
Definition ap2 (C : expr -> expr -> expr) a b :=
  bind (f a) (fun a' => bind (f b) (fun b' => Some (C a' b'))).
Fixpoint cmapM (c : cond) : option cond :=
  match c with
  | Cmp op a b => bind (f a) (fun a' => bind (f b) (fun b' => Some (Cmp op a' b')))
  | AndC a b => bind (cmapM a) (fun a' => bind (cmapM b) (fun b' => Some (AndC a' b')))
  | OrC a b => bind (cmapM a) (fun a' => bind (cmapM b) (fun b' => Some (OrC a' b')))
  | NotC a => bind (cmapM a) (fun a' => Some (NotC a'))
  end.
Definition is_lit (e : expr) : bool :=
  match e with IntV _ | RealV _ _ | RatV _ _ | CplxV _ _ _ _ => true | _ => false end.
Definition emapM (e : expr) : option expr :=
  match e with
  | Zero _ _ | IntV _ | RealV _ _ | CplxV _ _ _ _ | RatV _ _ | Identity _ | PermSym _ | Term _ _ _ => Some e
  | Sum a b => ap2 Sum a b
  | Product a b => ap2 Product a b
  | Division a b => ap2 Division a b
  | Power a b => if is_lit b then ap1 (fun a' => Power a' b) a else ap2 Power a b
  | Abs a => ap1 Abs a | Conj a => ap1 Conj a | Real a => ap1 Real a | Imag a => ap1 Imag a
  | Indexed a mi => ap1 (fun a' => Indexed a' mi) a
  | IndexSum a i d => ap1 (fun a' => IndexSum a' i d) a
  | ComponentTensor a ix => ap1 (fun a' => ComponentTensor a' ix) a
  | ListTensor es => bind (mapM f es) (fun es' => Some (ListTensor es'))
  | Conditional c t e0 =>
      bind (cmapM c) (fun c' => bind (f t) (fun t' => bind (f e0) (fun e' => Some (Conditional c' t' e'))))
  | MinV a b => ap2 MinV a b | MaxV a b => ap2 MaxV a b
  | Math g a => ap1 (Math g) a
  | Atan2 a b => ap2 Atan2 a b
  | Bessel k nu a => ap2 (Bessel k) nu a
  | Vari a l => ap1 (fun a' => Vari a' l) a
  | Restricted p a => ap1 (Restricted p) a
  | Grad a g => ap1 (fun a' => Grad a' g) a
  | RefGrad a g => ap1 (fun a' => RefGrad a' g) a
  | Div a g => ap1 (fun a' => Div a' g) a
  | NablaGrad a g => ap1 (fun a' => NablaGrad a' g) a
  | NablaDiv a g => ap1 (fun a' => NablaDiv a' g) a
  | Curl a => ap1 Curl a
  | RefValue a sh => ap1 (fun a' => RefValue a' sh) a
  | Transposed a => ap1 Transposed a
  | Outer a b => ap2 Outer a b | Inner a b => ap2 Inner a b | Dot a b => ap2 Dot a b
  | Cross a b => ap2 Cross a b
  | Perp a => ap1 Perp a | Trace a => ap1 Trace a | Determinant a => ap1 Determinant a
  | Inverse a => ap1 Inverse a | Cofactor a => ap1 Cofactor a | Deviatoric a => ap1 Deviatoric a
  | Skew a => ap1 Skew a | Sym a => ap1 Sym a
  end.
End EMap.


(* ---- fold over the immediate sub-expressions (right nested, ending in u) ---- *)
Section EFold.
Context {X : Type}.
Variables (op : X -> X -> X) (u : X) (f : expr -> X).
Fixpoint cfold (c : cond) (acc : X) : X :=
  match c with
  | Cmp _ a b => op (f a) (op (f b) acc)
  | AndC a b | OrC a b => cfold a (cfold b acc)
  | NotC a => cfold a acc
  end.
Definition efold (e : expr) : X :=
  match e with
  | Zero _ _ | IntV _ | RealV _ _ | CplxV _ _ _ _ | RatV _ _ | Identity _ | PermSym _ | Term _ _ _ => u
  | Sum a b | Product a b | Division a b | Power a b | MinV a b | MaxV a b | Atan2 a b
  | Bessel _ a b | Outer a b | Inner a b | Dot a b | Cross a b => op (f a) (op (f b) u)
  | Abs a | Conj a | Real a | Imag a | Indexed a _ | IndexSum a _ _ | ComponentTensor a _
  | Math _ a | Vari a _ | Restricted _ a | Grad a _ | RefGrad a _ | Div a _ | NablaGrad a _
  | NablaDiv a _ | Curl a | RefValue a _ | Transposed a | Perp a | Trace a | Determinant a
  | Inverse a | Cofactor a | Deviatoric a | Skew a | Sym a => op (f a) u
  | ListTensor es => fold_right (fun a acc => op (f a) acc) u es
  | Conditional c t e0 => cfold c (op (f t) (op (f e0) u))
  end.
End EFold.

Fixpoint cexprs (c : cond) (acc : list expr) : list expr :=
  match c with
  | Cmp _ a b => a :: b :: acc
  | AndC a b | OrC a b => cexprs a (cexprs b acc)
  | NotC a => cexprs a acc
  end.
Definition children (e : expr) : list expr :=
  match e with
  | Zero _ _ | IntV _ | RealV _ _ | CplxV _ _ _ _ | RatV _ _ | Identity _ | PermSym _ | Term _ _ _ => []
  | Sum a b | Product a b | Division a b | Power a b | MinV a b | MaxV a b | Atan2 a b
  | Bessel _ a b | Outer a b | Inner a b | Dot a b | Cross a b => [a; b]
  | Abs a | Conj a | Real a | Imag a | Indexed a _ | IndexSum a _ _ | ComponentTensor a _
  | Math _ a | Vari a _ | Restricted _ a | Grad a _ | RefGrad a _ | Div a _ | NablaGrad a _
  | NablaDiv a _ | Curl a | RefValue a _ | Transposed a | Perp a | Trace a | Determinant a
  | Inverse a | Cofactor a | Deviatoric a | Skew a | Sym a => [a]
  | ListTensor es => es
  | Conditional c t e0 => cexprs c [t; e0]
  end.

(* ---- indices ---- *)
Definition memb (i : nat) (l : list nat) : bool := existsb (Nat.eqb i) l.
Definition idx_eqb (x y : idx) : bool :=
  match x, y with
  | Fixed a, Fixed b => Nat.eqb a b
  | Free a, Free b => Nat.eqb a b
  | _, _ => false
  end.
Definition mi_ids (mi : list idx) : list nat :=
  flat_map (fun x => match x with Free i => [i] | Fixed _ => [] end) mi.

(* free index occurrences (a list; duplicates irrelevant) *)
Fixpoint fv (e : expr) : list nat :=
  match e with
  | Zero _ fi => map fst fi
  | Indexed a mi => fv a ++ mi_ids mi
  | IndexSum a i _ => filter (fun j => negb (Nat.eqb j i)) (fv a)
  | ComponentTensor a ix => filter (fun j => negb (memb j (map fst ix))) (fv a)
  | _ => efold (@app nat) [] fv e
  end.

(* every index id occurring anywhere (free, bound, binding positions) *)
Fixpoint aidx (e : expr) : list nat :=
  match e with
  | Zero _ fi => map fst fi
  | Indexed a mi => aidx a ++ mi_ids mi
  | IndexSum a i _ => i :: aidx a
  | ComponentTensor a ix => map fst ix ++ aidx a
  | _ => efold (@app nat) [] aidx e
  end.

(* the fragment the theorems cover, with rank typing: [rk e n] = e is a node of the index-notation
   fragment (everything that survives apply_algebra_lowering; literal exponents in Power) and may
   be evaluated at components of length n (the recursion follows the components [den] passes
   to the sub-expressions) *)
Fixpoint rk (e : expr) (n : nat) {struct e} : bool :=
  match e with
  | Zero sh _ => Nat.eqb n (length sh)
  | IntV _ | RealV _ _ | CplxV _ _ _ _ | RatV _ _ => Nat.eqb n 0
  | Identity _ => Nat.eqb n 2
  | PermSym d => Nat.eqb n d
  | Term _ _ sh => Nat.eqb n (length sh)
  | Sum a b => rk a n && rk b n
  | Product a b | Division a b | MinV a b | MaxV a b | Atan2 a b | Bessel _ a b =>
      Nat.eqb n 0 && rk a 0 && rk b 0
  | Power a b => Nat.eqb n 0 && is_lit b && rk a 0
  | Abs a | Conj a | Real a | Imag a | Vari a _ | Restricted _ a | RefValue a _ => rk a n
  | Indexed a mi => Nat.eqb n 0 && rk a (length mi)
  | IndexSum a _ _ => rk a n
  | ComponentTensor a ix => Nat.eqb n (length ix) && rk a 0
  | ListTensor es => match n with 0 => false | S n' => forallb (fun x => rk x n') es end
  | Conditional c t f => crk c && rk t n && rk f n
  | Math _ a => Nat.eqb n 0 && rk a 0
  | Grad a _ | RefGrad a _ => match n with 0 => false | S n' => rk a n' end
  | _ => false
  end
with crk (c : cond) : bool :=
  match c with
  | Cmp _ a b => rk a 0 && rk b 0
  | AndC a b | OrC a b => crk a && crk b
  | NotC a => crk a
  end.
Definition frag (e : expr) : bool := rk e (length (shape e)).

(* hygiene: no binder re-binds an index in bs (the indices bound above or free in the whole
   expression); the indices of a ComponentTensor are pairwise distinct *)
Fixpoint nodupb (l : list nat) : bool :=
  match l with [] => true | x :: t => negb (memb x t) && nodupb t end.
Fixpoint hyg (bs : list nat) (e : expr) : bool :=
  match e with
  | IndexSum a i _ => negb (memb i bs) && hyg (i :: bs) a
  | ComponentTensor a ix =>
      forallb (fun j => negb (memb j bs)) (map fst ix) && nodupb (map fst ix)
      && hyg (map fst ix ++ bs) a
  | _ => efold andb true (hyg bs) e
  end.
Definition hygienic (e : expr) : bool := hyg (fv e) e.

(* ---- IndexReplacer ---- *)
Definition imap := list (nat * idx).
Fixpoint lookup (m : imap) (i : nat) : option idx :=
  match m with
  | [] => None
  | (j, x) :: t => if Nat.eqb i j then Some x else lookup t i
  end.
Definition sub (m : imap) (x : idx) : idx :=
  match x with
  | Fixed _ => x
  | Free i => match lookup m i with Some y => y | None => x end
  end.
Definition sub_binder (m : imap) (i : nat) : option nat :=
  match sub m (Free i) with Free j => Some j | Fixed _ => None end.
(* dict(zip(i2, i1)): a later duplicate key wins *)
Fixpoint mkmap (ix : list (nat * nat)) (mi : list idx) : imap :=
  match ix, mi with
  | (i, _) :: ix', x :: mi' => mkmap ix' mi' ++ [(i, x)]
  | _, _ => []
  end.

Definition zero_sub (m : imap) (sh : list nat) (fi : list (nat * nat)) : option expr :=
  if existsb (fun p => match lookup m (fst p) with Some _ => true | None => false end) fi then
    let fi' := fold_right (fun p acc => match sub m (Free (fst p)) with
                                        | Free j => fi_insert j (snd p) acc
                                        | Fixed _ => acc end) [] fi in
    (* since /repo commit 826ad17 an index-free Zero is returned when every free index was
       replaced by a fixed index (before, the unpacking of an empty zip raised ValueError) *)
    Some (Zero sh fi')
  else Some (Zero sh fi).

Fixpoint irep (m : imap) (e : expr) {struct e} : option expr :=
  match e with
  | Zero sh fi => zero_sub m sh fi
  | Indexed a mi => bind (irep m a) (fun a' => Some (Indexed a' (map (sub m) mi)))
  | IndexSum a i d =>
      bind (sub_binder m i) (fun i' => bind (irep m a) (fun a' => Some (IndexSum a' i' d)))
  | ComponentTensor a ix =>
      bind (mapM (fun p => bind (sub_binder m (fst p)) (fun j => Some (j, snd p))) ix)
           (fun ix' => bind (irep m a) (fun a' => Some (ComponentTensor a' ix')))
  | _ => emapM (irep m) e
  end.

(* ---- IndexRemover / remove_component_tensors ---- *)
Fixpoint rct (e : expr) : option expr :=
  match e with
  | Indexed a mi =>
      bind (rct a) (fun a' =>
        match a' with
        | ComponentTensor b ix =>
            if Nat.eqb (length ix) (length mi) then irep (mkmap ix mi) b else None
        | _ => Some (Indexed a' mi)
        end)
  | _ => emapM rct e
  end.

(* ---- capture: when is [irep m] meaning preserving? ----
   dv e: the indices on which the value of e may depend (all indices in Indexed multi-indices).
   A binder i with scope indices l is handled correctly by the substitution m iff its image is an
   index and no OTHER index of the scope is mapped to the same image (no capture, no merging). *)
Fixpoint dv (e : expr) : list nat :=
  match e with
  | Zero _ _ => []
  | Indexed a mi => dv a ++ mi_ids mi
  | _ => efold (@app nat) [] dv e
  end.
Definition is_free (x : idx) : bool := match x with Free _ => true | Fixed _ => false end.
Definition binder_ok (m : imap) (scope : list nat) (i : nat) : bool :=
  is_free (sub m (Free i))
  && forallb (fun j => Nat.eqb j i || negb (idx_eqb (sub m (Free j)) (sub m (Free i)))) scope.
Fixpoint safe (m : imap) (e : expr) : bool :=
  match e with
  | IndexSum a i _ => binder_ok m (dv a) i && safe m a
  | ComponentTensor a ix =>
      forallb (binder_ok m (map fst ix ++ dv a)) (map fst ix) && safe m a
  | _ => efold andb true (safe m) e
  end.
(* every index substitution that remove_component_tensors performs on e is safe *)
Fixpoint rct_safe (e : expr) : bool :=
  match e with
  | Indexed a mi =>
      rct_safe a && match rct a with
                    | Some (ComponentTensor b ix) => safe (mkmap ix mi) b
                    | _ => true
                    end
  | _ => efold andb true rct_safe e
  end.
