(* C23: comparator used by the generated correspondence cases (tie T3): boolean equality of
   expressions modulo the operand order of Sum and Product (their constructors re-sort the operands
   when a node is rebuilt, with a comparator that is the subject of C29, not of C23). *)
Require Import UFLV.Core.Den.
Require Import UFLV.Props.C23_model.
Require Import String.

Fixpoint lnat_eqb (a b : list nat) : bool :=
  match a, b with
  | [], [] => true
  | x :: s, y :: t => Nat.eqb x y && lnat_eqb s t
  | _, _ => false
  end.
Fixpoint lnn_eqb (a b : list (nat * nat)) : bool :=
  match a, b with
  | [], [] => true
  | (x, u) :: s, (y, v) :: t => Nat.eqb x y && Nat.eqb u v && lnn_eqb s t
  | _, _ => false
  end.
Definition idx_eqb (a b : idx) : bool :=
  match a, b with
  | Fixed n, Fixed m => Nat.eqb n m
  | Free n, Free m => Nat.eqb n m
  | _, _ => false
  end.
Fixpoint lidx_eqb (a b : list idx) : bool :=
  match a, b with
  | [], [] => true
  | x :: s, y :: t => idx_eqb x y && lidx_eqb s t
  | _, _ => false
  end.
Definition mathfn_code (f : mathfn) : nat :=
  match f with
  | FSqrt => 0 | FExp => 1 | FLn => 2 | FCos => 3 | FSin => 4 | FTan => 5 | FCosh => 6 | FSinh => 7
  | FTanh => 8 | FAcos => 9 | FAsin => 10 | FAtan => 11 | FErf => 12
  end.
Definition cmpop_code (o : cmpop) : nat :=
  match o with CEQ => 0 | CNE => 1 | CLT => 2 | CGT => 3 | CLE => 4 | CGE => 5 end.
Definition bkind_code (k : bkind) : nat := match k with BJ => 0 | BY => 1 | BI => 2 | BK => 3 end.

Fixpoint eqc (x y : expr) {struct x} : bool :=
  match x with
  | Zero s f => match y with Zero s' f' => lnat_eqb s s' && lnn_eqb f f' | _ => false end
  | IntV a => match y with IntV b => Z.eqb a b | _ => false end
  | RealV m e => match y with RealV m' e' => Z.eqb m m' && Z.eqb e e' | _ => false end
  | CplxV a b c d => match y with CplxV a' b' c' d' => Z.eqb a a' && Z.eqb b b' && Z.eqb c c' && Z.eqb d d' | _ => false end
  | RatV p q => match y with RatV p' q' => Z.eqb p p' && Pos.eqb q q' | _ => false end
  | Identity n => match y with Identity m => Nat.eqb n m | _ => false end
  | PermSym n => match y with PermSym m => Nat.eqb n m | _ => false end
  | Term k i s => match y with Term k' i' s' => Nat.eqb k k' && Nat.eqb i i' && lnat_eqb s s' | _ => false end
  | Sum a b => match y with Sum a' b' => (eqc a a' && eqc b b') || (eqc a b' && eqc b a') | _ => false end
  | Product a b => match y with Product a' b' => (eqc a a' && eqc b b') || (eqc a b' && eqc b a') | _ => false end
  | Division a b => match y with Division a' b' => eqc a a' && eqc b b' | _ => false end
  | Power a b => match y with Power a' b' => eqc a a' && eqc b b' | _ => false end
  | Abs a => match y with Abs a' => eqc a a' | _ => false end
  | Conj a => match y with Conj a' => eqc a a' | _ => false end
  | Real a => match y with Real a' => eqc a a' | _ => false end
  | Imag a => match y with Imag a' => eqc a a' | _ => false end
  | Indexed a mi => match y with Indexed a' mi' => eqc a a' && lidx_eqb mi mi' | _ => false end
  | IndexSum a i d => match y with IndexSum a' i' d' => eqc a a' && Nat.eqb i i' && Nat.eqb d d' | _ => false end
  | ComponentTensor a ix => match y with ComponentTensor a' ix' => eqc a a' && lnn_eqb ix ix' | _ => false end
  | ListTensor es =>
      match y with
      | ListTensor es' =>
          (fix go (l l' : list expr) {struct l} : bool :=
             match l, l' with
             | [], [] => true
             | u :: t, v :: t' => eqc u v && go t t'
             | _, _ => false
             end) es es'
      | _ => false
      end
  | Conditional c t f => match y with Conditional c' t' f' => eqcc c c' && eqc t t' && eqc f f' | _ => false end
  | MinV a b => match y with MinV a' b' => eqc a a' && eqc b b' | _ => false end
  | MaxV a b => match y with MaxV a' b' => eqc a a' && eqc b b' | _ => false end
  | Math f a => match y with Math f' a' => Nat.eqb (mathfn_code f) (mathfn_code f') && eqc a a' | _ => false end
  | Atan2 a b => match y with Atan2 a' b' => eqc a a' && eqc b b' | _ => false end
  | Bessel k a b => match y with Bessel k' a' b' => Nat.eqb (bkind_code k) (bkind_code k') && eqc a a' && eqc b b' | _ => false end
  | Vari a l => match y with Vari a' l' => eqc a a' && Nat.eqb l l' | _ => false end
  | Restricted p a => match y with Restricted p' a' => Bool.eqb p p' && eqc a a' | _ => false end
  | Grad a g => match y with Grad a' g' => eqc a a' && Nat.eqb g g' | _ => false end
  | RefGrad a g => match y with RefGrad a' g' => eqc a a' && Nat.eqb g g' | _ => false end
  | Div a g => match y with Div a' g' => eqc a a' && Nat.eqb g g' | _ => false end
  | NablaGrad a g => match y with NablaGrad a' g' => eqc a a' && Nat.eqb g g' | _ => false end
  | NablaDiv a g => match y with NablaDiv a' g' => eqc a a' && Nat.eqb g g' | _ => false end
  | Curl a => match y with Curl a' => eqc a a' | _ => false end
  | RefValue a s => match y with RefValue a' s' => eqc a a' && lnat_eqb s s' | _ => false end
  | Transposed a => match y with Transposed a' => eqc a a' | _ => false end
  | Outer a b => match y with Outer a' b' => eqc a a' && eqc b b' | _ => false end
  | Inner a b => match y with Inner a' b' => eqc a a' && eqc b b' | _ => false end
  | Dot a b => match y with Dot a' b' => eqc a a' && eqc b b' | _ => false end
  | Cross a b => match y with Cross a' b' => eqc a a' && eqc b b' | _ => false end
  | Perp a => match y with Perp a' => eqc a a' | _ => false end
  | Trace a => match y with Trace a' => eqc a a' | _ => false end
  | Determinant a => match y with Determinant a' => eqc a a' | _ => false end
  | Inverse a => match y with Inverse a' => eqc a a' | _ => false end
  | Cofactor a => match y with Cofactor a' => eqc a a' | _ => false end
  | Deviatoric a => match y with Deviatoric a' => eqc a a' | _ => false end
  | Skew a => match y with Skew a' => eqc a a' | _ => false end
  | Sym a => match y with Sym a' => eqc a a' | _ => false end
  end
with eqcc (x y : cond) {struct x} : bool :=
  match x with
  | Cmp o a b => match y with Cmp o' a' b' => Nat.eqb (cmpop_code o) (cmpop_code o') && eqc a a' && eqc b b' | _ => false end
  | AndC a b => match y with AndC a' b' => eqcc a a' && eqcc b b' | _ => false end
  | OrC a b => match y with OrC a' b' => eqcc a a' && eqcc b b' | _ => false end
  | NotC a => match y with NotC a' => eqcc a a' | _ => false end
  end.

(* handlers with the one-argument signature (self, o) are MultiFunction cutoff types: map_expr_dag does
   not visit their operands.  [check] and [remove] visit every operand, so the model expects none. *)
Definition cc_cutoff_handlers : list String.string := [].
Definition rm_cutoff_handlers : list String.string := [].

Definition ty_code (t : ty) : nat := match t with TReal => 0 | TComplex => 1 | TBool => 2 end.

(* model verdict on [inp] agrees with the implementation's verdict / output tree / root nodetype *)
(* The variant of the analysis as T1 reads it from the live dispatch table: the list [cl] of math-function /
   Bessel node classes whose handler is the constant-"complex" rule (`sqrt` or an alias of it).  ANY subset
   is representable; the theorems of C23_sound.v hold for every cfn / cbs, and their guard [inF] says
   which nodes are covered (a class outside cl must satisfy the real-closure hypothesis okfn / okb). *)
Open Scope string_scope.
Definition mathfn_class (f : mathfn) : string :=
  match f with
  | FSqrt => "Sqrt" | FExp => "Exp" | FLn => "Ln" | FCos => "Cos" | FSin => "Sin" | FTan => "Tan"
  | FCosh => "Cosh" | FSinh => "Sinh" | FTanh => "Tanh" | FAcos => "Acos" | FAsin => "Asin"
  | FAtan => "Atan" | FErf => "Erf"
  end.
Definition bkind_class (k : bkind) : string :=
  match k with BJ => "BesselJ" | BY => "BesselY" | BI => "BesselI" | BK => "BesselK" end.
Definition fn_classes : list string :=
  [ "Sqrt"; "Exp"; "Ln"; "Cos"; "Sin"; "Tan"; "Cosh"; "Sinh"; "Tanh"; "Acos"; "Asin"; "Atan"; "Erf";
    "BesselJ"; "BesselY"; "BesselI"; "BesselK" ].
Definition fn_handlers : list string :=
  [ "sqrt"; "exp"; "ln"; "cos"; "sin"; "tan"; "cosh"; "sinh"; "tanh"; "acos"; "asin"; "atan"; "erf";
    "math_function"; "bessel_function"; "bessel_j"; "bessel_y"; "bessel_i"; "bessel_k" ].
Definition smem (x : string) (l : list string) : bool := existsb (String.eqb x) l.
Definition cfn_cl (cl : list string) (f : mathfn) : bool := smem (mathfn_class f) cl.
Definition cbs_cl (cl : list string) (k : bkind) : bool := smem (bkind_class k) cl.
Definition full_cl : list string := [ "Sqrt"; "Ln"; "Acos"; "Asin"; "BesselJ"; "BesselY"; "BesselI"; "BesselK" ].
Definition pinned_cl : list string := [ "Sqrt" ].
Lemma cfn_cl_full f : cfn_cl full_cl f = cfn_of true f.   Proof. destruct f; reflexivity. Qed.
Lemma cbs_cl_full k : cbs_cl full_cl k = cbs_of true k.   Proof. destruct k; reflexivity. Qed.
Lemma cfn_cl_pinned f : cfn_cl pinned_cl f = cfn_of false f. Proof. destruct f; reflexivity. Qed.
Lemma cbs_cl_pinned k : cbs_cl pinned_cl k = cbs_of false k. Proof. destruct k; reflexivity. Qed.
(* dispatch table of the variant cl *)
Definition cc_dispatch_cl (cl : list string) : list (string * string) :=
  map (fun p : string * string =>
         let (c, h) := p in
         (c, if smem c fn_classes then (if smem c cl then "sqrt" else "expr") else h))
      cc_dispatch0.
(* an alias the model understands: one of the five of the pinned class, or a math-function / Bessel
   handler name bound to the constant-"complex" rule `sqrt` *)
Definition alias_ok (p : string * string) : bool :=
  let (a, b) := p in
  existsb (fun q : string * string => String.eqb a (fst q) && String.eqb b (snd q)) (cc_aliases false)
  || (String.eqb b "sqrt" && smem a fn_handlers).
Close Scope string_scope.

Definition agree_check (cl : list string) (inp : expr) (impl : option (expr * nat)) : bool :=
  match check (cfn_cl cl) (cbs_cl cl) inp, impl with
  | None, None => true
  | Some (o, t), Some (o', t') => eqc o o' && Nat.eqb (ty_code t) t'
  | _, _ => false
  end.
Definition agree_remove (inp : expr) (impl : option expr) : bool :=
  match remove inp, impl with
  | None, None => true
  | Some o, Some o' => eqc o o'
  | _, _ => false
  end.

(* pipeline obligations: an integrand that left complex-mode preprocessing must be accepted by the
   checker as it stands, with every ordering site already of the wrapped shape (C23_wrap); an integrand
   that left real-mode preprocessing contains no Conj / Real / Imag / complex literal *)
Definition pipe_ok (cl : list string) (out : expr) : bool :=
  match check (cfn_cl cl) (cbs_cl cl) out with
  | Some _ => forallb wrapped_site (sites out)
  | None => false
  end.
Definition pipe_clean (out : expr) : bool := cfree out.

(* sanity: the comparator is reflexive on a term using every binder kind, and distinguishes a wrap *)
Example eqc_selftest :
  let e := Conditional (Cmp CLT (Real (Indexed (Term 10 0 [2]) [Fixed 0])) (Zero [] []))
                       (Sum (IntV 1) (Term 1 0 [])) (Product (Term 1 0 []) (RatV 1 2)) in
  eqc e e = true /\
  eqc (Sum (IntV 1) (Term 1 0 [])) (Sum (Term 1 0 []) (IntV 1)) = true /\
  eqc (Real (Term 1 0 [])) (Term 1 0 []) = false.
Proof. vm_compute. repeat split. Qed.
