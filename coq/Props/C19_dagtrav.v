(* C19 - DAGTraverser.__call__ (ufl/corealg/dag_traverser.py): recursion memoised in
   `_visited_cache` under the key (node, keyword arguments).  A `process` handler called on node t
   with keyword arguments k processes its i-th operand with keyword arguments `kw t k i` and
   combines the processed operands with `f t k`.  Theorem (all trees, all kw/f, any sound initial
   cache): the memoised traversal returns exactly the plain recursion over the tree. *)
Require Import List Arith Lia Bool.
Require Import UFLV.Props.C19_tree.
Import ListNotations.

Section DT.
Variable K : Type.                         (* the keyword arguments as passed (absent / explicit values) *)
Variable K_eq_dec : forall a b : K, {a = b} + {a <> b}.
Variable R : Type.
Variable kw : tree -> K -> nat -> K.
Variable f : tree -> K -> list R -> R.

Definition cache := list (tree * K * R).

Fixpoint lookup (t : tree) (k : K) (c : cache) : option R :=
  match c with
  | [] => None
  | (t', k', r) :: rest => if tree_eq_dec t t' then (if K_eq_dec k k' then Some r else lookup t k rest)
                           else lookup t k rest
  end.

(* specification: plain recursion, no memoisation *)
Fixpoint rec_ops (g : tree -> K -> R) (t0 : tree) (k : K) (xs : list tree) (i : nat) : list R :=
  match xs with
  | [] => []
  | x :: r => g x (kw t0 k i) :: rec_ops g t0 k r (S i)
  end.

Fixpoint rec (t : tree) (k : K) {struct t} : R :=
  match t with
  | Node l cs =>
      f (Node l cs) k
        ((fix go (xs : list tree) (i : nat) {struct xs} : list R :=
            match xs with
            | [] => []
            | x :: r => rec x (kw (Node l cs) k i) :: go r (S i)
            end) cs 0)
  end.

(* `[self(operand, **kwargs_i) for operand in o.ufl_operands]` threading the cache *)
Fixpoint dt_ops (g : tree -> K -> cache -> R * cache) (t0 : tree) (k : K) (xs : list tree) (i : nat)
                (c : cache) : list R * cache :=
  match xs with
  | [] => ([], c)
  | x :: r => let (rx, c1) := g x (kw t0 k i) c in
              let (rr, c2) := dt_ops g t0 k r (S i) c1 in (rx :: rr, c2)
  end.

Fixpoint dt (t : tree) (k : K) (c : cache) {struct t} : R * cache :=
  match t with
  | Node l cs =>
      match lookup (Node l cs) k c with
      | Some r => (r, c)
      | None => let (rs, c') :=
                  (fix go (xs : list tree) (i : nat) (c : cache) {struct xs} : list R * cache :=
                     match xs with
                     | [] => ([], c)
                     | x :: r => let (rx, c1) := dt x (kw (Node l cs) k i) c in
                                 let (rr, c2) := go r (S i) c1 in (rx :: rr, c2)
                     end) cs 0 c in
                let r := f (Node l cs) k rs in (r, (Node l cs, k, r) :: c')
      end
  end.

Definition cache_ok (c : cache) : Prop := forall t k r, lookup t k c = Some r -> r = rec t k.

Lemma rec_unfold : forall t k, rec t k = f t k (rec_ops rec t k (ops t) 0).
Proof.
  destruct t as [l cs]. intros k. simpl. f_equal.
  assert (H : forall xs i,
     (fix go (xs : list tree) (i : nat) {struct xs} : list R :=
        match xs with
        | [] => []
        | x :: r => rec x (kw (Node l cs) k i) :: go r (S i)
        end) xs i = rec_ops rec (Node l cs) k xs i).
  { induction xs; intros; simpl; auto. rewrite IHxs. reflexivity. }
  apply H.
Qed.

Lemma dt_unfold : forall t k c,
  dt t k c = match lookup t k c with
             | Some r => (r, c)
             | None => let (rs, c') := dt_ops dt t k (ops t) 0 c in
                       let r := f t k rs in (r, (t, k, r) :: c')
             end.
Proof.
  destruct t as [l cs]. intros. simpl. destruct (lookup (Node l cs) k c); auto.
  assert (H : forall xs i c0,
     (fix go (xs : list tree) (i : nat) (c : cache) {struct xs} : list R * cache :=
        match xs with
        | [] => ([], c)
        | x :: r => let (rx, c1) := dt x (kw (Node l cs) k i) c in
                    let (rr, c2) := go r (S i) c1 in (rx :: rr, c2)
        end) xs i c0 = dt_ops dt (Node l cs) k xs i c0).
  { induction xs; intros; simpl; auto. destruct (dt a (kw (Node l cs) k i) c0). rewrite IHxs. reflexivity. }
  rewrite H. reflexivity.
Qed.

Theorem C19_dagtraverser : forall t k c, cache_ok c ->
  fst (dt t k c) = rec t k /\ cache_ok (snd (dt t k c)).
Proof.
  induction t using tree_ind2. intros k c Hok. rewrite dt_unfold, rec_unfold. simpl ops.
  destruct (lookup (Node l cs) k c) as [r|] eqn:E.
  - simpl. split; auto. rewrite <- rec_unfold. apply Hok; auto.
  - assert (Hl : forall xs i c0, Forall (fun t => forall k c, cache_ok c ->
                      fst (dt t k c) = rec t k /\ cache_ok (snd (dt t k c))) xs -> cache_ok c0 ->
                 fst (dt_ops dt (Node l cs) k xs i c0) = rec_ops rec (Node l cs) k xs i /\
                 cache_ok (snd (dt_ops dt (Node l cs) k xs i c0))).
    { induction xs as [|x r IH]; intros i c0 HF Hc0; simpl; auto.
      inversion HF; subst.
      destruct (H2 (kw (Node l cs) k i) c0 Hc0) as [H1 Hc1].
      destruct (dt x (kw (Node l cs) k i) c0) as [rx c1]. simpl in H1, Hc1.
      destruct (IH (S i) c1 H3 Hc1) as [H4 Hc2].
      destruct (dt_ops dt (Node l cs) k r (S i) c1) as [rr c2]. simpl in *. subst. auto. }
    destruct (Hl cs 0 c H Hok) as [H1 Hc'].
    destruct (dt_ops dt (Node l cs) k cs 0 c) as [rs c']. simpl in *. subst rs. split; auto.
    intros t0 k0 r0. simpl.
    destruct (tree_eq_dec t0 (Node l cs)) as [->|Hn]; [|apply Hc'].
    destruct (K_eq_dec k0 k) as [->|Hk]; [|apply Hc'].
    intros Hr; inversion Hr; subst. rewrite (rec_unfold (Node l cs)). reflexivity.
Qed.

Corollary C19_dagtraverser_fresh : forall t k, fst (dt t k []) = rec t k.
Proof. intros. apply C19_dagtraverser. intros t0 k0 r H; discriminate. Qed.
End DT.

Print Assumptions C19_dagtraverser.
