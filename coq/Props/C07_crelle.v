(* C07, hand-written part 3: tetrahedron circumradius (Crelle's formula); same conventions as C07_thms.v.
   All statements are for ALL vertex positions over an arbitrary UFL algebra (given by its
   components, as in the generated files, so that ring/field see variables; every [ualg] is
   [Build_ualg] of its components).  sqrt and abs are uninterpreted in the algebra; the few facts
   needed about them enter as premises on the specific arguments
   ([sq_ok X : sqrt X * sqrt X = X], [abs_sq : abs x * abs x = x * x]), which hold in the reals for
   the sums of squares they are applied to. *)
Require Import UFLV.Core.Tac UFLV.Props.C07_spec.

Section Crelle.
Variable KT : Type.
Variables (z0 z1 : KT) (add mul sub : KT -> KT -> KT) (opp : KT -> KT) (div : KT -> KT -> KT) (inv : KT -> KT).
Hypothesis Fth : field_theory z0 z1 add mul sub opp div inv (@eq KT).
Variables (conj re im abs : KT -> KT) (fn : mathfn -> KT -> KT) (pow atan2 : KT -> KT -> KT)
          (bessel : bkind -> KT -> KT -> KT).
Variable BT : Type.
Variables (cmp : cmpop -> KT -> KT -> BT) (and_ or_ : BT -> BT -> BT) (not_ : BT -> BT)
          (cond_ : BT -> KT -> KT -> KT) (min_ max_ : KT -> KT -> KT).
Definition A : ualg :=
  Build_ualg KT z0 z1 add mul sub opp div inv Fth conj re im abs fn pow atan2 bessel
             BT cmp and_ or_ not_ cond_ min_ max_.
Add Field FfC07c : Fth.
Hypothesis char0 : forall p, @of_pos A p <> z0.

Variable V : nat -> nat -> KT.
Variables co rd : KT.

Notation Jm := (Jm A V).
Notation det := (@Den.det A).
Notation gram := (@Den.gram A).
Notation ksum := (@Alg.ksum A).
Notation sqrt_ := (fn FSqrt).
Notation nrm2 := (nrm2 A).
Notation dotp := (dotp A).
Definition sq_ok (x : KT) : Prop := mul (sqrt_ x) (sqrt_ x) = x.
Definition abs_sq : Prop := forall x : KT, mul (abs x) (abs x) = mul x x.

Ltac rg := norm_goal; ring.
Ltac fd := norm_goal; field; nz_solve char0.
Ltac c2 i := destruct i as [|[|i]]; [ | | exfalso; lia ].
Ltac c3 i := destruct i as [|[|[|i]]]; [ | | | exfalso; lia ].
Ltac c4 i := destruct i as [|[|[|[|i]]]]; [ | | | | exfalso; lia ].

Definition dist2 (g : nat) (c : nat -> KT) (k : nat) : KT := nrm2 g (fun i => sub (c i) (V k i)).

(* ---- circumradius of a tetrahedron: Crelle's formula ----------------------------------------- *)
(* circumcentre c = v0 + N / (2 det[a b c]),  N = |a|^2 b x c + |b|^2 c x a + |c|^2 a x b,
   a = v1 - v0, b = v2 - v0, c = v3 - v0 *)
Definition tet_N (i : nat) : KT :=
  let a k := sub (V 1 k) (V 0 k) in
  let b k := sub (V 2 k) (V 0 k) in
  let c k := sub (V 3 k) (V 0 k) in
  add (add (mul (nrm2 3 a) (cross3 A b c i)) (mul (nrm2 3 b) (cross3 A c a i)))
      (mul (nrm2 3 c) (cross3 A a b i)).
Definition tet_centre (i : nat) : KT := add (V 0 i) (div (tet_N i) (mul (add z1 z1) (det 3 Jm))).

(* Heron's product s(s-a)(s-b)(s-c) is a polynomial in the squares *)
Definition heron16 (A2 B2 C2 : KT) : KT :=     (* 16 * (area of the triangle with squared sides A2 B2 C2)^2 *)
  sub (mul (add z1 z1) (add (add (mul A2 B2) (mul B2 C2)) (mul C2 A2)))
      (add (add (mul A2 A2) (mul B2 B2)) (mul C2 C2)).
Lemma heron_poly (la lb lc : KT) :
  let s := mul (add (add la lb) lc) (div z1 (add z1 z1)) in
  mul (mul (mul s (sub s la)) (sub s lb)) (sub s lc) =
  div (heron16 (mul la la) (mul lb lb) (mul lc lc))
      (mul (mul (add z1 z1) (add z1 z1)) (mul (add z1 z1) (add z1 z1))).
Proof. intros s. subst s. unfold heron16. field. nz_solve char0. Qed.

Definition tet_S : KT :=          (* the argument of the outer sqrt in circ 3 3 *)
  let la := mul (vlen A V 3 0 3) (vlen A V 3 1 2) in
  let lb := mul (vlen A V 3 0 2) (vlen A V 3 1 3) in
  let lc := mul (vlen A V 3 0 1) (vlen A V 3 2 3) in
  let s := mul (add (add la lb) lc) (div z1 (add z1 z1)) in
  mul (mul (mul s (sub s la)) (sub s lb)) (sub s lc).

Lemma tet_S_poly :
  sq_ok (nrm2 3 (vvec A V 0 3)) -> sq_ok (nrm2 3 (vvec A V 1 2)) -> sq_ok (nrm2 3 (vvec A V 0 2)) ->
  sq_ok (nrm2 3 (vvec A V 1 3)) -> sq_ok (nrm2 3 (vvec A V 0 1)) -> sq_ok (nrm2 3 (vvec A V 2 3)) ->
  tet_S = div (heron16 (mul (nrm2 3 (vvec A V 0 3)) (nrm2 3 (vvec A V 1 2)))
                       (mul (nrm2 3 (vvec A V 0 2)) (nrm2 3 (vvec A V 1 3)))
                       (mul (nrm2 3 (vvec A V 0 1)) (nrm2 3 (vvec A V 2 3))))
              (mul (mul (add z1 z1) (add z1 z1)) (mul (add z1 z1) (add z1 z1))).
Proof.
  unfold sq_ok, tet_S, vlen, ksqrt. change (@kfn A) with fn.
  set (n03 := nrm2 3 (vvec A V 0 3)). set (n12 := nrm2 3 (vvec A V 1 2)).
  set (n02 := nrm2 3 (vvec A V 0 2)). set (n13 := nrm2 3 (vvec A V 1 3)).
  set (n01 := nrm2 3 (vvec A V 0 1)). set (n23 := nrm2 3 (vvec A V 2 3)).
  intros H03 H12 H02 H13 H01 H23.
  rewrite heron_poly. f_equal.
  set (l03 := sqrt_ n03) in *. set (l12 := sqrt_ n12) in *. set (l02 := sqrt_ n02) in *.
  set (l13 := sqrt_ n13) in *. set (l01 := sqrt_ n01) in *. set (l23 := sqrt_ n23) in *.
  replace (mul (mul l03 l12) (mul l03 l12)) with (mul (mul l03 l03) (mul l12 l12)) by ring.
  replace (mul (mul l02 l13) (mul l02 l13)) with (mul (mul l02 l02) (mul l13 l13)) by ring.
  replace (mul (mul l01 l23) (mul l01 l23)) with (mul (mul l01 l01) (mul l23 l23)) by ring.
  rewrite H03, H12, H02, H13, H01, H23. reflexivity.
Qed.

(* Crelle's identity as a polynomial identity in the vertex coordinates:
   16 * Heron(products of opposite squared edges) = 4 |N|^2 *)
Lemma crelle_poly :
  heron16 (mul (nrm2 3 (vvec A V 0 3)) (nrm2 3 (vvec A V 1 2)))
          (mul (nrm2 3 (vvec A V 0 2)) (nrm2 3 (vvec A V 1 3)))
          (mul (nrm2 3 (vvec A V 0 1)) (nrm2 3 (vvec A V 2 3)))
  = mul (mul (add z1 z1) (add z1 z1)) (nrm2 3 tet_N).
Proof.
  (* translate to edge vectors so that ring sees 9 variables *)
  pose (a0 := sub (V 1 0) (V 0 0)). pose (a1 := sub (V 1 1) (V 0 1)). pose (a2 := sub (V 1 2) (V 0 2)).
  pose (b0 := sub (V 2 0) (V 0 0)). pose (b1 := sub (V 2 1) (V 0 1)). pose (b2 := sub (V 2 2) (V 0 2)).
  pose (c0 := sub (V 3 0) (V 0 0)). pose (c1 := sub (V 3 1) (V 0 1)). pose (c2 := sub (V 3 2) (V 0 2)).
  assert (E03 : nrm2 3 (vvec A V 0 3) = add (add (mul c0 c0) (mul c1 c1)) (mul c2 c2)) by (subst c0 c1 c2; rg).
  assert (E02 : nrm2 3 (vvec A V 0 2) = add (add (mul b0 b0) (mul b1 b1)) (mul b2 b2)) by (subst b0 b1 b2; rg).
  assert (E01 : nrm2 3 (vvec A V 0 1) = add (add (mul a0 a0) (mul a1 a1)) (mul a2 a2)) by (subst a0 a1 a2; rg).
  assert (E12 : nrm2 3 (vvec A V 1 2) =
                add (add (mul (sub b0 a0) (sub b0 a0)) (mul (sub b1 a1) (sub b1 a1))) (mul (sub b2 a2) (sub b2 a2)))
    by (subst a0 a1 a2 b0 b1 b2; rg).
  assert (E13 : nrm2 3 (vvec A V 1 3) =
                add (add (mul (sub c0 a0) (sub c0 a0)) (mul (sub c1 a1) (sub c1 a1))) (mul (sub c2 a2) (sub c2 a2)))
    by (subst a0 a1 a2 c0 c1 c2; rg).
  assert (E23 : nrm2 3 (vvec A V 2 3) =
                add (add (mul (sub c0 b0) (sub c0 b0)) (mul (sub c1 b1) (sub c1 b1))) (mul (sub c2 b2) (sub c2 b2)))
    by (subst b0 b1 b2 c0 c1 c2; rg).
  rewrite E03, E02, E01, E12, E13, E23.
  assert (EN : nrm2 3 tet_N = nrm2 3 (fun i =>
     let a k := match k with 0 => a0 | 1 => a1 | _ => a2 end in
     let b k := match k with 0 => b0 | 1 => b1 | _ => b2 end in
     let c k := match k with 0 => c0 | 1 => c1 | _ => c2 end in
     add (add (mul (nrm2 3 a) (cross3 A b c i)) (mul (nrm2 3 b) (cross3 A c a i)))
         (mul (nrm2 3 c) (cross3 A a b i)))) by (subst a0 a1 a2 b0 b1 b2 c0 c1 c2; norm_goal; reflexivity).
  rewrite EN. clearbody a0 a1 a2 b0 b1 b2 c0 c1 c2. unfold heron16.
  norm_goal. ring.
Qed.

Lemma sq_quot1 (l v c : KT) : v <> z0 -> c <> z0 ->
  mul (div l (mul c v)) (div l (mul c v)) = div (mul l l) (mul (mul c c) (mul v v)).
Proof. intros Hv Hc. field. split; assumption. Qed.

Lemma circ_tet_unfold :
  abs_sq -> vol A V co 3 3 <> z0 -> sq_ok tet_S ->
  mul (circ A V co 3 3) (circ A V co 3 3) =
    div tet_S (mul (mul (@of_nat A 6) (@of_nat A 6))
                   (mul (mul (r0 A 3) (det 3 Jm)) (mul (r0 A 3) (det 3 Jm)))).
Proof.
  intros Habs Hv HS. unfold circ, heron, ksqrt. cbv zeta.
  change (@kfn A) with fn. change (@kmul A) with mul. change (@kdiv A) with div.
  change (@kadd A) with add. change (@ksub A) with sub.
  change (half A) with (div z1 (add z1 z1)).
  fold tet_S.
  rewrite sq_quot1; [ | exact Hv | intro E; apply (char0 6%positive); exact E ].
  unfold sq_ok in HS. rewrite HS. unfold vol. change (@kabs A) with abs. rewrite Habs. reflexivity.
Qed.

(* the lowered tetrahedron formula (products of opposite edges, Heron, / 6V), squared, is the
   squared distance of the circumcentre from each of the four vertices *)
Theorem circ_tetrahedron k : k < 4 ->
  abs_sq -> det 3 Jm <> z0 -> vol A V co 3 3 <> z0 -> sq_ok tet_S ->
  sq_ok (nrm2 3 (vvec A V 0 3)) -> sq_ok (nrm2 3 (vvec A V 1 2)) -> sq_ok (nrm2 3 (vvec A V 0 2)) ->
  sq_ok (nrm2 3 (vvec A V 1 3)) -> sq_ok (nrm2 3 (vvec A V 0 1)) -> sq_ok (nrm2 3 (vvec A V 2 3)) ->
  mul (circ A V co 3 3) (circ A V co 3 3) = dist2 3 tet_centre k.
Proof.
  intros Hk Habs Hd Hv HS H03 H12 H02 H13 H01 H23.
  rewrite circ_tet_unfold by assumption. rewrite tet_S_poly by assumption. rewrite crelle_poly.
  (* (4 |N|^2 / 16) / (36 (det/6)^2) = |N|^2 / (4 det^2) = |c - v0|^2, and c is equidistant *)
  assert (E0 : div (div (mul (mul (add z1 z1) (add z1 z1)) (nrm2 3 tet_N))
                        (mul (mul (add z1 z1) (add z1 z1)) (mul (add z1 z1) (add z1 z1))))
                   (mul (mul (@of_nat A 6) (@of_nat A 6))
                        (mul (mul (r0 A 3) (det 3 Jm)) (mul (r0 A 3) (det 3 Jm))))
               = dist2 3 tet_centre 0).
  { unfold dist2, tet_centre. set (N := tet_N). set (d := det 3 Jm) in *.
    assert (EN : nrm2 3 (fun i => sub (add (V 0 i) (div (N i) (mul (add z1 z1) d))) (V 0 i))
                 = div (nrm2 3 N) (mul (mul (add z1 z1) (add z1 z1)) (mul d d))).
    { clearbody N d. norm_goal. field. nz_solve char0. }
    rewrite EN. clearbody N d. norm_goal. field. nz_solve char0. }
  rewrite E0. clear E0.
  norm_hyp Hd. c4 k; [reflexivity | | | ]; fd.
Qed.

End Crelle.

Print Assumptions crelle_poly.
Print Assumptions circ_tetrahedron.
