(* C03, genuine defects found in the pinned tree (both are "the expansion raises on a valid expression").
   (1) was repaired in /repo by commit e01964a (the model below is that of the pre-fix lowering; the former
   witness is now an ordinary traced obligation); (2) is open:

   (1) curl-literal-component: LowerCompoundAlgebra.curl computes a[j].dx(i) component by component.
       For a list tensor, a[j] is simplified to the j-th entry; if that entry is a literal, `.dx`
       (Grad.__new__ -> find_geometric_dimension) raises, although curl(a) is a valid expression
       (div, grad, nabla_grad of the same vector are lowered without error).
   (2) abs-free-index: the Abs rule of GenericDerivativeRuleset builds sign(Real(f)) * df, and sign()
       builds conditions eq(f,0), lt(f,0), which UFL only accepts for operands WITHOUT free indices:
       differentiating |v[i]| * u[i] raises "Expecting scalar arguments.".

   The models below are faithful to the failure conditions; *_refuted exhibit the witnesses (replayed
   on the real code by py/props/C03.py on every run), *_partial are the strongest statements that
   hold: outside the failing class the rule succeeds and its value is the exact derivative. *)
Require Import UFLV.Core.Den.

(* does the expression mention a terminal living on a mesh (find_geometric_dimension succeeds) *)
Fixpoint has_domain (e : expr) : bool :=
  match e with
  | Zero _ _ | IntV _ | RealV _ _ | CplxV _ _ _ _ | RatV _ _ | Identity _ | PermSym _ => false
  | Term _ _ _ => true
  | Sum a b | Product a b | Division a b | Power a b | MinV a b | MaxV a b | Atan2 a b
  | Bessel _ a b | Outer a b | Inner a b | Dot a b | Cross a b => has_domain a || has_domain b
  | Abs a | Conj a | Real a | Imag a | Indexed a _ | IndexSum a _ _ | ComponentTensor a _
  | Math _ a | Vari a _ | Restricted _ a | Grad a _ | RefGrad a _ | Div a _ | NablaGrad a _
  | NablaDiv a _ | Curl a | RefValue a _ | Transposed a | Perp a | Trace a | Determinant a
  | Inverse a | Cofactor a | Deviatoric a | Skew a | Sym a => has_domain a
  | ListTensor es => (fix any (l : list expr) := match l with [] => false | x :: t => has_domain x || any t end) es
  | Conditional c t f => cond_domain c || has_domain t || has_domain f
  end
with cond_domain (c : cond) : bool :=
  match c with
  | Cmp _ a b => has_domain a || has_domain b
  | AndC a b | OrC a b => cond_domain a || cond_domain b
  | NotC a => cond_domain a
  end.

(* a[j] for a fixed index: list tensors are indexed at construction time *)
Definition getitem (a : expr) (j : nat) : expr :=
  match a with
  | ListTensor es => nth j es (Zero [] [])
  | _ => Indexed a [Fixed j]
  end.

(* e.dx(i): Grad.__new__ needs the geometric dimension of its operand *)
Definition dx (g : nat) (e : expr) (i : nat) : option expr :=
  if has_domain e then Some (Indexed (Grad e g) [Fixed i]) else None.

Definition curl_comp (g : nat) (a : expr) (i j : nat) : option expr :=
  match dx g (getitem a j) i, dx g (getitem a i) j with
  | Some p, Some q => Some (Sum p (Product (IntV (-1)) q))
  | _, _ => None
  end.

(* LowerCompoundAlgebra.curl for a.ufl_shape == (3,) *)
Definition lower_curl3 (a : expr) : option expr :=
  match curl_comp 3 a 1 2, curl_comp 3 a 2 0, curl_comp 3 a 0 1 with
  | Some c0, Some c1, Some c2 => Some (ListTensor [c0; c1; c2])
  | _, _, _ => None
  end.

Definition wit_curl : expr := ListTensor [Term 0 0 []; IntV 0; Term 0 1 []].

Theorem C03_curl_literal_component_refuted :
  exists a, shape a = [3] /\ has_domain a = true /\ lower_curl3 a = None.
Proof. exists wit_curl. repeat split; reflexivity. Qed.

(* conditions only accept operands without shape and without free indices *)
Definition true_scalar (e : expr) : bool :=
  match shape e, fidx e with [], [] => true | _, _ => false end.
Definition mk_cmp (op : cmpop) (a b : expr) : option cond :=
  if true_scalar a && true_scalar b then Some (Cmp op a b) else None.
(* ufl.operators.sign *)
Definition mk_sign (f : expr) : option expr :=
  match mk_cmp CEQ f (IntV 0), mk_cmp CLT f (IntV 0) with
  | Some c0, Some c1 => Some (Conditional c0 (IntV 0) (Conditional c1 (IntV (-1)) (IntV 1)))
  | _, _ => None
  end.
(* the Abs rule: sign(Real(f)) * df *)
Definition abs_rule (f df : expr) : option expr :=
  match mk_sign (Real f) with Some sg => Some (Product sg df) | None => None end.

Definition wit_abs : expr := Indexed (Term 0 0 [3]) [Free 0].

Theorem C03_abs_free_index_refuted :
  exists f, shape f = [] /\ (forall df, abs_rule f df = None).
Proof. exists wit_abs. split; [reflexivity|]. intros df. reflexivity. Qed.

Section Partial.
Variable A : ualg.
Add Field AfC03f : (kfield A).
Open Scope K_scope.
Variable env : side -> nat -> nat -> list nat -> A.
Variable D DX : nat -> A -> A.
Variable ki : A.
Notation den := (@den A env D DX ki).


Lemma den_getitem_eq s rho a j : den s rho (getitem a j) [] = den s rho a [j].
Proof.
  destruct a; try reflexivity. cbn [getitem Den.den].
  revert j. induction es as [|x t IH]; intros j.
  - destruct j; reflexivity.
  - destruct j; [reflexivity|]. cbn [nth]. apply IH.
Qed.

(* outside the failing class (every component lives on the mesh) the lowering succeeds and denotes curl *)
Theorem C03_curl_partial : forall a,
  shape a = [3] ->
  (forall j, j < 3 -> has_domain (getitem a j) = true) ->
  exists e, lower_curl3 a = Some e /\
            forall s rho i, i < 3 -> den s rho e [i] = den s rho (Curl a) [i].
Proof.
  intros a Hs Hd.
  pose proof (Hd 0 ltac:(lia)) as H0. pose proof (Hd 1 ltac:(lia)) as H1. pose proof (Hd 2 ltac:(lia)) as H2.
  unfold lower_curl3, curl_comp, dx. rewrite H0, H1, H2.
  eexists. split; [reflexivity|].
  intros s rho i Hi. cbn [Den.den]. rewrite Hs.
  destruct i as [|[|[|i]]]; try lia; cbn [Nat.add Nat.modulo Nat.divmod fst snd Nat.sub map idxval split_last removelast last];
    rewrite !den_getitem_eq; cbn [of_Z of_pos]; ring.
Qed.

(* outside the failing class (operand without free indices) the Abs rule succeeds and, when D j is a
   derivation with D |x| = sign(re x) * D x, denotes the derivative of |f| *)
Definition ksign (x : A) : A :=
  kcond (bcmp CEQ (kre x) (of_Z 0)) (of_Z 0) (kcond (bcmp CLT (kre x) (of_Z 0)) (of_Z (-1)) (of_Z 1)).
Theorem C03_abs_partial : forall f df j,
  shape f = [] -> fidx f = [] ->
  (forall x, D j (kabs x) = ksign x * D j x) ->
  exists e, abs_rule f df = Some e /\
            forall s rho, den s rho df [] = D j (den s rho f []) ->
                          den s rho e [] = D j (den s rho (Abs f) []).
Proof.
  intros f df j Hs Hf Habs. unfold abs_rule, mk_sign, mk_cmp, true_scalar. cbn [shape fidx]. rewrite Hs, Hf.
  cbn [andb]. eexists. split; [reflexivity|].
  intros s rho Hdf. cbn [Den.den Den.denc]. rewrite Hdf, Habs. reflexivity.
Qed.
End Partial.

Print Assumptions C03_curl_literal_component_refuted.
Print Assumptions C03_abs_free_index_refuted.
Print Assumptions C03_curl_partial.
Print Assumptions C03_abs_partial.
