(* C21 - replace substitutes exactly the mapped subexpressions.

   Hand-written part: [rep m e] is simultaneous substitution of terminals (kind, id) by the images
   given by [m] (the Replacer of ufl/algorithms/replace.py without the constructor re-simplifications,
   which the per-run traces cover).  For ALL expressions e and mappings m:

     C21_subst           den env (rep m e) = den env[t := den env (m t)] e     (substitution lemma;
                         under Grad the derivations act on the image, under Restricted the image is
                         evaluated on that side, Variables are transparent)
     C21_shape           the shape is preserved when every mapped terminal has an image of its shape
     C21_shape_reject    the checked replace fails exactly when some occurring mapped terminal has an
                         image of a different shape
     C21_identity        no mapped terminal occurs in e  ->  rep m e = e *)
Require Import UFLV.Core.Den UFLV.Props.C21_ind.

Fixpoint list_nat_eqb (a b : list nat) : bool :=
  match a, b with
  | [], [] => true
  | x :: a', y :: b' => Nat.eqb x y && list_nat_eqb a' b'
  | _, _ => false
  end.
Lemma list_nat_eqb_eq a b : list_nat_eqb a b = true <-> a = b.
Proof.
  revert b; induction a as [|x a IH]; intros [|y b]; cbn; split; intros H; try discriminate; try reflexivity.
  - apply andb_prop in H. destruct H as [H1 H2]. apply Nat.eqb_eq in H1. apply IH in H2. congruence.
  - inversion H; subst. rewrite Nat.eqb_refl. cbn. apply IH. reflexivity.
Qed.

Section Rep.
Variable m : nat -> nat -> option expr.      (* the mapping: terminal (kind, id) -> image *)

Fixpoint rep (e : expr) : expr :=
  match e with
  | Zero sh fi => Zero sh fi
  | IntV z => IntV z
  | RealV m e => RealV m e
  | CplxV rm re im ie => CplxV rm re im ie
  | RatV p q => RatV p q
  | Identity n => Identity n
  | PermSym n => PermSym n
  | Term k id sh => match m k id with Some t => t | None => e end
  | Sum a b => Sum (rep a) (rep b)
  | Product a b => Product (rep a) (rep b)
  | Division a b => Division (rep a) (rep b)
  | Power a b => Power (rep a) (rep b)
  | Abs a => Abs (rep a)
  | Conj a => Conj (rep a)
  | Real a => Real (rep a)
  | Imag a => Imag (rep a)
  | Indexed a mi => Indexed (rep a) mi
  | IndexSum a i d => IndexSum (rep a) i d
  | ComponentTensor a ix => ComponentTensor (rep a) ix
  | ListTensor es => ListTensor (map rep es)
  | Conditional c t f => Conditional (repc c) (rep t) (rep f)
  | MinV a b => MinV (rep a) (rep b)
  | MaxV a b => MaxV (rep a) (rep b)
  | Math f a => Math f (rep a)
  | Atan2 a b => Atan2 (rep a) (rep b)
  | Bessel k nu a => Bessel k (rep nu) (rep a)
  | Vari a label => Vari (rep a) label
  | Restricted plus a => Restricted plus (rep a)
  | Grad a g => Grad (rep a) g
  | RefGrad a t => RefGrad (rep a) t
  | Div a g => Div (rep a) g
  | NablaGrad a g => NablaGrad (rep a) g
  | NablaDiv a g => NablaDiv (rep a) g
  | Curl a => Curl (rep a)
  | RefValue a sh => RefValue (rep a) sh
  | Transposed a => Transposed (rep a)
  | Outer a b => Outer (rep a) (rep b)
  | Inner a b => Inner (rep a) (rep b)
  | Dot a b => Dot (rep a) (rep b)
  | Cross a b => Cross (rep a) (rep b)
  | Perp a => Perp (rep a)
  | Trace a => Trace (rep a)
  | Determinant a => Determinant (rep a)
  | Inverse a => Inverse (rep a)
  | Cofactor a => Cofactor (rep a)
  | Deviatoric a => Deviatoric (rep a)
  | Skew a => Skew (rep a)
  | Sym a => Sym (rep a)
  end
with repc (c : cond) : cond :=
  match c with
  | Cmp op a b => Cmp op (rep a) (rep b)
  | AndC a b => AndC (repc a) (repc b)
  | OrC a b => OrC (repc a) (repc b)
  | NotC a => NotC (repc a)
  end.

(* every occurring mapped terminal has an image of its own shape / some mapped terminal occurs *)
Fixpoint shape_compat (e : expr) : bool :=
  match e with
  | Zero sh fi => true
  | IntV z => true
  | RealV m e => true
  | CplxV rm re im ie => true
  | RatV p q => true
  | Identity n => true
  | PermSym n => true
  | Term k id sh => match m k id with Some t => list_nat_eqb (shape t) sh | None => true end
  | Sum a b => shape_compat a && shape_compat b
  | Product a b => shape_compat a && shape_compat b
  | Division a b => shape_compat a && shape_compat b
  | Power a b => shape_compat a && shape_compat b
  | Abs a => shape_compat a
  | Conj a => shape_compat a
  | Real a => shape_compat a
  | Imag a => shape_compat a
  | Indexed a mi => shape_compat a
  | IndexSum a i d => shape_compat a
  | ComponentTensor a ix => shape_compat a
  | ListTensor es => (fix go (l : list expr) : bool := match l with [] => true | x :: t => shape_compat x && go t end) es
  | Conditional c t f => shape_compatc c && shape_compat t && shape_compat f
  | MinV a b => shape_compat a && shape_compat b
  | MaxV a b => shape_compat a && shape_compat b
  | Math f a => shape_compat a
  | Atan2 a b => shape_compat a && shape_compat b
  | Bessel k nu a => shape_compat nu && shape_compat a
  | Vari a label => shape_compat a
  | Restricted plus a => shape_compat a
  | Grad a g => shape_compat a
  | RefGrad a t => shape_compat a
  | Div a g => shape_compat a
  | NablaGrad a g => shape_compat a
  | NablaDiv a g => shape_compat a
  | Curl a => shape_compat a
  | RefValue a sh => shape_compat a
  | Transposed a => shape_compat a
  | Outer a b => shape_compat a && shape_compat b
  | Inner a b => shape_compat a && shape_compat b
  | Dot a b => shape_compat a && shape_compat b
  | Cross a b => shape_compat a && shape_compat b
  | Perp a => shape_compat a
  | Trace a => shape_compat a
  | Determinant a => shape_compat a
  | Inverse a => shape_compat a
  | Cofactor a => shape_compat a
  | Deviatoric a => shape_compat a
  | Skew a => shape_compat a
  | Sym a => shape_compat a
  end
with shape_compatc (c : cond) : bool :=
  match c with
  | Cmp op a b => shape_compat a && shape_compat b
  | AndC a b => shape_compatc a && shape_compatc b
  | OrC a b => shape_compatc a && shape_compatc b
  | NotC a => shape_compatc a
  end.

Fixpoint mapped_in (e : expr) : bool :=
  match e with
  | Zero sh fi => false
  | IntV z => false
  | RealV m e => false
  | CplxV rm re im ie => false
  | RatV p q => false
  | Identity n => false
  | PermSym n => false
  | Term k id sh => match m k id with Some _ => true | None => false end
  | Sum a b => mapped_in a || mapped_in b
  | Product a b => mapped_in a || mapped_in b
  | Division a b => mapped_in a || mapped_in b
  | Power a b => mapped_in a || mapped_in b
  | Abs a => mapped_in a
  | Conj a => mapped_in a
  | Real a => mapped_in a
  | Imag a => mapped_in a
  | Indexed a mi => mapped_in a
  | IndexSum a i d => mapped_in a
  | ComponentTensor a ix => mapped_in a
  | ListTensor es => (fix go (l : list expr) : bool := match l with [] => false | x :: t => mapped_in x || go t end) es
  | Conditional c t f => mapped_inc c || mapped_in t || mapped_in f
  | MinV a b => mapped_in a || mapped_in b
  | MaxV a b => mapped_in a || mapped_in b
  | Math f a => mapped_in a
  | Atan2 a b => mapped_in a || mapped_in b
  | Bessel k nu a => mapped_in nu || mapped_in a
  | Vari a label => mapped_in a
  | Restricted plus a => mapped_in a
  | Grad a g => mapped_in a
  | RefGrad a t => mapped_in a
  | Div a g => mapped_in a
  | NablaGrad a g => mapped_in a
  | NablaDiv a g => mapped_in a
  | Curl a => mapped_in a
  | RefValue a sh => mapped_in a
  | Transposed a => mapped_in a
  | Outer a b => mapped_in a || mapped_in b
  | Inner a b => mapped_in a || mapped_in b
  | Dot a b => mapped_in a || mapped_in b
  | Cross a b => mapped_in a || mapped_in b
  | Perp a => mapped_in a
  | Trace a => mapped_in a
  | Determinant a => mapped_in a
  | Inverse a => mapped_in a
  | Cofactor a => mapped_in a
  | Deviatoric a => mapped_in a
  | Skew a => mapped_in a
  | Sym a => mapped_in a
  end
with mapped_inc (c : cond) : bool :=
  match c with
  | Cmp op a b => mapped_in a || mapped_in b
  | AndC a b => mapped_inc a || mapped_inc b
  | OrC a b => mapped_inc a || mapped_inc b
  | NotC a => mapped_inc a
  end.

(* replace with the shape check of Replacer.__init__ *)
Definition replace_checked (e : expr) : option expr :=
  if shape_compat e then Some (rep e) else None.

Ltac bsplit :=
  repeat match goal with
         | H : _ && _ = true |- _ => apply andb_prop in H; destruct H
         | H : _ || _ = false |- _ => apply orb_false_elim in H; destruct H
         end.

Lemma Forall_map_eq (es : list expr) :
  Forall (fun e => rep e = e) es -> map rep es = es.
Proof. induction 1; cbn; congruence. Qed.

(* ---- identity when nothing is mapped ---- *)
Theorem C21_identity_both :
  (forall e, mapped_in e = false -> rep e = e) /\ (forall c, mapped_inc c = false -> repc c = c).
Proof.
  apply expr_cond_full_ind; intros; cbn [mapped_in mapped_inc rep repc] in *; bsplit;
    try reflexivity; try (f_equal; auto; fail).
  - (* Term *) destruct (m k id); [discriminate|reflexivity].
  - (* ListTensor *) f_equal. apply Forall_map_eq.
    induction H as [|x t Hx Ht IH]; constructor.
    + apply Hx. apply orb_false_elim in H0. apply H0.
    + apply IH. apply orb_false_elim in H0. apply H0.
Qed.
Theorem C21_identity : forall e, mapped_in e = false -> rep e = e.
Proof. exact (proj1 C21_identity_both). Qed.

(* ---- shapes ---- *)
Theorem C21_shape : forall e, shape_compat e = true -> shape (rep e) = shape e.
Proof.
  apply (expr_full_ind (fun e => shape_compat e = true -> shape (rep e) = shape e) (fun _ => True));
    intros; try exact I; cbn [shape_compat rep shape] in *; bsplit; try reflexivity;
    try (rewrite ?H, ?H0, ?H1 by assumption; reflexivity).
  - (* Term *) destruct (m k id) as [t|]; [|reflexivity]. apply list_nat_eqb_eq. assumption.
  - (* ListTensor *) rewrite map_length. f_equal. destruct es as [|x t]; [reflexivity|].
    cbn [map]. inversion H; subst. apply andb_prop in H0. apply H3, H0.
Qed.

Theorem C21_shape_reject : forall e,
  replace_checked e = None <-> shape_compat e = false.
Proof. intros e. unfold replace_checked. destruct (shape_compat e); split; intros H; congruence. Qed.

(* ---- the substitution lemma ---- *)
Section Subst.
Variable A : ualg.
Open Scope K_scope.
Variable env : side -> nat -> nat -> list nat -> A.
Variable D DX : nat -> A -> A.
Variable ki : A.
Notation den0 := (@den A env D DX ki).
Notation denc0 := (@denc A env D DX ki).

(* the environment in which every mapped terminal takes the value of its image *)
Definition env' : side -> nat -> nat -> list nat -> A :=
  fun s k id c => match m k id with Some t => den0 s (fun _ => 0) t c | None => env s k id c end.
Notation den1 := (@den A env' D DX ki).
Notation denc1 := (@denc A env' D DX ki).

(* images have no free indices (their value does not depend on the index valuation) *)
Hypothesis Hclosed : forall k id t, m k id = Some t ->
  forall s rho rho' c, den0 s rho t c = den0 s rho' t c.
(* kpow agrees with repeated multiplication on literal natural exponents (Power with a literal
   integer exponent denotes kpown, Core/Den.v) *)
Hypothesis Hpow0 : forall x : A, kpow x (of_Z 0) = k1.
Hypothesis Hpown : forall (x : A) p, kpow x (of_Z (Zpos p)) = kpown x (Pos.to_nat p).

Lemma den_power_nonlit (E : side -> nat -> nat -> list nat -> A) s rho a b c :
  (forall z, b <> IntV z) ->
  @den A E D DX ki s rho (Power a b) c = kpow (@den A E D DX ki s rho a []) (@den A E D DX ki s rho b []).
Proof. intros H. destruct b; try reflexivity. exfalso. exact (H z eq_refl). Qed.

Lemma den_power_lit (E : side -> nat -> nat -> list nat -> A) s rho a z c :
  @den A E D DX ki s rho (Power a (IntV z)) c = kpow (@den A E D DX ki s rho a []) (of_Z z).
Proof. destruct z; cbn [Den.den]; [symmetry; apply Hpow0 | symmetry; apply Hpown | reflexivity]. Qed.

Lemma rep_head b z : rep b = IntV z -> b = IntV z \/ exists k id sh, b = Term k id sh.
Proof. destruct b; cbn [rep]; intros H; try discriminate; [left; exact H | right; eauto]. Qed.

Lemma nth_den_map (E1 E2 : side -> nat -> nat -> list nat -> A) s rho (es : list expr) c' :
  Forall (fun e => forall s rho c, @den A E1 D DX ki s rho (rep e) c = @den A E2 D DX ki s rho e c) es ->
  forall k,
  (fix nth_den (l : list expr) (n : nat) {struct l} : A :=
     match l, n with
     | [], _ => k0
     | e0 :: _, O => @den A E1 D DX ki s rho e0 c'
     | _ :: t, S n' => nth_den t n'
     end) (map rep es) k =
  (fix nth_den (l : list expr) (n : nat) {struct l} : A :=
     match l, n with
     | [], _ => k0
     | e0 :: _, O => @den A E2 D DX ki s rho e0 c'
     | _ :: t, S n' => nth_den t n'
     end) es k.
Proof.
  induction 1 as [|x t Hx Ht IH]; intros k; [reflexivity|].
  cbn [map]. destruct k as [|k]; [apply Hx | apply IH].
Qed.

Lemma Forall_compat (es : list expr) (P : expr -> Prop) :
  Forall (fun e => shape_compat e = true -> P e) es ->
  (fix go (l : list expr) : bool := match l with [] => true | x :: t => shape_compat x && go t end) es = true ->
  Forall P es.
Proof.
  induction 1 as [|x t Hx Ht IH]; intros H; constructor.
  - apply Hx. apply andb_prop in H. apply H.
  - apply IH. apply andb_prop in H. apply H.
Qed.

Lemma det_ext n : forall M N : nat -> nat -> A, (forall i j, M i j = N i j) -> det n M = det n N.
Proof.
  induction n as [|n IH]; intros M N H; cbn [det]; [reflexivity|].
  apply ksum_ext. intros j _. rewrite (H 0 j). f_equal. apply IH. intros i' j'. unfold minor. apply H.
Qed.
Lemma cofactor_ext n (M N : nat -> nat -> A) i j :
  (forall i j, M i j = N i j) -> cofactor n M i j = cofactor n N i j.
Proof.
  intros H. destruct n as [|n]; cbn [cofactor]; [reflexivity|]. f_equal. apply det_ext.
  intros i' j'. unfold minor. apply H.
Qed.
Lemma gram_ext mm (M N : nat -> nat -> A) i j :
  (forall i j, M i j = N i j) -> gram mm M i j = gram mm N i j.
Proof. intros H. unfold gram. apply ksum_ext. intros k _. rewrite !H. reflexivity. Qed.
Lemma ksum_shape_ext sh : forall f g : list nat -> A, (forall c, f c = g c) -> ksum_shape sh f = ksum_shape sh g.
Proof.
  induction sh as [|d sh IH]; intros f g H; cbn [ksum_shape]; [apply H|].
  apply ksum_ext. intros k _. apply IH. intros c. apply H.
Qed.

Theorem C21_subst_both :
  (forall e, shape_compat e = true -> forall s rho c, den0 s rho (rep e) c = den1 s rho e c) /\
  (forall cn, shape_compatc cn = true -> forall s rho, denc0 s rho (repc cn) = denc1 s rho cn).
Proof.
  apply expr_cond_full_ind; intros; cbn [shape_compat shape_compatc] in *; bsplit.
  all: try (cbn [rep repc Den.den Den.denc]; rewrite ?C21_shape by assumption;
            repeat match goal with
                   | H : shape_compat ?a = true -> _, H' : shape_compat ?a = true |- _ => specialize (H H')
                   | H : shape_compatc ?a = true -> _, H' : shape_compatc ?a = true |- _ => specialize (H H')
                   end;
            repeat match goal with
                   | H : forall s rho c, den0 s rho (rep ?a) c = _ |- _ => rewrite !H; clear H
                   | H : forall s rho, denc0 s rho (repc ?a) = _ |- _ => rewrite !H; clear H
                   end; reflexivity).
  - (* Term *) cbn [rep Den.den]. unfold env'. destruct (m k id) as [t|] eqn:E; [|reflexivity].
    apply (Hclosed _ _ _ E).
  - (* Power *) cbn [rep]. specialize (H H1). specialize (H0 H2).
    destruct b; try (rewrite !den_power_nonlit by (intros ? ?; discriminate); rewrite H, H0; reflexivity).
    + (* literal exponent *) cbn [rep]. rewrite !den_power_lit, H. reflexivity.
    + (* exponent is a terminal *)
      destruct (rep (Term k id sh)) eqn:Er;
        try (rewrite (den_power_nonlit env') by (intros ? ?; discriminate);
             rewrite den_power_nonlit by (intros ? ?; discriminate); rewrite H, <- H0; reflexivity).
      rewrite den_power_lit, (den_power_nonlit env') by (intros ? ?; discriminate).
      rewrite H, <- H0. reflexivity.
  - (* IndexSum *) cbn [rep Den.den]. specialize (H H0). apply ksum_ext. intros k _. apply H.
  - (* ListTensor *) cbn [rep Den.den]. destruct c as [|k c']; [reflexivity|].
    apply nth_den_map. apply (Forall_compat es _ H H0).
  - (* Grad *) cbn [rep Den.den]. destruct (split_last c). rewrite (H H0). reflexivity.
  - (* RefGrad *) cbn [rep Den.den]. destruct (split_last c). rewrite (H H0). reflexivity.
  - (* Div *) cbn [rep Den.den]. apply ksum_ext. intros j _. rewrite (H H0). reflexivity.
  - (* NablaGrad *) cbn [rep Den.den]. destruct c; [reflexivity|]. rewrite (H H0). reflexivity.
  - (* NablaDiv *) cbn [rep Den.den]. apply ksum_ext. intros j _. rewrite (H H0). reflexivity.
  - (* Curl *) cbn [rep Den.den]. rewrite (C21_shape _ H0). specialize (H H0).
    destruct (shape a) as [|? [|? ?]]; destruct c as [|? [|? ?]]; rewrite ?H; try reflexivity.
    all: try (destruct n; rewrite ?H; try reflexivity; destruct n; rewrite ?H; try reflexivity;
              destruct n; rewrite ?H; reflexivity).
  - (* Inner *) cbn [rep Den.den]. rewrite (C21_shape _ H1). apply ksum_shape_ext. intros I.
    rewrite (H H1), (H0 H2). reflexivity.
  - (* Dot *) cbn [rep Den.den]. rewrite (C21_shape _ H1). apply ksum_ext. intros k _.
    rewrite (H H1), (H0 H2). reflexivity.
  - (* Cross *) cbn [rep Den.den]. destruct c as [|? [|? ?]]; try reflexivity.
    rewrite !(H H1), !(H0 H2). reflexivity.
  - (* Trace *) cbn [rep Den.den]. rewrite (C21_shape _ H0). apply ksum_ext. intros i _. apply (H H0).
  - (* Determinant *) cbn [rep Den.den]. rewrite (C21_shape _ H0). specialize (H H0).
    destruct (shape a) as [|mm [|nn [|? ?]]]; try reflexivity; [apply H|].
    destruct (Nat.eqb mm nn).
    + apply det_ext. intros i j. apply H.
    + f_equal. apply det_ext. intros i j. apply gram_ext. intros i' j'. apply H.
  - (* Inverse *) cbn [rep Den.den]. rewrite (C21_shape _ H0). specialize (H H0).
    destruct (shape a) as [|mm [|nn [|? ?]]]; try reflexivity; [rewrite H; reflexivity|].
    destruct c as [|i [|j [|? ?]]]; try reflexivity.
    destruct (Nat.eqb mm nn).
    + f_equal; [unfold adjugate; apply cofactor_ext | apply det_ext]; intros i' j'; apply H.
    + apply ksum_ext. intros k _. rewrite H. f_equal. f_equal.
      * unfold adjugate. apply cofactor_ext. intros i' j'. apply gram_ext. intros ? ?. apply H.
      * apply det_ext. intros i' j'. apply gram_ext. intros ? ?. apply H.
  - (* Cofactor *) cbn [rep Den.den]. rewrite (C21_shape _ H0). specialize (H H0).
    destruct (shape a) as [|mm [|nn [|? ?]]]; try reflexivity.
    destruct c as [|i [|j [|? ?]]]; try reflexivity. apply cofactor_ext. intros i' j'. apply H.
  - (* Deviatoric *) cbn [rep Den.den]. rewrite (C21_shape _ H0). specialize (H H0).
    destruct (shape a) as [|mm [|nn [|? ?]]]; try reflexivity.
    destruct c as [|i [|j [|? ?]]]; try reflexivity. rewrite H. f_equal.
    destruct (Nat.eqb i j); [|reflexivity]. f_equal. apply ksum_ext. intros k _. apply H.
  - (* Skew *) cbn [rep Den.den]. destruct c as [|i [|j [|? ?]]]; try reflexivity. rewrite !(H H0). reflexivity.
  - (* Sym *) cbn [rep Den.den]. destruct c as [|i [|j [|? ?]]]; try reflexivity. rewrite !(H H0). reflexivity.
Qed.

(* the value of replace(e, m) is the value of e in the environment where every mapped terminal takes
   the value of its image *)
Theorem C21_subst : forall e, shape_compat e = true ->
  forall s rho c, den0 s rho (rep e) c = den1 s rho e c.
Proof. exact (proj1 C21_subst_both). Qed.

(* special cases named in the property: under derivatives the derivation acts on the image, under a
   restriction the image is evaluated on that side, variables are transparent *)
Corollary C21_under_grad : forall a g, shape_compat a = true -> forall s rho c j,
  den0 s rho (rep (Grad a g)) (c ++ [j]) = D j (den1 s rho a c).
Proof.
  intros a g H s rho c j. cbn [rep Den.den]. unfold split_last. rewrite removelast_last, last_last.
  rewrite (C21_subst a H). reflexivity.
Qed.
Corollary C21_under_restriction : forall a p, shape_compat a = true -> forall s rho c,
  den0 s rho (rep (Restricted p a)) c = den1 (Some p) rho a c.
Proof. intros a p H s rho c. cbn [rep Den.den]. apply (C21_subst a H). Qed.
Corollary C21_under_variable : forall a l, shape_compat a = true -> forall s rho c,
  den0 s rho (rep (Vari a l)) c = den1 s rho a c.
Proof. intros a l H s rho c. cbn [rep Den.den]. apply (C21_subst a H). Qed.
(* a mapped terminal itself *)
Corollary C21_mapped_terminal : forall k id sh t, m k id = Some t -> forall s rho c,
  den0 s rho (rep (Term k id sh)) c = den0 s rho t c.
Proof. intros k id sh t E s rho c. cbn [rep]. rewrite E. reflexivity. Qed.
End Subst.
End Rep.

Print Assumptions C21_subst.
Print Assumptions C21_shape.
Print Assumptions C21_shape_reject.
Print Assumptions C21_identity.
Print Assumptions C21_under_grad.
