(** * C12 - signatures do not depend on incidental numbering

    Model (tie T3 + history harness, py/props/C12.py): the comparator [cmpg] of C29_model.v, the operand
    sorting of the commutative constructors ([build] of a construction script), a monotone renaming
    [rename phi] of the five global counters (Index, Coefficient, Label, Constant counts and Mesh ids), and
    the canonical renumbering [canon] that the signature applies (indices by first occurrence, counted
    terminals and meshes by the rank of their count).

    Theorems.  For every renaming that is strictly monotone on each counter class:
    - [C12_cmp_rename_partial]: cmp (rename a) (rename b) = cmp a b for ALL trees whose repr-compared
      terminals contain no counter (the numeric comparators are invariant);
    - [C12_cmp_rename_refuted]: false for a Constant (and for a quantity on a Mesh): its repr embeds the
      count in decimal and "10" < "9";
    - [C12_canon_rename]: canon (rename t) = canon t for ALL trees;
    - [C12_sig_invariant_partial]: hence sig (build (rename script)) = sig (build script) on the
      counter-free class, for every hash function; [C12_sig_invariant_refuted]: not in general. *)

From Coq Require Import String Ascii NArith Bool Lia PeanoNat List.
From UFLV Require Import Props.C29_model.
Import ListNotations.
Open Scope N_scope.

Record renaming := { r_idx : N -> N; r_coef : N -> N; r_label : N -> N; r_const : N -> N; r_mesh : N -> N }.

Definition mono (f : N -> N) : Prop := forall x y, x < y -> f x < f y.
Definition mono_all (phi : renaming) : Prop :=
  mono (r_idx phi) /\ mono (r_coef phi) /\ mono (r_label phi) /\ mono (r_const phi) /\ mono (r_mesh phi).

Lemma mono_compare f : mono f -> forall x y, (f x ?= f y) = (x ?= y).
Proof.
  intros H x y. destruct (N.compare_spec x y) as [E | E | E].
  - subst. apply N.compare_refl.
  - apply N.compare_lt_iff, H, E.
  - apply N.compare_gt_iff, H, E.
Qed.

Lemma mono_inj f : mono f -> forall x y, f x = f y -> x = y.
Proof.
  intros H x y E. apply N.compare_eq_iff. rewrite <- (mono_compare f H). apply N.compare_eq_iff, E.
Qed.

Definition rename_idx (phi : renaming) (i : idx) : idx :=
  match i with Fixed v => Fixed v | Free c => Free (r_idx phi c) end.
Definition rename_piece (phi : renaming) (p : piece) : piece :=
  match p with
  | PLit s => PLit s
  | PCnt CConstant n => PCnt CConstant (r_const phi n)
  | PCnt CMesh n => PCnt CMesh (r_mesh phi n)
  end.
Definition rename_tdata (phi : renaming) (d : tdata) : tdata :=
  match d with
  | TMulti l => TMulti (map (rename_idx phi) l)
  | TArg n p fs => TArg n p fs
  | TCoef c fs => TCoef (r_coef phi c) fs
  | TLabel c => TLabel (r_label phi c)
  | TRepr ps => TRepr (map (rename_piece phi) ps)
  | TGeo k m => TGeo k (r_mesh phi m)
  end.
Fixpoint rename (phi : renaming) (t : tree) : tree :=
  match t with
  | Leaf tc d => Leaf tc (rename_tdata phi d)
  | Node tc ops => Node tc (map (rename phi) ops)
  end.

(** the class on which the comparator is purely numeric: no counter inside a repr-compared terminal *)
Definition lit_piece (p : piece) : bool := match p with PLit _ => true | PCnt _ _ => false end.
Definition cfree_data (d : tdata) : bool := match d with TRepr ps => forallb lit_piece ps | _ => true end.
Fixpoint cfree (t : tree) : bool :=
  match t with Leaf _ d => cfree_data d | Node _ ops => forallb cfree ops end.

Lemma rename_lit_pieces phi ps : forallb lit_piece ps = true -> map (rename_piece phi) ps = ps.
Proof.
  induction ps as [|p ps IH]; simpl; intro H; [reflexivity|].
  apply andb_true_iff in H. destruct H as [H1 H2]. rewrite (IH H2).
  destruct p; [reflexivity | discriminate].
Qed.

Lemma cmp_idx_rename phi i j : cmp_idx (rename_idx phi i) (rename_idx phi j) = cmp_idx i j.
Proof. destruct i, j; reflexivity. Qed.

Section MapCmp.
  Context {A : Type} (c : A -> A -> comparison) (f : A -> A).
  Lemma zipc_map l1 : Forall (fun x => forall y, c (f x) (f y) = c x y) l1 ->
    forall l2, zipc c (map f l1) (map f l2) = zipc c l1 l2.
  Proof.
    induction 1 as [|x l1 Hx _ IH]; destruct l2 as [|y l2]; simpl; try reflexivity.
    rewrite Hx, IH. reflexivity.
  Qed.
  Lemma lex_map l1 : Forall (fun x => forall y, c (f x) (f y) = c x y) l1 ->
    forall l2, lex c (map f l1) (map f l2) = lex c l1 l2.
  Proof.
    induction 1 as [|x l1 Hx _ IH]; destruct l2 as [|y l2]; simpl; try reflexivity.
    rewrite Hx, IH. reflexivity.
  Qed.
  Lemma rzip_map l1 : Forall (fun x => forall y, c (f x) (f y) = c x y) l1 ->
    forall l2, rzip c (map f l1) (map f l2) = rzip c l1 l2.
  Proof.
    induction 1 as [|x l1 Hx _ IH]; destruct l2 as [|y l2]; simpl; try reflexivity.
    rewrite Hx, IH. reflexivity.
  Qed.
End MapCmp.

Lemma Forall_all {A} (P : A -> Prop) (l : list A) : (forall x, P x) -> Forall P l.
Proof. intro H. induction l; constructor; auto. Qed.

Lemma kind_rename phi d : kind (rename_tdata phi d) = kind d.
Proof. destruct d; reflexivity. Qed.

Lemma cmp_tdata_rename s phi d e :
  mono (r_coef phi) -> mono (r_mesh phi) -> cfree_data d = true -> cfree_data e = true ->
  cmp_tdata s (rename_tdata phi d) (rename_tdata phi e) = cmp_tdata s d e.
Proof.
  intros Hm Hg Hd He. destruct d, e; simpl in *; try reflexivity.
  - destruct s; [apply lex_map | apply zipc_map]; apply Forall_all; intros; apply cmp_idx_rename.
  - apply mono_compare, Hm.
  - rewrite (rename_lit_pieces phi ps Hd), (rename_lit_pieces phi ps0 He). reflexivity.
  - rewrite (mono_compare _ Hg). reflexivity.
Qed.

Theorem C12_cmp_rename_partial : forall s phi, mono (r_coef phi) -> mono (r_mesh phi) ->
  forall a b, cfree a = true -> cfree b = true ->
  cmpg s (rename phi a) (rename phi b) = cmpg s a b.
Proof.
  intros s phi Hm Hg a. induction a as [ta da | ta oa IH] using tree_ind'; intros [tb db | tb ob] Ha Hb;
    simpl in *; try reflexivity.
  - rewrite cmp_tdata_rename by assumption. reflexivity.
  - rewrite !map_length. f_equal. f_equal.
    revert ob Ha Hb. induction IH as [|x l1 Hx _ IHl]; destruct ob as [|y l2]; simpl; try reflexivity.
    intros Ha Hb. apply andb_true_iff in Ha. apply andb_true_iff in Hb.
    destruct Ha as [Ha1 Ha2], Hb as [Hb1 Hb2]. rewrite (Hx y Ha1 Hb1), (IHl l2 Ha2 Hb2). reflexivity.
Qed.

(** refuted for terminals ordered by a repr that embeds a counter: Constants 1, 2 renamed to 9, 10 *)
Definition shift_const (k : N) : renaming :=
  {| r_idx := fun n => n; r_coef := fun n => n; r_label := fun n => n;
     r_const := fun n => n + k; r_mesh := fun n => n |}.
Definition shift_mesh (k : N) : renaming :=
  {| r_idx := fun n => n; r_coef := fun n => n; r_label := fun n => n;
     r_const := fun n => n; r_mesh := fun n => n + k |}.

Lemma mono_id : mono (fun n => n). Proof. intros x y H; exact H. Qed.
Lemma mono_add k : mono (fun n => n + k). Proof. intros x y H; lia. Qed.
Lemma shift_const_mono k : mono_all (shift_const k).
Proof. repeat split; simpl; try apply mono_id; apply mono_add. Qed.
Lemma shift_mesh_mono k : mono_all (shift_mesh k).
Proof. repeat split; simpl; try apply mono_id; apply mono_add. Qed.

Definition constant_leaf (n : N) : tree :=
  Leaf 0 (TRepr [PLit "Constant(Mesh(E, "; PCnt CMesh 0; PLit "), (), "; PCnt CConstant n; PLit ")"]).
Definition coordinate_leaf (m : N) : tree :=
  Leaf 0 (TRepr [PLit "SpatialCoordinate(Mesh(E, "; PCnt CMesh m; PLit "))"]).

Theorem C12_cmp_rename_refuted :
  mono_all (shift_const 8) /\
  cmp (constant_leaf 1) (constant_leaf 2) = Lt /\
  cmp (rename (shift_const 8) (constant_leaf 1)) (rename (shift_const 8) (constant_leaf 2)) = Gt.
Proof. split; [apply shift_const_mono | split; vm_compute; reflexivity]. Qed.

Theorem C12_cmp_rename_refuted_mesh :
  mono_all (shift_mesh 9) /\
  cmp (coordinate_leaf 0) (coordinate_leaf 1) = Lt /\
  cmp (rename (shift_mesh 9) (coordinate_leaf 0)) (rename (shift_mesh 9) (coordinate_leaf 1)) = Gt.
Proof. split; [apply shift_mesh_mono | split; vm_compute; reflexivity]. Qed.

(** ** construction scripts: operand order is decided when the commutative node is built *)

Inductive script :=
| SLeaf (tc : N) (d : tdata)
| SComm (tc : N) (a b : script)            (* Sum / Product of two non-literal operands: sorted *)
| SOp (tc : N) (args : list script).       (* every other operator: operands kept as given *)

Fixpoint build (s : bool) (sc : script) : tree :=
  match sc with
  | SLeaf tc d => Leaf tc d
  | SComm tc a b => let (x, y) := sort2g s (build s a) (build s b) in Node tc [x; y]
  | SOp tc args => Node tc (map (build s) args)
  end.

Fixpoint rename_script (phi : renaming) (sc : script) : script :=
  match sc with
  | SLeaf tc d => SLeaf tc (rename_tdata phi d)
  | SComm tc a b => SComm tc (rename_script phi a) (rename_script phi b)
  | SOp tc args => SOp tc (map (rename_script phi) args)
  end.

Fixpoint scfree (sc : script) : bool :=
  match sc with
  | SLeaf _ d => cfree_data d
  | SComm _ a b => scfree a && scfree b
  | SOp _ args => forallb scfree args
  end.

Lemma script_ind' (P : script -> Prop) :
  (forall tc d, P (SLeaf tc d)) ->
  (forall tc a b, P a -> P b -> P (SComm tc a b)) ->
  (forall tc args, Forall P args -> P (SOp tc args)) ->
  forall sc, P sc.
Proof.
  intros HL HC HO. fix IH 1. intros [tc d | tc a b | tc args].
  - apply HL.
  - apply HC; apply IH.
  - apply HO. induction args as [|x args IHa]; constructor; [apply IH | exact IHa].
Qed.

Lemma build_cfree s : forall sc, scfree sc = true -> cfree (build s sc) = true.
Proof.
  induction sc as [tc d | tc a b IHa IHb | tc args IH] using script_ind'; simpl; intro H.
  - exact H.
  - apply andb_true_iff in H. destruct H as [Ha Hb]. unfold sort2g.
    destruct (is_lt (cmpg s (build s b) (build s a))); simpl; rewrite (IHa Ha), (IHb Hb); reflexivity.
  - induction IH as [|x l Hx _ IHl]; simpl in *; [reflexivity|].
    apply andb_true_iff in H. destruct H as [H1 H2]. rewrite (Hx H1), (IHl H2). reflexivity.
Qed.

Theorem C12_build_rename : forall s phi, mono (r_coef phi) -> mono (r_mesh phi) ->
  forall sc, scfree sc = true -> build s (rename_script phi sc) = rename phi (build s sc).
Proof.
  intros s phi Hm Hg. induction sc as [tc d | tc a b IHa IHb | tc args IH] using script_ind'; simpl; intro H.
  - reflexivity.
  - apply andb_true_iff in H. destruct H as [Ha Hb]. rewrite (IHa Ha), (IHb Hb). unfold sort2g.
    rewrite (C12_cmp_rename_partial s phi Hm Hg) by (apply build_cfree; assumption).
    destruct (is_lt (cmpg s (build s b) (build s a))); reflexivity.
  - f_equal. induction IH as [|x l Hx _ IHl]; simpl in *; [reflexivity|].
    apply andb_true_iff in H. destruct H as [H1 H2]. rewrite (Hx H1), (IHl H2). reflexivity.
Qed.

(** ** canonical renumbering (what the signature sees) *)

Fixpoint pos (x : N) (l : list N) : N :=
  match l with [] => 0 | y :: l' => if x =? y then 0 else 1 + pos x l' end.

Definition rank (x : N) (l : list N) : N :=
  N.of_nat (length (nodup N.eq_dec (filter (fun y => y <? x) l))).

Lemma pos_map f : (forall x y, f x = f y -> x = y) -> forall x l, pos (f x) (map f l) = pos x l.
Proof.
  intros Hinj x l. induction l as [|y l IH]; simpl; [reflexivity|].
  destruct (N.eqb_spec x y) as [E | E].
  - subst. rewrite N.eqb_refl. reflexivity.
  - destruct (N.eqb_spec (f x) (f y)) as [E' | E']; [elim E; apply Hinj, E' | rewrite IH; reflexivity].
Qed.

Lemma nodup_map_inj f : (forall x y, f x = f y -> x = y) ->
  forall l, nodup N.eq_dec (map f l) = map f (nodup N.eq_dec l).
Proof.
  intros Hinj l. induction l as [|a l IH]; simpl; [reflexivity|].
  destruct (in_dec N.eq_dec a l) as [Hi | Hi]; destruct (in_dec N.eq_dec (f a) (map f l)) as [Hj | Hj].
  - exact IH.
  - elim Hj. apply in_map, Hi.
  - elim Hi. apply in_map_iff in Hj. destruct Hj as [x [E Hx]]. apply Hinj in E. subst. exact Hx.
  - simpl. rewrite IH. reflexivity.
Qed.

Lemma rank_map f : mono f -> forall x l, rank (f x) (map f l) = rank x l.
Proof.
  intros Hm x l. unfold rank. f_equal.
  assert (E : filter (fun y => y <? f x) (map f l) = map f (filter (fun y => y <? x) l)).
  { induction l as [|y l IH]; simpl; [reflexivity|].
    assert (Hlt : (f y <? f x) = (y <? x)) by (unfold N.ltb; rewrite (mono_compare f Hm); reflexivity).
    rewrite Hlt. destruct (y <? x); simpl; rewrite IH; reflexivity. }
  rewrite E, (nodup_map_inj f (mono_inj f Hm)), map_length. reflexivity.
Qed.

(** the counters occurring in a tree, in traversal order *)
Definition idx_counts (l : list idx) : list N :=
  flat_map (fun i => match i with Free c => [c] | Fixed _ => [] end) l.
Definition piece_counts (k : cclass) (ps : list piece) : list N :=
  flat_map (fun p => match p, k with
                     | PCnt CConstant n, CConstant => [n]
                     | PCnt CMesh n, CMesh => [n]
                     | _, _ => [] end) ps.

Inductive counter := KIdx | KCoef | KLabel | KConst | KMesh.

Definition data_counts (k : counter) (d : tdata) : list N :=
  match k, d with
  | KIdx, TMulti l => idx_counts l
  | KCoef, TCoef c _ => [c]
  | KLabel, TLabel c => [c]
  | KConst, TRepr ps => piece_counts CConstant ps
  | KMesh, TRepr ps => piece_counts CMesh ps
  | KMesh, TGeo _ m => [m]
  | _, _ => []
  end.
Fixpoint counts (k : counter) (t : tree) : list N :=
  match t with Leaf _ d => data_counts k d | Node _ ops => flat_map (counts k) ops end.

Definition r_of (phi : renaming) (k : counter) : N -> N :=
  match k with KIdx => r_idx phi | KCoef => r_coef phi | KLabel => r_label phi
             | KConst => r_const phi | KMesh => r_mesh phi end.

Lemma flat_map_map_gen {A B C} (g : A -> list B) (g' : C -> list B) (h : A -> C) (f : B -> B) l :
  Forall (fun x => g' (h x) = map f (g x)) l -> flat_map g' (map h l) = map f (flat_map g l).
Proof.
  induction 1 as [|x l Hx _ IH]; simpl; [reflexivity|]. rewrite Hx, IH, map_app. reflexivity.
Qed.

Lemma data_counts_rename phi k d : data_counts k (rename_tdata phi d) = map (r_of phi k) (data_counts k d).
Proof.
  destruct k, d; simpl; try reflexivity.
  - unfold idx_counts. apply flat_map_map_gen. apply Forall_all. intros [v | c]; reflexivity.
  - unfold piece_counts. apply flat_map_map_gen. apply Forall_all. intros [s | [|] n]; reflexivity.
  - unfold piece_counts. apply flat_map_map_gen. apply Forall_all. intros [s | [|] n]; reflexivity.
Qed.

Lemma counts_rename phi k : forall t, counts k (rename phi t) = map (r_of phi k) (counts k t).
Proof.
  induction t as [tc d | tc ops IH] using tree_ind'; simpl.
  - apply data_counts_rename.
  - apply flat_map_map_gen. exact IH.
Qed.

Record ctx := { c_idx : list N; c_coef : list N; c_label : list N; c_const : list N; c_mesh : list N }.
Definition ctx_of (t : tree) : ctx :=
  {| c_idx := counts KIdx t; c_coef := counts KCoef t; c_label := counts KLabel t;
     c_const := counts KConst t; c_mesh := counts KMesh t |}.
Definition ctx_map (phi : renaming) (c : ctx) : ctx :=
  {| c_idx := map (r_idx phi) (c_idx c); c_coef := map (r_coef phi) (c_coef c);
     c_label := map (r_label phi) (c_label c); c_const := map (r_const phi) (c_const c);
     c_mesh := map (r_mesh phi) (c_mesh c) |}.

Definition canon_idx (c : ctx) (i : idx) : idx :=
  match i with Fixed v => Fixed v | Free n => Free (pos n (c_idx c)) end.
Definition canon_piece (c : ctx) (p : piece) : piece :=
  match p with
  | PLit s => PLit s
  | PCnt CConstant n => PCnt CConstant (rank n (c_const c))
  | PCnt CMesh n => PCnt CMesh (rank n (c_mesh c))
  end.
Definition canon_tdata (c : ctx) (d : tdata) : tdata :=
  match d with
  | TMulti l => TMulti (map (canon_idx c) l)
  | TArg n p fs => TArg n p fs
  | TCoef n fs => TCoef (rank n (c_coef c)) fs
  | TLabel n => TLabel (rank n (c_label c))
  | TRepr ps => TRepr (map (canon_piece c) ps)
  | TGeo k n => TGeo k (rank n (c_mesh c))
  end.
Fixpoint canon_with (c : ctx) (t : tree) : tree :=
  match t with
  | Leaf tc d => Leaf tc (canon_tdata c d)
  | Node tc ops => Node tc (map (canon_with c) ops)
  end.
Definition canon (t : tree) : tree := canon_with (ctx_of t) t.

Lemma canon_tdata_rename phi c d : mono_all phi ->
  canon_tdata (ctx_map phi c) (rename_tdata phi d) = canon_tdata c d.
Proof.
  intros (Hi & Hc & Hl & Hk & Hm). destruct d; simpl; try reflexivity.
  - f_equal. rewrite map_map. apply map_ext. intros [v | n]; simpl; [reflexivity|].
    rewrite (pos_map _ (mono_inj _ Hi)). reflexivity.
  - rewrite (rank_map _ Hc). reflexivity.
  - rewrite (rank_map _ Hl). reflexivity.
  - f_equal. rewrite map_map. apply map_ext. intros [s | [|] n]; simpl; try reflexivity.
    + rewrite (rank_map _ Hk). reflexivity.
    + rewrite (rank_map _ Hm). reflexivity.
  - rewrite (rank_map _ Hm). reflexivity.
Qed.

Lemma canon_with_rename phi c : mono_all phi ->
  forall t, canon_with (ctx_map phi c) (rename phi t) = canon_with c t.
Proof.
  intros H. induction t as [tc d | tc ops IH] using tree_ind'; simpl.
  - rewrite canon_tdata_rename by exact H. reflexivity.
  - f_equal. rewrite map_map. induction IH as [|x l Hx _ IHl]; simpl; [reflexivity|].
    rewrite Hx, IHl. reflexivity.
Qed.

Theorem C12_canon_rename : forall phi, mono_all phi -> forall t, canon (rename phi t) = canon t.
Proof.
  intros phi H t. unfold canon.
  assert (E : ctx_of (rename phi t) = ctx_map phi (ctx_of t)).
  { unfold ctx_of, ctx_map. simpl. rewrite !counts_rename. reflexivity. }
  rewrite E. apply canon_with_rename, H.
Qed.

(** ** the signature of a script: any function of the canonically renumbered built tree *)
Section Sig.
  Variable T : Type.
  Variable H : tree -> T.                  (* str() rendering of the hash data followed by SHA-512 *)
  Definition sig (s : bool) (sc : script) : T := H (canon (build s sc)).

  Theorem C12_sig_invariant_partial : forall s phi, mono_all phi ->
    forall sc, scfree sc = true -> sig s (rename_script phi sc) = sig s sc.
  Proof.
    intros s phi Hm sc Hf. unfold sig.
    destruct Hm as (Hi & Hc & Hl & Hk & Hg).
    rewrite (C12_build_rename s phi Hc Hg sc Hf), (C12_canon_rename phi (conj Hi (conj Hc (conj Hl (conj Hk Hg))))). reflexivity.
  Qed.

  (** with an injective hash the signature of Constant 1 * Constant 2 changes when the same script is
      run with the constant counter advanced by 8 *)
  Hypothesis H_inj : forall a b, H a = H b -> a = b.
  Definition two_constants : script :=
    SComm 1 (SLeaf 0 (TRepr [PLit "Constant(Mesh(E, "; PCnt CMesh 0; PLit "), (), "; PCnt CConstant 1; PLit ")"]))
            (SLeaf 0 (TRepr [PLit "Constant(Mesh(E, "; PCnt CMesh 0; PLit "), (), "; PCnt CConstant 2; PLit ")"])).

  Theorem C12_sig_invariant_refuted :
    mono_all (shift_const 8) /\ sig false (rename_script (shift_const 8) two_constants) <> sig false two_constants.
  Proof.
    split; [apply shift_const_mono|]. unfold sig. intro E. apply H_inj in E. revert E.
    vm_compute. discriminate.
  Qed.
End Sig.

(** with fixes/C12-geometry-cmp-by-domain-id.diff a geometric quantity is a [TGeo] leaf: it belongs to the
    counter-free class ([cfree_data (TGeo _ _) = true]), so the invariance theorems above apply unguarded
    to forms whose only counted terminals are coefficients, constants ordered by count, labels, indices and
    geometric quantities; in particular the mesh-id refutation no longer applies to them: *)
Definition coordinate_leaf_repaired (m : N) : tree := Leaf 0 (TGeo "E" m).
Theorem C12_cmp_rename_geo_repaired : forall phi, mono (r_coef phi) -> mono (r_mesh phi) -> forall m1 m2,
  cmp (rename phi (coordinate_leaf_repaired m1)) (rename phi (coordinate_leaf_repaired m2)) =
  cmp (coordinate_leaf_repaired m1) (coordinate_leaf_repaired m2).
Proof. intros phi Hc Hg m1 m2. apply C12_cmp_rename_partial; try assumption; reflexivity. Qed.

(** executable helpers for the generated correspondence (coq/Gen/C12_*.v) *)
Definition shift5 (di dc dl dk dm : N) : renaming :=
  {| r_idx := fun n => n + di; r_coef := fun n => n + dc; r_label := fun n => n + dl;
     r_const := fun n => n + dk; r_mesh := fun n => n + dm |}.
Lemma shift5_mono di dc dl dk dm : mono_all (shift5 di dc dl dk dm).
Proof. repeat split; simpl; apply mono_add. Qed.

Print Assumptions C12_cmp_rename_partial.
Print Assumptions C12_cmp_rename_geo_repaired.
Print Assumptions C12_cmp_rename_refuted.
Print Assumptions C12_cmp_rename_refuted_mesh.
Print Assumptions C12_build_rename.
Print Assumptions C12_canon_rename.
Print Assumptions C12_sig_invariant_partial.
Print Assumptions C12_sig_invariant_refuted.
