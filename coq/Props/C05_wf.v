(* C05 - free-index soundness of the calculus and the UNGUARDED soundness of the repaired
   ComponentTensor shortcut.

   [den_agree]: for every well-formed expression e (predicate [wfx]: the checks the Python constructors
   perform - equal shapes/free indices of Sum operands and ListTensor entries, scalar operands of
   Product ..., rank of the multiindex, conditions without free indices) and every well-typed component c,
   the value [den s rho e c] depends on the index valuation rho only through the indices listed in
   [fidx e] (= ufl_free_indices).  Hence the SYNTACTIC test "j not in A.ufl_free_indices" that the
   repaired code performs implies the semantic independence [indep] that the *_partial theorems of
   Props/C05_model.v assume.  With it the repaired shortcut as_tensor(A[ii], ii) -> A
   (ComponentTensor.__new__ of /repo a0002a9, model flag fx_cn = true) is sound without any hygiene
   hypothesis: [C05_component_tensor_repaired_sound].

   The fragment covered by [wfx] is the index calculus: terminals, literals, algebra, complex parts,
   Indexed, IndexSum, ComponentTensor, ListTensor, Conditional, min/max, math functions, variables and
   restrictions; derivative and compound tensor-algebra nodes are outside ([wfx] is False on them). *)
Require Import UFLV.Core.Den.
Require Import UFLV.Props.C05_model.
Require Import Lia.

Fixpoint wfx (e : expr) : Prop :=
  match e with
  | Zero _ _ | IntV _ | RealV _ _ | CplxV _ _ _ _ | RatV _ _ | Identity _ | PermSym _ | Term _ _ _ => True
  | Sum a b => wfx a /\ wfx b /\ shape a = shape b /\ fidx a = fidx b
  | Product a b | Division a b | Power a b | MinV a b | MaxV a b | Atan2 a b =>
      wfx a /\ wfx b /\ shape a = [] /\ shape b = []
  | Bessel _ nu a => wfx nu /\ wfx a /\ shape nu = [] /\ shape a = [] /\ fidx nu = []
  | Abs a | Conj a | Real a | Imag a | Vari a _ | Restricted _ a => wfx a
  | Math _ a => wfx a /\ shape a = []
  | Indexed a mi => wfx a /\ length mi = length (shape a)
  | IndexSum a _ _ => wfx a
  | ComponentTensor a _ => wfx a /\ shape a = []
  | ListTensor es =>
      es <> [] /\ (fix all (l : list expr) : Prop := match l with [] => True | x :: t => wfx x /\ all t end) es /\
      uniform es
  | Conditional c t f => wfc c /\ wfx t /\ wfx f /\ shape t = shape f /\ fidx t = fidx f
  | _ => False
  end
with wfc (c : cond) : Prop :=
  match c with
  | Cmp _ a b => wfx a /\ wfx b /\ shape a = [] /\ shape b = [] /\ fidx a = [] /\ fidx b = []
  | AndC a b | OrC a b => wfc a /\ wfc b
  | NotC a => wfc a
  end.

Lemma wfx_lt_in es : wfx (ListTensor es) -> forall x, In x es -> wfx x.
Proof.
  simpl. intros [_ [H _]]. induction es as [|y t IH]; intros x Hx; [destruct Hx|].
  destruct H as [Hy Ht]. destruct Hx as [->|Hx]; auto.
Qed.

Lemma size_in_lt x es : In x es -> size x < size (ListTensor es).
Proof.
  induction es as [|y t IH]; intros H; [destruct H|].
  destruct H as [->|H]; simpl in *; [lia|]. specialize (IH H). lia.
Qed.

(* ids of merged / filtered free-index lists *)
Lemma ids_merge x l1 : forall l2, In x (ids (fi_merge l1 l2)) <-> In x (ids l1) \/ In x (ids l2).
Proof.
  induction l1 as [|[j e] t IH]; intros l2.
  - unfold fi_merge, ids. simpl. tauto.
  - rewrite fi_merge_cons, IH, ids_insert. unfold ids. simpl. intuition (subst; auto).
Qed.

Lemma ids_remove x i l : In x (ids (fi_remove i l)) <-> In x (ids l) /\ x <> i.
Proof.
  induction l as [|[j e] t IH]; simpl; [tauto|].
  destruct (Nat.eqb j i) eqn:E; simpl.
  - apply Nat.eqb_eq in E. subst. rewrite IH. split; [tauto|]. intros [[H|H] N]; [congruence|tauto].
  - apply Nat.eqb_neq in E. rewrite IH. split; [|tauto]. intros [H|H]; [subst; tauto|tauto].
Qed.

Definition fold_rm (jj : list (nat * nat)) (l : list (nat * nat)) : list (nat * nat) :=
  fold_left (fun acc p => fi_remove (fst p) acc) jj l.

Lemma ids_fold_rm x jj : forall l, In x (ids (fold_rm jj l)) <-> In x (ids l) /\ ~ In x (ids jj).
Proof.
  induction jj as [|[j d] jj IH]; intros l; simpl; [tauto|].
  unfold fold_rm in *. simpl. rewrite IH, ids_remove. simpl. split.
  - intros [[H1 H2] H3]. split; auto. intros [E|E]; auto.
  - intros [H1 H2]. repeat split; auto.
Qed.

Lemma mi_has_in j mi : mi_has j mi = true <-> In (Free j) mi.
Proof.
  induction mi as [|x mi IH]; simpl; [split; [discriminate|tauto]|].
  rewrite orb_true_iff, IH. destruct x as [n|i].
  - split; [intros [H|H]; [discriminate|auto]|intros [H|H]; [discriminate|auto]].
  - rewrite Nat.eqb_eq. split; [intros [->|H]; auto|intros [H|H]; [inversion H; auto|auto]].
Qed.

Lemma mi_free_has j mi : forall sh, length mi = length sh -> In (Free j) mi -> In j (ids (mi_free mi sh)).
Proof.
  induction mi as [|x mi IH]; intros sh L H; [destruct H|].
  destruct sh as [|d sh]; [discriminate|]. simpl in L. injection L as L.
  destruct H as [->|H].
  - simpl. apply ids_insert. auto.
  - destruct x as [n|i]; simpl; [apply IH; auto|]. apply ids_insert. right. apply IH; auto.
Qed.

Lemma upds_in_same x ix : forall c r1 r2, length c = length ix -> In x (ids ix) ->
  upds r1 ix c x = upds r2 ix c x.
Proof.
  induction ix as [|[i d] ix IH]; intros c r1 r2 L H; [destruct H|].
  destruct c as [|v c]; [discriminate|]. simpl in L. injection L as L. simpl upds.
  destruct (in_dec Nat.eq_dec x (ids ix)) as [Hx|Hx].
  - apply IH; auto.
  - rewrite !upds_notin by exact Hx. simpl in H. destruct H as [<-|H]; [|contradiction].
    unfold upd. rewrite Nat.eqb_refl. reflexivity.
Qed.

Section Agree.
Variable A : ualg.
Add Field AfC05w : (kfield A).
Open Scope K_scope.
Variable env : side -> nat -> nat -> list nat -> A.
Variables D DX : nat -> A -> A.
Variable ki : A.
Notation DEN := (@den A env D DX ki).
Notation DENC := (@denc A env D DX ki).

Definition agree (l : list (nat * nat)) (r1 r2 : nat -> nat) : Prop := forall x, In x (ids l) -> r1 x = r2 x.

Definition pow_sem (b : expr) (x y : A) : A :=
  match b with
  | IntV Z0 => k1
  | IntV (Zpos p) => kpown x (Pos.to_nat p)
  | _ => kpow x y
  end.
Lemma den_power s r a b c : DEN s r (Power a b) c = pow_sem b (DEN s r a []) (DEN s r b []).
Proof. destruct b; try reflexivity; destruct z; reflexivity. Qed.

Lemma nth_den_agree s r1 r2 c l : (forall x, In x l -> DEN s r1 x c = DEN s r2 x c) -> forall k,
  (fix nth_den (l : list expr) (n : nat) {struct l} : A :=
     match l, n with [], _ => k0 | e0 :: _, O => DEN s r1 e0 c | _ :: t, S n' => nth_den t n' end) l k =
  (fix nth_den (l : list expr) (n : nat) {struct l} : A :=
     match l, n with [], _ => k0 | e0 :: _, O => DEN s r2 e0 c | _ :: t, S n' => nth_den t n' end) l k.
Proof.
  induction l as [|y t IH]; intros H k; [reflexivity|].
  destruct k as [|k]; [apply H; simpl; auto|]. apply IH. intros x Hx. apply H. simpl. auto.
Qed.

Lemma agree_merge_l l1 l2 r1 r2 : agree (fi_merge l1 l2) r1 r2 -> agree l1 r1 r2.
Proof. intros H x Hx. apply H. apply ids_merge. auto. Qed.
Lemma agree_merge_r l1 l2 r1 r2 : agree (fi_merge l1 l2) r1 r2 -> agree l2 r1 r2.
Proof. intros H x Hx. apply H. apply ids_merge. auto. Qed.
Lemma agree_nil r1 r2 : agree [] r1 r2.
Proof. intros x []. Qed.

Lemma den_agree_n : forall n,
  (forall e, size e < n -> wfx e -> forall s r1 r2 c, length c = length (shape e) ->
     agree (fidx e) r1 r2 -> DEN s r1 e c = DEN s r2 e c) /\
  (forall cn, csize cn < n -> wfc cn -> forall s r1 r2, DENC s r1 cn = DENC s r2 cn).
Proof.
  induction n as [|n [IHe IHc]]; [split; intros; lia|]. split.
  - intros e Hs W s r1 r2 c L AG.
    destruct e; simpl in Hs; simpl in W; try contradiction; try reflexivity.
    + (* Sum *) destruct W as [W1 [W2 [Es Ef]]]. cbn [den shape fidx] in *. f_equal.
      * apply IHe; auto; lia.
      * apply IHe; auto; try lia. rewrite <- Es. exact L. rewrite <- Ef. exact AG.
    + (* Product *) destruct W as [W1 [W2 [E1 E2]]]. cbn [den fidx] in *. f_equal.
      * apply IHe; auto; try lia. rewrite E1. reflexivity. eapply agree_merge_l; eauto.
      * apply IHe; auto; try lia. rewrite E2. reflexivity. eapply agree_merge_r; eauto.
    + (* Division *) destruct W as [W1 [W2 [E1 E2]]]. cbn [den fidx] in *. f_equal.
      * apply IHe; auto; try lia. rewrite E1. reflexivity. eapply agree_merge_l; eauto.
      * apply IHe; auto; try lia. rewrite E2. reflexivity. eapply agree_merge_r; eauto.
    + (* Power *) destruct W as [W1 [W2 [E1 E2]]]. rewrite !den_power. cbn [fidx] in AG. f_equal.
      * apply IHe; auto; try lia. rewrite E1. reflexivity. eapply agree_merge_l; eauto.
      * apply IHe; auto; try lia. rewrite E2. reflexivity. eapply agree_merge_r; eauto.
    + (* Abs *) cbn [den shape fidx] in *. f_equal. apply IHe; auto; lia.
    + (* Conj *) cbn [den shape fidx] in *. f_equal. apply IHe; auto; lia.
    + (* Real *) cbn [den shape fidx] in *. f_equal. apply IHe; auto; lia.
    + (* Imag *) cbn [den shape fidx] in *. f_equal. apply IHe; auto; lia.
    + (* Indexed *) destruct W as [W1 Lm]. cbn [den fidx] in *.
      assert (E : map (idxval r1) mi = map (idxval r2) mi).
      { apply map_ext_in. intros [k|j] Hj; [reflexivity|]. simpl. apply AG. apply ids_merge. right.
        apply mi_free_has; auto. }
      rewrite E. apply IHe; auto; try lia. rewrite map_length. exact Lm. eapply agree_merge_l; eauto.
    + (* IndexSum *) cbn [den shape fidx] in *. apply ksum_ext. intros k _. apply IHe; auto; try lia.
      intros x Hx. unfold upd. destruct (Nat.eqb x i) eqn:E; [reflexivity|]. apply Nat.eqb_neq in E.
      apply AG. apply ids_remove. auto.
    + (* ComponentTensor *) destruct W as [W1 E1]. cbn [den shape fidx] in *. rewrite map_length in L.
      apply IHe; auto; try lia. rewrite E1. reflexivity.
      intros x Hx. destruct (in_dec Nat.eq_dec x (ids ix)) as [Hi|Hi].
      * apply upds_in_same; auto.
      * rewrite !upds_notin by exact Hi. apply AG. apply (ids_fold_rm x ix (fidx e)). auto.
    + (* ListTensor *) destruct W as [NE [Wall U]].
      destruct c as [|k c']; [cbn [shape] in L; simpl in L; lia|]. cbn [den].
      apply nth_den_agree. intros x Hx. destruct (U x Hx) as [Ux Uf].
      apply IHe.
      * pose proof (size_in_lt x es Hx) as Hsz. simpl in Hsz. lia.
      * apply (wfx_lt_in es); auto. simpl. auto.
      * cbn [shape] in L. simpl in L. injection L as L. rewrite Ux.
        destruct es as [|e0 es']; [contradiction|]. exact L.
      * rewrite Uf. cbn [fidx] in AG. destruct es as [|e0 es']; [contradiction|]. exact AG.
    + (* Conditional *) destruct W as [Wc [Wt [Wf [Es Ef]]]]. cbn [den shape fidx] in *. f_equal.
      * apply IHc; auto; lia.
      * apply IHe; auto; lia.
      * apply IHe; auto; try lia. rewrite <- Es. exact L. rewrite <- Ef. exact AG.
    + (* MinV *) destruct W as [W1 [W2 [E1 E2]]]. cbn [den fidx] in *. f_equal.
      * apply IHe; auto; try lia. rewrite E1. reflexivity. eapply agree_merge_l; eauto.
      * apply IHe; auto; try lia. rewrite E2. reflexivity. eapply agree_merge_r; eauto.
    + (* MaxV *) destruct W as [W1 [W2 [E1 E2]]]. cbn [den fidx] in *. f_equal.
      * apply IHe; auto; try lia. rewrite E1. reflexivity. eapply agree_merge_l; eauto.
      * apply IHe; auto; try lia. rewrite E2. reflexivity. eapply agree_merge_r; eauto.
    + (* Math *) destruct W as [W1 E1]. cbn [den fidx] in *. f_equal. apply IHe; auto; try lia. rewrite E1. reflexivity.
    + (* Atan2 *) destruct W as [W1 [W2 [E1 E2]]]. cbn [den fidx] in *. f_equal.
      * apply IHe; auto; try lia. rewrite E1. reflexivity. eapply agree_merge_l; eauto.
      * apply IHe; auto; try lia. rewrite E2. reflexivity. eapply agree_merge_r; eauto.
    + (* Bessel *) destruct W as [W1 [W2 [E1 [E2 F1]]]]. cbn [den fidx] in *. f_equal.
      * apply IHe; auto; try lia. rewrite E1. reflexivity. rewrite F1. apply agree_nil.
      * apply IHe; auto; try lia. rewrite E2. reflexivity.
    + (* Vari *) cbn [den shape fidx] in *. apply IHe; auto; lia.
    + (* Restricted *) cbn [den shape fidx] in *. apply IHe; auto; lia.
  - intros cn Hs W s r1 r2. destruct cn; simpl in Hs; simpl in W; cbn [denc].
    + destruct W as [W1 [W2 [E1 [E2 [F1 F2]]]]]. f_equal.
      * apply IHe; auto; try lia. rewrite E1. reflexivity. rewrite F1. apply agree_nil.
      * apply IHe; auto; try lia. rewrite E2. reflexivity. rewrite F2. apply agree_nil.
    + destruct W as [W1 W2]. f_equal; apply IHc; auto; lia.
    + destruct W as [W1 W2]. f_equal; apply IHc; auto; lia.
    + f_equal. apply IHc; auto; lia.
Qed.

(* the value of a well-formed expression depends on the index valuation only through its free indices *)
Theorem C05_den_agree e s r1 r2 c :
  wfx e -> length c = length (shape e) -> agree (fidx e) r1 r2 -> DEN s r1 e c = DEN s r2 e c.
Proof. intros W L AG. apply (proj1 (den_agree_n (S (size e)))); auto. Qed.

(* ... hence "j is not among the free indices" (the syntactic test of the Python code) implies that the
   value does not depend on j *)
Corollary C05_fidx_indep e j s rho k c :
  wfx e -> length c = length (shape e) -> ~ In j (ids (fidx e)) -> DEN s (upd rho j k) e c = DEN s rho e c.
Proof.
  intros W L N. apply C05_den_agree; auto. intros x Hx. unfold upd.
  destruct (Nat.eqb x j) eqn:E; [|reflexivity]. apply Nat.eqb_eq in E. subst. contradiction.
Qed.

(* ---- the repaired ComponentTensor shortcut, without hygiene hypotheses --------------------- *)

Lemma fold_rm_merge jj : forall l1 l2, ssorted l2 ->
  fold_rm jj (fi_merge l1 l2) = fi_merge (fold_rm jj l1) (fold_rm jj l2).
Proof.
  induction jj as [|[j d] jj IH]; intros l1 l2 S; [reflexivity|].
  unfold fold_rm in *. simpl. rewrite fi_remove_merge by exact S. apply IH. apply fi_remove_sorted. exact S.
Qed.

Lemma fold_rm_disjoint jj : forall l, (forall x, In x (ids jj) -> ~ In x (ids l)) -> fold_rm jj l = l.
Proof.
  induction jj as [|[j d] jj IH]; intros l H; [reflexivity|].
  unfold fold_rm in *. simpl. rewrite fi_remove_notin by (apply H; simpl; auto).
  apply IH. intros x Hx. apply H. simpl. auto.
Qed.

Lemma ids_nil_nil (l : list (nat * nat)) : (forall x, ~ In x (ids l)) -> l = [].
Proof. destruct l as [|[i d] t]; [reflexivity|]. intros H. exfalso. apply (H i). simpl. auto. Qed.

Lemma mem_in i l : mem i l = true <-> In i l.
Proof.
  unfold mem. rewrite existsb_exists. split.
  - intros [x [H E]]. apply Nat.eqb_eq in E. subst. exact H.
  - intros H. exists i. split; auto. apply Nat.eqb_refl.
Qed.

Lemma disjointb_spec jj l : disjointb jj l = true -> forall x, In x (ids jj) -> ~ In x (ids l).
Proof.
  unfold disjointb. rewrite forallb_forall. intros H x Hx Hl. apply in_ids in Hx. destruct Hx as [d Hd].
  specialize (H (x, d) Hd). simpl in H. apply negb_true_iff in H.
  apply mem_in in Hl. congruence.
Qed.

(* as_tensor(A[ii], ii) -> A  guarded by  "no bound index is free in A"  (ufl/tensors.py after a0002a9) *)
Theorem C05_component_tensor_repaired_sound A0 jj :
  wfx A0 -> ssorted (fidx A0) -> NoDup (ids jj) -> map snd jj = shape A0 ->
  disjointb jj (fidx A0) = true ->
  let raw := ComponentTensor (Indexed A0 (map Free (ids jj))) jj in
  shape A0 = shape raw /\ fidx A0 = fidx raw /\
  forall s rho c, length c = length jj -> DEN s rho A0 c = DEN s rho raw c.
Proof.
  intros W S N Sh Dj raw. pose proof (disjointb_spec _ _ Dj) as DJ.
  split; [symmetry; exact Sh|]. split.
  - unfold raw. cbn [fidx]. fold (fold_rm jj (fi_merge (fidx A0) (mi_free (map Free (ids jj)) (shape A0)))).
    rewrite fold_rm_merge by apply mi_free_sorted.
    rewrite (fold_rm_disjoint jj (fidx A0)) by exact DJ.
    rewrite (ids_nil_nil (fold_rm jj (mi_free (map Free (ids jj)) (shape A0)))).
    + symmetry. apply fi_merge_nil_r. exact S.
    + intros x Hx. apply ids_fold_rm in Hx. destruct Hx as [H1 H2]. apply H2.
      apply mi_free_ids in H1. apply mi_has_in in H1. apply in_map_iff in H1.
      destruct H1 as [y [E Hy]]. inversion E. subst. exact Hy.
  - intros s rho c L. unfold raw. cbn [den]. rewrite map_map.
    rewrite (map_ext _ (upds rho jj c)) by (intros; reflexivity).
    rewrite (upds_read jj rho c N L).
    symmetry. apply C05_den_agree; auto.
    + rewrite <- Sh, map_length. exact L.
    + intros x Hx. apply upds_notin. intros Hj. exact (DJ x Hj Hx).
Qed.

(* the executable model of the repaired constructor (flag fx_cn = true), for ALL operands of the shortcut's
   shape: no hygiene hypothesis, only well-formedness of the operands *)
Theorem C05_mk_component_tensor_repaired A0 ii jj e :
  mk_component_tensor true (Indexed A0 ii) jj = Some e ->
  wfx A0 -> ssorted (fidx A0) -> NoDup (ids jj) -> map snd jj = shape A0 ->
  shape e = shape (ComponentTensor (Indexed A0 ii) jj) /\
  fidx e = fidx (ComponentTensor (Indexed A0 ii) jj) /\
  forall s rho c, length c = length jj -> DEN s rho e c = DEN s rho (ComponentTensor (Indexed A0 ii) jj) c.
Proof.
  intros H W S N Sh. unfold mk_component_tensor in H. cbn [negb orb] in H.
  destruct (mi_eq_dec ii (map Free (ids jj))) as [->|NE].
  - destruct (disjointb jj (fidx A0)) eqn:Dj; cbn [andb] in H.
    + inversion H. subst e. apply C05_component_tensor_repaired_sound; auto.
    + unfold ct_generic in H. destruct (_ && _); inversion H. repeat split.
  - cbn [andb] in H. unfold ct_generic in H. destruct (_ && _); inversion H. repeat split.
Qed.

(* IndexSum.__new__ moves a factor out of the sum when the summation index is not among its free indices:
   with [C05_fidx_indep] this syntactic test suffices (C05_index_sum_factor needed the semantic [indep]) *)
Theorem C05_index_sum_factor_unguarded a b j d :
  wfx a -> shape a = [] -> ~ In j (ids (fidx a)) -> ssorted (fidx b) ->
  shape (Product a (IndexSum b j d)) = [] /\
  fidx (Product a (IndexSum b j d)) = fidx (IndexSum (Product a b) j d) /\
  forall s rho, DEN s rho (Product a (IndexSum b j d)) [] = DEN s rho (IndexSum (Product a b) j d) [].
Proof.
  intros W Sa N S. split; [reflexivity|]. split.
  - cbn [fidx]. rewrite fi_remove_merge by exact S. rewrite (fi_remove_notin j (fidx a) N). reflexivity.
  - intros. cbn [den]. rewrite <- ksum_scal. apply ksum_ext. intros k _.
    rewrite (C05_fidx_indep a j s rho k []) by (auto; rewrite Sa; reflexivity). reflexivity.
Qed.

End Agree.

Print Assumptions C05_den_agree.
Print Assumptions C05_fidx_indep.
Print Assumptions C05_component_tensor_repaired_sound.
Print Assumptions C05_mk_component_tensor_repaired.
Print Assumptions C05_index_sum_factor_unguarded.
