(* C23: semantic theorems about the model of C23_model.v, in every UFL algebra that satisfies the
   laws stated as Section hypotheses below (all of them hold in the complex numbers, with
   kim = imaginary part, when [okfn] selects the math functions that map R into R).

     C23_sound   : check e = Some (e', t)  ->
                     (a) den e' c = den e c   for all components, index valuations, restrictions
                     (b) t <> complex -> kim (den e c) = 0
   on the fragment [inF] (everything except the compound tensor-algebra nodes Outer/Inner/Dot/Cross/
   Perp/Trace/Determinant/Inverse/Cofactor/Deviatoric/Skew/Sym/Curl, which [check] also handles by
   the default rule but whose denotation would need closure lemmas for determinants etc.), by
   induction on the size of e.  [inF] also demands [okfn f] of every Math node other than sqrt and
   [okb] of Bessel nodes: this is where "math functions map reals to reals" enters. *)
Require Import UFLV.Core.Den.
Require Import UFLV.Props.C23_model.
Require Import UFLV.Props.C23_syn.
Require Import UFLV.Props.C23_syn2.

Local Arguments join : simpl never.

Section Frag.
Variable cfn : mathfn -> bool.     (* math functions the analysis types complex (C23_model.cfn_of) *)
Variable cbs : bkind -> bool.      (* Bessel kinds the analysis types complex *)
Variable okfn : mathfn -> bool.
Variable okb : bool.
Fixpoint inF (e : expr) : bool :=
  match e with
  | Zero _ _ | IntV _ | RealV _ _ | CplxV _ _ _ _ | RatV _ _ | Identity _ | PermSym _ | Term _ _ _ => true
  | Sum a b | Product a b | Division a b | Power a b | MinV a b | MaxV a b | Atan2 a b => inF a && inF b
  | Bessel k a b => (cbs k || okb) && (inF a && inF b)
  | Abs a | Conj a | Real a | Imag a | Indexed a _ | IndexSum a _ _ | ComponentTensor a _
  | Vari a _ | Restricted _ a | Grad a _ | RefGrad a _ | Div a _ | NablaGrad a _
  | NablaDiv a _ | RefValue a _ | Transposed a => inF a
  | Math f a => (cfn f || okfn f) && inF a
  | ListTensor es => (fix go (l : list expr) := match l with [] => true | x :: t => inF x && go t end) es
  | Conditional c t f => inFc c && (inF t && inF f)
  | Curl _ | Outer _ _ | Inner _ _ | Dot _ _ | Cross _ _ | Perp _ | Trace _ | Determinant _
  | Inverse _ | Cofactor _ | Deviatoric _ | Skew _ | Sym _ => false
  end
with inFc (c : cond) : bool :=
  match c with
  | Cmp _ a b => inF a && inF b
  | AndC a b | OrC a b => inFc a && inFc b
  | NotC a => inFc a
  end.
Fixpoint inF_list (l : list expr) : bool :=
  match l with [] => true | x :: t => inF x && inF_list t end.
End Frag.

(* functions that map the real line into itself (in C, principal branches) *)
Definition total_real (f : mathfn) : bool :=
  match f with
  | FExp | FCos | FSin | FTan | FCosh | FSinh | FTanh | FAtan | FErf => true
  | FSqrt | FLn | FAcos | FAsin => false
  end.
Definition not_sqrt (f : mathfn) : bool := match f with FSqrt => false | _ => true end.

Definition isIntV (b : expr) : bool := match b with IntV _ => true | _ => false end.

Lemma check_isIntV cfn cbs b b' t : check cfn cbs b = Some (b', t) -> isIntV b = true -> b' = b.
Proof. destruct b; simpl; try discriminate. intros H _. inv H. reflexivity. Qed.
Lemma check_notIntV cfn cbs b b' t : check cfn cbs b = Some (b', t) -> isIntV b = false -> isIntV b' = false.
Proof.
  destruct b; try rewrite check_ListTensor; simpl; unf; intros H Hb; try discriminate Hb;
    try (dcheck; inv H; reflexivity).
Qed.

Lemma join_nc ts : is_complex (join ts) = false -> existsb is_complex ts = false.
Proof. destruct ts as [|t ts]; [discriminate|]. unfold join. destruct (existsb is_complex (t :: ts)); [discriminate|reflexivity]. Qed.
Lemma nc1 a : is_complex (join [a]) = false -> is_complex a = false.
Proof. intros H. apply join_nc in H. simpl in H. rewrite orb_false_r in H. exact H. Qed.
Lemma nc2 a b : is_complex (join [a; b]) = false -> is_complex a = false /\ is_complex b = false.
Proof. intros H. apply join_nc in H. simpl in H. rewrite orb_false_r in H. apply orb_false_iff in H. exact H. Qed.
Lemma nc3 a b c : is_complex (join [a; b; c]) = false ->
  is_complex a = false /\ is_complex b = false /\ is_complex c = false.
Proof. intros H. apply join_nc in H. simpl in H. rewrite orb_false_r in H.
  apply orb_false_iff in H. destruct H as [H1 H]. apply orb_false_iff in H. tauto. Qed.

Section Sound.
Variable A : ualg.
Add Field Af23 : (kfield A).
Variable env : side -> nat -> nat -> list nat -> A.
Variables D DX : nat -> A -> A.
Variable ki : A.
Variable cfn : mathfn -> bool.
Variable cbs : bkind -> bool.
Variable okfn : mathfn -> bool.
Variable okb : bool.
Local Notation check := (C23_model.check cfn cbs).
Local Notation checkc := (C23_model.checkc cfn cbs).
Local Notation check_list := (C23_model.check_list cfn cbs).
Local Notation bad_site := (C23_model.bad_site cfn cbs).
Open Scope K_scope.
Notation DEN := (@den A env D DX ki).
Notation DENC := (@denc A env D DX ki).
Definition isreal (x : A) : Prop := kim x = k0.

(* laws of the algebra: the reals {x | kim x = 0} are a subfield closed under the operations *)
Hypothesis R0 : isreal k0.
Hypothesis R1 : isreal k1.
Hypothesis Radd : forall x y, isreal x -> isreal y -> isreal (x + y).
Hypothesis Rmul : forall x y, isreal x -> isreal y -> isreal (x * y).
Hypothesis Ropp : forall x, isreal x -> isreal (- x).
Hypothesis Rdiv : forall x y, isreal x -> isreal y -> isreal (x / y).
Hypothesis Rre : forall x, isreal (kre x).
Hypothesis Rim : forall x, isreal (kim x).
Hypothesis Rabs : forall x, isreal (kabs x).
Hypothesis re_id : forall x, isreal x -> kre x = x.
Hypothesis Rconj : forall x, isreal x -> isreal (kconj x).
Hypothesis Rcond : forall b x y, isreal x -> isreal y -> isreal (kcond b x y).
Hypothesis Rmin : forall x y, isreal x -> isreal y -> isreal (kmin x y).
Hypothesis Rmax : forall x y, isreal x -> isreal y -> isreal (kmax x y).
Hypothesis Ratan2 : forall x y, isreal x -> isreal y -> isreal (katan2 x y).
Hypothesis Rpow_int : forall x z, isreal x -> isreal (kpow x (of_Z z)).
Hypothesis RD : forall j x, isreal x -> isreal (D j x).
Hypothesis RDX : forall j x, isreal x -> isreal (DX j x).
(* the math functions selected by okfn / the Bessel functions map reals to reals *)
Hypothesis Rfn : forall f x, okfn f = true -> isreal x -> isreal (kfn f x).
Hypothesis Rbessel : okb = true -> forall k x y, isreal x -> isreal y -> isreal (kbessel k x y).
(* the environment: terminals that CheckComparisons.terminal classifies real are real-valued *)
Hypothesis Renv : forall s k id c, term_ty k = TReal -> isreal (env s k id c).

Lemma R_of_pos p : isreal (of_pos p : A).
Proof. induction p; cbn [of_pos]; auto. Qed.
Lemma R_of_Z z : isreal (of_Z z : A).
Proof. destruct z; cbn [of_Z]; auto using R_of_pos. Qed.
Lemma R_kdyad m e : isreal (kdyad m e : A).
Proof. destruct e; cbn [kdyad]; auto using R_of_pos, R_of_Z. Qed.
Lemma R_kpown x n : isreal x -> isreal (kpown x n).
Proof. intros H. induction n; cbn [kpown]; auto. Qed.
Lemma R_ksum n f : (forall k, isreal (f k)) -> isreal (ksum n f : A).
Proof. intros H. induction n; cbn [ksum]; auto. Qed.
Lemma div1 (x : A) : x / k1 = x.
Proof. field. exact (F_1_neq_0 (kfield A)). Qed.

Lemma mk_real_den a s rho c : isreal (DEN s rho a c) -> DEN s rho (mk_real a) c = DEN s rho a c.
Proof.
  unfold mk_real. destruct (lit_real a) eqn:E; [reflexivity|]. intros H. cbn [den]. apply re_id, H.
Qed.

Lemma den_Power_kpow s rho a b c : isIntV b = false ->
  DEN s rho (Power a b) c = kpow (DEN s rho a []) (DEN s rho b []).
Proof. destruct b; try discriminate; reflexivity. Qed.

Fixpoint nth_den_l (s : side) (rho : nat -> nat) (l : list expr) (n : nat) (c : list nat) : A :=
  match l, n with
  | [], _ => k0
  | e0 :: _, O => DEN s rho e0 c
  | _ :: t, S n' => nth_den_l s rho t n' c
  end.
Lemma den_ListTensor s rho es c :
  DEN s rho (ListTensor es) c = match c with [] => k0 | k :: c' => nth_den_l s rho es k c' end.
Proof.
  destruct c as [|k c']; [reflexivity|]. cbn [den].
  revert k. induction es as [|x es IH]; intros k; [destruct k; reflexivity|].
  destruct k; [reflexivity|]. cbn [nth_den_l]. apply IH.
Qed.

Definition Ps (e : expr) : Prop :=
  forall e' t, inF cfn cbs okfn okb e = true -> check e = Some (e', t) ->
    (forall s rho c, DEN s rho e' c = DEN s rho e c) /\
    (is_complex t = false -> forall s rho c, isreal (DEN s rho e c)).
Definition Qs (cn : cond) : Prop :=
  forall c' t, inFc cfn cbs okfn okb cn = true -> checkc cn = Some (c', t) ->
    forall s rho, DENC s rho c' = DENC s rho cn.

Lemma sound_list es :
  (forall x, In x es -> Ps x) ->
  forall es' ts, inF_list cfn cbs okfn okb es = true -> check_list es = Some (es', ts) ->
    (forall s rho n c, nth_den_l s rho es' n c = nth_den_l s rho es n c) /\
    (existsb is_complex ts = false -> forall s rho n c, isreal (nth_den_l s rho es n c)).
Proof.
  induction es as [|x es IH]; intros HP es' ts G H; simpl in H.
  - inv H. split; [reflexivity|]. intros _ s rho n c. destruct n; exact R0.
  - dcheck. inv H. simpl in G. apply andb_true_iff in G. destruct G as [G1 G2].
    destruct (HP x (or_introl eq_refl) _ _ G1 E) as [Hv Hr].
    destruct (IH (fun y Hy => HP y (or_intror Hy)) _ _ G2 eq_refl) as [Lv Lr].
    split.
    + intros s rho n c. destruct n; cbn [nth_den_l]; [apply Hv | apply Lv].
    + simpl. intros Hn. apply orb_false_iff in Hn. destruct Hn as [Hn1 Hn2].
      intros s rho n c. destruct n; cbn [nth_den_l]; [apply Hr, Hn1 | apply Lr, Hn2].
Qed.

Ltac split_guard G :=
  cbn [inF inFc] in G;
  repeat match goal with
  | H : _ && _ = true |- _ => apply andb_true_iff in H; destruct H
  end.
Ltac use_ih IHe IHc :=
  repeat match goal with
  | E : check ?x = Some (?y, ?t) |- _ =>
      let Hv := fresh "Hv" in let Hr := fresh "Hr" in
      destruct (IHe x ltac:(simpl; lia) y t ltac:(assumption) E) as [Hv Hr]; clear E
  | E : checkc ?x = Some (?y, ?t) |- _ =>
      let Hv := fresh "Hc" in
      pose proof (IHc x ltac:(simpl; lia) y t ltac:(assumption) E) as Hv; clear E
  end.
Ltac rw_vals :=
  repeat match goal with
  | H : forall s rho c, DEN s rho _ c = DEN s rho _ c |- _ => rewrite ?H; clear H
  | H : forall s rho, DENC s rho _ = DENC s rho _ |- _ => rewrite ?H; clear H
  end.
Ltac ncs :=
  repeat match goal with
  | H : is_complex (join [_]) = false |- _ => apply nc1 in H
  | H : is_complex (join [_; _]) = false |- _ => apply nc2 in H; destruct H
  | H : is_complex (join [_; _; _]) = false |- _ => apply nc3 in H; destruct H as [? [? ?]]
  | H : _ || _ = false |- _ => apply orb_false_iff in H; destruct H
  end.

Lemma sound_both : (forall e, Ps e) /\ (forall c, Qs c).
Proof.
  apply size_ind2.
  - intros e IHe IHc e' t G H.
    destruct e; try rewrite check_ListTensor in H; simpl in H; unf; try discriminate G.
    + (* Zero *) inv H. split; [reflexivity|]. intros _ s rho c. exact R0.
    + (* IntV *) inv H. split; [reflexivity|]. intros _ s rho c. apply R_of_Z.
    + (* RealV *) inv H. split; [reflexivity|]. intros _ s rho c. apply R_kdyad.
    + (* CplxV *) inv H. split; [reflexivity|]. discriminate.
    + (* RatV *) inv H. split; [reflexivity|]. intros _ s rho c. cbn [den]. apply Rdiv; [apply R_of_Z|apply R_of_pos].
    + (* Identity *) inv H. split; [reflexivity|]. discriminate.
    + (* PermSym *) inv H. split; [reflexivity|]. discriminate.
    + (* Term *) inv H. split; [reflexivity|]. intros Ht s rho c. cbn [den]. apply Renv.
      unfold term_ty in *. destruct (Nat.eqb k 1 || Nat.leb 10 k); [reflexivity|discriminate].
    + (* Sum *) dcheck. inv H. split_guard G. use_ih IHe IHc. split.
      * intros s rho c. cbn [den]. rewrite Hv, Hv0. reflexivity.
      * intros Hn s rho c. ncs. cbn [den]. apply Radd; auto.
    + (* Product *) dcheck. inv H. split_guard G. use_ih IHe IHc. split.
      * intros s rho c. cbn [den]. rewrite Hv, Hv0. reflexivity.
      * intros Hn s rho c. ncs. cbn [den]. apply Rmul; auto.
    + (* Division *) dcheck. inv H. split_guard G. use_ih IHe IHc. split.
      * intros s rho c. cbn [den]. rewrite Hv, Hv0. reflexivity.
      * intros Hn s rho c. ncs. cbn [den]. apply Rdiv; auto.
    + (* Power *)
      destruct (check e1) as [[a' ta]|] eqn:Ea; [|discriminate].
      destruct (check e2) as [[b' tb]|] eqn:Eb; [|discriminate]. inv H. split_guard G.
      pose proof (check_isIntV _ _ _ _ _ Eb) as Hlit. pose proof (check_notIntV _ _ _ _ _ Eb) as Hnlit.
      destruct (IHe e1 ltac:(simpl; lia) _ _ ltac:(assumption) Ea) as [Hva Hra].
      destruct (IHe e2 ltac:(simpl; lia) _ _ ltac:(assumption) Eb) as [Hvb Hrb].
      assert (V : forall s rho c, DEN s rho (Power a' b') c = DEN s rho (Power e1 e2) c).
      { intros s rho c. destruct (isIntV e2) eqn:Ei.
        - rewrite (Hlit eq_refl). destruct e2; try discriminate Ei. destruct z; cbn [den]; rewrite ?Hva; reflexivity.
        - rewrite !den_Power_kpow by auto. rewrite Hva, Hvb. reflexivity. }
      split; [exact V|].
      intros Hn s rho c. rewrite <- V.
      destruct (is_real ta && int_valued b') eqn:Et; [|discriminate Hn].
      apply andb_true_iff in Et. destruct Et as [Et1 Et2].
      assert (Ra : isreal (DEN s rho a' [])). { rewrite Hva. apply Hra. destruct ta; try discriminate; reflexivity. }
      destruct b'; try discriminate Et2.
      * (* Zero exponent *) cbn [den]. exact (Rpow_int _ 0%Z Ra).
      * (* IntV *) destruct z; cbn [den]; [exact R1 | apply R_kpown, Ra | apply (Rpow_int _ (Zneg p)), Ra].
      * (* RatV p 1 *) cbn [int_valued] in Et2. apply Pos.eqb_eq in Et2. subst q. cbn [den of_pos]. rewrite div1.
        apply Rpow_int, Ra.
    + (* Abs *) dcheck. inv H. split_guard G. use_ih IHe IHc. split.
      * intros s rho c. cbn [den]. rewrite Hv. reflexivity.
      * intros _ s rho c. cbn [den]. apply Rabs.
    + (* Conj *) dcheck. inv H. split_guard G. use_ih IHe IHc. split.
      * intros s rho c. cbn [den]. rewrite Hv. reflexivity.
      * intros Hn s rho c. ncs. cbn [den]. apply Rconj; auto.
    + (* Real *) dcheck. inv H. split_guard G. use_ih IHe IHc. split.
      * intros s rho c. cbn [den]. rewrite Hv. reflexivity.
      * intros _ s rho c. cbn [den]. apply Rre.
    + (* Imag *) dcheck. inv H. split_guard G. use_ih IHe IHc. split.
      * intros s rho c. cbn [den]. rewrite Hv. reflexivity.
      * intros _ s rho c. cbn [den]. apply Rim.
    + (* Indexed *) dcheck. inv H. split_guard G. use_ih IHe IHc. split.
      * intros s rho c. cbn [den]. rewrite Hv. reflexivity.
      * intros Hn s rho c. cbn [den]. apply Hr, Hn.
    + (* IndexSum *) dcheck. inv H. split_guard G. use_ih IHe IHc. split.
      * intros s rho c. cbn [den]. apply ksum_ext. intros k _. apply Hv.
      * discriminate.
    + (* ComponentTensor *) dcheck. inv H. split_guard G. use_ih IHe IHc. split.
      * intros s rho c. cbn [den]. apply Hv.
      * discriminate.
    + (* ListTensor *)
      dcheck. inv H.
      assert (L := sound_list es (fun x Hx => IHe x ltac:(rewrite size_ListTensor; apply In_size_list, Hx))
                              _ _ G E).
      destruct L as [Lv Lr]. split.
      * intros s rho c. rewrite !den_ListTensor. destruct c; [reflexivity|apply Lv].
      * intros Hn s rho c. apply join_nc in Hn. rewrite den_ListTensor. destruct c; [exact R0|apply Lr, Hn].
    + (* Conditional *) dcheck. inv H. split_guard G. use_ih IHe IHc. split.
      * intros s rho cc. cbn [den]. rewrite Hc, Hv, Hv0. reflexivity.
      * intros Hn s rho cc. ncs. cbn [den]. apply Rcond; auto.
    + (* MinV *) dcheck. inv H. split_guard G. use_ih IHe IHc. ncs. split.
      * intros s rho c. cbn [den]. rewrite !mk_real_den; rewrite ?Hv, ?Hv0; auto.
      * intros _ s rho c. cbn [den]. apply Rmin; auto.
    + (* MaxV *) dcheck. inv H. split_guard G. use_ih IHe IHc. ncs. split.
      * intros s rho c. cbn [den]. rewrite !mk_real_den; rewrite ?Hv, ?Hv0; auto.
      * intros _ s rho c. cbn [den]. apply Rmax; auto.
    + (* Math *)
      destruct (cfn f) eqn:Ef; dcheck; inv H; split_guard G; use_ih IHe IHc;
        (split; [intros s rho c; cbn [den]; rewrite Hv; reflexivity|]);
        try discriminate; intros Hn s rho c; ncs; cbn [den]; apply Rfn; auto.
      match goal with Hg : cfn f || okfn f = true |- _ => rewrite Ef in Hg; exact Hg end.
    + (* Atan2 *) dcheck. inv H. split_guard G. use_ih IHe IHc. split.
      * intros s rho c. cbn [den]. rewrite Hv, Hv0. reflexivity.
      * intros Hn s rho c. ncs. cbn [den]. apply Ratan2; auto.
    + (* Bessel *)
      destruct (cbs k) eqn:Ek; dcheck; inv H; split_guard G; use_ih IHe IHc;
        (split; [intros s rho c; cbn [den]; rewrite Hv, Hv0; reflexivity|]);
        try discriminate; intros Hn s rho c; ncs; cbn [den]; apply Rbessel; auto.
      match goal with Hg : cbs k || okb = true |- _ => rewrite Ek in Hg; exact Hg end.
    + (* Vari *) dcheck. inv H. split_guard G. use_ih IHe IHc. split.
      * intros s rho c. cbn [den]. apply Hv.
      * discriminate.
    + (* Restricted *) dcheck. inv H. split_guard G. use_ih IHe IHc. split.
      * intros s rho c. cbn [den]. apply Hv.
      * intros Hn s rho c. ncs. cbn [den]. auto.
    + (* Grad *) dcheck. inv H. split_guard G. use_ih IHe IHc. split.
      * intros s rho c. cbn [den]. destruct (split_last c). rewrite Hv. reflexivity.
      * intros Hn s rho c. ncs. cbn [den]. destruct (split_last c). apply RD; auto.
    + (* RefGrad *) dcheck. inv H. split_guard G. use_ih IHe IHc. split.
      * intros s rho c. cbn [den]. destruct (split_last c). rewrite Hv. reflexivity.
      * intros Hn s rho c. ncs. cbn [den]. destruct (split_last c). apply RDX; auto.
    + (* Div *) dcheck. inv H. split_guard G. use_ih IHe IHc. split.
      * intros s rho c. cbn [den]. apply ksum_ext. intros k _. rewrite Hv. reflexivity.
      * intros Hn s rho c. ncs. cbn [den]. apply R_ksum. intros k. apply RD; auto.
    + (* NablaGrad *) dcheck. inv H. split_guard G. use_ih IHe IHc. split.
      * intros s rho c. cbn [den]. destruct c; [reflexivity|]. rewrite Hv. reflexivity.
      * intros Hn s rho c. ncs. cbn [den]. destruct c; [exact R0|]. apply RD; auto.
    + (* NablaDiv *) dcheck. inv H. split_guard G. use_ih IHe IHc. split.
      * intros s rho c. cbn [den]. apply ksum_ext. intros k _. rewrite Hv. reflexivity.
      * intros Hn s rho c. ncs. cbn [den]. apply R_ksum. intros k. apply RD; auto.
    + (* RefValue *) dcheck. inv H. split_guard G. use_ih IHe IHc. split.
      * intros s rho c. cbn [den]. apply Hv.
      * intros Hn s rho c. ncs. cbn [den]. auto.
    + (* Transposed *) dcheck. inv H. split_guard G. use_ih IHe IHc. split.
      * intros s rho c. cbn [den]. apply Hv.
      * intros Hn s rho c. ncs. cbn [den]. auto.
  - intros c IHe IHc c' t G H.
    destruct c; simpl in H.
    + (* Cmp *)
      destruct (check a) as [[a' ta]|] eqn:Ea; [|discriminate].
      destruct (check b) as [[b' tb]|] eqn:Eb; [|discriminate].
      split_guard G. use_ih IHe IHc.
      destruct (ordering op).
      * destruct (is_complex ta || is_complex tb) eqn:Ec; [discriminate|]. inv H. ncs.
        intros s rho. cbn [denc]. rewrite !mk_real_den; rewrite ?Hv, ?Hv0; auto.
      * inv H. intros s rho. cbn [denc]. rewrite Hv, Hv0. reflexivity.
    + dcheck. inv H. split_guard G. use_ih IHe IHc. intros s rho. cbn [denc]. rewrite Hc, Hc0. reflexivity.
    + dcheck. inv H. split_guard G. use_ih IHe IHc. intros s rho. cbn [denc]. rewrite Hc, Hc0. reflexivity.
    + dcheck. inv H. split_guard G. use_ih IHe IHc. intros s rho. cbn [denc]. rewrite Hc. reflexivity.
Qed.


(* the fragment is closed under taking the operands of ordering sites *)
Definition inF_site (p : expr * expr) : bool := inF cfn cbs okfn okb (fst p) && inF cfn cbs okfn okb (snd p).
Lemma inF_site_pair a b : inF_site (a, b) = inF cfn cbs okfn okb a && inF cfn cbs okfn okb b.
Proof. reflexivity. Qed.
Lemma inF_sites_list es :
  (forall x, In x es -> inF cfn cbs okfn okb x = true -> forallb inF_site (sites x) = true) ->
  inF_list cfn cbs okfn okb es = true -> forallb inF_site (sites_list es) = true.
Proof.
  induction es as [|x es IH]; intros HP G; [reflexivity|]. simpl in G. apply andb_true_iff in G.
  destruct G as [G1 G2]. simpl. rewrite forallb_app'.
  rewrite (HP x (or_introl eq_refl) G1), (IH (fun y Hy => HP y (or_intror Hy)) G2). reflexivity.
Qed.
Lemma inF_sites_both :
  (forall e, inF cfn cbs okfn okb e = true -> forallb inF_site (sites e) = true) /\
  (forall c, inFc cfn cbs okfn okb c = true -> forallb inF_site (csites c) = true).
Proof.
  apply size_ind2.
  - intros e IHe IHc G.
    destruct e; try discriminate G; try reflexivity;
      try (split_guard G; cbn [sites forallb]; rewrite ?forallb_app', ?inF_site_pair;
           repeat match goal with
           | H : inF cfn cbs okfn okb ?x = true |- _ =>
               rewrite ?H; rewrite (IHe x ltac:(simpl; lia) H); clear H
           | H : inFc cfn cbs okfn okb ?x = true |- _ => rewrite (IHc x ltac:(simpl; lia) H); clear H
           end; reflexivity).
    + change (forallb inF_site (sites_list es) = true). apply inF_sites_list; [|exact G].
      intros x Hx. apply IHe. rewrite size_ListTensor. apply In_size_list, Hx.
    + split_guard G. cbn [sites]. rewrite !forallb_app'.
      rewrite (IHc c ltac:(simpl; lia) ltac:(assumption)), (IHe e1 ltac:(simpl; lia) ltac:(assumption)),
              (IHe e2 ltac:(simpl; lia) ltac:(assumption)). reflexivity.
  - intros c IHe IHc G. destruct c.
    + change (inF cfn cbs okfn okb a && inF cfn cbs okfn okb b = true) in G. apply andb_true_iff in G. destruct G as [Ga Gb].
      cbn [csites]. rewrite !forallb_app'. rewrite (IHe a ltac:(simpl; lia) Ga), (IHe b ltac:(simpl; lia) Gb).
      destruct (ordering op); cbn [forallb]; rewrite ?inF_site_pair, ?Ga, ?Gb; reflexivity.
    + change (inFc cfn cbs okfn okb c1 && inFc cfn cbs okfn okb c2 = true) in G. apply andb_true_iff in G. destruct G as [Ga Gb].
      cbn [csites]. rewrite forallb_app', (IHc c1 ltac:(simpl; lia) Ga), (IHc c2 ltac:(simpl; lia) Gb). reflexivity.
    + change (inFc cfn cbs okfn okb c1 && inFc cfn cbs okfn okb c2 = true) in G. apply andb_true_iff in G. destruct G as [Ga Gb].
      cbn [csites]. rewrite forallb_app', (IHc c1 ltac:(simpl; lia) Ga), (IHc c2 ltac:(simpl; lia) Gb). reflexivity.
    + exact (IHc c ltac:(simpl; lia) G).
Qed.

(* ---- the stated theorems (complex mode) ---- *)

(* C23_value: the Real(.) wraps do not change the value of any component *)
Theorem C23_value : forall e e' t, inF cfn cbs okfn okb e = true -> check e = Some (e', t) ->
  forall s rho c, DEN s rho e' c = DEN s rho e c.
Proof. intros e e' t G H. exact (proj1 (proj1 sound_both e e' t G H)). Qed.

(* C23_types: nodetype real (or bool) => the value is real, for the input and the output *)
Theorem C23_types : forall e e' t, inF cfn cbs okfn okb e = true -> check e = Some (e', t) -> t <> TComplex ->
  forall s rho c, kim (DEN s rho e c) = k0 /\ kim (DEN s rho e' c) = k0.
Proof.
  intros e e' t G H Ht s rho c. destruct (proj1 sound_both e e' t G H) as [Hv Hr].
  assert (X : is_complex t = false) by (destruct t; simpl; congruence).
  split; [|rewrite Hv]; apply Hr, X.
Qed.

(* C23_operands_real: in an accepted expression every ordering comparison / min / max, anywhere,
   compares real values *)
Theorem C23_operands_real : forall e e' t, inF cfn cbs okfn okb e = true -> check e = Some (e', t) ->
  forall a b, In (a, b) (sites e) ->
  forall s rho c, kim (DEN s rho a c) = k0 /\ kim (DEN s rho b c) = k0.
Proof.
  intros e e' t G H a b Hin s rho c.
  pose proof (proj1 (ok_both cfn cbs) e e' t H) as W.
  assert (Hb : bad_site (a, b) = false).
  { destruct (bad_site (a, b)) eqn:Eb; [|reflexivity].
    assert (existsb bad_site (sites e) = true) by (apply existsb_exists; eauto). congruence. }
  pose proof (proj1 inF_sites_both e G) as Gs. rewrite forallb_forall in Gs. specialize (Gs _ Hin).
  unfold inF_site in Gs; simpl in Gs. apply andb_true_iff in Gs. destruct Gs as [Ga Gb].
  unfold C23_model.bad_site, C23_model.ty_of in Hb; simpl in Hb.
  destruct (check a) as [[a' ta]|] eqn:Ea; [|discriminate].
  destruct (check b) as [[b' tb]|] eqn:Eb; [|discriminate].
  apply orb_false_iff in Hb. destruct Hb as [Ha Hb].
  split; [apply (proj2 (proj1 sound_both a a' ta Ga Ea) Ha) | apply (proj2 (proj1 sound_both b b' tb Gb Eb) Hb)].
Qed.

End Sound.

(* instances.  Variant of the analysis: cfn_of false / cbs_of false = the pinned tree (only sqrt typed
   complex); cfn_of true / cbs_of true = the tree with fixes/C23-partial-mathfn.diff (sqrt, ln, acos, asin
   and all Bessel functions typed complex).  Math-function hypothesis: [total_real] (exp cos sin tan cosh
   sinh tanh atan erf map reals to reals: true in C), no Bessel hypothesis.
   - pinned + total_real: the fragment must exclude ln/acos/asin/Bessel nodes       (_partial)
   - pinned + not_sqrt  : hypothesis "ln, acos, asin, Bessel map reals to reals", FALSE in C (_realdomain)
   - fixed  + total_real: the fragment INCLUDES ln/acos/asin/Bessel nodes: the full statement (_fixed) *)
Definition C23_types_partial := fun A env D DX ki =>
  @C23_types A env D DX ki (cfn_of false) (cbs_of false) total_real false.
Definition C23_value_partial := fun A env D DX ki =>
  @C23_value A env D DX ki (cfn_of false) (cbs_of false) total_real false.
Definition C23_operands_real_partial := fun A env D DX ki =>
  @C23_operands_real A env D DX ki (cfn_of false) (cbs_of false) total_real false.
Definition C23_types_realdomain := fun A env D DX ki =>
  @C23_types A env D DX ki (cfn_of false) (cbs_of false) not_sqrt true.
Definition C23_operands_real_realdomain := fun A env D DX ki =>
  @C23_operands_real A env D DX ki (cfn_of false) (cbs_of false) not_sqrt true.
Definition C23_types_fixed := fun A env D DX ki =>
  @C23_types A env D DX ki (cfn_of true) (cbs_of true) total_real false.
Definition C23_value_fixed := fun A env D DX ki =>
  @C23_value A env D DX ki (cfn_of true) (cbs_of true) total_real false.
Definition C23_operands_real_fixed := fun A env D DX ki =>
  @C23_operands_real A env D DX ki (cfn_of true) (cbs_of true) total_real false.
(* the fragment of the fixed variant contains every math function and every Bessel function *)
Lemma inF_fixed_math f a : inF (cfn_of true) (cbs_of true) total_real false (Math f a)
                           = inF (cfn_of true) (cbs_of true) total_real false a.
Proof. destruct f; reflexivity. Qed.
Lemma inF_fixed_bessel k nu a : inF (cfn_of true) (cbs_of true) total_real false (Bessel k nu a)
  = inF (cfn_of true) (cbs_of true) total_real false nu && inF (cfn_of true) (cbs_of true) total_real false a.
Proof. reflexivity. Qed.
Print Assumptions C23_types_partial.
Print Assumptions C23_value_partial.
Print Assumptions C23_operands_real_partial.
Print Assumptions C23_types_realdomain.
Print Assumptions C23_types_fixed.
Print Assumptions C23_value_fixed.
Print Assumptions C23_operands_real_fixed.

(* Pinned variant, without the real-domain hypothesis the analysis is unsound: whenever the algebra has a
   real x whose logarithm is not real (x = -1 in C), the accepted comparison  ln(X) < 0  (X a geometric
   quantity, a terminal classified real, with the real value x) compares a non-real value. *)
Definition C23_witness : expr := Conditional (Cmp CLT (Math FLn (Term 10 0 [])) (Zero [] [])) (IntV 1) (IntV 2).
Theorem C23_types_refuted : forall (A : ualg) (D DX : nat -> A -> A) (ki x : A),
  kim x = k0 -> kim (kfn FLn x) <> k0 ->
  exists e e' t a b (env : side -> nat -> nat -> list nat -> A),
    check (cfn_of false) (cbs_of false) e = Some (e', t) /\ In (a, b) (sites e) /\
    (forall s k id c, term_ty k = TReal -> kim (env s k id c) = k0) /\
    forall s rho, kim (@den A env D DX ki s rho a []) <> k0.
Proof.
  intros A D DX ki x Hx Hln.
  exists C23_witness, (Conditional (Cmp CLT (Real (Math FLn (Term 10 0 []))) (Zero [] [])) (IntV 1) (IntV 2)),
         TReal, (Math FLn (Term 10 0 [])), (Zero [] []), (fun _ _ _ _ => x).
  split; [reflexivity|]. split; [left; reflexivity|]. split; [intros; exact Hx|].
  intros s rho. exact Hln.
Qed.
Print Assumptions C23_types_refuted.
(* ... and the fixed variant rejects that witness *)
Example C23_witness_rejected_fixed : check (cfn_of true) (cbs_of true) C23_witness = None.
Proof. reflexivity. Qed.
