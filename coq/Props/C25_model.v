(* C25 - Sobolev space comparisons.  Faithful model of ufl/sobolevspace.py INCLUDING what
   functools.total_ordering derives (>, <=, >= from < and ==) and CPython's reflected-operand
   priority for subclasses (DirectionalSobolevSpace is a subclass of SobolevSpace).
   The table of predefined spaces is regenerated from /repo into Gen/C25_table.v. *)
Require Import List Arith Lia Bool.
Import ListNotations.

(* orders of weak derivatives: naturals or infinity *)
Inductive ord := Fin (n : nat) | Inf.
Definition ord_leb (a b : ord) : bool :=
  match a, b with
  | _, Inf => true
  | Inf, Fin _ => false
  | Fin x, Fin y => Nat.leb x y
  end.
Definition ord_eqb (a b : ord) : bool :=
  match a, b with
  | Inf, Inf => true
  | Fin x, Fin y => Nat.eqb x y
  | _, _ => false
  end.
Definition ord_ltb (a b : ord) : bool := ord_leb a b && negb (ord_eqb a b).   (* a < b *)
Definition ord_gtb (a b : ord) : bool := ord_ltb b a.                         (* a > b *)
Definition ord_geb (a b : ord) : bool := ord_leb b a.

Lemma ord_leb_refl a : ord_leb a a = true.
Proof. destruct a; cbn; auto. apply Nat.leb_refl. Qed.
Lemma ord_leb_trans a b c : ord_leb a b = true -> ord_leb b c = true -> ord_leb a c = true.
Proof. destruct a, b, c; cbn; auto; try discriminate. rewrite !Nat.leb_le. lia. Qed.
Lemma ord_leb_antisym a b : ord_leb a b = true -> ord_leb b a = true -> ord_eqb a b = true.
Proof. destruct a, b; cbn; auto; try discriminate. rewrite !Nat.leb_le, Nat.eqb_eq. lia. Qed.
Lemma ord_eqb_eq a b : ord_eqb a b = true <-> a = b.
Proof. destruct a, b; cbn; try (split; congruence). rewrite Nat.eqb_eq. split; congruence. Qed.
Lemma ord_eqb_refl a : ord_eqb a a = true.
Proof. apply ord_eqb_eq; auto. Qed.

(* ---------------- directional spaces: the specification ---------------- *)
(* H(o) is a subspace of H(p) iff o_i >= p_i for all i (same number of directions) *)
Fixpoint all2 (f : ord -> ord -> bool) (a b : list ord) : bool :=
  match a, b with
  | [], [] => true
  | x :: a', y :: b' => f x y && all2 f a' b'
  | _, _ => false
  end.
Fixpoint any2 (f : ord -> ord -> bool) (a b : list ord) : bool :=
  match a, b with
  | x :: a', y :: b' => f x y || any2 f a' b'
  | _, _ => false
  end.
Definition dir_sub (a b : list ord) : bool := all2 ord_geb a b.                 (* a subseteq b *)
Definition dir_lt_spec (a b : list ord) : bool := dir_sub a b && any2 ord_gtb a b.
(* what DirectionalSobolevSpace.__lt__ computes for two directional spaces *)
Definition dir_lt_impl (a b : list ord) : bool :=
  if Nat.eqb (length a) (length b) then any2 ord_gtb a b else false.

Lemma all2_length f a b : all2 f a b = true -> length a = length b.
Proof. revert b; induction a as [|x a IH]; intros [|y b]; cbn; try discriminate; auto.
  rewrite andb_true_iff. intros [_ H]. f_equal. auto. Qed.

Lemma dir_sub_refl a : dir_sub a a = true.
Proof. induction a as [|x a IH]; cbn; auto. unfold ord_geb. rewrite ord_leb_refl. exact IH. Qed.

Lemma dir_sub_trans a b c : dir_sub a b = true -> dir_sub b c = true -> dir_sub a c = true.
Proof.
  revert b c; induction a as [|x a IH]; intros [|y b] [|z c]; cbn; try discriminate; auto.
  rewrite !andb_true_iff. intros [H1 H2] [H3 H4]. split; [|eapply IH; eauto].
  unfold ord_geb in *. eapply ord_leb_trans; eauto.
Qed.

Lemma any_gt_not_all_le a b : any2 ord_gtb a b = true -> dir_sub b a = true -> False.
Proof.
  revert b; induction a as [|x a IH]; intros [|y b]; cbn; try discriminate.
  rewrite orb_true_iff, andb_true_iff. intros [H|H] [H1 H2]; [|eauto].
  unfold ord_gtb, ord_ltb, ord_geb in *. rewrite andb_true_iff, negb_true_iff in H. destruct H as [Ha Hb].
  pose proof (ord_leb_antisym _ _ Ha H1). congruence.
Qed.

Theorem dir_lt_spec_irrefl a : dir_lt_spec a a = false.
Proof.
  unfold dir_lt_spec. destruct (any2 ord_gtb a a) eqn:E; [|apply andb_false_r].
  exfalso. eapply any_gt_not_all_le; eauto. apply dir_sub_refl.
Qed.

Lemma any_gt_sub_l a b c : any2 ord_gtb a b = true -> dir_sub a b = true -> dir_sub b c = true ->
  any2 ord_gtb a c = true.
Proof.
  revert b c; induction a as [|x a IH]; intros [|y b] [|z c]; cbn; try discriminate.
  rewrite !orb_true_iff, !andb_true_iff. intros [H|H] [H1 H2] [H3 H4]; [left|right; eauto].
  unfold ord_gtb, ord_ltb, ord_geb in *. rewrite andb_true_iff, negb_true_iff in *.
  destruct H as [Ha Hb]. split; [eapply ord_leb_trans; eauto|].
  destruct (ord_eqb z x) eqn:E; auto. apply ord_eqb_eq in E; subst z.
  pose proof (ord_leb_antisym _ _ Ha H3). congruence.
Qed.

Theorem dir_lt_spec_trans a b c :
  dir_lt_spec a b = true -> dir_lt_spec b c = true -> dir_lt_spec a c = true.
Proof.
  unfold dir_lt_spec. rewrite !andb_true_iff. intros [S1 G1] [S2 G2]. split.
  - eapply dir_sub_trans; eauto.
  - eapply any_gt_sub_l; eauto.
Qed.

Theorem dir_lt_spec_asym a b : dir_lt_spec a b = true -> dir_lt_spec b a = false.
Proof.
  intros H. destruct (dir_lt_spec b a) eqn:E; auto.
  pose proof (dir_lt_spec_trans _ _ _ H E) as T. rewrite dir_lt_spec_irrefl in T. discriminate.
Qed.

(* The implementation agrees with the specification exactly on comparable pairs *)
Theorem C25_dir_lt_partial a b :
  dir_sub a b = true \/ dir_sub b a = true -> dir_lt_impl a b = dir_lt_spec a b.
Proof.
  intros [H|H]; unfold dir_lt_impl, dir_lt_spec.
  - rewrite H, (all2_length _ _ _ H), Nat.eqb_refl. reflexivity.
  - rewrite (all2_length _ _ _ H), Nat.eqb_refl.
    destruct (any2 ord_gtb a b) eqn:E; [|rewrite andb_false_r; auto].
    exfalso. eapply any_gt_not_all_le; eauto.
Qed.

(* ... and is NOT a strict order in general: H(2,0) < H(0,2) and H(0,2) < H(2,0) *)
Theorem C25_dir_lt_refuted :
  exists a b, dir_lt_impl a b = true /\ dir_lt_impl b a = true /\ dir_lt_spec a b = false.
Proof. exists [Fin 2; Fin 0], [Fin 0; Fin 2]. vm_compute. auto. Qed.

(* ---------------- named spaces ---------------- *)
Record nspace := { ns_id : nat; ns_parents : list nat; ns_order : ord }.
Definition ntable := list nspace.
Definition mem (x : nat) (l : list nat) : bool := existsb (Nat.eqb x) l.

Inductive sp := Named (s : nspace) | Dir (os : list ord).

(* results of a Python comparison: a bool, a truthy non-bool object, or an exception *)
Inductive res := RB (b : bool) | RObj | RErr.
Definition truthy (r : res) : option bool :=
  match r with RB b => Some b | RObj => Some true | RErr => None end.
Definition rnot (r : res) : res := match r with RB b => RB (negb b) | RObj => RB false | RErr => RErr end.

(* the special named spaces the directional comparison mentions, by table id *)
(* [dir_all_any]: DirectionalSobolevSpace.__lt__ tests all(>=) and any(>) (repaired) instead of any(>);
   [unknown_raises]: it raises for HDivDiv/HEin/HCurlDiv instead of returning the exception object.
   Both flags are detected on the real code on every run (and validated by the exhaustive correspondence). *)
Record specials := { id_L2 : nat; id_H1 : nat; id_H2 : nat; id_H3 : nat; id_HInf : nat;
                     id_HDiv : nat; id_HCurl : nat; unknown_ids : list nat;
                     dir_all_any : bool; unknown_raises : bool;
                     (* [explicit_ops]: >, <=, >= are defined as for a partial order instead of derived by
                        total_ordering; [contains_le]: directional membership is `space <= self` *)
                     explicit_ops : bool; contains_le : bool;
                     (* [named_contains_le]: SobolevSpace.__contains__ is `fe.sobolev_space <= self` (repaired)
                        instead of `== self or self in parents` *)
                     named_contains_le : bool;
                     item_parents : list (nat * list nat)   (* parents of the spaces L2,H1,H2,H3,HInf by id *) }.
Section Named.
Variable S : specials.
Variable T : ntable.

Definition by_id (i : nat) : option nspace := find (fun s => Nat.eqb (ns_id s) i) T.
(* DirectionalSobolevSpace.__getitem__: spaces = {0: L2, 1: H1, 2: H2, 3: H3, inf: HInf} *)
Definition dir_item (o : ord) : option nat :=
  match o with
  | Fin 0 => Some (id_L2 S) | Fin 1 => Some (id_H1 S) | Fin 2 => Some (id_H2 S)
  | Fin 3 => Some (id_H3 S) | Inf => Some (id_HInf S) | _ => None
  end.

Fixpoint ord_min0 (l : list ord) : ord :=
  match l with [] => Inf | x :: r => let m := ord_min0 r in if ord_leb x m then x else m end.
Definition named_le_id (a : nspace) (i : nat) : bool :=      (* a <= the named space with id i *)
  Nat.eqb (ns_id a) i || mem i (ns_parents a).

(* __eq__ *)
Definition eq_res (x y : sp) : res :=
  match x, y with
  | Named a, Named b => RB (Nat.eqb (ns_id a) (ns_id b))
  | Dir a, Dir b => RB (Nat.eqb (length a) (length b) && all2 ord_eqb a b)
  | Dir a, Named b | Named b, Dir a =>      (* reflected priority: Dir.__eq__ either way *)
      if forallb (fun o => match dir_item o with Some _ => true | None => false end) a
      then RB (forallb (fun o => match dir_item o with Some i => Nat.eqb i (ns_id b) | None => false end) a)
      else RErr                               (* KeyError, evaluated lazily by all(): only if reached *)
  end.
Definition ne_res (x y : sp) : res := rnot (eq_res x y).

(* type(self).__lt__(self, other), no dispatch *)
Definition lt_method (x y : sp) : res :=
  match x, y with
  | Named a, Named b => RB (mem (ns_id b) (ns_parents a))
  | Named _, Dir _ => RErr                    (* unhashable DirectionalSobolevSpace in frozenset *)
  | Dir a, Dir b => RB (if dir_all_any S then dir_lt_spec a b else dir_lt_impl a b)
  | Dir a, Named b =>
      if Nat.eqb (ns_id b) (id_HDiv S) || Nat.eqb (ns_id b) (id_HCurl S)
      then RB (forallb (fun o => ord_geb o (Fin 1)) a)
      else if mem (ns_id b) (unknown_ids S)
      then (if unknown_raises S then RErr else RObj)     (* RETURNS a NotImplementedError instance *)
      else if explicit_ops S
      then (* repaired: the space of the least smooth direction is contained in b, and self <> b *)
        match dir_item (ord_min0 a) with
        | Some i => match eq_res x y with
                    | RB e => RB ((Nat.eqb i (ns_id b) || match find (fun p => Nat.eqb (fst p) i) (item_parents S) with
                                                        | Some p => mem (ns_id b) (snd p) | None => false end) && negb e)
                    | r => r end
        | None => RErr
        end
      else RB ((if dir_all_any S then forallb (fun o => ord_geb o (ns_order b)) a else true)
               && existsb (fun o => ord_gtb o (ns_order b)) a)
  end.
(* functools.total_ordering: _gt_from_lt, _le_from_lt, _ge_from_lt *)
Definition rand_not_and (r : res) (e : res) : res :=      (* not r and e *)
  match r with
  | RErr => RErr
  | RObj | RB true => RB false
  | RB false => e
  end.
Definition ror (r : res) (e : res) : res :=                (* r or e *)
  match r with
  | RErr => RErr
  | RObj => RObj
  | RB true => RB true
  | RB false => e
  end.
(* explicit partial-order operators (repaired code) *)
Definition gt_explicit (x y : sp) : res :=
  match x, y with
  | Named a, Named b => RB (mem (ns_id a) (ns_parents b))
  | Named _, Dir _ => RErr
  | Dir a, Dir b => lt_method (Dir b) (Dir a)
  | Dir a, Named b =>
      if forallb (fun o => match dir_item o with Some _ => true | None => false end) a
      then rand_not_and (rnot (RB (forallb (fun o => match dir_item o with Some i => named_le_id b i | None => false end) a)))
                        (rnot (eq_res x y))
      else RErr
  end.
Definition gt_method (x y : sp) : res :=
  if explicit_ops S then gt_explicit x y else rand_not_and (lt_method x y) (ne_res x y).
Definition le_method (x y : sp) : res :=
  if explicit_ops S then ror (eq_res x y) (lt_method x y) else ror (lt_method x y) (eq_res x y).
Definition ge_method (x y : sp) : res :=
  if explicit_ops S then ror (eq_res x y) (gt_method x y) else rnot (lt_method x y).

(* CPython rich comparison: if type(y) is a proper subclass of type(x), y's reflected method first *)
Definition reflected_first (x y : sp) : bool :=
  match x, y with Named _, Dir _ => true | _, _ => false end.
Definition py_lt (x y : sp) : res := if reflected_first x y then gt_method y x else lt_method x y.
Definition py_gt (x y : sp) : res := if reflected_first x y then lt_method y x else gt_method x y.
Definition py_le (x y : sp) : res := if reflected_first x y then ge_method y x else le_method x y.
Definition py_ge (x y : sp) : res := if reflected_first x y then le_method y x else ge_method x y.
Definition py_eq (x y : sp) : res := eq_res x y.

(* ----- the laws of the property, as booleans over a finite list of spaces ----- *)
Definition is_b (r : res) (b : bool) : bool := match r with RB c => Bool.eqb b c | _ => false end.
Definition r_eqb (r1 r2 : res) : bool :=
  match r1, r2 with RB a, RB b => Bool.eqb a b | RObj, RObj => true | RErr, RErr => true | _, _ => false end.

Definition law_irrefl (l : list sp) : bool := forallb (fun a => is_b (py_lt a a) false) l.
Definition law_trans (l : list sp) : bool :=
  forallb (fun a => forallb (fun b => forallb (fun c =>
    implb (is_b (py_lt a b) true && is_b (py_lt b c) true) (is_b (py_lt a c) true)) l) l) l.
Definition law_gt_is_flipped_lt (l : list sp) : bool :=
  forallb (fun a => forallb (fun b => r_eqb (py_gt a b) (py_lt b a)) l) l.
Definition law_le (l : list sp) : bool :=
  forallb (fun a => forallb (fun b => r_eqb (py_le a b) (ror (py_lt a b) (py_eq a b))) l) l.
Definition law_ge_is_flipped_le (l : list sp) : bool :=
  forallb (fun a => forallb (fun b => r_eqb (py_ge a b) (py_le b a)) l) l.
Definition law_all_bool (l : list sp) : bool :=
  forallb (fun a => forallb (fun b => match py_lt a b with RB _ => true | _ => false end) l) l.
(* comparable = one is below the other or equal *)
Definition comparable (a b : sp) : bool :=
  is_b (py_lt a b) true || is_b (py_lt b a) true || is_b (py_eq a b) true.
Definition law_gt_partial (l : list sp) : bool :=
  forallb (fun a => forallb (fun b => implb (comparable a b) (r_eqb (py_gt a b) (py_lt b a))) l) l.
Definition law_ge_partial (l : list sp) : bool :=
  forallb (fun a => forallb (fun b => implb (comparable a b) (r_eqb (py_ge a b) (py_le b a))) l) l.
(* membership `fe in s`  (SobolevSpace.__contains__) for an element whose space is e *)
Definition contains (s e : nspace) : bool := Nat.eqb (ns_id e) (ns_id s) || mem (ns_id s) (ns_parents e).
Definition law_membership (l : list nspace) : bool :=
  forallb (fun s => forallb (fun e => r_eqb (RB (contains s e)) (py_le (Named e) (Named s))) l) l.
(* parents are transitively closed and acyclic *)
Definition law_closed (l : list nspace) : bool :=
  forallb (fun a => forallb (fun p => match by_id p with
                                      | Some b => forallb (fun q => mem q (ns_parents a)) (ns_parents b)
                                      | None => false end) (ns_parents a)
                    && negb (mem (ns_id a) (ns_parents a))) l.
End Named.


(* ----- specification: the subspace relation, and what each operator should return ----- *)
Section Spec.
Variable S : specials.
Variable T : ntable.
Definition named_sub (a b : nspace) : bool := Nat.eqb (ns_id a) (ns_id b) || mem (ns_id b) (ns_parents a).
Fixpoint ord_min (l : list ord) : ord :=
  match l with [] => Inf | x :: r => let m := ord_min r in if ord_leb x m then x else m end.
Definition item_space (o : ord) : option nspace :=
  match dir_item S o with Some i => by_id T i | None => None end.
(* H(a) is contained in a named space b iff H^{min a} is; a named space a is contained in H(b) iff it is
   contained in every H^{b_i} *)
Definition sub_spec (x y : sp) : bool :=
  match x, y with
  | Named a, Named b => named_sub a b
  | Dir a, Dir b => dir_sub a b
  | Dir a, Named b => match a with
                      | [] => false
                      | _ => match item_space (ord_min a) with Some m => named_sub m b | None => false end
                      end
  | Named a, Dir b => match b with
                      | [] => false
                      | _ => forallb (fun o => match item_space o with Some m => named_sub a m | None => false end) b
                      end
  end.
Definition lt_spec (x y : sp) : bool := sub_spec x y && negb (sub_spec y x).
Definition eq_spec (x y : sp) : bool := sub_spec x y && sub_spec y x.
Definition spec_comparable (x y : sp) : bool := sub_spec x y || sub_spec y x.
(* known-finding class B: a directional space compared with a space of unknown relation *)
Definition involves_unknown (x y : sp) : bool :=
  match x, y with
  | Dir _, Named b | Named b, Dir _ => mem (ns_id b) (unknown_ids S)
  | _, _ => false
  end.
(* DirectionalSobolevSpace.__contains__ for an element whose space is the named space e *)
Definition contains_dir (b : list ord) (e : nspace) : res :=
  if contains_le S then py_le S (Named e) (Dir b) else
  match eq_res S (Named e) (Dir b) with
  | RB true => RB true
  | RErr => RErr
  | _ => RB (forallb (fun o => match dir_item S o with Some i => mem i (ns_parents e) | None => false end) b)
  end.
(* known-finding class C: the element's space equals the space of some but not all directions *)
Definition some_not_all_equal (b : list ord) (e : nspace) : bool :=
  existsb (fun o => match dir_item S o with Some i => Nat.eqb i (ns_id e) | None => false end) b
  && negb (forallb (fun o => match dir_item S o with Some i => Nat.eqb i (ns_id e) | None => false end) b).
Definition membership_dir_ok (ds : list (list ord)) (es : list nspace) : bool :=
  forallb (fun b => forallb (fun e =>
    implb (negb (some_not_all_equal b e)) (r_eqb (contains_dir b e) (RB (sub_spec (Named e) (Dir b))))) es) ds.
Definition pair_ok (x y : sp) : bool :=
  r_eqb (py_lt S x y) (RB (lt_spec x y)) && r_eqb (py_gt S x y) (RB (lt_spec y x))
  && r_eqb (py_le S x y) (RB (sub_spec x y)) && r_eqb (py_ge S x y) (RB (sub_spec y x))
  && r_eqb (py_eq S x y) (RB (eq_spec x y)).
(* outside the two known classes every operator returns the mathematically right answer *)
Definition all_ok_outside_known (l : list sp) : bool :=
  forallb (fun x => forallb (fun y =>
     implb (spec_comparable x y && negb (involves_unknown x y)) (pair_ok x y)) l) l.
(* repaired code: every operator is right on EVERY pair that does not involve an unknown space *)
Definition all_ok_everywhere (l : list sp) : bool :=
  forallb (fun x => forallb (fun y => implb (negb (involves_unknown x y)) (pair_ok x y)) l) l.
Definition membership_dir_all (ds : list (list ord)) (es : list nspace) : bool :=
  forallb (fun b => forallb (fun e =>
    implb (negb (mem (ns_id e) (unknown_ids S))) (r_eqb (contains_dir b e) (RB (sub_spec (Named e) (Dir b))))) es) ds.
(* `fe in t` for an element whose space is ANY space x of the grid (also a directional one) *)
Definition contains_gen (t x : sp) : res :=
  match t with
  | Named s =>
      if named_contains_le S then py_le S x (Named s)
      else match eq_res S x (Named s) with
           | RB true => RB true
           | RErr => RErr
           | _ => RB (match x with
                      | Named e => mem (ns_id s) (ns_parents e)
                      | Dir _ => Nat.eqb (ns_id s) (id_L2 S)      (* DirectionalSobolevSpace: parents = {L2} *)
                      end)
           end
  | Dir b =>
      match x with
      | Named e => contains_dir b e
      | Dir a => py_le S (Dir a) (Dir b)
      end
  end.
(* membership is consistent with the order: fe in t  iff  space(fe) is a subspace of t *)
Definition membership_gen_all (l : list sp) : bool :=
  forallb (fun t => forallb (fun x =>
    implb (negb (involves_unknown x t)) (r_eqb (contains_gen t x) (RB (sub_spec x t)))) l) l.
End Spec.

Lemma membership_gen_all_sound S T l : membership_gen_all S T l = true ->
  forall t x, In t l -> In x l -> involves_unknown S x t = false ->
  contains_gen S t x = RB (sub_spec S T x t).
Proof.
  unfold membership_gen_all. intros H t x Ht Hx Hu.
  rewrite forallb_forall in H. specialize (H t Ht). rewrite forallb_forall in H. specialize (H x Hx).
  rewrite Hu in H. cbn [negb implb] in H.
  destruct (contains_gen S t x) as [b| |]; cbn in H; try discriminate.
  f_equal. destruct b, (sub_spec S T x t); cbn in H; congruence.
Qed.

Lemma all_ok_outside_known_sound S T l : all_ok_outside_known S T l = true ->
  forall x y, In x l -> In y l -> spec_comparable S T x y = true -> involves_unknown S x y = false ->
  py_lt S x y = RB (lt_spec S T x y) /\ py_gt S x y = RB (lt_spec S T y x) /\
  py_le S x y = RB (sub_spec S T x y) /\ py_ge S x y = RB (sub_spec S T y x) /\
  py_eq S x y = RB (eq_spec S T x y).
Proof.
  unfold all_ok_outside_known. rewrite forallb_forall. intros H x y Hx Hy Hc Hu.
  specialize (H x Hx). rewrite forallb_forall in H. specialize (H y Hy).
  rewrite Hc, Hu in H. cbn in H. unfold pair_ok in H. rewrite !andb_true_iff in H.
  destruct H as [[[[H1 H2] H3] H4] H5].
  assert (E : forall r b, r_eqb r (RB b) = true -> r = RB b).
  { intros [c| |] b; cbn; try discriminate. destruct c, b; cbn; congruence. }
  repeat split; apply E; assumption.
Qed.

(* Lifting: the boolean laws over a list are statements about every member *)
Lemma law_trans_sound S l : law_trans S l = true ->
  forall a b c, In a l -> In b l -> In c l ->
  py_lt S a b = RB true -> py_lt S b c = RB true -> py_lt S a c = RB true.
Proof.
  unfold law_trans. rewrite forallb_forall. intros H a b c Ha Hb Hc H1 H2.
  specialize (H a Ha). rewrite forallb_forall in H. specialize (H b Hb).
  rewrite forallb_forall in H. specialize (H c Hc). rewrite H1, H2 in H. cbn in H.
  destruct (py_lt S a c) as [[|]| |]; cbn in H; try discriminate; auto.
Qed.

Print Assumptions dir_lt_spec_trans.
Print Assumptions C25_dir_lt_partial.
Print Assumptions C25_dir_lt_refuted.
Print Assumptions law_trans_sound.
Print Assumptions all_ok_outside_known_sound.
