(* C10: the unbounded theorems.  For every UFL algebra, environment, valuation and component:
     den_ext_on            the value of e depends on the valuation only through dv e
     C10_irep_den          substitution lemma for the (non capture avoiding) IndexReplacer:
                           safe m e -> den (irep m e) rho = den e (rho o m)     (+ shape)
     C10_remove_partial    rct_safe e -> den (rct e) = den e                    (+ shape)
     C10_renumber          renumbering by any map that is safe for e (in particular any injective
                           one) preserves the value up to the renamed valuation
   all for e in the fragment [frag] (everything that survives algebra lowering). *)
Require Import UFLV.Core.Den UFLV.Props.C10_model UFLV.Props.C10_lemmas.
Import ListNotations.

Lemma mapM_id (l : list expr) : mapM Some l = Some l.
Proof. induction l as [|x t IH]; cbn; [reflexivity|]. fold (mapM (@Some expr) t). rewrite IH. reflexivity. Qed.
Lemma cmapM_id c : cmapM Some c = Some c.
Proof. induction c; cbn; rewrite ?IHc1, ?IHc2, ?IHc; reflexivity. Qed.
Lemma emapM_id e : emapM Some e = Some e.
Proof.
  destruct e; cbn; try reflexivity.
  - destruct (is_lit e2); reflexivity.
  - rewrite mapM_id. reflexivity.
  - rewrite cmapM_id. reflexivity.
Qed.

Lemma dv_plain e : (match e with Zero _ _ | Indexed _ _ => false | _ => true end) = true ->
  dv e = efold (@app nat) [] dv e.
Proof. destruct e; try reflexivity; discriminate. Qed.
Lemma dv_child e a j : is_plain e = true -> In a (children e) -> In j (dv a) -> In j (dv e).
Proof.
  intros Hp Ha Hj. rewrite dv_plain by (destruct e; try reflexivity; discriminate).
  rewrite efold_children. apply fold_app_in. exists a; auto.
Qed.
Lemma safe_child m e a : is_plain e = true -> safe m e = true -> In a (children e) -> safe m a = true.
Proof.
  intros Hp Hh Ha.
  destruct e; try discriminate Hp;
    cbn [safe] in Hh; rewrite efold_children in Hh; rewrite fold_andb_all in Hh; apply Hh; exact Ha.
Qed.
Lemma rct_safe_child e a : is_plain e = true -> rct_safe e = true -> In a (children e) -> rct_safe a = true.
Proof.
  intros Hp Hh Ha.
  destruct e; try discriminate Hp;
    cbn [rct_safe] in Hh; rewrite efold_children in Hh; rewrite fold_andb_all in Hh; apply Hh; exact Ha.
Qed.
Lemma irep_plain m e : is_plain e = true -> irep m e = emapM (irep m) e.
Proof. destruct e; try reflexivity; discriminate. Qed.
Lemma rct_plain e : is_plain e = true -> rct e = emapM rct e.
Proof. destruct e; try reflexivity; discriminate. Qed.

Lemma upds_at (F G : nat -> nat) ix c j : F j = G j -> upds F ix c j = upds G ix c j.
Proof.
  revert F G c; induction ix as [|[i d] t IH]; intros F G c H; cbn; [exact H|].
  destruct c as [|k c']; [exact H|]. apply IH. cbn. destruct (Nat.eqb j i); auto.
Qed.

Lemma binder_ok_spec m scope i : binder_ok m scope i = true ->
  exists i', sub m (Free i) = Free i' /\
             forall j, In j scope -> j <> i -> sub m (Free j) <> Free i'.
Proof.
  unfold binder_ok. intros H. apply andb_true_iff in H. destruct H as [Hf Ha].
  destruct (sub m (Free i)) as [n|i'] eqn:E; [discriminate|]. exists i'. split; [reflexivity|].
  intros j Hj Hne Heq. rewrite forallb_forall in Ha. specialize (Ha j Hj).
  apply orb_true_iff in Ha. destruct Ha as [Ha|Ha].
  - apply Nat.eqb_eq in Ha. contradiction.
  - rewrite Heq in Ha. cbn in Ha. rewrite Nat.eqb_refl in Ha. discriminate.
Qed.

Definition subv (m : imap) (rho : nat -> nat) : nat -> nat := fun i => idxval rho (sub m (Free i)).
Lemma idxval_sub m rho x : idxval rho (sub m x) = idxval (subv m rho) x.
Proof. destruct x; reflexivity. Qed.
Lemma subv_upd m rho i i' k j :
  sub m (Free i) = Free i' -> (j <> i -> sub m (Free j) <> Free i') ->
  subv m (upd rho i' k) j = upd (subv m rho) i k j.
Proof.
  intros Hi Hj. unfold subv. cbn [upd]. destruct (Nat.eqb j i) eqn:E.
  - apply Nat.eqb_eq in E. subst j. rewrite Hi. cbn. rewrite Nat.eqb_refl. reflexivity.
  - apply Nat.eqb_neq in E. specialize (Hj E). destruct (sub m (Free j)) as [n|j']; [reflexivity|].
    cbn. destruct (Nat.eqb j' i') eqn:E2; [|reflexivity].
    apply Nat.eqb_eq in E2. subst j'. contradiction.
Qed.
Definition ren_binders (m : imap) (ix : list (nat * nat)) : option (list (nat * nat)) :=
  mapM (fun p => bind (sub_binder m (fst p)) (fun j => Some (j, snd p))) ix.
Lemma upds_sub m scope : forall ix ix',
  ren_binders m ix = Some ix' ->
  (forall p, In p (map fst ix) -> binder_ok m scope p = true) ->
  map snd ix' = map snd ix /\
  forall c rho j, In j scope -> subv m (upds rho ix' c) j = upds (subv m rho) ix c j.
Proof.
  unfold ren_binders.
  induction ix as [|[i d] t IH]; intros ix' Hm Hok.
  - cbn in Hm. injection Hm as <-. split; reflexivity.
  - cbn in Hm. unfold bind in Hm. fold (mapM (fun p : nat * nat => bind (sub_binder m (fst p)) (fun j => Some (j, snd p))) t) in Hm.
    unfold bind in Hm.
    destruct (sub_binder m i) as [i'|] eqn:Ei; [|discriminate]. cbn in Hm.
    match type of Hm with context [mapM ?F t] => destruct (mapM F t) as [t'|] eqn:Et; [|discriminate] end.
    injection Hm as <-.
    destruct (IH t' Et) as [Hs Hu]. { intros p Hp. apply Hok. right. exact Hp. }
    split; [cbn; congruence|].
    intros c rho j Hj. destruct c as [|k c']; [reflexivity|]. cbn [upds].
    rewrite Hu by exact Hj. apply upds_at.
    destruct (binder_ok_spec m scope i (Hok i (or_introl eq_refl))) as [i2 [Hi2 Hcap]].
    unfold sub_binder in Ei. rewrite Hi2 in Ei. injection Ei as <-.
    apply subv_upd; [exact Hi2|]. intros Hne. apply Hcap; assumption.
Qed.

(* ---------- rank typing is preserved by irep and rct ---------- *)
Lemma ren_binders_length m ix ix' : ren_binders m ix = Some ix' -> length ix' = length ix.
Proof. unfold ren_binders. intros H. apply (proj1 (mapM_some _ _ _ H)). Qed.

Lemma irep_rk_n m n : forall e e' k, size e <= n -> irep m e = Some e' -> rk e k = true -> rk e' k = true.
Proof.
  induction n as [|n IH]; intros e e' k Hs Hm Hr.
  - destruct e; cbn in Hs; lia.
  - destruct (is_plain e) eqn:Hp.
    + rewrite irep_plain in Hm by exact Hp. apply (emapM_rk (irep m) e e' k Hr Hm).
      intros a Ha a' k' E R. apply (IH a a' k'); [pose proof (children_size e a Ha); lia|exact E|exact R].
    + destruct e; try discriminate Hp.
      * cbn [irep] in Hm. unfold zero_sub in Hm.
        destruct (existsb _ fi); injection Hm as <-; exact Hr.
      * cbn [irep] in Hm. unfold bind in Hm.
        destruct (irep m e) as [a'|] eqn:E; [|discriminate]. injection Hm as <-.
        cbn [rk] in *. apply andb_true_iff in Hr. destruct Hr as [H0 Hr]. rewrite H0. cbn.
        rewrite map_length. apply (IH e a'); [cbn in Hs; lia|exact E|exact Hr].
      * cbn [irep] in Hm. unfold bind in Hm.
        destruct (sub_binder m i) as [i'|] eqn:Ei; [|discriminate].
        destruct (irep m e) as [a'|] eqn:E; [|discriminate]. injection Hm as <-.
        cbn [rk] in *. apply (IH e a'); [cbn in Hs; lia|exact E|exact Hr].
      * cbn [irep] in Hm. unfold bind at 1 in Hm.
        change (mapM (fun p : nat * nat => bind (sub_binder m (fst p)) (fun j => Some (j, snd p))) ix)
          with (ren_binders m ix) in Hm.
        destruct (ren_binders m ix) as [ix'|] eqn:Ex; [|discriminate]. unfold bind in Hm.
        destruct (irep m e) as [a'|] eqn:E; [|discriminate]. injection Hm as <-.
        cbn [rk] in *. apply andb_true_iff in Hr. destruct Hr as [H0 Hr].
        rewrite (ren_binders_length m ix ix' Ex), H0. cbn.
        apply (IH e a'); [cbn in Hs; lia|exact E|exact Hr].
Qed.

Lemma rct_rk_n n : forall e e' k, size e <= n -> rct e = Some e' -> rk e k = true -> rk e' k = true.
Proof.
  induction n as [|n IH]; intros e e' k Hs Hm Hr.
  - destruct e; cbn in Hs; lia.
  - destruct (match e with Indexed _ _ => false | _ => true end) eqn:Hp.
    + assert (Hm' : emapM rct e = Some e') by (destruct e; try discriminate Hp; exact Hm).
      apply (emapM_rk rct e e' k Hr Hm').
      intros a Ha a' k' E R. apply (IH a a' k'); [pose proof (children_size e a Ha); lia|exact E|exact R].
    + destruct e; try discriminate Hp. cbn [rct] in Hm. unfold bind in Hm.
      destruct (rct e) as [a'|] eqn:E; [|discriminate].
      cbn [rk] in Hr. apply andb_true_iff in Hr. destruct Hr as [H0 Hr].
      pose proof (IH e a' (length mi) ltac:(cbn in Hs; lia) E Hr) as Ra.
      destruct a'; try (injection Hm as <-; cbn [rk]; rewrite H0; exact Ra).
      destruct (Nat.eqb (length ix) (length mi)); [|discriminate].
      cbn [rk] in Ra. apply andb_true_iff in Ra. destruct Ra as [_ Ra].
      apply Nat.eqb_eq in H0. subst k.
      apply (irep_rk_n (mkmap ix mi) (size a') a' e' 0 (le_n _) Hm Ra).
Qed.

Lemma lookup_app m1 m2 j :
  lookup (m1 ++ m2) j = match lookup m1 j with Some y => Some y | None => lookup m2 j end.
Proof.
  induction m1 as [|[i x] t IH]; cbn; [reflexivity|]. destruct (Nat.eqb j i); [reflexivity|exact IH].
Qed.
Lemma upds_mkmap rho0 : forall ix mi rho j,
  upds rho ix (map (idxval rho0) mi) j =
  match lookup (mkmap ix mi) j with Some y => idxval rho0 y | None => rho j end.
Proof.
  induction ix as [|[i d] t IH]; intros mi rho j; [reflexivity|].
  destruct mi as [|x mi']; [reflexivity|]. cbn [map upds mkmap]. rewrite IH, lookup_app.
  destruct (lookup (mkmap t mi') j); [reflexivity|]. cbn. destruct (Nat.eqb j i); reflexivity.
Qed.

Section Thm.
Variable A : ualg.
Variable env : side -> nat -> nat -> list nat -> A.
Variables D DX : nat -> A -> A.
Variable ki : A.
Notation DEN := (@den A env D DX ki).

(* ---------- the value depends on the valuation only through dv ---------- *)
Lemma den_ext_on_n n : forall e rho rho', size e <= n ->
  (forall j, In j (dv e) -> rho j = rho' j) -> forall s c, rk e (length c) = true -> DEN s rho e c = DEN s rho' e c.
Proof.
  induction n as [|n IH]; intros e rho rho' Hs Hag s c Hr.
  - destruct e; cbn in Hs; lia.
  - destruct (is_plain e) eqn:Hp.
    + symmetry.
      refine (emapM_congr A env D DX ki Some e e rho' rho (length c) Hp Hr (emapM_id e) _ s c eq_refl).
      intros a Ha a' E. injection E as <-. intros s0 c0 Hr0. symmetry.
      apply IH; [pose proof (children_size e a Ha); lia| |exact Hr0].
      intros j Hj. apply Hag. apply (dv_child e a j Hp Ha Hj).
    + destruct e; try discriminate Hp.
      * reflexivity.
      * (* Indexed *) cbn [den]. cbn [dv] in Hag. cbn [rk] in Hr.
        apply andb_true_iff in Hr. destruct Hr as [_ Hr].
        replace (map (idxval rho') mi) with (map (idxval rho) mi).
        2:{ apply map_ext_in. intros [k|i] Hi; [reflexivity|]. cbn. apply Hag.
            apply in_or_app. right. unfold mi_ids. apply in_flat_map. exists (Free i); cbn; auto. }
        apply IH; [cbn in Hs; lia| |rewrite map_length; exact Hr].
        intros j Hj. apply Hag. apply in_or_app; auto.
      * (* IndexSum *) cbn [den]. cbn [rk] in Hr.
        apply ksum_ext. intros k _. apply IH; [cbn in Hs; lia| |exact Hr].
        intros j Hj. cbn. destruct (Nat.eqb j i); [reflexivity|]. apply Hag. cbn. rewrite app_nil_r. exact Hj.
      * (* ComponentTensor *) cbn [den]. cbn [rk] in Hr.
        apply andb_true_iff in Hr. destruct Hr as [_ Hr].
        apply IH; [cbn in Hs; lia| |exact Hr].
        intros j Hj. apply upds_at. apply Hag. cbn. rewrite app_nil_r. exact Hj.
Qed.
Theorem den_ext_on e rho rho' :
  (forall j, In j (dv e) -> rho j = rho' j) ->
  forall s c, rk e (length c) = true -> DEN s rho e c = DEN s rho' e c.
Proof. apply (den_ext_on_n (size e)). lia. Qed.

(* ---------- the substitution lemma for IndexReplacer ---------- *)
Lemma irep_den_n m n : forall e e', size e <= n -> safe m e = true -> irep m e = Some e' ->
  forall s rho c, rk e (length c) = true -> DEN s rho e' c = DEN s (subv m rho) e c.
Proof.
  induction n as [|n IH]; intros e e' Hs Hsafe Hm.
  - destruct e; cbn in Hs; lia.
  - destruct (is_plain e) eqn:Hp.
    + rewrite irep_plain in Hm by exact Hp.
      intros s rho c Hr.
      refine (emapM_congr A env D DX ki (irep m) e e' rho (subv m rho) (length c) Hp Hr Hm _ s c eq_refl).
      intros a Ha a' E s0 c0 Hr0. apply IH; [pose proof (children_size e a Ha); lia|apply (safe_child m e a Hp Hsafe Ha)|exact E|exact Hr0].
    + destruct e; try discriminate Hp.
      * (* Zero *) cbn [irep] in Hm. unfold zero_sub in Hm.
        destruct (existsb _ fi); injection Hm as <-; intros; reflexivity.
      * (* Indexed *) cbn [irep] in Hm. unfold bind in Hm.
        destruct (irep m e) as [a'|] eqn:E; [|discriminate]. injection Hm as <-.
        cbn [safe efold] in Hsafe. rewrite andb_true_r in Hsafe.
        pose proof (IH e a' ltac:(cbn in Hs; lia) Hsafe E) as V.
        intros s rho c Hr. cbn [rk] in Hr.
        apply andb_true_iff in Hr. destruct Hr as [_ Hr]. cbn [den].
        rewrite V by (rewrite !map_length; exact Hr). f_equal.
        rewrite map_map. apply map_ext. intros x. apply idxval_sub.
      * (* IndexSum *) cbn [irep] in Hm. unfold bind in Hm.
        destruct (sub_binder m i) as [i'|] eqn:Ei; [|discriminate].
        destruct (irep m e) as [a'|] eqn:E; [|discriminate]. injection Hm as <-.
        cbn [safe] in Hsafe. apply andb_true_iff in Hsafe. destruct Hsafe as [Hb Hsafe].
        pose proof (IH e a' ltac:(cbn in Hs; lia) Hsafe E) as V.
        intros s rho c Hr. cbn [rk] in Hr. cbn [den].
        apply ksum_ext. intros k _. rewrite V by exact Hr.
        apply den_ext_on; [|exact Hr]. intros j Hj.
        destruct (binder_ok_spec m (dv e) i Hb) as [i2 [Hi2 Hcap]].
        unfold sub_binder in Ei. rewrite Hi2 in Ei. injection Ei as <-.
        apply subv_upd; [exact Hi2|]. intros Hne. apply Hcap; assumption.
      * (* ComponentTensor *) cbn [irep] in Hm. unfold bind at 1 in Hm.
        change (mapM (fun p : nat * nat => bind (sub_binder m (fst p)) (fun j => Some (j, snd p))) ix)
          with (ren_binders m ix) in Hm.
        destruct (ren_binders m ix) as [ix'|] eqn:Ex; [|discriminate]. unfold bind in Hm.
        destruct (irep m e) as [a'|] eqn:E; [|discriminate]. injection Hm as <-.
        cbn [safe] in Hsafe. apply andb_true_iff in Hsafe. destruct Hsafe as [Hb Hsafe].
        rewrite forallb_forall in Hb.
        destruct (upds_sub m (map fst ix ++ dv e) ix ix' Ex Hb) as [Hsn Hu].
        pose proof (IH e a' ltac:(cbn in Hs; lia) Hsafe E) as V.
        intros s rho c Hr. cbn [rk] in Hr.
        apply andb_true_iff in Hr. destruct Hr as [_ Hr]. cbn [den].
        rewrite V by exact Hr. apply den_ext_on; [|exact Hr].
        intros j Hj. apply Hu. apply in_or_app. right. exact Hj.
Qed.
Theorem C10_irep_den m e e' : safe m e = true -> irep m e = Some e' ->
  forall s rho c, rk e (length c) = true -> DEN s rho e' c = DEN s (subv m rho) e c.
Proof. apply (irep_den_n m (size e)). lia. Qed.

(* ---------- remove_component_tensors ---------- *)
Lemma rct_den_n n : forall e e', size e <= n -> rct_safe e = true -> rct e = Some e' ->
  forall s rho c, rk e (length c) = true -> DEN s rho e' c = DEN s rho e c.
Proof.
  induction n as [|n IH]; intros e e' Hs Hsafe Hm.
  - destruct e; cbn in Hs; lia.
  - destruct (is_plain e) eqn:Hp.
    + rewrite rct_plain in Hm by exact Hp.
      intros s rho c Hr.
      refine (emapM_congr A env D DX ki rct e e' rho rho (length c) Hp Hr Hm _ s c eq_refl).
      intros a Ha a' E s0 c0 Hr0.
      apply IH; [pose proof (children_size e a Ha); lia|apply (rct_safe_child e a Hp Hsafe Ha)|exact E|exact Hr0].
    + destruct e; try discriminate Hp.
      * (* Zero *) injection Hm as <-. intros; reflexivity.
      * (* Indexed *) cbn [rct] in Hm. unfold bind in Hm.
        destruct (rct e) as [a'|] eqn:E; [|discriminate].
        cbn [rct_safe] in Hsafe. rewrite E in Hsafe.
        apply andb_true_iff in Hsafe. destruct Hsafe as [Hsa Hsb].
        pose proof (IH e a' ltac:(cbn in Hs; lia) Hsa E) as V.
        intros s rho c Hr. cbn [rk] in Hr. apply andb_true_iff in Hr. destruct Hr as [H0 Hr].
        pose proof (rct_rk_n (size e) e a' (length mi) (le_n _) E Hr) as Ra.
        destruct a'; try (injection Hm as <-; cbn [den]; apply V; rewrite map_length; exact Hr).
        (* the operand became a ComponentTensor: substitute *)
        destruct (Nat.eqb (length ix) (length mi)) eqn:El; [|discriminate].
        cbn [rk] in Ra. apply andb_true_iff in Ra. destruct Ra as [_ Ra].
        apply Nat.eqb_eq in H0. destruct c; [|discriminate H0].
        rewrite (C10_irep_den (mkmap ix mi) a' e' Hsb Hm s rho [] Ra).
        cbn [den]. rewrite <- (V s rho (map (idxval rho) mi)) by (rewrite map_length; exact Hr).
        cbn [den]. apply den_ext_on; [|exact Ra].
        intros j _. unfold subv, sub. rewrite upds_mkmap.
        destruct (lookup (mkmap ix mi) j); reflexivity.
      * (* IndexSum *) cbn [rct emapM] in Hm. unfold ap1, bind in Hm.
        destruct (rct e) as [a'|] eqn:E; [|discriminate]. injection Hm as <-.
        cbn [rct_safe efold] in Hsafe. rewrite andb_true_r in Hsafe.
        pose proof (IH e a' ltac:(cbn in Hs; lia) Hsafe E) as V.
        intros s rho c Hr. cbn [rk] in Hr. cbn [den]. apply ksum_ext. intros k _. apply V. exact Hr.
      * (* ComponentTensor *) cbn [rct emapM] in Hm. unfold ap1, bind in Hm.
        destruct (rct e) as [a'|] eqn:E; [|discriminate]. injection Hm as <-.
        cbn [rct_safe efold] in Hsafe. rewrite andb_true_r in Hsafe.
        pose proof (IH e a' ltac:(cbn in Hs; lia) Hsafe E) as V.
        intros s rho c Hr. cbn [rk] in Hr. apply andb_true_iff in Hr. destruct Hr as [_ Hr].
        cbn [den]. apply V. exact Hr.
Qed.

(* remove_component_tensors preserves the value of every valid component, for every expression of
   the fragment on which all the index substitutions it performs are capture free *)
Theorem C10_remove_partial e e' : rct_safe e = true -> rct e = Some e' ->
  forall s rho c, rk e (length c) = true -> DEN s rho e' c = DEN s rho e c.
Proof. apply (rct_den_n (size e)). lia. Qed.

(* renumber_indices = irep with the relabelling map m: for every m that is safe for e (every
   injective relabelling is) the value is preserved up to the renamed valuation *)
Theorem C10_renumber m e e' : safe m e = true -> irep m e = Some e' ->
  forall s rho c, rk e (length c) = true ->
  DEN s rho e' c = DEN s (fun i => idxval rho (sub m (Free i))) e c.
Proof. exact (C10_irep_den m e e'). Qed.

End Thm.

Print Assumptions den_ext_on.
Print Assumptions C10_irep_den.
Print Assumptions C10_remove_partial.
Print Assumptions C10_renumber.
