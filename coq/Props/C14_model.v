(* C14, hand-written model: the arity checker of ufl/algorithms/check_arities.py as total Gallina
   functions over [expr], one function per handler of [ArityChecker]; the dispatch (which node class
   reaches which handler) is the table [class_handler], which the check compares on every run with the
   table regenerated from the source (coq/Gen/C14_table.v, tie T1).  Also: generic tools used by the
   soundness proof (sub-expression induction, the terminals of an expression, [den] depends on the
   environment only through the terminals that occur). *)
Require Import UFLV.Core.Den.
Require Import Lia.

(* ---------------------------------------------------------------------------------------------- *)
(* direct sub-expressions and induction over them                                                   *)

Fixpoint csubs (c : cond) : list expr :=
  match c with
  | Cmp _ a b => [a; b]
  | AndC a b | OrC a b => csubs a ++ csubs b
  | NotC a => csubs a
  end.

Definition subs (e : expr) : list expr :=
  match e with
  | Zero _ _ | IntV _ | RealV _ _ | CplxV _ _ _ _ | RatV _ _ | Identity _ | PermSym _ | Term _ _ _ => []
  | Sum a b | Product a b | Division a b | Power a b | MinV a b | MaxV a b | Atan2 a b
  | Bessel _ a b | Outer a b | Inner a b | Dot a b | Cross a b => [a; b]
  | Abs a | Conj a | Real a | Imag a | Indexed a _ | IndexSum a _ _ | ComponentTensor a _
  | Math _ a | Vari a _ | Restricted _ a | Grad a _ | RefGrad a _ | Div a _ | NablaGrad a _
  | NablaDiv a _ | Curl a | RefValue a _ | Transposed a | Perp a | Trace a | Determinant a
  | Inverse a | Cofactor a | Deviatoric a | Skew a | Sym a => [a]
  | ListTensor es => es
  | Conditional c t f => csubs c ++ [t; f]
  end.

Lemma csubs_size c x : In x (csubs c) -> size x < csize c.
Proof.
  induction c as [op a b|a IHa b IHb|a IHa b IHb|a IHa]; cbn [csubs csize]; intros H.
  - destruct H as [<-|[<-|[]]]; lia.
  - apply in_app_or in H. destruct H as [H|H]; [apply IHa in H|apply IHb in H]; lia.
  - apply in_app_or in H. destruct H as [H|H]; [apply IHa in H|apply IHb in H]; lia.
  - apply IHa in H. lia.
Qed.

Lemma list_size_in (es : list expr) x :
  In x es -> size x <= (fix go (l : list expr) := match l with [] => 0 | e :: t => size e + go t end) es.
Proof.
  induction es as [|e t IH]; intros H; [destruct H|].
  destruct H as [<-|H]; [lia|]. apply IH in H. lia.
Qed.

Lemma subs_size e x : In x (subs e) -> size x < size e.
Proof.
  destruct e; cbn [subs size]; intros H;
    try (destruct H as [<-|H]; [lia|]); try (destruct H as [<-|H]; [lia|]); try (now destruct H).
  - apply list_size_in in H. lia.
  - apply in_app_or in H. destruct H as [H|H]; [apply csubs_size in H; lia|].
    destruct H as [<-|[<-|[]]]; lia.
Qed.

Lemma expr_subs_ind (P : expr -> Prop) :
  (forall e, (forall x, In x (subs e) -> P x) -> P e) -> forall e, P e.
Proof.
  intros H e. remember (size e) as n eqn:E.
  revert e E. induction n as [n IH] using lt_wf_ind. intros e ->.
  apply H. intros x Hx. apply (IH (size x)); [apply subs_size; exact Hx|reflexivity].
Qed.

(* ---------------------------------------------------------------------------------------------- *)
(* the terminals (kind, id) that occur in an expression                                             *)

Fixpoint terms (e : expr) : list (nat * nat) :=
  match e with
  | Term k id _ => [(k, id)]
  | Zero _ _ | IntV _ | RealV _ _ | CplxV _ _ _ _ | RatV _ _ | Identity _ | PermSym _ => []
  | Sum a b | Product a b | Division a b | Power a b | MinV a b | MaxV a b | Atan2 a b
  | Bessel _ a b | Outer a b | Inner a b | Dot a b | Cross a b => terms a ++ terms b
  | Abs a | Conj a | Real a | Imag a | Indexed a _ | IndexSum a _ _ | ComponentTensor a _
  | Math _ a | Vari a _ | Restricted _ a | Grad a _ | RefGrad a _ | Div a _ | NablaGrad a _
  | NablaDiv a _ | Curl a | RefValue a _ | Transposed a | Perp a | Trace a | Determinant a
  | Inverse a | Cofactor a | Deviatoric a | Skew a | Sym a => terms a
  | ListTensor es => (fix go (l : list expr) := match l with [] => [] | x :: t => terms x ++ go t end) es
  | Conditional c t f => cterms c ++ terms t ++ terms f
  end
with cterms (c : cond) : list (nat * nat) :=
  match c with
  | Cmp _ a b => terms a ++ terms b
  | AndC a b | OrC a b => cterms a ++ cterms b
  | NotC a => cterms a
  end.

Definition lterms (es : list expr) : list (nat * nat) :=
  (fix go (l : list expr) := match l with [] => [] | x :: t => terms x ++ go t end) es.

Lemma lterms_in es p : In p (lterms es) <-> exists x, In x es /\ In p (terms x).
Proof.
  induction es as [|e t IH]; cbn [lterms In].
  - split; [intros []|intros [x [[] _]]].
  - fold (lterms t). rewrite in_app_iff, IH. split.
    + intros [H|[x [Hx Hp]]]; [exists e; auto|exists x; auto].
    + intros [x [[<-|Hx] Hp]]; [left; auto|right; exists x; auto].
Qed.

Lemma cterms_in c p : In p (cterms c) <-> exists x, In x (csubs c) /\ In p (terms x).
Proof.
  induction c as [op a b|a IHa b IHb|a IHa b IHb|a IHa]; cbn [cterms csubs].
  - rewrite in_app_iff. split.
    + intros [H|H]; [exists a|exists b]; cbn; auto.
    + intros [x [[<-|[<-|[]]] Hp]]; auto.
  - rewrite in_app_iff, IHa, IHb. split.
    + intros [[x [Hx Hp]]|[x [Hx Hp]]]; exists x; rewrite in_app_iff; auto.
    + intros [x [Hx Hp]]. rewrite in_app_iff in Hx. destruct Hx; [left|right]; exists x; auto.
  - rewrite in_app_iff, IHa, IHb. split.
    + intros [[x [Hx Hp]]|[x [Hx Hp]]]; exists x; rewrite in_app_iff; auto.
    + intros [x [Hx Hp]]. rewrite in_app_iff in Hx. destruct Hx; [left|right]; exists x; auto.
  - exact IHa.
Qed.

(* the terminals of e are the terminal itself (leaf) or the terminals of the direct sub-expressions *)
Lemma terms_subs e p :
  In p (terms e) <-> (match e with Term k id _ => p = (k, id) | _ => False end)
                      \/ exists x, In x (subs e) /\ In p (terms x).
Proof.
  destruct e; cbn [terms subs];
    try (split; [intros []|intros [[]|[x [[] _]]]]; fail);
    try (rewrite in_app_iff; split;
         [intros [H|H]; right; eexists; (split; [|exact H]); cbn; auto
         |intros [[]|[x [[<-|[<-|[]]] Hp]]]; auto]; fail);
    try (split; [intros H; right; eexists; (split; [|exact H]); cbn; auto
                |intros [[]|[x [[<-|[]] Hp]]]; auto]; fail).
  - split; [intros [<-|[]]; left; reflexivity|intros [->|[x [[] _]]]; left; reflexivity].
  - fold (lterms es). rewrite lterms_in. split; [intros H; right; exact H|intros [[]|H]; exact H].
  - rewrite !in_app_iff, cterms_in. split.
    + intros [[x [Hx Hp]]|[H|H]]; right.
      * exists x. rewrite in_app_iff. auto.
      * exists e1. rewrite in_app_iff. cbn. auto.
      * exists e2. rewrite in_app_iff. cbn. auto.
    + intros [[]|[x [Hx Hp]]]. rewrite in_app_iff in Hx. destruct Hx as [Hx|[<-|[<-|[]]]]; auto.
      left. exists x. auto.
Qed.

Lemma terms_sub_incl e x p : In x (subs e) -> In p (terms x) -> In p (terms e).
Proof. intros Hx Hp. apply terms_subs. right. exists x. auto. Qed.

(* ---------------------------------------------------------------------------------------------- *)
(* [den] depends on the environment only through the terminals that occur                          *)

Section DenExt.
Variable A : ualg.
Add Field AfC14m : (kfield A).
Open Scope K_scope.

Lemma ksum_shape_ext sh (f g : list nat -> A) :
  (forall c, f c = g c) -> ksum_shape sh f = ksum_shape sh g.
Proof.
  revert f g. induction sh as [|d sh IH]; intros f g H; cbn [ksum_shape]; [apply H|].
  apply ksum_ext. intros k _. apply IH. intros c. apply H.
Qed.

Lemma det_ext n : forall (M N : nat -> nat -> A), (forall i j, M i j = N i j) -> det n M = det n N.
Proof.
  induction n as [|n IH]; intros M N H; [reflexivity|].
  cbn [det]. apply ksum_ext. intros j _. rewrite (H 0 j). f_equal.
  apply IH. intros r c. unfold minor. apply H.
Qed.

Lemma cofactor_ext n (M N : nat -> nat -> A) i j :
  (forall i j, M i j = N i j) -> cofactor n M i j = cofactor n N i j.
Proof.
  intros H. destruct n as [|n]; [reflexivity|]. cbn [cofactor]. f_equal.
  apply det_ext. intros r c. unfold minor. apply H.
Qed.

Lemma gram_ext m (M N : nat -> nat -> A) i j :
  (forall i j, M i j = N i j) -> gram m M i j = gram m N i j.
Proof. intros H. unfold gram. apply ksum_ext. intros k _. rewrite !H. reflexivity. Qed.

Variables env env' : side -> nat -> nat -> list nat -> A.
Variables D DX : nat -> A -> A.
Variable ki : A.

Notation den1 := (@den A env D DX ki).
Notation den2 := (@den A env' D DX ki).

Definition agree_on (l : list (nat * nat)) : Prop :=
  forall k id, In (k, id) l -> forall s c, env s k id c = env' s k id c.

Lemma denc_ext c :
  (forall x, In x (csubs c) -> forall s rho cc, den1 s rho x cc = den2 s rho x cc) ->
  forall s rho, denc env D DX ki s rho c = denc env' D DX ki s rho c.
Proof.
  induction c as [op a b|a IHa b IHb|a IHa b IHb|a IHa]; cbn [csubs denc]; intros H s rho.
  - rewrite (H a), (H b); cbn; auto.
  - rewrite IHa, IHb; auto; intros x Hx; apply H; rewrite in_app_iff; auto.
  - rewrite IHa, IHb; auto; intros x Hx; apply H; rewrite in_app_iff; auto.
  - rewrite IHa; auto.
Qed.

Lemma nth_den_ext es :
  (forall x, In x es -> forall s rho cc, den1 s rho x cc = den2 s rho x cc) ->
  forall s rho k c',
  (fix nth_den (l : list expr) (n : nat) {struct l} : A :=
     match l, n with
     | [], _ => k0
     | e0 :: _, O => den1 s rho e0 c'
     | _ :: t, S n' => nth_den t n'
     end) es k =
  (fix nth_den (l : list expr) (n : nat) {struct l} : A :=
     match l, n with
     | [], _ => k0
     | e0 :: _, O => den2 s rho e0 c'
     | _ :: t, S n' => nth_den t n'
     end) es k.
Proof.
  induction es as [|e t IH]; intros H s rho k c'; [reflexivity|].
  destruct k as [|k]; [apply H; cbn; auto|]. apply IH. intros x Hx. apply H. cbn; auto.
Qed.

Theorem den_ext : forall e, agree_on (terms e) ->
  forall s rho c, den1 s rho e c = den2 s rho e c.
Proof.
  apply (expr_subs_ind (fun e => agree_on (terms e) -> forall s rho c, den1 s rho e c = den2 s rho e c)).
  intros e IH Hag.
  assert (IH' : forall x, In x (subs e) -> forall s rho c, den1 s rho x c = den2 s rho x c).
  { intros x Hx. apply IH; [exact Hx|]. intros k id Hin. apply Hag. eapply terms_sub_incl; eauto. }
  clear IH.
  intros s rho cc. destruct e; cbn [den];
    try reflexivity;
    try (pose proof (IH' e (or_introl eq_refl)) as Ha);
    try (pose proof (IH' e1 (or_introl eq_refl)) as Ha; pose proof (IH' e2 (or_intror (or_introl eq_refl))) as Hb);
    try (rewrite ?Ha, ?Hb; reflexivity).
  - (* Term *) apply Hag. cbn. auto.
  - (* IndexSum *) apply ksum_ext. intros k _. apply Ha.
  - (* ListTensor *) destruct cc as [|k cc']; [reflexivity|]. apply nth_den_ext. exact IH'.
  - (* Conditional *)
    cbn [subs] in IH'.
    rewrite (IH' e1), (IH' e2) by (rewrite in_app_iff; cbn; auto).
    f_equal. apply denc_ext. intros x Hx. apply IH'. rewrite in_app_iff. auto.
  - (* Grad *) destruct (split_last cc). rewrite Ha. reflexivity.
  - (* RefGrad *) destruct (split_last cc). rewrite Ha. reflexivity.
  - (* Div *) apply ksum_ext. intros j _. rewrite Ha. reflexivity.
  - (* NablaGrad *) destruct cc; [reflexivity|]. rewrite Ha. reflexivity.
  - (* NablaDiv *) apply ksum_ext. intros j _. rewrite Ha. reflexivity.
  - (* Curl *) destruct (shape e) as [|[|[|[|?]]] [|? ?]]; destruct cc as [|i [|? ?]]; rewrite ?Ha; reflexivity.
  - (* Inner *) apply ksum_shape_ext. intros I. rewrite Ha, Hb. reflexivity.
  - (* Dot *) apply ksum_ext. intros k _. rewrite Ha, Hb. reflexivity.
  - (* Cross *) destruct cc as [|i [|? ?]]; rewrite ?Ha, ?Hb; reflexivity.
  - (* Trace *) apply ksum_ext. intros i _. apply Ha.
  - (* Determinant *)
    destruct (shape e) as [|m [|n [|? ?]]]; rewrite ?Ha; try reflexivity.
    destruct (Nat.eqb m n).
    + apply det_ext. intros i j. apply Ha.
    + f_equal. apply det_ext. intros i j. apply gram_ext. intros ? ?. apply Ha.
  - (* Inverse *)
    destruct (shape e) as [|m [|n [|? ?]]]; rewrite ?Ha; try reflexivity.
    destruct cc as [|i [|j [|? ?]]]; try reflexivity.
    destruct (Nat.eqb m n).
    + f_equal; [apply cofactor_ext|apply det_ext]; intros ? ?; apply Ha.
    + apply ksum_ext. intros k _. rewrite Ha. f_equal. f_equal.
      * apply cofactor_ext. intros ? ?. apply gram_ext. intros ? ?. apply Ha.
      * apply det_ext. intros ? ?. apply gram_ext. intros ? ?. apply Ha.
  - (* Cofactor *)
    destruct (shape e) as [|m [|n [|? ?]]]; try reflexivity.
    destruct cc as [|i [|j [|? ?]]]; try reflexivity.
    apply cofactor_ext. intros ? ?. apply Ha.
  - (* Deviatoric *)
    destruct (shape e) as [|m [|n [|? ?]]]; try reflexivity.
    destruct cc as [|i [|j [|? ?]]]; try reflexivity.
    rewrite Ha. destruct (Nat.eqb i j); [|reflexivity].
    f_equal. f_equal. apply ksum_ext. intros k _. apply Ha.
  - (* Skew *) destruct cc as [|i [|j [|? ?]]]; rewrite ?Ha; reflexivity.
  - (* Sym *) destruct cc as [|i [|j [|? ?]]]; rewrite ?Ha; reflexivity.
Qed.

End DenExt.

(* ---------------------------------------------------------------------------------------------- *)
(* The arity checker                                                                                *)

(* an arity: the tuple of (argument id, conjugated?) pairs, kept sorted by (id, flag) without
   repetitions (Python: tuples sorted by (number, part), built from sets) *)
Definition ar := list (nat * bool).
Inductive res := OK (a : ar) | Err.

Definition pair_eqb (x y : nat * bool) : bool := Nat.eqb (fst x) (fst y) && Bool.eqb (snd x) (snd y).
Definition pair_ltb (x y : nat * bool) : bool :=
  Nat.ltb (fst x) (fst y) || (Nat.eqb (fst x) (fst y) && (negb (snd x) && snd y)).
Fixpoint ins (x : nat * bool) (l : ar) : ar :=
  match l with
  | [] => [x]
  | y :: t => if pair_eqb x y then l else if pair_ltb x y then x :: l else y :: ins x t
  end.
Definition a_union (a b : ar) : ar := fold_right ins b a.
Definition flip (p : nat * bool) : nat * bool := (fst p, negb (snd p)).
Definition a_conj (a : ar) : ar := fold_right ins [] (map flip a).
Fixpoint aeqb (a b : ar) : bool :=
  match a, b with
  | [], [] => true
  | x :: s, y :: t => pair_eqb x y && aeqb s t
  | _, _ => false
  end.

Fixpoint ins_nat (x : nat) (l : list nat) : list nat :=
  match l with
  | [] => [x]
  | y :: t => if Nat.eqb x y then l else if Nat.ltb x y then x :: l else y :: ins_nat x t
  end.
Fixpoint nat_list_eqb (a b : list nat) : bool :=
  match a, b with
  | [], [] => true
  | x :: s, y :: t => Nat.eqb x y && nat_list_eqb s t
  | _, _ => false
  end.
Definition nonempty {T} (l : list T) : bool := match l with [] => false | _ => true end.
Definition is_zero (e : expr) : bool := match e with Zero _ _ => true | _ => false end.
Definition is_argp (p : nat * nat) : bool := Nat.eqb (fst p) 1.
Definition has_arg (e : expr) : bool := existsb is_argp (terms e).
Definition has_arg_c (c : cond) : bool := existsb is_argp (cterms c).

Inductive hkind := H_terminal | H_argument | H_nonlinear | H_sum | H_division | H_product
                 | H_inner | H_outer | H_dot | H_linear | H_conj | H_variable | H_conditional
                 | H_indexed | H_list_tensor.

(* node classes: the concrete UFL classes that the serializer maps to a constructor of [expr]
   (math functions, Bessel functions, geometric quantities and literal classes are grouped; the check
   verifies that all members of a group dispatch alike), plus CellAvg / FacetAvg *)
Inductive cls := C_Zero | C_ScalarValue | C_Identity | C_PermutationSymbol | C_Coefficient | C_Argument
  | C_Constant | C_GeometricQuantity | C_Sum | C_Product | C_Division | C_Power | C_Abs | C_Conj
  | C_Real | C_Imag | C_Indexed | C_IndexSum | C_ComponentTensor | C_ListTensor | C_Conditional
  | C_MinValue | C_MaxValue | C_MathFunction | C_Atan2 | C_BesselFunction | C_Variable
  | C_PositiveRestricted | C_NegativeRestricted | C_Grad | C_ReferenceGrad | C_Div | C_NablaGrad
  | C_NablaDiv | C_Curl | C_ReferenceValue | C_Transposed | C_Outer | C_Inner | C_Dot | C_Cross
  | C_Perp | C_Trace | C_Determinant | C_Inverse | C_Cofactor | C_Deviatoric | C_Skew | C_Sym
  | C_CellAvg | C_FacetAvg | C_Condition.

(* THE DISPATCH TABLE assumed by the model (compared with the source on every run, tie T1) *)
Definition class_handler (c : cls) : hkind :=
  match c with
  | C_Zero | C_ScalarValue | C_Identity | C_PermutationSymbol | C_Coefficient | C_Constant
  | C_GeometricQuantity => H_terminal
  | C_Argument => H_argument
  | C_Sum => H_sum
  | C_Product => H_product
  | C_Division => H_division
  | C_Inner => H_inner
  | C_Dot => H_dot
  | C_Outer => H_outer
  | C_Conj => H_conj
  | C_Variable => H_variable
  | C_Conditional => H_conditional
  | C_Indexed | C_IndexSum | C_ComponentTensor => H_indexed
  | C_ListTensor => H_list_tensor
  | C_PositiveRestricted | C_NegativeRestricted | C_Grad | C_ReferenceGrad | C_ReferenceValue
  | C_CellAvg | C_FacetAvg => H_linear
  | C_Power | C_Abs | C_Real | C_Imag | C_MinValue | C_MaxValue | C_MathFunction | C_Atan2
  | C_BesselFunction | C_Div | C_NablaGrad | C_NablaDiv | C_Curl | C_Transposed | C_Cross | C_Perp
  | C_Trace | C_Determinant | C_Inverse | C_Cofactor | C_Deviatoric | C_Skew | C_Sym
  | C_Condition => H_nonlinear
  end.

Definition cls_of (e : expr) : cls :=
  match e with
  | Zero _ _ => C_Zero
  | IntV _ | RealV _ _ | CplxV _ _ _ _ | RatV _ _ => C_ScalarValue
  | Identity _ => C_Identity | PermSym _ => C_PermutationSymbol
  | Term k _ _ => match k with 0 => C_Coefficient | 1 => C_Argument | 2 => C_Constant
                  | _ => C_GeometricQuantity end
  | Sum _ _ => C_Sum | Product _ _ => C_Product | Division _ _ => C_Division | Power _ _ => C_Power
  | Abs _ => C_Abs | Conj _ => C_Conj | Real _ => C_Real | Imag _ => C_Imag
  | Indexed _ _ => C_Indexed | IndexSum _ _ _ => C_IndexSum | ComponentTensor _ _ => C_ComponentTensor
  | ListTensor _ => C_ListTensor | Conditional _ _ _ => C_Conditional
  | MinV _ _ => C_MinValue | MaxV _ _ => C_MaxValue | Math _ _ => C_MathFunction | Atan2 _ _ => C_Atan2
  | Bessel _ _ _ => C_BesselFunction | Vari _ _ => C_Variable
  | Restricted true _ => C_PositiveRestricted | Restricted false _ => C_NegativeRestricted
  | Grad _ _ => C_Grad | RefGrad _ _ => C_ReferenceGrad | Div _ _ => C_Div | NablaGrad _ _ => C_NablaGrad
  | NablaDiv _ _ => C_NablaDiv | Curl _ => C_Curl | RefValue _ _ => C_ReferenceValue
  | Transposed _ => C_Transposed | Outer _ _ => C_Outer | Inner _ _ => C_Inner | Dot _ _ => C_Dot
  | Cross _ _ => C_Cross | Perp _ => C_Perp | Trace _ => C_Trace | Determinant _ => C_Determinant
  | Inverse _ => C_Inverse | Cofactor _ => C_Cofactor | Deviatoric _ => C_Deviatoric | Skew _ => C_Skew
  | Sym _ => C_Sym
  end.

(* operands whose handler results reach the handler of e (the condition of a Conditional is an
   operand too, but its handler is [nonlinear_operator]: it is treated through [has_arg_c]) *)
Definition asubs (e : expr) : list expr :=
  match e with Conditional _ t f => [t; f] | _ => subs e end.

Lemma asubs_subs e x : In x (asubs e) -> In x (subs e).
Proof. destruct e; cbn [asubs subs]; auto. intros H. rewrite in_app_iff. auto. Qed.

Section Arity.
Variable num : nat -> nat.     (* argument id -> Argument.number() *)

Definition nums (a : ar) : list nat := fold_right ins_nat [] (map (fun p => num (fst p)) a).
Definition ids (a : ar) : list nat := fold_right ins_nat [] (map fst a).
Definition overlap (a b : ar) : bool :=
  existsb (fun x => existsb (fun y => Nat.eqb (num (fst x)) (num (fst y))) a) b.
Definition all_equal (ns : list (list nat)) : bool :=
  match ns with [] => true | x :: t => forallb (nat_list_eqb x) t end.

(* ---- the handlers of ArityChecker ---- *)
Definition h_sum (a b : ar) : res := if aeqb a b then OK a else Err.
Definition h_division (a b : ar) : res := match b with [] => OK a | _ => Err end.
Definition h_product (a b : ar) : res :=
  match a, b with
  | [], _ => OK b
  | _, [] => OK a
  | _, _ =>
      if overlap a b then Err
      else let c := a_union a b in
           if Nat.eqb (length c) (length a + length b) && Nat.eqb (length c) (length (ids c))
           then OK c else Err
  end.
Definition h_conditional (t f : expr) (a b : ar) : res :=
  if nonempty a && is_zero f then OK a
  else if nonempty b && is_zero t then OK b
  else if aeqb a b then OK a else Err.
(* list_tensor (after the fix "components without arguments must be Zero nodes"): [es] are the operands *)
Definition bad_component (p : expr * ar) : bool := negb (nonempty (snd p)) && negb (is_zero (fst p)).
Definition h_list_tensor (es : list expr) (ops : list ar) : res :=
  let args := fold_right a_union [] ops in
  match args with
  | [] => OK []
  | _ => if existsb bad_component (combine es ops) then Err
         else if all_equal (filter nonempty (map nums ops)) then OK args else Err
  end.

Fixpoint all_ok (rs : list res) : option (list ar) :=
  match rs with
  | [] => Some []
  | OK a :: t => match all_ok t with Some l => Some (a :: l) | None => None end
  | Err :: _ => None
  end.

Definition apply_handler (h : hkind) (e : expr) (rs : list res) : res :=
  match h with
  | H_terminal => OK []
  | H_argument => match e with Term _ id _ => OK [(id, false)] | _ => Err end
  | H_nonlinear => if has_arg e then Err else OK []
  | _ =>
    match all_ok rs with
    | None => Err
    | Some l =>
      match h, l with
      | H_sum, [a; b] => h_sum a b
      | H_product, [a; b] => h_product a b
      | H_division, [a; b] => h_division a b
      | H_inner, [a; b] => h_product a (a_conj b)
      | H_outer, [a; b] => h_product (a_conj a) b
      | H_dot, [a; b] => h_product a b
      | H_linear, [a] | H_variable, [a] | H_indexed, [a] => OK a
      | H_conj, [a] => OK (a_conj a)
      | H_conditional, [a; b] =>
          match e with
          | Conditional c t f => if has_arg_c c then Err else h_conditional t f a b
          | _ => Err
          end
      | H_list_tensor, _ => h_list_tensor (asubs e) l
      | _, _ => Err
      end
    end
  end.

(* map_expr_dag(ArityChecker, e): post-order application of the handler chosen by the class table *)
Fixpoint arity_n (n : nat) (e : expr) : res :=
  match n with
  | O => Err
  | S m => apply_handler (class_handler (cls_of e)) e (map (arity_n m) (asubs e))
  end.
Definition arity (e : expr) : res := arity_n (size e) e.

Lemma size_pos e : 1 <= size e.
Proof. destruct e; cbn [size]; lia. Qed.

Lemma arity_n_stable : forall n m e, size e <= n -> size e <= m -> arity_n n e = arity_n m e.
Proof.
  induction n as [|n IH]; intros m e Hn Hm.
  - pose proof (size_pos e). lia.
  - destruct m as [|m]; [pose proof (size_pos e); lia|].
    cbn [arity_n]. f_equal. apply map_ext_in. intros x Hx.
    apply asubs_subs, subs_size in Hx. apply IH; lia.
Qed.

Lemma arity_eq e : arity e = apply_handler (class_handler (cls_of e)) e (map arity (asubs e)).
Proof.
  unfold arity at 1. pose proof (size_pos e) as Hp.
  destruct (size e) as [|m] eqn:E; [lia|]. cbn [arity_n]. f_equal.
  apply map_ext_in. intros x Hx. unfold arity.
  apply asubs_subs, subs_size in Hx. apply arity_n_stable; lia.
Qed.

(* check_integrand_arity(e, arguments, complex_mode): [args] are the ids of the form's arguments in
   the order of sorted(set(arguments), key=(number, part)) *)
Definition conj_ok (p : nat * bool) : bool := if Nat.eqb (num (fst p)) 0 then snd p else negb (snd p).
Definition check (e : expr) (args : list nat) (cm : bool) : bool :=
  match arity e with
  | Err => false
  | OK a => nat_list_eqb (map fst a) args && (if cm then forallb conj_ok a else true)
  end.

End Arity.
