(* C19 - map_expr_dag (ufl/corealg/map_dag.py): memoised, optionally compressed application of a
   handler over the unique post-order traversal equals the plain recursive map over the tree,
   for ALL trees, all pure handlers, both values of `compress`, arbitrary (sound) vcache and
   arbitrary rcache arguments. *)
Require Import List Arith Lia Bool.
Require Import UFLV.Props.C19_tree UFLV.Props.C19_post UFLV.Props.C19_traversal.
Import ListNotations.

Section Map.
Variable R : Type.
Variable req : R -> R -> bool.             (* Python `==`/hash on results (dict key comparison) *)
Variable f : tree -> list R -> R.          (* handler(v, *results of operands) *)
Variable g : tree -> R.                    (* cut-off handler(v): handles its own operands *)
Variable cut : nat -> bool.                (* function._is_cutoff_type[typecode] *)
Variable has_cut : bool.                   (* any(cutoff_types) selects the traversal *)
Hypothesis has_cut_false : has_cut = false -> forall l, cut l = false.

Definition eqv (a b : R) : Prop := req a b = true.
Hypothesis eqv_refl : forall a, eqv a a.
Hypothesis eqv_sym : forall a b, eqv a b -> eqv b a.
Hypothesis eqv_trans : forall a b c, eqv a b -> eqv b c -> eqv a c.
Hypothesis f_congr : forall v rs rs', Forall2 eqv rs rs' -> eqv (f v rs) (f v rs').

(* the specification: plain recursion over the tree *)
Fixpoint map_tree (t : tree) : R :=
  match t with Node l cs => if cut l then g (Node l cs) else f (Node l cs) (map map_tree cs) end.

Lemma map_tree_unfold : forall t,
  map_tree t = if cut (label t) then g t else f t (map map_tree (ops t)).
Proof. destruct t; reflexivity. Qed.

Definition vcache := list (tree * R).
Definition rcache := list R.

Fixpoint vlookup (x : tree) (c : vcache) : option R :=
  match c with
  | [] => None
  | (k, r) :: rest => if tree_eq_dec x k then Some r else vlookup x rest
  end.

Fixpoint rlookup (r : R) (c : rcache) : option R :=
  match c with
  | [] => None
  | r2 :: rest => if req r2 r then Some r2 else rlookup r rest
  end.

(* `(vcache[u] for u in v.ufl_operands)`; None = KeyError *)
Fixpoint gather (vc : vcache) (cs : list tree) : option (list R) :=
  match cs with
  | [] => Some []
  | c :: r => match vlookup c vc, gather vc r with
              | Some x, Some xs => Some (x :: xs)
              | _, _ => None
              end
  end.

(* body of `for v in traversal(expression):` *)
Definition mstep (compress : bool) (s : vcache * rcache) (v : tree) : option (vcache * rcache) :=
  let (vc, rc) := s in
  match vlookup v vc with
  | Some _ => Some s
  | None =>
      match (if cut (label v) then Some (g v) else option_map (f v) (gather vc (ops v))) with
      | None => None
      | Some r =>
          if compress
          then match rlookup r rc with
               | Some r2 => Some ((v, r2) :: vc, rc)
               | None => Some ((v, r) :: vc, rc ++ [r])
               end
          else Some ((v, r) :: vc, rc)
      end
  end.

Fixpoint mfold (compress : bool) (o : list tree) (s : vcache * rcache) : option (vcache * rcache) :=
  match o with
  | [] => Some s
  | v :: r => match mstep compress s v with Some s' => mfold compress r s' | None => None end
  end.

Definition traversal (t : tree) : option (list tree * list tree) :=
  if has_cut then cutoff_unique_post_traversal cut t [] else unique_post_traversal t [].

Definition map_expr_dag (compress : bool) (t : tree) (vc0 : vcache) (rc0 : rcache) : option R :=
  match traversal t with
  | None => None
  | Some (o, _) => match mfold compress o (vc0, rc0) with
                   | None => None
                   | Some (vc, _) => vlookup t vc
                   end
  end.

(* variants used by the correspondence with the implementation: final caches, and the list of nodes
   on which the handler is actually invoked (cache misses), in order *)
Definition map_expr_dag_st (compress : bool) (t : tree) (vc0 : vcache) (rc0 : rcache)
  : option (option R * vcache * rcache) :=
  match traversal t with
  | None => None
  | Some (o, _) => match mfold compress o (vc0, rc0) with
                   | None => None
                   | Some (vc, rc) => Some (vlookup t vc, vc, rc)
                   end
  end.

Fixpoint mcalls (compress : bool) (o : list tree) (s : vcache * rcache) : option (list tree) :=
  match o with
  | [] => Some []
  | v :: r => match mstep compress s v with
              | None => None
              | Some s' => option_map (fun l => match vlookup v (fst s) with None => v :: l | Some _ => l end)
                                      (mcalls compress r s')
              end
  end.

Definition handler_calls (compress : bool) (t : tree) (vc0 : vcache) (rc0 : rcache) : option (list tree) :=
  match traversal t with None => None | Some (o, _) => mcalls compress o (vc0, rc0) end.

Definition vc_ok (vc : vcache) : Prop := forall x r, vlookup x vc = Some r -> eqv r (map_tree x).

Lemma rlookup_eqv : forall r rc r2, rlookup r rc = Some r2 -> eqv r2 r.
Proof.
  induction rc; simpl; intros; [discriminate|].
  destruct (req a r) eqn:E; [inversion H; subst; exact E|auto].
Qed.

Lemma gather_ok : forall vc, vc_ok vc -> forall cs, (forall c, In c cs -> vlookup c vc <> None) ->
  exists rs, gather vc cs = Some rs /\ Forall2 eqv rs (map map_tree cs).
Proof.
  intros vc Hok. induction cs as [|c r IH]; intros Hdom; simpl.
  - exists []. split; auto.
  - destruct (vlookup c vc) as [x|] eqn:E; [|exfalso; apply (Hdom c); simpl; auto].
    destruct IH as (rs & Hg & Hf2); [intros; apply Hdom; simpl; auto|].
    rewrite Hg. exists (x :: rs). split; auto.
Qed.

Lemma vc_ok_cons : forall vc v r, vc_ok vc -> eqv r (map_tree v) -> vc_ok ((v, r) :: vc).
Proof.
  intros vc v r Hok Hr x r0. simpl. destruct (tree_eq_dec x v) as [->|Hn].
  - intros H; inversion H; subst; auto.
  - apply Hok.
Qed.

Lemma vlookup_cons_dom : forall vc v r x, (x = v \/ vlookup x vc <> None) -> vlookup x ((v, r) :: vc) <> None.
Proof.
  intros. simpl. destruct (tree_eq_dec x v); [discriminate|]. destruct H; [contradiction|auto].
Qed.

Lemma mfold_ok : forall compress o2 o1 vc rc,
  vc_ok vc ->
  (forall x, In x o1 -> vlookup x vc <> None) ->
  (forall p x s, o1 ++ o2 = p ++ x :: s -> cut (label x) = false -> forall c, In c (ops x) -> In c p) ->
  exists vc' rc', mfold compress o2 (vc, rc) = Some (vc', rc') /\ vc_ok vc' /\
                  (forall x, In x (o1 ++ o2) -> vlookup x vc' <> None).
Proof.
  intros compress. induction o2 as [|v r IH]; intros o1 vc rc Hok Hdom Hord.
  - exists vc, rc. rewrite app_nil_r. simpl. auto.
  - assert (Hre : o1 ++ v :: r = (o1 ++ [v]) ++ r) by (rewrite <- app_assoc; reflexivity).
    simpl mfold. unfold mstep. destruct (vlookup v vc) as [rv|] eqn:Ev.
    + rewrite Hre. apply IH; auto.
      * intros x Hx. apply in_app_or in Hx. destruct Hx as [Hx|[<-|[]]]; auto. congruence.
      * rewrite <- Hre. exact Hord.
    + assert (Hr : exists r0, (if cut (label v) then Some (g v) else option_map (f v) (gather vc (ops v)))
                              = Some r0 /\ eqv r0 (map_tree v)).
      { rewrite (map_tree_unfold v). destruct (cut (label v)) eqn:Hc.
        - exists (g v). split; auto.
        - destruct (gather_ok vc Hok (ops v)) as (rs & Hg & Hf2).
          + intros c Hcin. apply Hdom. eapply (Hord o1 v r); eauto.
          + rewrite Hg. simpl. exists (f v rs). split; auto. }
      destruct Hr as (r0 & -> & Hr0).
      assert (Hnext : forall r1 rc1, eqv r1 (map_tree v) ->
                exists vc' rc', mfold compress r ((v, r1) :: vc, rc1) = Some (vc', rc') /\ vc_ok vc' /\
                                (forall x, In x (o1 ++ v :: r) -> vlookup x vc' <> None)).
      { intros r1 rc1 Hr1. rewrite Hre. apply IH.
        - apply vc_ok_cons; auto.
        - intros x Hx. apply vlookup_cons_dom. apply in_app_or in Hx.
          destruct Hx as [Hx|[<-|[]]]; auto.
        - rewrite <- Hre. exact Hord. }
      destruct compress.
      * destruct (rlookup r0 rc) as [r2|] eqn:Er.
        -- apply Hnext. eapply eqv_trans; [eapply rlookup_eqv; eauto|auto].
        -- apply Hnext; auto.
      * apply Hnext; auto.
Qed.

(* C19_map: for every tree, the memoised (and optionally compressed) DAG mapping returns a result
   and it is the plain recursive map of the handler over the tree, up to result equality. *)
Theorem C19_map : forall compress t vc0 rc0, vc_ok vc0 ->
  exists r, map_expr_dag compress t vc0 rc0 = Some r /\ eqv r (map_tree t).
Proof.
  intros compress t vc0 rc0 Hok. unfold map_expr_dag, traversal.
  assert (Htr : exists o v, (if has_cut then cutoff_unique_post_traversal cut t []
                             else unique_post_traversal t []) = Some (o, v) /\
            (forall o1 x o2, o = o1 ++ x :: o2 -> cut (label x) = false -> forall c, In c (ops x) -> In c o1) /\
            (exists o', o = o' ++ [t])).
  { destruct has_cut.
    - destruct (C19_cutoff_unique_post cut t) as (o & v & H1 & _ & _ & H3 & H4). exists o, v. auto.
    - destruct (C19_unique_post t) as (o & v & H1 & _ & _ & H3 & H4). exists o, v. repeat split; auto.
      intros; eapply H3; eauto. }
  destruct Htr as (o & v & -> & Hord & (o' & Ho')).
  destruct (mfold_ok compress o [] vc0 rc0 Hok) as (vc & rc & -> & Hok' & Hdom).
  - simpl; tauto.
  - simpl. exact Hord.
  - simpl in Hdom. destruct (vlookup t vc) as [r|] eqn:E.
    + exists r. split; auto.
    + exfalso. apply (Hdom t); auto. subst o. apply in_or_app. right. simpl; auto.
Qed.
End Map.

(* With results compared by Leibniz equality the mapped result IS the recursive map. *)
Theorem C19_map_exact : forall (R : Type) (req : R -> R -> bool) f g cut has_cut,
  (has_cut = false -> forall l, cut l = false) ->
  (forall a b, req a b = true <-> a = b) ->
  forall compress t rc0,
  map_expr_dag R req f g cut has_cut compress t [] rc0 = Some (map_tree R f g cut t).
Proof.
  intros R req f g cut has_cut Hc Hreq compress t rc0.
  assert (Hrefl : forall a, eqv R req a a) by (intros a; apply Hreq; auto).
  assert (Hsym : forall a b, eqv R req a b -> eqv R req b a).
  { unfold eqv. intros a b H. apply Hreq in H. apply Hreq. congruence. }
  assert (Htrans : forall a b c, eqv R req a b -> eqv R req b c -> eqv R req a c).
  { unfold eqv. intros a b c H1 H2. apply Hreq in H1, H2. apply Hreq. congruence. }
  assert (Hcongr : forall v rs rs', Forall2 (eqv R req) rs rs' -> eqv R req (f v rs) (f v rs')).
  { unfold eqv. intros v rs rs' H. apply Hreq. f_equal.
    induction H; auto. apply Hreq in H. congruence. }
  assert (Hok : vc_ok R req f g cut []) by (intros x r0 H; discriminate).
  destruct (C19_map R req f g cut has_cut Hc Hrefl Hsym Htrans Hcongr compress t [] rc0 Hok) as (r & Hr & He).
  rewrite Hr. f_equal. apply Hreq. exact He.
Qed.

Print Assumptions C19_map.
Print Assumptions C19_map_exact.
