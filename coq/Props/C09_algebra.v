(* C09: the algebra behind cancel_jacobian_products, for every UFL algebra (abstract field).

   JacobianCanceller    sum_k K[i,k] J[k,j] * rest = delta_ij * rest        (C09_contraction_delta)
                        under the hypothesis that K is a left inverse of J (K.J = I holds for
                        the pseudo-inverse of a full rank Jacobian; J.K = I only for square J --
                        the code checks gdim = tdim for that orientation);
   IdentityEliminator   sum_j delta_ij f(j) = f(i)                           (C09_delta_elim(_l));
                        the index substitution f[j -> i] is the IndexReplacer of C10
                        (C10_thm.C10_irep_den: value preserved when the substitution is capture free);
   IndexSumSimplifier   sum interchange and pushing a factor into an inner sum
                                                                (C09_sum_interchange, C09_push_factor);
   ReciprocalCanceller  x^a x^b = x^(a+b), (x^a)^b = x^(ab), x^a (1/x)^b = x^(a-b) for natural
                        exponents and x <> 0                      (C09_pow_merge, C09_pow_pow,
                                                                   C09_recip_cancel, C09_recip_partial);
                        merging a NON-integer exponent through a power is wrong:
                        (x^2)^(1/2) * (1/x) -> 1 fails at x = -1     (C09_recip_refuted). *)
Require Import UFLV.Core.Den.
Import ListNotations.

Section C09.
Variable A : ualg.
Add Field AfC09 : (kfield A).
Open Scope K_scope.

Definition dl (i j : nat) : A := if Nat.eqb i j then k1 else k0.

Lemma ksum_scal_r n (f : nat -> A) r : ksum n (fun k => f k * r) = ksum n f * r.
Proof. induction n as [|n IH]; cbn; [ring|]. rewrite IH. ring. Qed.

Theorem C09_contraction_delta (g t : nat) (Kf Jf : nat -> nat -> A) :
  (forall i j, i < t -> j < t -> ksum g (fun k => Kf i k * Jf k j) = dl i j) ->
  forall i j r, i < t -> j < t -> ksum g (fun k => Kf i k * Jf k j * r) = dl i j * r.
Proof. intros H i j r Hi Hj. rewrite ksum_scal_r, H by assumption. reflexivity. Qed.

Lemma ksum_dl_out n i (f : nat -> A) : n <= i -> ksum n (fun j => dl i j * f j) = k0.
Proof.
  induction n as [|n IH]; intros H; cbn; [reflexivity|]. rewrite IH by lia.
  unfold dl. replace (Nat.eqb i n) with false by (symmetry; apply Nat.eqb_neq; lia). ring.
Qed.
Theorem C09_delta_elim n i (f : nat -> A) : i < n -> ksum n (fun j => dl i j * f j) = f i.
Proof.
  induction n as [|n IH]; intros H; [lia|]. cbn [ksum].
  destruct (Nat.eq_dec i n) as [->|Hne].
  - rewrite ksum_dl_out by lia. unfold dl. rewrite Nat.eqb_refl. ring.
  - rewrite IH by lia. unfold dl. replace (Nat.eqb i n) with false by (symmetry; apply Nat.eqb_neq; lia). ring.
Qed.
Theorem C09_delta_elim_l n i (f : nat -> A) : i < n -> ksum n (fun j => dl j i * f j) = f i.
Proof.
  intros H. rewrite <- (C09_delta_elim n i f H). apply ksum_ext. intros k _.
  unfold dl. rewrite Nat.eqb_sym. reflexivity.
Qed.

Theorem C09_sum_interchange n m (f : nat -> nat -> A) :
  ksum n (fun i => ksum m (fun j => f i j)) = ksum m (fun j => ksum n (fun i => f i j)).
Proof. apply ksum_swap. Qed.
Theorem C09_push_factor n (x : A) (f : nat -> A) : x * ksum n f = ksum n (fun k => x * f k).
Proof. symmetry. apply ksum_scal. Qed.

Theorem C09_pow_merge (x : A) a b : kpown x a * kpown x b = kpown x (a + b)%nat.
Proof. induction a as [|a IH]; cbn; [ring|]. rewrite <- IH. ring. Qed.
Lemma kpown_one n : kpown (k1 : A) n = k1.
Proof. induction n as [|n IH]; cbn; [reflexivity|]. rewrite IH. ring. Qed.
Lemma kpown_mul (x y : A) n : kpown (x * y) n = kpown x n * kpown y n.
Proof. induction n as [|n IH]; cbn; [ring|]. rewrite IH. ring. Qed.
Theorem C09_pow_pow (x : A) a b : kpown (kpown x a) b = kpown x (a * b)%nat.
Proof.
  induction a as [|a IH]; cbn [kpown Nat.mul].
  - apply kpown_one.
  - rewrite kpown_mul, IH, C09_pow_merge. reflexivity.
Qed.

Lemma mul_nz (x y : A) : x <> k0 -> y <> k0 -> x * y <> k0.
Proof.
  intros Hx Hy H. apply Hy. transitivity ((k1 / x) * (x * y)); [field; exact Hx|]. rewrite H. ring.
Qed.
Lemma one_nz : (k1 : A) <> k0.
Proof. apply (F_1_neq_0 (kfield A)). Qed.
Lemma kpown_nz (x : A) n : x <> k0 -> kpown x n <> k0.
Proof. intros H. induction n as [|n IH]; cbn; [apply one_nz|apply mul_nz; assumption]. Qed.
Lemma kpown_recip (x : A) n : x <> k0 -> kpown (k1 / x) n = k1 / kpown x n.
Proof.
  intros H. induction n as [|n IH]; cbn; [field; apply one_nz|]. rewrite IH. field.
  split; [apply kpown_nz|]; exact H.
Qed.
Theorem C09_recip_cancel (x : A) a b : x <> k0 ->
  kpown x (a + b)%nat * (k1 / kpown x b) = kpown x a /\
  kpown x a * (k1 / kpown x (a + b)%nat) = k1 / kpown x b.
Proof.
  intros H. rewrite <- C09_pow_merge. split; field; repeat split; apply kpown_nz; exact H.
Qed.
(* the net exponent of x^a * (1/x)^b, as _make_power builds it *)
Theorem C09_recip_partial (x : A) a b : x <> k0 ->
  kpown x a * kpown (k1 / x) b =
  if Nat.leb b a then kpown x (a - b)%nat else k1 / kpown x (b - a)%nat.
Proof.
  intros H. rewrite kpown_recip by exact H. destruct (Nat.leb b a) eqn:E.
  - apply Nat.leb_le in E. replace a with ((a - b) + b)%nat at 1 by lia.
    apply (proj1 (C09_recip_cancel x (a - b)%nat b H)).
  - apply Nat.leb_gt in E. replace b with (a + (b - a))%nat at 1 by lia.
    apply (proj2 (C09_recip_cancel x a (b - a)%nat H)).
Qed.

(* ---- the defect: (x**2)**0.5 * (1/x) is merged into 1 ---- *)
Definition recip_in : expr :=
  Product (Power (Power (Term 0 0 []) (IntV 2)) (RatV 1 2)) (Division (IntV 1) (Term 0 0 [])).
Definition recip_out : expr := IntV 1.

Variable env : side -> nat -> nat -> list nat -> A.
Variables D DX : nat -> A -> A.
Variable ki : A.
(* in every algebra whose power function satisfies 1^(1/2) = 1 (as the real one does) and in which
   2 <> 0, the output differs from the input when the base is -1 *)
Theorem C09_recip_refuted s rho :
  kpow (k1 : A) (of_Z 1 / of_pos 2) = k1 -> (k1 : A) + k1 <> k0 ->
  env s 0 0 [] = - k1 ->
  @den A env D DX ki s rho recip_out [] <> @den A env D DX ki s rho recip_in [].
Proof.
  intros Hp H2 Hx. unfold recip_in, recip_out. cbn [den]. rewrite Hx.
  assert (E1 : kpown (- k1 : A) (Pos.to_nat 2) = k1) by (change (Pos.to_nat 2) with 2%nat; cbn [kpown]; ring).
  rewrite E1, Hp. intro E. apply H2.
  assert (Hm : (- k1 : A) <> k0).
  { intro E2. apply one_nz. transitivity (- - (k1 : A)); [ring|rewrite E2; ring]. }
  assert (E3 : (k1 : A) * (of_Z 1 / - k1) = - k1) by (cbn [of_Z of_pos]; field; exact Hm).
  rewrite E3 in E. cbn [of_Z of_pos] in E. transitivity ((k1 : A) - - k1); [ring|]. rewrite <- E. ring.
Qed.
End C09.

Print Assumptions C09_contraction_delta.
Print Assumptions C09_delta_elim.
Print Assumptions C09_recip_partial.
Print Assumptions C09_recip_refuted.
