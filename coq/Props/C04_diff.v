(* C04, hand-written part.  The partial derivative of f with respect to component cv of the value
   of a variable v is a derivation D_{v,cv} of the UFL algebra that sends the (terminal standing
   for the) value of v to the unit tensor e_cv and every other terminal to 0.  For EVERY expression
   the rule-table model of C02 ([gat], with the terminal rule of VariableRuleset: dv/dv = unit,
   dt/dv = 0) computes it:

       den (gat dTv e) c = D_{v,cv} (den e c)        (all e, all c, all cv, all field values)

   Variables other than the differentiation variable are transparent ([Vari a l] is differentiated
   through: the chain rule for nested variables), [Grad] of a terminal commutes with D (and so is 0
   for the variable itself because D_j of a constant is 0).  The unit tensors are the ones
   [_make_identity] builds: 1 for a scalar, Identity(n)[c, cv] for a vector, a product of two
   Identity entries for a matrix ([unit_scalar], [unit_vector], [unit_matrix]).
   The shape law shape(diff f v) = shape f ++ shape v is checked per traced case (generated
   Examples [*_shape_spec]), not here. *)
Require Import UFLV.Core.Den.
Require Import UFLV.Props.C02_gateaux.

Section Diff.
Variable A : ualg.
Add Field AfC04 : (kfield A).
Open Scope K_scope.
Variable env : side -> nat -> nat -> list nat -> A.
Variable D DX : nat -> A -> A.
Variable ki : A.
Notation DEN := (@den A env D DX ki).

Variable Dv : A -> A.                         (* D_{v,cv} *)
Hypothesis DvD : Derivation Dv.
Hypothesis Dv_D : forall j x, Dv (D j x) = D j (Dv x).
Hypothesis Dv_ki : Dv ki = k0.
Hypothesis Dv_fn : forall f x, Dv (kfn f x) = dvalG A f x (Dv x).
Hypothesis Dv_pow : forall x y,
  Dv (kpow x y) = kpow x (y + of_Z (-1)) * (y * Dv x + x * kfn FLn x * Dv y).
Hypothesis Dv_abs : forall x, Dv (kabs x) = sgnv A (kre x) * Dv x.
Hypothesis Dv_atan2 : forall x y,
  Dv (katan2 x y) = (y * Dv x + of_Z (-1) * (x * Dv y)) / (sq A x + sq A y).
Hypothesis Dv_min : forall x y, Dv (kmin x y) = kcond (bcmp CLT x y) (Dv x) (Dv y).
Hypothesis Dv_max : forall x y, Dv (kmax x y) = kcond (bcmp CGT x y) (Dv x) (Dv y).

(* the terminal that stands for the value of the variable, and the unit tensor e_cv *)
Variable isvar : nat -> nat -> bool.
Variable unit_e : list nat -> expr.
Hypothesis Dv_var : forall s rho k id sh c, isvar k id = true ->
  Dv (env s k id c) = DEN s rho (unit_e sh) c.
Hypothesis Dv_other : forall s k id c, isvar k id = false -> Dv (env s k id c) = k0.
Variable scalar_term : nat -> nat -> bool.
Hypothesis env_scalar : forall s k id c, scalar_term k id = true -> env s k id c = env s k id [].

(* terminal rule of VariableRuleset *)
Definition dTv (k id : nat) (sh : list nat) : expr :=
  if isvar k id then unit_e sh else Zero sh [].

Lemma dTv_ok s rho k id sh c : DEN s rho (dTv k id sh) c = Dv (env s k id c).
Proof.
  unfold dTv. destruct (isvar k id) eqn:E.
  - symmetry. apply Dv_var. exact E.
  - cbn [den]. symmetry. apply Dv_other. exact E.
Qed.

Definition all_gradable (k id : nat) : bool := true.

Theorem C04_value :
  forall e, sup all_gradable scalar_term e = true ->
  forall s rho c, DEN s rho (gat dTv all_gradable e) c = Dv (DEN s rho e c).
Proof.
  intros e He s rho c.
  apply (C02_gateaux_partial A env D DX ki Dv DvD Dv_D Dv_ki Dv_fn Dv_pow Dv_abs Dv_atan2 Dv_min Dv_max
           dTv dTv_ok all_gradable scalar_term env_scalar e He s rho c).
Qed.

(* nested variables: a variable that is not the differentiation variable is differentiated
   through, i.e. the chain rule d f(u(v))/dv is applied to its defining expression *)
Theorem C04_nested :
  forall a l, sup all_gradable scalar_term a = true ->
  forall s rho c, DEN s rho (gat dTv all_gradable (Vari a l)) c = Dv (DEN s rho a c).
Proof. intros a l Ha s rho c. exact (C04_value (Vari a l) Ha s rho c). Qed.

(* the unit tensors built by VariableRuleset._make_identity, sliced at the direction cv *)
Lemma unit_scalar s rho : DEN s rho (RatV 1 1) [] = k1 / k1.
Proof. reflexivity. Qed.
Lemma unit_vector s rho n i j :
  DEN s rho (Identity n) [i; j] = if Nat.eqb i j then k1 else k0.
Proof. reflexivity. Qed.
Lemma unit_matrix s rho n m i0 i1 j0 j1 :
  DEN s rho (Product (Indexed (Identity n) [Fixed i0; Fixed j0]) (Indexed (Identity m) [Fixed i1; Fixed j1])) []
  = (if Nat.eqb i0 j0 then k1 else k0) * (if Nat.eqb i1 j1 then k1 else k0).
Proof. reflexivity. Qed.

End Diff.

Print Assumptions C04_value.
Print Assumptions C04_nested.
