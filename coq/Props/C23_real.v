(* C23: real mode.  C23_remove_value: remove e = Some e' -> den e' c = den e c in every UFL algebra
   in which conjugation and real part are the identity ("real data"), on the fragment inF. *)
Require Import UFLV.Core.Den.
Require Import UFLV.Props.C23_model.
Require Import UFLV.Props.C23_syn.
Require Import UFLV.Props.C23_sound.

(* ------------------------------------------------------------------------------------------ *)
(* real mode: removal of Conj / Real preserves the value in a real algebra *)
Section RealMode.
Variable A : ualg.
Variable env : side -> nat -> nat -> list nat -> A.
Variables D DX : nat -> A -> A.
Variable ki : A.
Open Scope K_scope.
Notation DEN := (@den A env D DX ki).
Notation DENC := (@denc A env D DX ki).
(* "real data": conjugation and real part are the identity on every value *)
Hypothesis conj_id : forall x : A, kconj x = x.
Hypothesis re_id : forall x : A, kre x = x.
(* kpow agrees with natural powers on natural-number literals (only used for exponents of the form
   Conj^n/Real^n(integer literal), which the UFL constructors never build) *)
Hypothesis pow_nat : forall (x : A) p, kpow x (of_Z (Zpos p)) = kpown x (Pos.to_nat p).
Hypothesis pow_zero : forall x : A, kpow x (of_Z 0) = k1.

Lemma den_Power_gen s rho a b c : DEN s rho (Power a b) c = kpow (DEN s rho a []) (DEN s rho b []).
Proof.
  destruct b; try reflexivity. destruct z; cbn [den]; [rewrite pow_zero | rewrite pow_nat |]; reflexivity.
Qed.

Definition Pr (e : expr) : Prop :=
  forall e', inF (fun _ => true) (fun _ => true) (fun _ => true) true e = true -> remove e = Some e' ->
    forall s rho c, DEN s rho e' c = DEN s rho e c.
Definition Qr (cn : cond) : Prop :=
  forall c', inFc (fun _ => true) (fun _ => true) (fun _ => true) true cn = true -> removec cn = Some c' ->
    forall s rho, DENC s rho c' = DENC s rho cn.

Lemma nth_den_ListTensor s rho es c :
  DEN s rho (ListTensor es) c =
  match c with [] => k0 | k :: c' => nth_den_l A env D DX ki s rho es k c' end.
Proof. apply den_ListTensor. Qed.

Lemma rvalue_list es :
  (forall x, In x es -> Pr x) ->
  forall es', inF_list (fun _ => true) (fun _ => true) (fun _ => true) true es = true -> remove_list es = Some es' ->
    forall s rho n c, nth_den_l A env D DX ki s rho es' n c = nth_den_l A env D DX ki s rho es n c.
Proof.
  induction es as [|x es IH]; intros HP es' G H; simpl in H.
  - inv H. reflexivity.
  - destruct (remove x) as [x'|] eqn:E; [|discriminate].
    destruct (remove_list es) as [l'|] eqn:E2; [|discriminate]. inv H.
    simpl in G. apply andb_true_iff in G. destruct G as [G1 G2].
    intros s rho n c. destruct n; cbn [nth_den_l]; [apply (HP x (or_introl eq_refl) _ G1 E) |].
    apply (IH (fun y Hy => HP y (or_intror Hy)) _ G2 eq_refl).
Qed.

Ltac dremove :=
  repeat match goal with
  | H : context [match remove ?x with _ => _ end] |- _ =>
      let E := fresh "E" in destruct (remove x) eqn:E; try discriminate H
  | H : context [match removec ?x with _ => _ end] |- _ =>
      let E := fresh "E" in destruct (removec x) eqn:E; try discriminate H
  | H : context [match remove_list ?x with _ => _ end] |- _ =>
      let E := fresh "E" in destruct (remove_list x) eqn:E; try discriminate H
  end.
Ltac split_guard G :=
  cbn [inF inFc] in G;
  repeat match goal with
  | H : _ && _ = true |- _ => apply andb_true_iff in H; destruct H
  end.
Ltac use_ihr IHe IHc :=
  repeat match goal with
  | E : remove ?x = Some ?y |- _ =>
      let Hv := fresh "Hv" in
      pose proof (IHe x ltac:(simpl; lia) y ltac:(assumption) E) as Hv; clear E
  | E : removec ?x = Some ?y |- _ =>
      let Hv := fresh "Hc" in
      pose proof (IHc x ltac:(simpl; lia) y ltac:(assumption) E) as Hv; clear E
  end.
Ltac rwv :=
  repeat match goal with
  | H : forall s rho c, DEN s rho _ c = DEN s rho _ c |- _ => rewrite ?H; clear H
  | H : forall s rho, DENC s rho _ = DENC s rho _ |- _ => rewrite ?H; clear H
  end.

Lemma rvalue_both : (forall e, Pr e) /\ (forall c, Qr c).
Proof.
  apply size_ind2.
  - intros e IHe IHc e' G H.
    destruct e; try rewrite remove_ListTensor in H; simpl in H; unf; try discriminate G; try discriminate H;
      try (inv H; reflexivity);
      try (dremove; try inv H; split_guard G; use_ihr IHe IHc; intros s rho c;
           rewrite ?den_Power_gen; cbn [den]; rewrite ?conj_id, ?re_id;
           try (destruct (split_last c)); try (destruct c); rwv; reflexivity);
      try (dremove; try inv H; split_guard G; use_ihr IHe IHc; intros s rho c; cbn [den];
           apply ksum_ext; intros k _; rwv; reflexivity).
    + (* ListTensor *)
      dremove. inv H. intros s rho c. rewrite !nth_den_ListTensor. destruct c; [reflexivity|].
      apply rvalue_list; auto. intros x Hx. apply IHe. rewrite size_ListTensor. apply In_size_list, Hx.
    + (* Conditional *)
      dremove. inv H. split_guard G. use_ihr IHe IHc. intros s rho cc. cbn [den]. rwv. reflexivity.
  - intros c IHe IHc c' G H.
    destruct c; simpl in H; dremove; inv H; split_guard G; use_ihr IHe IHc; intros s rho; cbn [denc];
      rwv; reflexivity.
Qed.

(* C23_remove_value: real mode leaves the value of every component unchanged for real data *)
Theorem C23_remove_value : forall e e', inF (fun _ => true) (fun _ => true) (fun _ => true) true e = true -> remove e = Some e' ->
  forall s rho c, DEN s rho e' c = DEN s rho e c.
Proof. intros e e' G H. exact (proj1 rvalue_both e e' G H). Qed.
End RealMode.
Print Assumptions C23_remove_value.
