(* C05 - Operators build expressions with the mathematically intended value.

   Gallina models [mk_*] of the constructor simplifications of ufl/algebra.py, ufl/indexed.py,
   ufl/indexsum.py, ufl/tensors.py, ufl/conditional.py, and for each of them the theorem

      mk_X args = Some e  ->  (well-formedness of the operands)  ->
        shape e = shape (X args) /\ fidx e = fidx (X args) /\
        forall s rho c, den e c = den (X args) c

   for ALL operands, ALL index valuations and ALL UFL algebras, where [X args] is the raw node of
   coq/Core/Syntax.v, i.e. the requested operation.  Where the Python code is not capture
   avoiding the theorem carries the weakest hypothesis we found under which the shortcut is sound;
   Props/C05_findings.v shows that these hypotheses cannot be dropped (the unchanged tree violates
   the unguarded statement).

   Oracles.  [le a b] stands for "cmp_expr a b <= 0" of ufl/sorting.py (operand order of Sum and
   Product; property C29) and [ffold op a b] for the floating-point folding of two literals that are
   not both integers.  The theorems hold for every [le]; folding of non-integer literals is
   excluded by the hypotheses [fp_*] (the folded literal has the exact value), integer folding is
   proved exact.  The laws of conj/re/im/abs/pow/cond used by the folding shortcuts are Section
   hypotheses and appear as premises of exactly the theorems that need them. *)
Require Import UFLV.Core.Den.
Require Import Lia.

(* ------------------------------------------------------------------------------------------ *)
(* Part 0: decidable equality (expr_equals / MultiIndex.__eq__)                                 *)

Lemma idx_eq_dec (a b : idx) : {a = b} + {a <> b}.
Proof. decide equality; apply Nat.eq_dec. Defined.
Lemma mathfn_eq_dec (a b : mathfn) : {a = b} + {a <> b}. Proof. decide equality. Defined.
Lemma cmpop_eq_dec (a b : cmpop) : {a = b} + {a <> b}. Proof. decide equality. Defined.
Lemma bkind_eq_dec (a b : bkind) : {a = b} + {a <> b}. Proof. decide equality. Defined.
Lemma nn_eq_dec (a b : nat * nat) : {a = b} + {a <> b}.
Proof. decide equality; apply Nat.eq_dec. Defined.
Fixpoint expr_eq_dec (a b : expr) {struct a} : {a = b} + {a <> b}
with cond_eq_dec (a b : cond) {struct a} : {a = b} + {a <> b}.
Proof.
  - decide equality;
    try apply Z.eq_dec; try apply Pos.eq_dec; try apply Nat.eq_dec; try apply Bool.bool_dec;
    try (apply list_eq_dec; apply Nat.eq_dec); try (apply list_eq_dec; apply nn_eq_dec);
    try (apply list_eq_dec; apply idx_eq_dec); try apply mathfn_eq_dec; try apply bkind_eq_dec;
    try (apply list_eq_dec; apply expr_eq_dec).
  - decide equality. apply cmpop_eq_dec.
Defined.
Definition shape_eq_dec := list_eq_dec Nat.eq_dec.
Definition fi_eq_dec := list_eq_dec nn_eq_dec.
Definition mi_eq_dec := list_eq_dec idx_eq_dec.

(* ------------------------------------------------------------------------------------------ *)
(* Part A: free-index lists (ufl_free_indices/ufl_index_dimensions, merge_unique_indices)       *)

Definition ids (l : list (nat * nat)) : list nat := map fst l.
Definition lt_all (i : nat) (l : list (nat * nat)) : Prop := forall p, In p l -> i < fst p.
Fixpoint ssorted (l : list (nat * nat)) : Prop :=
  match l with [] => True | p :: t => lt_all (fst p) t /\ ssorted t end.
Definition compat (l1 l2 : list (nat * nat)) : Prop :=
  forall i d e, In (i, d) l1 -> In (i, e) l2 -> d = e.

Lemma in_ids i l : In i (ids l) <-> exists d, In (i, d) l.
Proof.
  unfold ids. rewrite in_map_iff. split.
  - intros [[j d] [E H]]. simpl in E. subst. eauto.
  - intros [d H]. exists (i, d). auto.
Qed.

Lemma ssorted_not_in i l : lt_all i l -> ~ In i (ids l).
Proof. intros H Hi. apply in_ids in Hi. destruct Hi as [d Hd]. apply H in Hd. simpl in Hd. lia. Qed.

Lemma ids_insert x i d l : In x (ids (fi_insert i d l)) <-> x = i \/ In x (ids l).
Proof.
  induction l as [|[j e] t IH]; simpl.
  - intuition.
  - destruct (Nat.ltb i j) eqn:L; simpl.
    + intuition.
    + destruct (Nat.eqb i j) eqn:E; simpl.
      * apply Nat.eqb_eq in E. subst. intuition.
      * rewrite IH. intuition.
Qed.

Lemma fi_insert_in i d l p : ssorted l ->
  (In p (fi_insert i d l) <-> In p l \/ (p = (i, d) /\ ~ In i (ids l))).
Proof.
  induction l as [|[j e] t IH]; simpl; intros S.
  - intuition.
  - destruct S as [Lt S]. specialize (IH S). simpl in Lt.
    destruct (Nat.ltb i j) eqn:L.
    + apply Nat.ltb_lt in L. simpl. split.
      * intros [H|[H|H]]; auto. right. split; auto.
        intros [H1|H1]; [lia|]. apply in_ids in H1. destruct H1 as [d' H1]. apply Lt in H1. simpl in H1. lia.
      * intros [[H|H]|[H _]]; auto.
    + apply Nat.ltb_ge in L. destruct (Nat.eqb i j) eqn:E.
      * apply Nat.eqb_eq in E. subst. simpl. split; [intuition|].
        intros [H|[_ H]]; auto. exfalso. apply H. auto.
      * apply Nat.eqb_neq in E. simpl. rewrite IH. split.
        -- intros [H|[H|[H1 H2]]]; auto. right. split; auto. intros [H3|H3]; auto.
        -- intros [[H|H]|[H1 H2]]; auto. right. right. split; auto.
Qed.

Lemma fi_insert_sorted i d l : ssorted l -> ssorted (fi_insert i d l).
Proof.
  induction l as [|[j e] t IH]; simpl; intros S.
  - split; [intros p []|exact I].
  - destruct S as [Lt S]. simpl in Lt.
    destruct (Nat.ltb i j) eqn:L.
    + apply Nat.ltb_lt in L. simpl. split; [|split; auto].
      intros p [H|H]; [subst; simpl; lia|]. apply Lt in H. lia.
    + apply Nat.ltb_ge in L. destruct (Nat.eqb i j) eqn:E.
      * simpl. auto.
      * apply Nat.eqb_neq in E. simpl. split; [|auto].
        intros p H. apply (fi_insert_in i d t p S) in H. destruct H as [H|[H _]].
        -- apply Lt in H. exact H.
        -- subst. simpl. lia.
Qed.

(* NB: [fi_merge l1 l2] inserts the entries of l1 one by one into l2 *)
Lemma fi_merge_cons p l1 l2 : fi_merge (p :: l1) l2 = fi_merge l1 (fi_insert (fst p) (snd p) l2).
Proof. reflexivity. Qed.

Lemma fi_merge_sorted l1 : forall l2, ssorted l2 -> ssorted (fi_merge l1 l2).
Proof.
  induction l1 as [|p t IH]; intros l2 S; [exact S|].
  rewrite fi_merge_cons. apply IH. apply fi_insert_sorted. exact S.
Qed.

Lemma fi_merge_in l1 : forall l2 p, ssorted l2 -> NoDup (ids l1) ->
  (In p (fi_merge l1 l2) <-> In p l2 \/ (In p l1 /\ ~ In (fst p) (ids l2))).
Proof.
  induction l1 as [|[j e] t IH]; intros l2 p S N.
  - unfold fi_merge. simpl. intuition.
  - rewrite fi_merge_cons. simpl fst. simpl snd. simpl in N. inversion N as [|x y Nj Nt]. subst.
    rewrite (IH _ p (fi_insert_sorted j e l2 S) Nt).
    rewrite (fi_insert_in j e l2 p S). rewrite ids_insert. simpl. split.
    + intros [[H|[H1 H2]]|[H1 H2]]; auto.
      * subst. right. split; auto.
      * right. split; auto.
    + intros [H|[[H|H] H2]]; auto.
      * subst. simpl in H2. left. right. auto.
      * right. split; auto. intros [E|E]; auto. apply Nj. rewrite <- E.
        apply in_ids. exists (snd p). destruct p; exact H.
Qed.

Lemma ssorted_nodup l : ssorted l -> NoDup (ids l).
Proof.
  induction l as [|p t IH]; simpl; intros S; [constructor|].
  destruct S as [Lt S]. constructor; auto. apply ssorted_not_in. exact Lt.
Qed.

Lemma ssorted_ext l : forall l', ssorted l -> ssorted l' -> (forall p, In p l <-> In p l') -> l = l'.
Proof.
  induction l as [|p t IH]; intros [|p' t'] S S' H.
  - reflexivity.
  - exfalso. apply (H p'). simpl. auto.
  - exfalso. apply (H p). simpl. auto.
  - simpl in S, S'. destruct S as [Lt S]. destruct S' as [Lt' S'].
    assert (E : p = p').
    { destruct (proj1 (H p) (or_introl eq_refl)) as [E|Hp]; [auto|].
      destruct (proj2 (H p') (or_introl eq_refl)) as [E|Hp']; [auto|].
      apply Lt' in Hp. apply Lt in Hp'. lia. }
    subst p'. f_equal. apply IH; auto. intros q. split; intros Hq.
    + destruct (proj1 (H q) (or_intror Hq)) as [E|Hq']; auto. subst q. apply Lt in Hq. lia.
    + destruct (proj2 (H q) (or_intror Hq)) as [E|Hq']; auto. subst q. apply Lt' in Hq. lia.
Qed.

Lemma fi_merge_comm l1 l2 : ssorted l1 -> ssorted l2 -> compat l1 l2 ->
  fi_merge l1 l2 = fi_merge l2 l1.
Proof.
  intros S1 S2 C. apply ssorted_ext; try (apply fi_merge_sorted; assumption).
  intros [i d]. rewrite (fi_merge_in l1 l2 _ S2 (ssorted_nodup _ S1)).
  rewrite (fi_merge_in l2 l1 _ S1 (ssorted_nodup _ S2)). simpl. split.
  - intros [H|[H _]]; auto.
    + destruct (in_dec Nat.eq_dec i (ids l1)) as [Hi|Hi]; auto.
      apply in_ids in Hi. destruct Hi as [e He]. rewrite <- (C i e d He H). auto.
  - intros [H|[H _]]; auto.
    + destruct (in_dec Nat.eq_dec i (ids l2)) as [Hi|Hi]; auto.
      apply in_ids in Hi. destruct Hi as [e He]. rewrite (C i d e H He). auto.
Qed.

Lemma fi_merge_nil_l l : fi_merge [] l = l.
Proof. reflexivity. Qed.

Lemma fi_merge_nil_r l : ssorted l -> fi_merge l [] = l.
Proof.
  intros S. rewrite fi_merge_comm; auto. exact I. intros i d e _ [].
Qed.

(* ------------------------------------------------------------------------------------------ *)
(* Part B: integer literals fold exactly                                                       *)

Section OfZ.
Variable A : ualg.
Add Field AfC05z : (kfield A).
Open Scope K_scope.

Lemma of_pos_succ p : @of_pos A (Pos.succ p) = of_pos p + k1.
Proof. induction p; cbn [of_pos Pos.succ]; try ring. rewrite IHp. ring. Qed.

Lemma of_pos_mul p q : @of_pos A (p * q) = of_pos p * of_pos q.
Proof.
  induction p as [p IH|p IH|]; cbn [Pos.mul of_pos].
  - rewrite of_pos_add. cbn [of_pos]. rewrite IH. ring.
  - rewrite IH. ring.
  - ring.
Qed.

Lemma of_Z_pos_sub p q : @of_Z A (Z.pos_sub p q) = of_pos p - of_pos q.
Proof.
  rewrite Z.pos_sub_spec. destruct (Pos.compare_spec p q) as [E|L|L].
  - subst. cbn. ring.
  - cbn [of_Z]. replace (of_pos q) with (@of_pos A (p + (q - p))).
    + rewrite of_pos_add. ring.
    + f_equal. lia.
  - cbn [of_Z]. replace (of_pos p) with (@of_pos A (q + (p - q))).
    + rewrite of_pos_add. ring.
    + f_equal. lia.
Qed.

Lemma of_Z_add x y : @of_Z A (x + y) = of_Z x + of_Z y.
Proof.
  destruct x, y; cbn [Z.add of_Z]; try ring.
  - apply of_pos_add.
  - rewrite of_Z_pos_sub. ring.
  - rewrite of_Z_pos_sub. ring.
  - rewrite of_pos_add. ring.
Qed.

Lemma of_Z_mul x y : @of_Z A (x * y) = of_Z x * of_Z y.
Proof. destruct x, y; cbn [Z.mul of_Z]; rewrite ?of_pos_mul; ring. Qed.

Lemma of_Z_opp x : @of_Z A (- x) = - of_Z x.
Proof. destruct x; cbn [Z.opp of_Z]; ring. Qed.

Lemma of_Z_pow x n : @of_Z A (x ^ Z.of_nat n) = kpown (of_Z x) n.
Proof.
  induction n as [|n IH].
  - cbn. ring.
  - rewrite Nat2Z.inj_succ, Z.pow_succ_r by lia. rewrite of_Z_mul, IH. reflexivity.
Qed.

Lemma kpown_zero n : kpown (k0 : A) (S n) = k0.
Proof. cbn. ring. Qed.

End OfZ.

(* ------------------------------------------------------------------------------------------ *)
(* Part C: recognisers                                                                         *)

Definition is_zero (e : expr) : bool := match e with Zero _ _ => true | _ => false end.
Definition is_lit (e : expr) : bool :=
  match e with IntV _ | RealV _ _ | CplxV _ _ _ _ | RatV _ _ => true | _ => false end.
Definition int_of (e : expr) : option Z := match e with IntV z => Some z | _ => None end.
Definition is_one (e : expr) : bool :=
  match e with IntV 1 => true | RatV 1 1 => true | _ => false end.
Definition is_abs (e : expr) : bool := match e with Abs _ => true | _ => false end.
Definition is_conj (e : expr) : bool := match e with Conj _ => true | _ => false end.
Definition is_real (e : expr) : bool := match e with Real _ => true | _ => false end.
Definition is_imag (e : expr) : bool := match e with Imag _ => true | _ => false end.
Definition arg1 (e : expr) : expr :=
  match e with Abs a | Conj a | Real a | Imag a => a | _ => e end.
Definition lit_neg (e : expr) : bool :=
  match e with
  | IntV z => Z.ltb z 0 | RealV m _ => Z.ltb m 0 | RatV p _ => Z.ltb p 0 | _ => true
  end.
Definition mk_int (z : Z) : expr := if Z.eqb z 0 then Zero [] [] else IntV z.

Lemma is_zero_inv e : is_zero e = true -> exists sh fi, e = Zero sh fi.
Proof. destruct e; try discriminate. eauto. Qed.
Lemma int_of_inv e z : int_of e = Some z -> e = IntV z.
Proof. destruct e; try discriminate. intros H. inversion H. reflexivity. Qed.
Lemma is_lit_attrs e : is_lit e = true -> shape e = [] /\ fidx e = [].
Proof. destruct e; try discriminate; auto. Qed.
Lemma is_abs_inv e : is_abs e = true -> exists a, e = Abs a.
Proof. destruct e; try discriminate. eauto. Qed.
Lemma is_conj_inv e : is_conj e = true -> exists a, e = Conj a.
Proof. destruct e; try discriminate. eauto. Qed.
Lemma is_real_inv e : is_real e = true -> exists a, e = Real a.
Proof. destruct e; try discriminate. eauto. Qed.
Lemma is_imag_inv e : is_imag e = true -> exists a, e = Imag a.
Proof. destruct e; try discriminate. eauto. Qed.
Lemma mk_int_attrs z : shape (mk_int z) = [] /\ fidx (mk_int z) = [].
Proof. unfold mk_int. destruct (Z.eqb z 0); auto. Qed.

(* ------------------------------------------------------------------------------------------ *)
(* Part D: the scalar constructors of ufl/algebra.py                                            *)

Section Ctor.
Variable A : ualg.
Add Field AfC05 : (kfield A).
Open Scope K_scope.
Variable env : side -> nat -> nat -> list nat -> A.
Variables D DX : nat -> A -> A.
Variable ki : A.
Notation DEN := (@den A env D DX ki).

Variable le : expr -> expr -> bool.               (* cmp_expr a b <= 0, ufl/sorting.py *)
Variable ffold : nat -> expr -> expr -> expr.     (* floating point folding of literals *)

Lemma den_mk_int z s rho c : DEN s rho (mk_int z) c = of_Z z.
Proof.
  unfold mk_int. destruct (Z.eqb z 0) eqn:E; [|reflexivity].
  apply Z.eqb_eq in E. subst. reflexivity.
Qed.

Lemma is_one_den e s rho c : is_one e = true -> DEN s rho e c = k1.
Proof.
  destruct e; try discriminate.
  - destruct z as [|[p|p|]|]; try discriminate. intros _. reflexivity.
  - destruct p as [|[p|p|]|]; try discriminate. destruct q; try discriminate.
    intros _. cbn. field. apply (F_1_neq_0 (kfield A)).
Qed.
Lemma is_one_lit e : is_one e = true -> is_lit e = true.
Proof. destruct e; try discriminate; auto. Qed.
Lemma lit_den_c e s rho c c' : is_lit e = true -> DEN s rho e c = DEN s rho e c'.
Proof. destruct e; try discriminate; auto. Qed.

(* exactness of floating-point folding: a hypothesis, not a theorem (IEEE rounding) *)
Definition fp_exact (op : nat) (f : A -> A -> A) : Prop :=
  forall a b, is_lit a = true -> is_lit b = true ->
    shape (ffold op a b) = [] /\ fidx (ffold op a b) = [] /\
    forall s rho c, DEN s rho (ffold op a b) c = f (DEN s rho a []) (DEN s rho b []).

(* --- Sum.__new__ ------------------------------------------------------------------------- *)
Definition mk_sum (a b : expr) : option expr :=
  if shape_eq_dec (shape a) (shape b) then
    if fi_eq_dec (fidx a) (fidx b) then
      Some (if is_zero a then b
            else if is_zero b then a
            else if is_lit a && is_lit b then
                   match int_of a, int_of b with
                   | Some x, Some y => mk_int (x + y)
                   | _, _ => ffold 0 a b
                   end
            else if is_lit a then Sum a b
            else if is_lit b then Sum b a
            else if le a b then Sum a b else Sum b a)
    else None
  else None.

Theorem C05_sum_sound a b e :
  fp_exact 0 kadd ->
  mk_sum a b = Some e ->
  shape e = shape (Sum a b) /\ fidx e = fidx (Sum a b) /\
  forall s rho c, DEN s rho e c = DEN s rho (Sum a b) c.
Proof.
  intros FP. unfold mk_sum.
  destruct (shape_eq_dec (shape a) (shape b)) as [Es|]; [|discriminate].
  destruct (fi_eq_dec (fidx a) (fidx b)) as [Ef|]; [|discriminate].
  intros H. inversion H as [H']. clear H H'. cbn [shape fidx].
  destruct (is_zero a) eqn:Za.
  { destruct (is_zero_inv a Za) as [sh [fi ->]]. repeat split; auto.
    intros. cbn [den]. ring. }
  destruct (is_zero b) eqn:Zb.
  { destruct (is_zero_inv b Zb) as [sh [fi ->]]. repeat split; auto.
    intros. cbn [den]. ring. }
  destruct (is_lit a) eqn:La; destruct (is_lit b) eqn:Lb; cbn [andb].
  - destruct (is_lit_attrs a La) as [Sa Fa]. rewrite Sa, Fa.
    destruct (int_of a) as [x|] eqn:Ia; [destruct (int_of b) as [y|] eqn:Ib|].
    + apply int_of_inv in Ia. apply int_of_inv in Ib. subst.
      destruct (mk_int_attrs (x + y)) as [S1 F1]. repeat split; auto.
      intros. rewrite den_mk_int. cbn [den]. apply of_Z_add.
    + destruct (FP a b La Lb) as [S1 [F1 V]]. repeat split; auto. intros. rewrite V. cbn [den].
      f_equal; apply lit_den_c; auto.
    + destruct (FP a b La Lb) as [S1 [F1 V]]. repeat split; auto. intros. rewrite V. cbn [den].
      f_equal; apply lit_den_c; auto.
  - repeat split; auto.
  - repeat split; auto. intros. cbn [den]. ring.
  - destruct (le a b); repeat split; auto. intros. cbn [den]. ring.
Qed.

(* errors only on ill-formed requests *)
Theorem C05_sum_error a b :
  mk_sum a b = None <-> (shape a <> shape b \/ fidx a <> fidx b).
Proof.
  unfold mk_sum. destruct (shape_eq_dec (shape a) (shape b)); destruct (fi_eq_dec (fidx a) (fidx b));
  split; intros H; try discriminate; auto; destruct H; contradiction.
Qed.

(* --- Product.__new__ --------------------------------------------------------------------- *)
Definition mk_product (a b : expr) : option expr :=
  if shape_eq_dec (shape a) [] then
    if shape_eq_dec (shape b) [] then
      Some (if is_zero a || is_zero b then Zero [] (fi_merge (fidx a) (fidx b))
            else if is_lit a && is_lit b then
                   match int_of a, int_of b with
                   | Some x, Some y => mk_int (x * y)
                   | _, _ => ffold 1 a b
                   end
            else if is_lit a then (if is_one a then b else Product a b)
            else if is_lit b then (if is_one b then a else Product b a)
            else if le a b then Product a b else Product b a)
    else None
  else None.

Lemma compat_sym l1 l2 : compat l1 l2 -> compat l2 l1.
Proof. intros C i d e H1 H2. symmetry. eapply C; eauto. Qed.

(* scalar-valued nodes are compared at the (only) component [] *)
Theorem C05_product_sound a b e :
  fp_exact 1 kmul ->
  ssorted (fidx a) -> ssorted (fidx b) -> compat (fidx a) (fidx b) ->
  mk_product a b = Some e ->
  shape e = shape (Product a b) /\ fidx e = fidx (Product a b) /\
  forall s rho, DEN s rho e [] = DEN s rho (Product a b) [].
Proof.
  intros FP Sa Sb Cab. unfold mk_product.
  destruct (shape_eq_dec (shape a) []) as [Ea|]; [|discriminate].
  destruct (shape_eq_dec (shape b) []) as [Eb|]; [|discriminate].
  intros H. inversion H as [H']. clear H H'. cbn [shape fidx].
  destruct (is_zero a) eqn:Za.
  { destruct (is_zero_inv a Za) as [sh [fi ->]]. cbn [orb]. repeat split; auto.
    intros. cbn [den]. ring. }
  destruct (is_zero b) eqn:Zb.
  { destruct (is_zero_inv b Zb) as [sh [fi ->]]. cbn [orb]. repeat split; auto.
    intros. cbn [den]. ring. }
  cbn [orb].
  destruct (is_lit a) eqn:La; destruct (is_lit b) eqn:Lb; cbn [andb].
  - destruct (is_lit_attrs a La) as [_ Fa]. destruct (is_lit_attrs b Lb) as [_ Fb]. rewrite Fa, Fb.
    destruct (int_of a) as [x|] eqn:Ia; [destruct (int_of b) as [y|] eqn:Ib|].
    + apply int_of_inv in Ia. apply int_of_inv in Ib. subst.
      destruct (mk_int_attrs (x * y)) as [S1 F1]. repeat split; auto.
      intros. rewrite den_mk_int. cbn [den]. apply of_Z_mul.
    + destruct (FP a b La Lb) as [S1 [F1 V]]. repeat split; auto. intros. rewrite V. reflexivity.
    + destruct (FP a b La Lb) as [S1 [F1 V]]. repeat split; auto. intros. rewrite V. reflexivity.
  - destruct (is_lit_attrs a La) as [_ Fa]. rewrite Fa, fi_merge_nil_l.
    destruct (is_one a) eqn:Oa; cbn [shape fidx]; rewrite ?Fa, ?fi_merge_nil_l; repeat split; auto.
    intros. cbn [den]. rewrite (is_one_den a s rho [] Oa). ring.
  - destruct (is_lit_attrs b Lb) as [_ Fb]. rewrite Fb, (fi_merge_nil_r _ Sa).
    destruct (is_one b) eqn:Ob.
    + repeat split; auto. intros. cbn [den]. rewrite (is_one_den b s rho [] Ob). ring.
    + cbn [shape fidx]. rewrite Fb, fi_merge_nil_l. repeat split; auto.
      intros. cbn [den]. ring.
  - destruct (le a b).
    + repeat split; auto.
    + cbn [shape fidx]. rewrite (fi_merge_comm _ _ Sb Sa (compat_sym _ _ Cab)). repeat split; auto.
      intros. cbn [den]. ring.
Qed.

Theorem C05_product_error a b :
  mk_product a b = None <-> (shape a <> [] \/ shape b <> []).
Proof.
  unfold mk_product. destruct (shape_eq_dec (shape a) []); destruct (shape_eq_dec (shape b) []);
  split; intros H; try discriminate; auto; destruct H; contradiction.
Qed.

(* --- Division.__new__ -------------------------------------------------------------------- *)
Definition wf_division (a b : expr) : bool :=
  (if shape_eq_dec (shape a) [] then true else false) &&
  (if shape_eq_dec (shape b) [] then true else false) &&
  (if fi_eq_dec (fidx b) [] then true else false) && negb (is_zero b).

Definition mk_division (a b : expr) : option expr :=
  if wf_division a b then
    Some (if is_zero a || is_one b then a
          else if is_lit a && is_lit b then ffold 2 a b      (* always a float division *)
          else Division a b)
  else None.

Theorem C05_division_sound a b e :
  fp_exact 2 kdiv -> ssorted (fidx a) ->
  mk_division a b = Some e ->
  shape e = shape (Division a b) /\ fidx e = fidx (Division a b) /\
  forall s rho, DEN s rho e [] = DEN s rho (Division a b) [].
Proof.
  intros FP Sa. unfold mk_division, wf_division.
  destruct (shape_eq_dec (shape a) []) as [Ea|]; [|discriminate].
  destruct (shape_eq_dec (shape b) []) as [Eb|]; [|discriminate].
  destruct (fi_eq_dec (fidx b) []) as [Fb|]; [|discriminate].
  destruct (is_zero b) eqn:Zb; [discriminate|]. cbn [andb negb].
  intros H. inversion H as [H']. clear H H'. cbn [shape fidx]. rewrite Fb, (fi_merge_nil_r _ Sa).
  destruct (is_zero a) eqn:Za.
  { destruct (is_zero_inv a Za) as [sh [fi ->]]. cbn [orb]. repeat split; auto.
    intros. cbn [den]. rewrite (Fdiv_def (kfield A)). ring. }
  cbn [orb]. destruct (is_one b) eqn:Ob.
  { repeat split; auto. intros. cbn [den]. rewrite (is_one_den b s rho [] Ob).
    field. apply (F_1_neq_0 (kfield A)). }
  destruct (is_lit a) eqn:La; destruct (is_lit b) eqn:Lb; cbn [andb];
  try (cbn [shape fidx]; rewrite Fb, (fi_merge_nil_r _ Sa); repeat split; auto; fail).
  destruct (FP a b La Lb) as [S1 [F1 V]]. destruct (is_lit_attrs a La) as [_ Fa]. rewrite Fa.
  repeat split; auto. intros. rewrite V. reflexivity.
Qed.

(* --- Power.__new__ ----------------------------------------------------------------------- *)
Definition true_scalar (a : expr) : bool :=
  (if shape_eq_dec (shape a) [] then true else false) && (if fi_eq_dec (fidx a) [] then true else false).

Definition mk_power (a b : expr) : option expr :=
  if true_scalar a && true_scalar b then
    if is_lit a && is_lit b then
      match int_of a, int_of b with
      | Some x, Some y => if Z.leb 0 y then Some (mk_int (x ^ y)) else Some (ffold 3 a b)
      | _, _ => Some (ffold 3 a b)
      end
    else if is_zero b then Some (IntV 1)
    else if is_zero a && is_lit b then (if lit_neg b then None else Some (Zero [] []))
    else if is_one b then Some a
    else Some (Power a b)
  else None.

(* laws of the abstract power function needed by the shortcuts *)
Definition pow_laws : Prop :=
  (forall x : A, kpow x k0 = k1) /\ (forall x : A, kpow x k1 = x) /\
  (forall b s rho, is_lit b = true -> lit_neg b = false -> int_of b = None ->
     kpow k0 (DEN s rho b []) = k0).
Definition fp_pow_exact : Prop :=
  forall a b, is_lit a = true -> is_lit b = true ->
    (forall x y, int_of a = Some x -> int_of b = Some y -> (y < 0)%Z) ->
    shape (ffold 3 a b) = [] /\ fidx (ffold 3 a b) = [] /\
    forall s rho, DEN s rho (ffold 3 a b) [] = DEN s rho (Power a b) [].

Lemma true_scalar_inv a : true_scalar a = true -> shape a = [] /\ fidx a = [].
Proof.
  unfold true_scalar. destruct (shape_eq_dec (shape a) []); destruct (fi_eq_dec (fidx a) []);
  try discriminate; auto.
Qed.

(* [b <> IntV 0]: IntValue(0) does not exist in UFL (IntValue.__new__ returns Zero()) *)
Theorem C05_power_sound a b e :
  fp_pow_exact -> pow_laws -> b <> IntV 0 ->
  mk_power a b = Some e ->
  shape e = shape (Power a b) /\ fidx e = fidx (Power a b) /\
  forall s rho, DEN s rho e [] = DEN s rho (Power a b) [].
Proof.
  intros FP [P0 [P1 PZ]] NZ. unfold mk_power.
  destruct (true_scalar a) eqn:Ta; [|discriminate]. destruct (true_scalar b) eqn:Tb; [|discriminate].
  destruct (true_scalar_inv a Ta) as [Sa Fa]. destruct (true_scalar_inv b Tb) as [Sb Fb].
  cbn [andb shape fidx]. rewrite Fa, Fb. cbn [fi_merge fold_left].
  destruct (is_lit a) eqn:La; destruct (is_lit b) eqn:Lb; cbn [andb].
  - destruct (int_of a) as [x|] eqn:Ia; [destruct (int_of b) as [y|] eqn:Ib|].
    + destruct (Z.leb 0 y) eqn:Ly; intros H; inversion H as [H']; clear H H'.
      * apply int_of_inv in Ia. apply int_of_inv in Ib. subst. apply Z.leb_le in Ly.
        destruct (mk_int_attrs (x ^ y)) as [S1 F1]. repeat split; auto.
        intros. rewrite den_mk_int.
        destruct y as [|p|p]; [reflexivity| |lia]. cbn [den]. rewrite <- of_Z_pow, positive_nat_Z. reflexivity.
      * apply Z.leb_gt in Ly. apply FP; auto. intros x' y' E1 E2. congruence.
    + intros H; inversion H as [H']; clear H H'. apply FP; auto. intros x' y' E1 E2. congruence.
    + intros H; inversion H as [H']; clear H H'. apply FP; auto. intros x' y' E1 E2. congruence.
  - destruct (is_zero b) eqn:Zb.
    { destruct (is_zero_inv b Zb) as [sh [fi ->]]. intros H; inversion H. repeat split; auto.
      intros. cbn [den]. rewrite P0. reflexivity. }
    destruct a; try discriminate; cbn [is_zero andb]; (destruct (is_one b) eqn:Ob;
      [destruct b; discriminate | intros H; inversion H; repeat split; auto; cbn [fidx]; rewrite ?Fa, ?Fb; auto]).
  - destruct (is_zero b) eqn:Zb; [destruct b; discriminate|].
    destruct (is_zero a) eqn:Za; cbn [andb].
    + destruct (is_zero_inv a Za) as [sh [fi ->]]. destruct (lit_neg b) eqn:Nb; [discriminate|].
      intros H; inversion H. repeat split; auto. intros. cbn [den].
      destruct (int_of b) as [y|] eqn:Ib.
      * apply int_of_inv in Ib. subst. cbn in Nb. apply Z.ltb_ge in Nb.
        destruct y as [|p|p]; [congruence| |lia].
        destruct (Pos2Nat.is_succ p) as [n ->]. rewrite kpown_zero. reflexivity.
      * destruct b; try discriminate; symmetry; exact (PZ _ s rho Lb Nb Ib).
    + destruct (is_one b) eqn:Ob; intros H; inversion H; [|repeat split; auto; cbn [fidx]; rewrite ?Fa, ?Fb; auto].
      subst e. repeat split; auto. intros.
      destruct b; try discriminate.
      * destruct z as [|[p|p|]|]; try discriminate.
        change (DEN s rho (Power a (IntV 1)) []) with (DEN s rho a [] * k1). ring.
      * destruct p as [|[p|p|]|]; try discriminate. destruct q; try discriminate.
        cbn [den]. replace (of_Z 1 / of_pos 1) with (k1 : A).
        -- rewrite P1. reflexivity.
        -- cbn. field. apply (F_1_neq_0 (kfield A)).
  - destruct (is_zero b) eqn:Zb.
    { destruct (is_zero_inv b Zb) as [sh [fi ->]]. intros H; inversion H. repeat split; auto.
      intros. cbn [den]. rewrite P0. reflexivity. }
    rewrite andb_false_r.
    destruct (is_one b) eqn:Ob; [rewrite (is_one_lit b Ob) in Lb; discriminate|].
    intros H; inversion H. repeat split; auto. cbn [fidx]; rewrite ?Fa, ?Fb; auto.
Qed.

(* --- Abs / Conj / Real / Imag ------------------------------------------------------------ *)
(* Abs(Conj x): Abs.__new__ returns Abs(x), but Python then re-runs __init__ of the returned Abs
   object with the ORIGINAL argument, so the node that comes out is Abs(Conj x) (observed and
   reproduced by the correspondence check). *)
Definition mk_abs (a : expr) : expr :=
  if is_zero a || is_abs a then a
  else match a with
       | IntV z => mk_int (Z.abs z)
       | RealV _ _ | CplxV _ _ _ _ | RatV _ _ => ffold 4 a a
       | _ => Abs a
       end.
(* with the repair of Abs.__init__ (no second initialisation) Abs(Conj x) really becomes Abs(x) *)
Fixpoint mk_abs_fixed (a : expr) : expr :=
  match a with
  | Zero _ _ => a
  | Abs _ => a
  | Conj x => mk_abs_fixed x
  | IntV z => mk_int (Z.abs z)
  | RealV _ _ | CplxV _ _ _ _ | RatV _ _ => ffold 4 a a
  | _ => Abs a
  end.
Definition mk_abs_sel (fx_abs : bool) (a : expr) : expr := if fx_abs then mk_abs_fixed a else mk_abs a.

Definition mk_conj (a : expr) : expr :=
  if is_abs a || is_real a || is_imag a || is_zero a then a
  else if is_conj a then arg1 a
  else match a with
       | IntV z => IntV z
       | RealV _ _ | CplxV _ _ _ _ | RatV _ _ => ffold 5 a a
       | _ => Conj a
       end.
Definition mk_real (a : expr) : expr :=
  let a' := if is_conj a then arg1 a else a in
  if is_zero a' then a'
  else match a' with
       | IntV z => IntV z
       | RealV _ _ | CplxV _ _ _ _ | RatV _ _ => ffold 6 a' a'
       | _ => Real a
       end.
Definition mk_imag (a : expr) : expr :=
  if is_zero a then a
  else if is_real a || is_imag a || is_abs a then Zero (shape a) (fidx a)
  else match a with
       | IntV z => Zero [] []
       | RealV _ _ | CplxV _ _ _ _ | RatV _ _ => ffold 7 a a
       | _ => Imag a
       end.

Definition cplx_laws : Prop :=
  (forall x : A, kconj (kconj x) = x) /\ (forall x : A, kconj (kabs x) = kabs x) /\
  (forall x : A, kconj (kre x) = kre x) /\ (forall x : A, kconj (kim x) = kim x) /\
  (forall x : A, kabs (kabs x) = kabs x) /\
  (forall x : A, kim (kre x) = k0) /\ (forall x : A, kim (kim x) = k0) /\ (forall x : A, kim (kabs x) = k0) /\
  (kabs k0 = (k0 : A)) /\ (kconj k0 = (k0 : A)) /\ (kre k0 = (k0 : A)) /\ (kim k0 = (k0 : A)) /\
  (forall z, kabs (of_Z z) = (of_Z (Z.abs z) : A)) /\ (forall z, kconj (of_Z z) = (of_Z z : A)) /\
  (forall z, kre (of_Z z) = (of_Z z : A)) /\ (forall z, kim (of_Z z) = (k0 : A)).
Definition fp_unary (op : nat) (f : A -> A) : Prop :=
  forall a, is_lit a = true ->
    shape (ffold op a a) = [] /\ fidx (ffold op a a) = [] /\
    forall s rho c, DEN s rho (ffold op a a) c = f (DEN s rho a c).

Ltac unary_tac FP laws :=
  match goal with
  | |- context [ffold ?op ?x ?x] =>
      let S1 := fresh in let F1 := fresh in let V := fresh in
      destruct (FP x eq_refl) as [S1 [F1 V]]; repeat split; auto; intros; rewrite V; reflexivity
  | |- context [mk_int ?z] =>
      let S1 := fresh in let F1 := fresh in
      destruct (mk_int_attrs z) as [S1 F1]; repeat split; auto; intros; rewrite den_mk_int;
      cbn [den]; laws; reflexivity
  | _ => repeat split; auto; intros; cbn [den]; laws; reflexivity
  end.
Ltac unary_cases a :=
  destruct a; cbn [is_zero is_abs is_conj is_real is_imag orb arg1 shape fidx].

Theorem C05_abs_sound a :
  cplx_laws -> fp_unary 4 kabs ->
  shape (mk_abs a) = shape (Abs a) /\ fidx (mk_abs a) = fidx (Abs a) /\
  forall s rho c, DEN s rho (mk_abs a) c = DEN s rho (Abs a) c.
Proof.
  intros [CC [CA [CR [CI [AA [IR [II [IA [A0 [C0 [R0 [I0 [AZ [CZ [RZ IZ]]]]]]]]]]]]]]] FP.
  unfold mk_abs. unary_cases a; unary_tac FP ltac:(rewrite ?A0, ?AZ, ?AA).
Qed.

Theorem C05_abs_fixed_sound a :
  cplx_laws -> (forall x : A, kabs (kconj x) = kabs x) -> fp_unary 4 kabs ->
  shape (mk_abs_fixed a) = shape (Abs a) /\ fidx (mk_abs_fixed a) = fidx (Abs a) /\
  forall s rho c, DEN s rho (mk_abs_fixed a) c = DEN s rho (Abs a) c.
Proof.
  intros [CC [CA [CR [CI [AA [IR [II [IA [A0 [C0 [R0 [I0 [AZ [CZ [RZ IZ]]]]]]]]]]]]]]] AC FP.
  induction a; cbn [mk_abs_fixed shape fidx]; try unary_tac FP ltac:(rewrite ?A0, ?AZ, ?AA).
  destruct IHa as [S1 [F1 V]]. repeat split; auto. intros. rewrite V. cbn [den]. rewrite AC. reflexivity.
Qed.

Theorem C05_conj_sound a :
  cplx_laws -> fp_unary 5 kconj ->
  shape (mk_conj a) = shape (Conj a) /\ fidx (mk_conj a) = fidx (Conj a) /\
  forall s rho c, DEN s rho (mk_conj a) c = DEN s rho (Conj a) c.
Proof.
  intros [CC [CA [CR [CI [AA [IR [II [IA [A0 [C0 [R0 [I0 [AZ [CZ [RZ IZ]]]]]]]]]]]]]]] FP.
  unfold mk_conj. unary_cases a; unary_tac FP ltac:(rewrite ?C0, ?CZ, ?CA, ?CC, ?CR, ?CI).
Qed.

(* Real(Conj(literal)) does not occur: Conj folds literals *)
Theorem C05_real_sound a :
  cplx_laws -> fp_unary 6 kre ->
  (forall x, a = Conj x -> is_lit x = false) ->
  shape (mk_real a) = shape (Real a) /\ fidx (mk_real a) = fidx (Real a) /\
  forall s rho c, DEN s rho (mk_real a) c = DEN s rho (Real a) c.
Proof.
  intros [CC [CA [CR [CI [AA [IR [II [IA [A0 [C0 [R0 [I0 [AZ [CZ [RZ IZ]]]]]]]]]]]]]]] FP NL.
  unfold mk_real. destruct (is_conj a) eqn:Ca.
  - destruct (is_conj_inv a Ca) as [x ->]. cbn [arg1]. specialize (NL x eq_refl).
    destruct x; try discriminate; cbn [is_zero shape fidx]; repeat split; auto.
    intros. cbn [den]. rewrite C0, R0. reflexivity.
  - unary_cases a; try discriminate; unary_tac FP ltac:(rewrite ?R0, ?RZ).
Qed.

Theorem C05_imag_sound a :
  cplx_laws -> fp_unary 7 kim ->
  shape (mk_imag a) = shape (Imag a) /\ fidx (mk_imag a) = fidx (Imag a) /\
  forall s rho c, DEN s rho (mk_imag a) c = DEN s rho (Imag a) c.
Proof.
  intros [CC [CA [CR [CI [AA [IR [II [IA [A0 [C0 [R0 [I0 [AZ [CZ [RZ IZ]]]]]]]]]]]]]]] FP.
  unfold mk_imag. unary_cases a; unary_tac FP ltac:(rewrite ?I0, ?IZ, ?IA, ?IR, ?II).
Qed.

End Ctor.

(* ------------------------------------------------------------------------------------------ *)
(* Part E: indexing constructors (ufl/indexed.py, ufl/indexsum.py, ufl/tensors.py)             *)

Definition mi_has (i : nat) (mi : list idx) : bool :=
  existsb (fun x => match x with Free j => Nat.eqb j i | Fixed _ => false end) mi.
Definition mem (i : nat) (l : list nat) : bool := existsb (Nat.eqb i) l.
(* none of the indices bound by jj is among the free indices l *)
Definition disjointb (jj : list (nat * nat)) (l : list (nat * nat)) : bool :=
  forallb (fun p => negb (mem (fst p) (ids l))) jj.

(* rep = dict(zip(jj, multiindex)); later entries win, like Python's dict and like [upds] *)
Fixpoint lookup (k : nat) (jj : list (nat * nat)) (mi : list idx) (d : option idx) : option idx :=
  match jj, mi with
  | (j, _) :: jj', m :: mi' => lookup k jj' mi' (if Nat.eqb k j then Some m else d)
  | _, _ => d
  end.
Definition subst_idx (jj : list (nat * nat)) (mi : list idx) (x : idx) : idx :=
  match x with
  | Fixed n => Fixed n
  | Free k => match lookup k jj mi None with Some m => m | None => Free k end
  end.

Lemma fi_remove_notin i l : ~ In i (ids l) -> fi_remove i l = l.
Proof.
  induction l as [|[j e] t IH]; simpl; intros H; [reflexivity|].
  destruct (Nat.eqb j i) eqn:E.
  - apply Nat.eqb_eq in E. subst. exfalso. apply H. auto.
  - simpl. f_equal. apply IH. intros Hi. apply H. auto.
Qed.

Lemma fi_remove_insert_same i d l : fi_remove i (fi_insert i d l) = fi_remove i l.
Proof.
  induction l as [|[j e] t IH]; simpl.
  - rewrite Nat.eqb_refl. reflexivity.
  - destruct (Nat.ltb i j) eqn:L.
    + simpl. rewrite Nat.eqb_refl. reflexivity.
    + destruct (Nat.eqb i j) eqn:E; [reflexivity|]. simpl. rewrite IH. reflexivity.
Qed.

Lemma lt_all_filter i j l : lt_all j l -> lt_all j (fi_remove i l).
Proof. intros H p Hp. apply filter_In in Hp. apply H. tauto. Qed.

Lemma fi_insert_head j e l : lt_all j l -> fi_insert j e l = (j, e) :: l.
Proof.
  destruct l as [|[k x] t]; [reflexivity|]. intros H. simpl.
  assert (j < k) by (apply (H (k, x)); simpl; auto).
  destruct (Nat.ltb j k) eqn:L; [reflexivity|]. apply Nat.ltb_ge in L. lia.
Qed.

Lemma fi_remove_insert_other i j e l : ssorted l -> j <> i ->
  fi_remove i (fi_insert j e l) = fi_insert j e (fi_remove i l).
Proof.
  intros S Hji. induction l as [|[k x] t IH].
  - simpl. destruct (Nat.eqb j i) eqn:E; [apply Nat.eqb_eq in E; contradiction|reflexivity].
  - destruct S as [Lt S]. simpl in Lt. specialize (IH S). simpl fi_insert.
    destruct (Nat.ltb j k) eqn:L.
    + apply Nat.ltb_lt in L. cbn [fi_remove filter fst].
      destruct (Nat.eqb j i) eqn:E; [apply Nat.eqb_eq in E; contradiction|]. cbn [negb].
      symmetry. apply fi_insert_head. intros p Hp.
      change (In p (fi_remove i ((k, x) :: t))) in Hp. apply filter_In in Hp. destruct Hp as [[Hp|Hp] _].
      * subst. simpl. exact L.
      * apply Lt in Hp. lia.
    + apply Nat.ltb_ge in L. destruct (Nat.eqb j k) eqn:E.
      * apply Nat.eqb_eq in E. subst k. cbn [fi_remove filter fst].
        destruct (Nat.eqb j i) eqn:E2; [apply Nat.eqb_eq in E2; contradiction|]. cbn [negb].
        simpl. rewrite Nat.ltb_irrefl, Nat.eqb_refl. reflexivity.
      * apply Nat.eqb_neq in E. cbn [fi_remove filter fst]. fold (fi_remove i (fi_insert j e t)).
        fold (fi_remove i t). rewrite IH. destruct (Nat.eqb k i) eqn:E2; cbn [negb].
        -- reflexivity.
        -- simpl. destruct (Nat.ltb j k) eqn:L2; [apply Nat.ltb_lt in L2; lia|].
           destruct (Nat.eqb j k) eqn:E3; [apply Nat.eqb_eq in E3; contradiction|]. reflexivity.
Qed.

Lemma fi_remove_sorted i l : ssorted l -> ssorted (fi_remove i l).
Proof.
  induction l as [|[k x] t IH]; simpl; intros S; [exact I|]. destruct S as [Lt S].
  destruct (Nat.eqb k i); cbn [negb]; [auto|]. simpl. split; auto. apply lt_all_filter. exact Lt.
Qed.

Lemma fi_remove_merge i l1 : forall l2, ssorted l2 ->
  fi_remove i (fi_merge l1 l2) = fi_merge (fi_remove i l1) (fi_remove i l2).
Proof.
  induction l1 as [|[j e] t IH]; intros l2 S; [reflexivity|].
  rewrite fi_merge_cons. simpl fst. simpl snd. rewrite IH by (apply fi_insert_sorted; exact S).
  cbn [fi_remove filter fst]. fold (fi_remove i t).
  destruct (Nat.eqb j i) eqn:E; cbn [negb].
  - apply Nat.eqb_eq in E. subst. rewrite fi_remove_insert_same. reflexivity.
  - apply Nat.eqb_neq in E. rewrite fi_merge_cons. simpl fst. simpl snd.
    rewrite fi_remove_insert_other; auto.
Qed.

Lemma mi_free_sorted mi : forall sh, ssorted (mi_free mi sh).
Proof.
  induction mi as [|x mi IH]; intros sh; [exact I|].
  destruct x; destruct sh; simpl; auto. apply fi_insert_sorted. apply IH.
Qed.

Lemma mi_free_ids i mi : forall sh, In i (ids (mi_free mi sh)) -> mi_has i mi = true.
Proof.
  induction mi as [|x mi IH]; intros sh H; [destruct H|].
  destruct x as [n|j]; destruct sh as [|d sh]; simpl in H; try (destruct H; fail).
  - simpl. apply (IH sh H).
  - apply ids_insert in H. simpl. destruct H as [H|H].
    + subst. rewrite Nat.eqb_refl. reflexivity.
    + rewrite (IH sh H). apply orb_true_r.
Qed.

Section Index.
Variable A : ualg.
Add Field AfC05i : (kfield A).
Open Scope K_scope.
Variable env : side -> nat -> nat -> list nat -> A.
Variables D DX : nat -> A -> A.
Variable ki : A.
Notation DEN := (@den A env D DX ki).
Variable le : expr -> expr -> bool.
Variable ffold : nat -> expr -> expr -> expr.

(* semantic hygiene: the value of e does not depend on the valuation of index i.  The Python code
   checks the syntactic condition "i not in e.ufl_free_indices" (or nothing at all) *)
Definition indep (e : expr) (i : nat) : Prop :=
  forall s rho k c, DEN s (upd rho i k) e c = DEN s rho e c.

Lemma idxval_upd rho i k mi : mi_has i mi = false ->
  map (idxval (upd rho i k)) mi = map (idxval rho) mi.
Proof.
  induction mi as [|x mi IH]; simpl; intros H; [reflexivity|].
  apply orb_false_iff in H. destruct H as [H1 H2]. rewrite (IH H2). f_equal.
  destruct x as [n|j]; [reflexivity|]. simpl. rewrite H1. reflexivity.
Qed.

Lemma nth_den_nth es : forall k s rho c, k < length es ->
  (fix nth_den (l : list expr) (n : nat) {struct l} : A :=
     match l, n with
     | [], _ => k0
     | e0 :: _, O => DEN s rho e0 c
     | _ :: t, S n' => nth_den t n'
     end) es k = DEN s rho (nth k es (Zero [] [])) c.
Proof.
  induction es as [|e0 t IH]; intros k s rho c H; [simpl in H; lia|].
  destruct k as [|k]; [reflexivity|]. simpl in H. simpl nth. rewrite <- (IH k s rho c) by lia. reflexivity.
Qed.

(* --- Indexed.__new__ on Zero ------------------------------------------------------------- *)
Theorem C05_indexed_zero sh fi mi :
  let e := Zero [] (fi_merge fi (mi_free mi sh)) in
  shape e = shape (Indexed (Zero sh fi) mi) /\ fidx e = fidx (Indexed (Zero sh fi) mi) /\
  forall s rho, DEN s rho e [] = DEN s rho (Indexed (Zero sh fi) mi) [].
Proof. repeat split. Qed.

(* --- Sum._simplify_indexed --------------------------------------------------------------- *)
Theorem C05_indexed_sum a b mi :
  shape (Sum (Indexed a mi) (Indexed b mi)) = shape (Indexed (Sum a b) mi) /\
  fidx (Sum (Indexed a mi) (Indexed b mi)) = fidx (Indexed (Sum a b) mi) /\
  forall s rho, DEN s rho (Sum (Indexed a mi) (Indexed b mi)) [] = DEN s rho (Indexed (Sum a b) mi) [].
Proof. repeat split. Qed.

(* --- ListTensor._simplify_indexed: fixed first index -------------------------------------- *)
Definition uniform (es : list expr) : Prop :=
  forall e, In e es -> shape e = shape (hd (Zero [] []) es) /\ fidx e = fidx (hd (Zero [] []) es).

Theorem C05_indexed_list_tensor es k mi :
  k < length es -> uniform es ->
  let sub := nth k es (Zero [] []) in
  shape (Indexed sub mi) = shape (Indexed (ListTensor es) (Fixed k :: mi)) /\
  fidx (Indexed sub mi) = fidx (Indexed (ListTensor es) (Fixed k :: mi)) /\
  forall s rho, DEN s rho (Indexed sub mi) [] = DEN s rho (Indexed (ListTensor es) (Fixed k :: mi)) [].
Proof.
  intros Hk U sub. destruct (U sub (nth_In es _ Hk)) as [Us Uf].
  split; [reflexivity|]. split.
  - cbn [fidx shape mi_free]. rewrite Us, Uf. destruct es; [simpl in Hk; lia|]. reflexivity.
  - intros. cbn [den map idxval]. rewrite nth_den_nth by exact Hk. reflexivity.
Qed.

(* --- IndexSum._simplify_indexed: sound iff the summation index does not occur in mi -------- *)
Theorem C05_indexed_index_sum_partial a i d mi :
  mi_has i mi = false -> ssorted (fidx a) ->
  shape (IndexSum (Indexed a mi) i d) = shape (Indexed (IndexSum a i d) mi) /\
  fidx (IndexSum (Indexed a mi) i d) = fidx (Indexed (IndexSum a i d) mi) /\
  forall s rho, DEN s rho (IndexSum (Indexed a mi) i d) [] = DEN s rho (Indexed (IndexSum a i d) mi) [].
Proof.
  intros H S. split; [reflexivity|]. split.
  - cbn [fidx shape]. rewrite fi_remove_merge by apply mi_free_sorted.
    rewrite (fi_remove_notin i (mi_free mi (shape a))); [reflexivity|].
    intros Hi. apply mi_free_ids in Hi. congruence.
  - intros. cbn [den]. apply ksum_ext. intros k _. rewrite idxval_upd by exact H. reflexivity.
Qed.

(* --- IndexSum.__new__ ---------------------------------------------------------------------- *)
Theorem C05_index_sum_zero sh fi i d :
  let e := Zero sh (fi_remove i fi) in
  shape e = shape (IndexSum (Zero sh fi) i d) /\ fidx e = fidx (IndexSum (Zero sh fi) i d) /\
  forall s rho c, DEN s rho e c = DEN s rho (IndexSum (Zero sh fi) i d) c.
Proof. repeat split. intros. cbn [den]. rewrite ksum_zero. reflexivity. Qed.

(* factor out of the sum: the code checks [j not in a.ufl_free_indices]; the semantic condition
   is [indep a j] *)
Theorem C05_index_sum_factor a b j d :
  indep a j -> ~ In j (ids (fidx a)) -> ssorted (fidx b) ->
  shape (Product a (IndexSum b j d)) = [] /\
  fidx (Product a (IndexSum b j d)) = fidx (IndexSum (Product a b) j d) /\
  forall s rho, DEN s rho (Product a (IndexSum b j d)) [] = DEN s rho (IndexSum (Product a b) j d) [].
Proof.
  intros I N S. split; [reflexivity|]. split.
  - cbn [fidx]. rewrite fi_remove_merge by exact S. rewrite (fi_remove_notin j (fidx a) N). reflexivity.
  - intros. cbn [den]. rewrite <- ksum_scal. apply ksum_ext. intros k _. rewrite I. reflexivity.
Qed.

(* --- ComponentTensor._simplify_indexed: as_tensor(C[kk], jj)[ii] -> C[kk with jj := ii] ----- *)
Lemma upds_indep C jj : forall rho vals s c, (forall j, In j (ids jj) -> indep C j) ->
  DEN s (upds rho jj vals) C c = DEN s rho C c.
Proof.
  induction jj as [|[j d] jj IH]; intros rho vals s c H; [reflexivity|].
  destruct vals as [|v vals]; [reflexivity|]. simpl upds. rewrite IH.
  - apply H. simpl. auto.
  - intros j' Hj'. apply H. simpl. auto.
Qed.

Lemma upds_lookup k rho0 jj : forall mi rho d,
  rho k = match d with Some m => idxval rho0 m | None => rho0 k end ->
  upds rho jj (map (idxval rho0) mi) k =
  match lookup k jj mi d with Some m => idxval rho0 m | None => rho0 k end.
Proof.
  induction jj as [|[j dj] jj IH]; intros mi rho d H; [destruct mi; exact H|].
  destruct mi as [|m mi]; [exact H|]. simpl map. simpl upds. simpl lookup. apply IH.
  unfold upd. rewrite (Nat.eqb_sym k j). destruct (Nat.eqb j k); [reflexivity|exact H].
Qed.

Theorem C05_indexed_ct_partial C kk jj mi :
  (forall j, In j (ids jj) -> indep C j) ->
  shape (Indexed C (map (subst_idx jj mi) kk)) = shape (Indexed (ComponentTensor (Indexed C kk) jj) mi) /\
  forall s rho, DEN s rho (Indexed C (map (subst_idx jj mi) kk)) [] =
                DEN s rho (Indexed (ComponentTensor (Indexed C kk) jj) mi) [].
Proof.
  intros H. split; [reflexivity|]. intros. cbn [den]. rewrite upds_indep by exact H.
  f_equal. rewrite map_map. apply map_ext. intros [n|k]; [reflexivity|].
  simpl. rewrite (upds_lookup k rho jj mi rho None eq_refl).
  destruct (lookup k jj mi None); reflexivity.
Qed.

(* ... with B = ListTensor[k] and rep[k] a fixed index n: B may be replaced by the n-th entry *)
Theorem C05_indexed_ct_list_tensor es k jj mi n :
  lookup k jj mi None = Some (Fixed n) -> n < length es ->
  forall s rho, DEN s rho (Indexed (ComponentTensor (Indexed (ListTensor es) [Free k]) jj) mi) [] =
                DEN s rho (Indexed (ComponentTensor (nth n es (Zero [] [])) jj) mi) [].
Proof.
  intros L Hn s rho. cbn [den map idxval].
  rewrite (upds_lookup k rho jj mi rho None eq_refl), L. simpl idxval.
  rewrite nth_den_nth by exact Hn. reflexivity.
Qed.

(* --- ComponentTensor.__new__ -------------------------------------------------------------- *)
Theorem C05_component_tensor_zero fi (jj : list (nat * nat)) :
  let e := Zero (map snd jj) (fold_left (fun acc p => fi_remove (fst p) acc) jj fi) in
  shape e = shape (ComponentTensor (Zero [] fi) jj) /\ fidx e = fidx (ComponentTensor (Zero [] fi) jj) /\
  forall s rho c, DEN s rho e c = DEN s rho (ComponentTensor (Zero [] fi) jj) c.
Proof. repeat split. Qed.

Lemma upds_notin k jj : forall rho c, ~ In k (ids jj) -> upds rho jj c k = rho k.
Proof.
  induction jj as [|[j d] jj IH]; intros rho c H; [reflexivity|]. destruct c as [|v c]; [reflexivity|].
  simpl upds. rewrite IH by (intros Hk; apply H; simpl; auto). unfold upd.
  destruct (Nat.eqb k j) eqn:E; [|reflexivity]. apply Nat.eqb_eq in E. subst. exfalso. apply H. simpl. auto.
Qed.

Lemma upds_read jj : forall rho c, NoDup (ids jj) -> length c = length jj ->
  map (upds rho jj c) (ids jj) = c.
Proof.
  induction jj as [|[j d] jj IH]; intros rho c N L; destruct c as [|v c]; simpl in L; try lia; [reflexivity|].
  simpl in N. inversion N as [|x y Nj Nt]. subst. simpl ids. simpl map. f_equal.
  - simpl upds. rewrite upds_notin by exact Nj. unfold upd. rewrite Nat.eqb_refl. reflexivity.
  - apply IH; auto.
Qed.

(* as_tensor(A[ii], ii) -> A : sound when the ii are distinct and A does not depend on them *)
Theorem C05_component_tensor_indexed A0 jj :
  NoDup (ids jj) -> (forall j, In j (ids jj) -> indep A0 j) -> map snd jj = shape A0 ->
  shape A0 = shape (ComponentTensor (Indexed A0 (map Free (ids jj))) jj) /\
  forall s rho c, length c = length jj ->
    DEN s rho A0 c = DEN s rho (ComponentTensor (Indexed A0 (map Free (ids jj))) jj) c.
Proof.
  intros N I Sh. split; [symmetry; exact Sh|]. intros s rho c L. cbn [den].
  rewrite upds_indep by exact I. rewrite map_map.
  rewrite (map_ext _ (upds rho jj c)) by (intros; reflexivity).
  rewrite (upds_read jj rho c N L). reflexivity.
Qed.

(* --- ListTensor.__new__ ------------------------------------------------------------------- *)
(* [v[0], ..., v[n-1]] -> v *)
Theorem C05_list_tensor_indexed v n k :
  k < n ->
  forall s rho, DEN s rho (ListTensor (map (fun m => Indexed v [Fixed m]) (seq 0 n))) [k] = DEN s rho v [k].
Proof.
  intros Hk. intros. cbn [den].
  rewrite nth_den_nth by (rewrite map_length, seq_length; exact Hk).
  rewrite (nth_indep _ _ (Indexed v [Fixed 0])) by (rewrite map_length, seq_length; exact Hk).
  rewrite (map_nth (fun m => Indexed v [Fixed m]) (seq 0 n) 0 k), seq_nth by exact Hk. reflexivity.
Qed.

(* [v[0,:], v[1,:], ...] -> v : the k-th entry must be as_tensor(v[k, jj_k], jj_k) with exactly the
   trailing indices, in order, distinct, and not free in v *)
Definition ct_row (v : expr) (k : nat) (jj : list (nat * nat)) : expr :=
  ComponentTensor (Indexed v (Fixed k :: map Free (ids jj))) jj.

Theorem C05_list_tensor_ct_partial v (rows : list (list (nat * nat))) k c :
  k < length rows ->
  (forall jj, In jj rows -> NoDup (ids jj) /\ (forall j, In j (ids jj) -> indep v j)) ->
  length c = length (nth k rows []) ->
  forall s rho,
    DEN s rho (ListTensor (map (fun p => ct_row v (fst p) (snd p)) (combine (seq 0 (length rows)) rows))) (k :: c)
    = DEN s rho v (k :: c).
Proof.
  intros Hk H L s rho. cbn [den].
  assert (Hlen : length (combine (seq 0 (length rows)) rows) = length rows)
    by (rewrite combine_length, seq_length; lia).
  rewrite nth_den_nth by (rewrite map_length, Hlen; exact Hk).
  rewrite (nth_indep _ _ (ct_row v 0 [])) by (rewrite map_length, Hlen; exact Hk).
  rewrite (map_nth (fun p => ct_row v (fst p) (snd p)) _ (0, []) k).
  rewrite combine_nth by (rewrite seq_length; reflexivity).
  rewrite seq_nth by exact Hk. simpl fst. simpl snd. unfold ct_row. cbn [den map idxval].
  destruct (H (nth k rows []) (nth_In rows [] Hk)) as [N I].
  rewrite upds_indep by exact I. rewrite map_map.
  rewrite (map_ext _ (upds rho (nth k rows []) c)) by (intros; reflexivity).
  rewrite (upds_read _ rho c N L). reflexivity.
Qed.

(* --- Conditional.__new__ ------------------------------------------------------------------ *)
Definition mk_conditional (c : cond) (t f : expr) : expr :=
  if expr_eq_dec t f then t else Conditional c t f.

Theorem C05_conditional_sound c t f :
  (forall (b : B A) (x : A), kcond b x x = x) ->
  shape (mk_conditional c t f) = shape (Conditional c t f) /\
  fidx (mk_conditional c t f) = fidx (Conditional c t f) /\
  forall s rho cc, DEN s rho (mk_conditional c t f) cc = DEN s rho (Conditional c t f) cc.
Proof.
  intros H. unfold mk_conditional. destruct (expr_eq_dec t f) as [->|]; repeat split; auto.
  intros. cbn [den]. rewrite H. reflexivity.
Qed.

End Index.

(* ------------------------------------------------------------------------------------------ *)
(* Part F: executable models of the recursive constructors (used by the structural             *)
(* correspondence with the implementation, tie T3, and by Props/C05_findings.v)                *)

Section Exec.
Variable le : expr -> expr -> bool.
Variable ffold : nat -> expr -> expr -> expr.
(* which of the repairs of the known findings the modelled tree contains (the check detects this by
   probing the implementation; the theorems of Props/C05_rec.v hold for every value of the flags):
   fx_is: IndexSum._simplify_indexed refuses a multiindex that contains the summation index;
   fx_ct: ComponentTensor._simplify_indexed uses rep.get(kk[0]) instead of rep[kk[0]];
   fx_lt: ListTensor.__new__ requires each row to bind exactly its trailing indices *)
Variables fx_is fx_ct fx_lt : bool.
(* fx_cn: ComponentTensor.__new__ keeps as_tensor(A[ii], ii) when A has one of the ii as a free index
          (/repo a0002a9);  fx_at: the same guard in the function as_tensor();
   fx_cs: ComponentTensor._simplify_indexed re-indexes C / selects a list-tensor entry only when C does not
          depend on the bound indices *)
Variables fx_cn fx_at fx_cs : bool.

Fixpoint mk_index_sum (fuel : nat) (a : expr) (i d : nat) : option expr :=
  match fuel with
  | O => None
  | S fuel' =>
      if negb (mem i (ids (fidx a))) then None      (* fi.index(j.count()) raises *)
      else match a with
           | Zero sh fi => Some (Zero sh (fi_remove i fi))
           | Product x y =>
               if negb (mem i (ids (fidx x))) then
                 match mk_index_sum fuel' y i d with
                 | Some y' => mk_product le ffold x y' | None => None end
               else if negb (mem i (ids (fidx y))) then
                 match mk_index_sum fuel' x i d with
                 | Some x' => mk_product le ffold y x' | None => None end
               else Some (IndexSum a i d)
           | _ => Some (IndexSum a i d)
           end
  end.

Definition all_in (jj : list (nat * nat)) (kk : list idx) : bool :=
  forallb (fun p => mi_has (fst p) kk) jj.

Fixpoint mk_indexed (fuel : nat) (a : expr) (mi : list idx) : option expr :=
  match fuel with
  | O => None
  | S fuel' =>
    match mi with
    | [] => Some a
    | m0 :: mi' =>
      match a with
      | Zero sh fi => Some (Zero [] (fi_merge fi (mi_free mi sh)))
      | Sum x y =>
          match mk_indexed fuel' x mi, mk_indexed fuel' y mi with
          | Some x', Some y' => mk_sum le ffold x' y'
          | _, _ => None
          end
      | IndexSum x i d =>
          if fx_is && mi_has i mi then Some (Indexed a mi)
          else match mk_indexed fuel' x mi with
               | Some x' => mk_index_sum fuel' x' i d
               | None => None
               end
      | ListTensor es =>
          match m0 with
          | Fixed k => match nth_error es k with
                       | Some sub => mk_indexed fuel' sub mi'
                       | None => None
                       end
          | Free _ => Some (Indexed a mi)
          end
      | ComponentTensor B jj =>
          if negb (Nat.eqb (length mi) (length jj)) then None
          else
            let st :=
              match B with
              | Indexed (ListTensor es) [kx] =>
                  match kx with
                  | Free k =>
                      match lookup k jj mi None with
                      | None => if fx_ct then Some (B, jj, mi) else None   (* KeyError: rep[kk[0]] *)
                      | Some (Fixed n) =>
                          if fx_cs && mem k (ids (fidx (ListTensor es))) then Some (B, jj, mi) else
                          match nth_error es n with
                          | Some sub =>
                              let jj' := filter (fun p => negb (Nat.eqb (fst p) k)) jj in
                              Some (sub, jj', map (fun p => subst_idx jj mi (Free (fst p))) jj')
                          | None => None
                          end
                      | Some (Free _) => Some (B, jj, mi)
                      end
                  | Fixed _ => if fx_ct then Some (B, jj, mi) else None
                  end
              | _ => Some (B, jj, mi)
              end in
            match st with
            | None => None
            | Some (B', jj', mi2) =>
                match B' with
                | Indexed C kk =>
                    if all_in jj' kk && (negb fx_cs || disjointb jj' (fidx C))
                    then mk_indexed fuel' C (map (subst_idx jj' mi2) kk)
                    else Some (Indexed a mi)
                | _ => Some (Indexed a mi)
                end
            end
      | _ => Some (Indexed a mi)
      end
    end
  end.

Definition ct_generic (a : expr) (jj : list (nat * nat)) : option expr :=
  if forallb (fun p => mem (fst p) (ids (fidx a))) jj && (if shape_eq_dec (shape a) [] then true else false)
  then Some (ComponentTensor a jj) else None.

Definition mk_component_tensor (a : expr) (jj : list (nat * nat)) : option expr :=
  match a with
  | Zero _ fi =>
      if forallb (fun p => mem (fst p) (ids fi)) jj
      then Some (Zero (map snd jj) (fold_left (fun acc p => fi_remove (fst p) acc) jj fi)) else None
  | Indexed A0 ii =>
      if (if mi_eq_dec ii (map Free (ids jj)) then true else false) && (negb fx_cn || disjointb jj (fidx A0))
      then Some A0 else ct_generic a jj
  | _ => ct_generic a jj
  end.

(* the function as_tensor(expr, indices) has its own copy of the shortcut *)
Definition mk_as_tensor (a : expr) (jj : list (nat * nat)) : option expr :=
  match jj with
  | [] => Some a
  | _ => match a with
         | Indexed A0 ii =>
             if (if mi_eq_dec ii (map Free (ids jj)) then true else false) && (negb fx_at || disjointb jj (fidx A0))
             then Some A0 else mk_component_tensor a jj
         | _ => mk_component_tensor a jj
         end
  end.

(* ListTensor.__new__ (the shortcut "[v[j,0],...,v[j,n-1]] -> v[j,:]" only for j = ()) *)
Definition base_of (e : expr) : option (expr * list idx) :=
  match e with Indexed v mi => Some (v, mi) | _ => None end.
Definition ct_base_of (e : expr) : option (expr * list idx) :=
  match e with ComponentTensor (Indexed v mi) _ => Some (v, mi) | _ => None end.

Definition same_base (get : expr -> option (expr * list idx)) (es : list expr) : option expr :=
  match es with
  | e0 :: _ =>
      match get e0 with
      | Some (v, _) =>
          if forallb (fun e => match get e with
                               | Some (w, _) => if expr_eq_dec v w then true else false
                               | None => false end) es
          then Some v else None
      | None => None
      end
  | [] => None
  end.

Definition lt_shortcut_indexed (es : list expr) : option expr :=
  match same_base base_of es with
  | Some v =>
      if Nat.eqb (last (shape v) 0) (length es) &&
         forallb (fun p => match base_of (snd p) with
                           | Some (_, [Fixed m]) => Nat.eqb m (fst p)
                           | _ => false end) (combine (seq 0 (length es)) es)
      then Some v else None
  | None => None
  end.

Definition free_ids (mi : list idx) : list nat :=
  flat_map (fun x => match x with Free j => [j] | Fixed _ => [] end) mi.
Fixpoint nodupb (l : list nat) : bool :=
  match l with [] => true | x :: t => negb (mem x t) && nodupb t end.
(* the guard added by the repair: the row binds exactly its trailing indices, in order, each once, and
   none of them is free in the indexed tensor *)
Definition lt_row_exact (v e : expr) : bool :=
  match e with
  | ComponentTensor (Indexed _ (_ :: rest)) jj =>
      (if mi_eq_dec rest (map Free (ids jj)) then true else false) && nodupb (free_ids rest) &&
      forallb (fun j => negb (mem j (ids (fidx v)))) (free_ids rest)
  | _ => false
  end.

Definition lt_shortcut_ct (es : list expr) : option expr :=
  match same_base ct_base_of es with
  | Some v =>
      if Nat.eqb (hd 0 (shape v)) (length es) &&
         forallb (fun p => match ct_base_of (snd p) with
                           | Some (_, Fixed m :: rest) =>
                               Nat.eqb m (fst p) &&
                               forallb (fun x => match x with Free _ => true | Fixed _ => false end) rest &&
                               (negb fx_lt || lt_row_exact v (snd p))
                           | _ => false end) (combine (seq 0 (length es)) es)
      then Some v else None
  | None => None
  end.

Definition mk_list_tensor (es : list expr) : option expr :=
  match es with
  | [] => None
  | e0 :: _ =>
      if forallb (fun e => (if shape_eq_dec (shape e) (shape e0) then true else false) &&
                           (if fi_eq_dec (fidx e) (fidx e0) then true else false)) es
      then
        if forallb is_zero es then Some (Zero (length es :: shape e0) (fidx e0))
        else match lt_shortcut_indexed es with
             | Some v => Some v
             | None => match lt_shortcut_ct es with
                       | Some v => Some v
                       | None => Some (ListTensor es)
                       end
             end
      else None
  end.

(* the guard that is missing in ListTensor.__new__: each row's index tuple is exactly the tuple of
   trailing indices of its Indexed operand *)
Definition lt_ct_exact (es : list expr) : bool :=
  forallb (fun e => match e with
                    | ComponentTensor (Indexed _ (_ :: rest)) jj =>
                        if mi_eq_dec rest (map Free (ids jj)) then true else false
                    | _ => false end) es.

End Exec.

(* comparison modulo the operand order of Sum and Product (decided by ufl/sorting.py, C29) *)
Fixpoint zlist_cmp (a b : list Z) : comparison :=
  match a, b with
  | [], [] => Eq | [], _ => Lt | _, [] => Gt
  | x :: a', y :: b' => match Z.compare x y with Eq => zlist_cmp a' b' | c => c end
  end.
Definition zn (n : nat) : Z := Z.of_nat n.
Definition key_mi (mi : list idx) : list Z :=
  flat_map (fun x => match x with Fixed n => [0%Z; zn n] | Free i => [1%Z; zn i] end) mi.
Definition key_fi (l : list (nat * nat)) : list Z := flat_map (fun p => [zn (fst p); zn (snd p)]) l.
Fixpoint ekey (e : expr) : list Z :=
  (match e with
   | Zero sh fi => 1 :: zn (length sh) :: map zn sh ++ key_fi fi
   | IntV z => [2; z]
   | RealV m x => [3; m; x]
   | RatV p q => [4; p; Zpos q]
   | Term k id sh => 5 :: zn k :: zn id :: map zn sh
   | Sum a b => 6 :: ekey a ++ ekey b
   | Product a b => 7 :: ekey a ++ ekey b
   | Division a b => 8 :: ekey a ++ ekey b
   | Power a b => 9 :: ekey a ++ ekey b
   | Abs a => 10 :: ekey a
   | Conj a => 11 :: ekey a
   | Real a => 12 :: ekey a
   | Imag a => 13 :: ekey a
   | Indexed a mi => 14 :: zn (length mi) :: key_mi mi ++ ekey a
   | IndexSum a i d => 15 :: zn i :: zn d :: ekey a
   | ComponentTensor a ix => 16 :: zn (length ix) :: key_fi ix ++ ekey a
   | ListTensor es => 17 :: zn (length es) :: (fix go (l : list expr) := match l with [] => [] | x :: t => ekey x ++ go t end) es
   | _ => [99]
   end)%Z.
Fixpoint canon (e : expr) : expr :=
  match e with
  | Sum a b => let a' := canon a in let b' := canon b in
               match zlist_cmp (ekey a') (ekey b') with Gt => Sum b' a' | _ => Sum a' b' end
  | Product a b => let a' := canon a in let b' := canon b in
               match zlist_cmp (ekey a') (ekey b') with Gt => Product b' a' | _ => Product a' b' end
  | Division a b => Division (canon a) (canon b)
  | Power a b => Power (canon a) (canon b)
  | Abs a => Abs (canon a) | Conj a => Conj (canon a) | Real a => Real (canon a) | Imag a => Imag (canon a)
  | Indexed a mi => Indexed (canon a) mi
  | IndexSum a i d => IndexSum (canon a) i d
  | ComponentTensor a ix => ComponentTensor (canon a) ix
  | ListTensor es => ListTensor (map canon es)
  | Conditional c t f => Conditional c (canon t) (canon f)
  | _ => e
  end.
Definition le_any (a b : expr) : bool := true.
Definition ff_none (op : nat) (a b : expr) : expr := a.
Definition same_modc (r : option expr) (out : expr) : bool :=
  match r with Some e => if expr_eq_dec (canon e) (canon out) then true else false | None => false end.

Print Assumptions C05_sum_sound.
Print Assumptions C05_product_sound.
Print Assumptions C05_division_sound.
Print Assumptions C05_power_sound.
Print Assumptions C05_abs_sound.
Print Assumptions C05_abs_fixed_sound.
Print Assumptions C05_conj_sound.
Print Assumptions C05_real_sound.
Print Assumptions C05_imag_sound.
Print Assumptions C05_indexed_zero.
Print Assumptions C05_indexed_sum.
Print Assumptions C05_indexed_list_tensor.
Print Assumptions C05_indexed_index_sum_partial.
Print Assumptions C05_index_sum_zero.
Print Assumptions C05_index_sum_factor.
Print Assumptions C05_indexed_ct_partial.
Print Assumptions C05_indexed_ct_list_tensor.
Print Assumptions C05_component_tensor_zero.
Print Assumptions C05_component_tensor_indexed.
Print Assumptions C05_list_tensor_indexed.
Print Assumptions C05_list_tensor_ct_partial.
Print Assumptions C05_conditional_sound.
