(* C26 - the cell ordering on the UNION of the cell classes (Cell and TensorProductCell).
   AbstractCell.__lt__: cells of different classes are ordered by class name; cells of the same class by
   topological dimension and then by the class's _lt (Cell: cell name; TensorProductCell: the tuple of the
   factors' hash data, i.e. the list of factor names, compared like Python tuples).  Proved for ALL keys
   (class name, tdim, list of names): this relation is a strict total order. *)
Require Import List Bool Arith Lia.
Require Import UFLV.Props.C26_model.
Import ListNotations.

Section Lex.
  Variable A : Type.
  Variables ltb eqb : A -> A -> bool.
  Hypothesis eqb_eq : forall a b, eqb a b = true <-> a = b.
  Hypothesis ltb_irrefl : forall a, ltb a a = false.
  Hypothesis ltb_trans : forall a b c, ltb a b = true -> ltb b c = true -> ltb a c = true.
  Hypothesis ltb_total : forall a b, a <> b -> ltb a b = true \/ ltb b a = true.

  (* Python's tuple < tuple (and str < str): lexicographic, a proper prefix is smaller *)
  Fixpoint lex (a b : list A) : bool :=
    match a, b with
    | [], [] => false
    | [], _ :: _ => true
    | _ :: _, [] => false
    | x :: a', y :: b' => if ltb x y then true else if eqb x y then lex a' b' else false
    end.

  Lemma eqb_refl a : eqb a a = true.
  Proof. apply eqb_eq. reflexivity. Qed.

  Lemma lex_irrefl a : lex a a = false.
  Proof. induction a as [|x a IH]; cbn [lex]; auto. rewrite ltb_irrefl, eqb_refl. exact IH. Qed.

  Lemma lex_trans a b c : lex a b = true -> lex b c = true -> lex a c = true.
  Proof.
    revert b c; induction a as [|x a IH]; intros [|y b] [|z c]; cbn [lex]; try congruence; auto.
    destruct (ltb x y) eqn:Lxy.
    - intros _. destruct (ltb y z) eqn:Lyz.
      + intros _. rewrite (ltb_trans _ _ _ Lxy Lyz). reflexivity.
      + destruct (eqb y z) eqn:Eyz; [|congruence]. apply eqb_eq in Eyz. subst z. rewrite Lxy. reflexivity.
    - destruct (eqb x y) eqn:Exy; [|congruence]. apply eqb_eq in Exy. subst y.
      intros Hab. destruct (ltb x z) eqn:Lxz; [reflexivity|].
      destruct (eqb x z) eqn:Exz; [|congruence]. intros Hbc. eapply IH; eassumption.
  Qed.

  Lemma lex_total a b : a <> b -> lex a b = true \/ lex b a = true.
  Proof.
    revert b; induction a as [|x a IH]; intros [|y b] H; cbn [lex]; auto; try congruence.
    destruct (ltb x y) eqn:Lxy; auto. destruct (ltb y x) eqn:Lyx; auto.
    destruct (eqb x y) eqn:Exy.
    - apply eqb_eq in Exy. subst y. rewrite eqb_refl. apply IH. congruence.
    - exfalso. assert (x <> y) as N by (intros E; apply eqb_eq in E; congruence).
      destruct (ltb_total _ _ N); congruence.
  Qed.

  Lemma lex_asym a b : lex a b = true -> lex b a = false.
  Proof.
    intros H. destruct (lex b a) eqn:E; auto.
    pose proof (lex_trans _ _ _ H E) as T. rewrite lex_irrefl in T. discriminate.
  Qed.
End Lex.

(* tuples of names *)
Definition lname_ltb : list name -> list name -> bool := lex name name_ltb name_eqb.

Lemma lname_irrefl a : lname_ltb a a = false.
Proof. unfold lname_ltb. apply lex_irrefl; [apply name_eqb_eq | apply name_ltb_irrefl]. Qed.
Lemma lname_trans a b c : lname_ltb a b = true -> lname_ltb b c = true -> lname_ltb a c = true.
Proof. unfold lname_ltb. apply lex_trans; [apply name_eqb_eq | apply name_ltb_trans]. Qed.
Lemma lname_total a b : a <> b -> lname_ltb a b = true \/ lname_ltb b a = true.
Proof. unfold lname_ltb. apply lex_total; [apply name_eqb_eq | apply name_ltb_total]. Qed.

(* key of a cell of any class: class name, topological dimension, list of (factor) names *)
Definition ckey := (name * (nat * list name))%type.
Definition kcls (k : ckey) := fst k.
Definition kdim (k : ckey) := fst (snd k).
Definition kdat (k : ckey) := snd (snd k).

Definition all_ltb (a b : ckey) : bool :=
  if name_eqb (kcls a) (kcls b)
  then (if negb (Nat.eqb (kdim a) (kdim b)) then Nat.ltb (kdim a) (kdim b) else lname_ltb (kdat a) (kdat b))
  else name_ltb (kcls a) (kcls b).

Lemma name_eqb_refl a : name_eqb a a = true.
Proof. apply name_eqb_eq. reflexivity. Qed.

Theorem C26_all_lt_irrefl k : all_ltb k k = false.
Proof. unfold all_ltb. rewrite name_eqb_refl, Nat.eqb_refl. cbn. apply lname_irrefl. Qed.

Theorem C26_all_lt_trans a b c : all_ltb a b = true -> all_ltb b c = true -> all_ltb a c = true.
Proof.
  destruct a as [ca [da na]], b as [cb [db nb]], c as [cc [dc nc]]; unfold all_ltb, kcls, kdim, kdat; cbn [fst snd].
  destruct (name_eqb ca cb) eqn:Eab.
  - apply name_eqb_eq in Eab. subst cb.
    destruct (name_eqb ca cc) eqn:Eac.
    + destruct (Nat.eqb_spec da db), (Nat.eqb_spec db dc), (Nat.eqb_spec da dc); cbn [negb];
      rewrite ?Nat.ltb_lt; try lia; try apply lname_trans; try (intros; exfalso; lia).
    + intros _ H. exact H.
  - intros Hab. destruct (name_eqb cb cc) eqn:Ebc.
    + apply name_eqb_eq in Ebc. subst cc. rewrite Eab. intros _. exact Hab.
    + intros Hbc. pose proof (name_ltb_trans _ _ _ Hab Hbc) as T.
      destruct (name_eqb ca cc) eqn:Eac; [|exact T].
      apply name_eqb_eq in Eac. subst cc. rewrite name_ltb_irrefl in T. discriminate.
Qed.

Theorem C26_all_lt_total a b : a <> b -> all_ltb a b = true \/ all_ltb b a = true.
Proof.
  destruct a as [ca [da na]], b as [cb [db nb]]; unfold all_ltb, kcls, kdim, kdat; cbn [fst snd]. intros H.
  destruct (name_eqb ca cb) eqn:Eab.
  - apply name_eqb_eq in Eab. subst cb. rewrite name_eqb_refl.
    destruct (Nat.eqb_spec da db), (Nat.eqb_spec db da); cbn [negb]; rewrite ?Nat.ltb_lt; try lia.
    subst. apply lname_total. congruence.
  - assert (ca <> cb) as N by (intros E; apply name_eqb_eq in E; congruence).
    destruct (name_eqb cb ca) eqn:Eba; [apply name_eqb_eq in Eba; congruence|].
    apply name_ltb_total. exact N.
Qed.

Theorem C26_all_lt_asym a b : all_ltb a b = true -> all_ltb b a = false.
Proof.
  intros H. destruct (all_ltb b a) eqn:E; auto.
  pose proof (C26_all_lt_trans _ _ _ H E) as T. rewrite C26_all_lt_irrefl in T. discriminate.
Qed.

(* restricted to one class it is the order of C26_model *)
Lemma C26_all_lt_same_class cls d1 n1 d2 n2 :
  all_ltb (cls, (d1, [n1])) (cls, (d2, [n2])) = cell_ltb (d1, n1) (d2, n2).
Proof.
  unfold all_ltb, cell_ltb, kcls, kdim, kdat; cbn [fst snd]. rewrite name_eqb_refl.
  destruct (negb (Nat.eqb d1 d2)); [reflexivity|].
  unfold lname_ltb; cbn [lex]. destruct (name_ltb n1 n2); [reflexivity|]. destruct (name_eqb n1 n2); reflexivity.
Qed.

Print Assumptions C26_all_lt_trans.
Print Assumptions C26_all_lt_total.
