(* C05 - refutations: the guards of the *_partial theorems of Props/C05_model.v cannot be dropped.
   The models are faithful to the unchanged tree (the structural correspondence of py/props/C05.py
   compares them with the implementation on these very witnesses), and on the witnesses below the
   model -- like the implementation -- returns an expression that differs from the requested
   operation in shape, free indices or value, or fails on a well-formed request.
   The models take the repair flags fx_is / fx_ct / fx_lt (Props/C05_model.v): the refutations are about
   the unrepaired tree (flags false); the *_repaired examples show that with the flags set -- the
   behaviour of the fix commits, which the check detects on the implementation -- the same witnesses
   yield the raw request. *)
Require Import UFLV.Core.Den.
Require Import UFLV.Props.C05_model.

Definition T3 : expr := Term 0 0 [2; 2; 2].
Definition M2 : expr := Term 0 1 [2; 2].
Definition V2 : expr := Term 0 2 [2].

(* 1. ListTensor.__new__ "[v[0,:], v[1,:]] -> v" with permuted / partial component-tensor indices *)
Definition row (k : nat) (jj : list (nat * nat)) : expr :=
  ComponentTensor (Indexed T3 [Fixed k; Free 0; Free 1]) jj.
Definition lt_perm : list expr := [row 0 [(1, 2); (0, 2)]; row 1 [(1, 2); (0, 2)]].
Definition lt_part : list expr := [row 0 [(0, 2)]; row 1 [(0, 2)]].

Theorem C05_list_tensor_ct_refuted_shape :
  exists es e, mk_list_tensor false es = Some e /\ lt_ct_exact es = false /\
               shape e <> shape (ListTensor es) /\ fidx e <> fidx (ListTensor es).
Proof. exists lt_part, T3. repeat split; try reflexivity; discriminate. Qed.

Section Values.
Variable A : ualg.
Add Field AfC05f : (kfield A).
Ltac nrm H := cbv -[K k0 k1 kadd kmul ksub kopp kdiv kinv] in H.

Theorem C05_list_tensor_ct_refuted_value :
  exists es e, mk_list_tensor false es = Some e /\ lt_ct_exact es = false /\
               shape e = shape (ListTensor es) /\ fidx e = fidx (ListTensor es) /\
    ~ (forall env D DX ki s rho c, @den A env D DX ki s rho e c = @den A env D DX ki s rho (ListTensor es) c).
Proof.
  exists lt_perm, T3. repeat split; try reflexivity.
  intros H.
  specialize (H (fun _ _ _ c => match c with [0; 0; 1] => k1 | _ => k0 end)
                (fun _ x => x) (fun _ x => x) k0 None (fun _ => 0) [0; 0; 1]).
  nrm H. exact (F_1_neq_0 (kfield A) H).
Qed.

(* 2. IndexSum._simplify_indexed: Indexed(IndexSum(as_tensor(M[i,k],(k,)), i), (i,)), i = 0, k = 1 *)
Definition is1 : expr := IndexSum (ComponentTensor (Indexed M2 [Free 0; Free 1]) [(1, 2)]) 0 2.

Theorem C05_indexed_index_sum_refuted :
  exists a mi e, mk_indexed le_any ff_none false false false 10 a mi = Some e /\
                 fidx e <> fidx (Indexed a mi).
Proof. exists is1, [Free 0], (IndexSum (Indexed M2 [Free 0; Free 0]) 0 2). split; [reflexivity|discriminate]. Qed.

Theorem C05_indexed_index_sum_refuted_value :
  exists a mi e, mk_indexed le_any ff_none false false false 10 a mi = Some e /\
    ~ (forall env D DX ki s rho, @den A env D DX ki s rho e [] = @den A env D DX ki s rho (Indexed a mi) []).
Proof.
  exists is1, [Free 0], (IndexSum (Indexed M2 [Free 0; Free 0]) 0 2). split; [reflexivity|].
  intros H.
  specialize (H (fun _ _ _ c => match c with [1; 0] => k1 | _ => k0 end)
                (fun _ x => x) (fun _ x => x) k0 None (fun _ => 0)).
  nrm H. apply (F_1_neq_0 (kfield A)).
  transitivity (ksub (kadd (kadd (k0 : A) k0) k1) (kadd k0 k0)); [ring|]. rewrite <- H. ring.
Qed.

End Values.

(* 3. ComponentTensor._simplify_indexed: as_tensor(L[m],(j,))[0], L = ListTensor(v[j], 2*v[j]), j = 0, m = 1 *)
Definition lt4 : expr := ListTensor [Indexed V2 [Free 0]; Product (IntV 2) (Indexed V2 [Free 0])].
Definition ctk : expr := ComponentTensor (Indexed lt4 [Free 1]) [(0, 2)].

Theorem C05_indexed_ct_keyerror_refuted :
  exists a mi, mk_indexed le_any ff_none false false false 10 a mi = None /\
               length mi = length (shape a) /\ shape (Indexed a mi) = [] /\ fidx (Indexed a mi) = [(1, 2)].
Proof. exists ctk, [Fixed 0]. repeat split. Qed.

Example C05_list_tensor_ct_repaired :
  mk_list_tensor true lt_perm = Some (ListTensor lt_perm) /\ mk_list_tensor true lt_part = Some (ListTensor lt_part).
Proof. split; reflexivity. Qed.
Example C05_indexed_index_sum_repaired :
  mk_indexed le_any ff_none true true true 10 is1 [Free 0] = Some (Indexed is1 [Free 0]).
Proof. reflexivity. Qed.
Example C05_indexed_ct_keyerror_repaired :
  mk_indexed le_any ff_none true true true 10 ctk [Fixed 0] = Some (Indexed ctk [Fixed 0]).
Proof. reflexivity. Qed.

(* 4. binder shortcuts applied to an operand that DEPENDS on the bound index ("diagonal" Indexed nodes, as
      produced e.g. by index renaming passes).  L = ListTensor(v[i], w[i]) has the free index i = 0. *)
Definition W2 : expr := Term 0 3 [2].
Definition ltd : expr := ListTensor [Indexed V2 [Free 0]; Indexed W2 [Free 0]].
Definition cltd : expr := Conj ltd.

(* 4a. as_tensor(L[i], (i,)) -> L : ComponentTensor.__new__ before /repo a0002a9 (fx_cn = false), and still
       the function as_tensor() (fx_at = false): free index i appears although it is bound *)
Theorem C05_component_tensor_dependent_refuted :
  exists a jj e, mk_component_tensor false a jj = Some e /\ fidx e <> fidx (ComponentTensor a jj).
Proof. exists (Indexed ltd [Free 0]), [(0, 2)], ltd. split; [reflexivity|discriminate]. Qed.
Theorem C05_as_tensor_dependent_refuted :
  exists a jj e, mk_as_tensor true false a jj = Some e /\ fidx e <> fidx (ComponentTensor a jj).
Proof. exists (Indexed ltd [Free 0]), [(0, 2)], ltd. split; [reflexivity|discriminate]. Qed.
Example C05_component_tensor_dependent_repaired :
  mk_component_tensor true (Indexed ltd [Free 0]) [(0, 2)] = Some (ComponentTensor (Indexed ltd [Free 0]) [(0, 2)]) /\
  mk_as_tensor true true (Indexed ltd [Free 0]) [(0, 2)] = Some (ComponentTensor (Indexed ltd [Free 0]) [(0, 2)]).
Proof. split; reflexivity. Qed.

(* 4b. ComponentTensor._simplify_indexed: as_tensor(C[i], (i,))[0] -> C[0] although C depends on i, and the
       ListTensor pre-step selects the entry v[i] and forgets to substitute i := 0 in it *)
Definition ctd : expr := ComponentTensor (Indexed cltd [Free 0]) [(0, 2)].
Definition ctd2 : expr := ComponentTensor (Indexed ltd [Free 0]) [(0, 2)].
Theorem C05_indexed_ct_dependent_refuted :
  exists a mi e, mk_indexed le_any ff_none true true false 10 a mi = Some e /\ fidx (Indexed a mi) = [] /\ fidx e <> [].
Proof. exists ctd, [Fixed 0], (Indexed cltd [Fixed 0]). repeat split; discriminate. Qed.
Theorem C05_indexed_ct_prestep_dependent_refuted :
  exists a mi e, mk_indexed le_any ff_none true true false 10 a mi = Some e /\ fidx (Indexed a mi) = [] /\ fidx e <> [].
Proof. exists ctd2, [Fixed 0], (Indexed V2 [Free 0]). repeat split; discriminate. Qed.
Example C05_indexed_ct_dependent_repaired :
  mk_indexed le_any ff_none true true true 10 ctd [Fixed 0] = Some (Indexed ctd [Fixed 0]) /\
  mk_indexed le_any ff_none true true true 10 ctd2 [Fixed 0] = Some (Indexed ctd2 [Fixed 0]).
Proof. split; reflexivity. Qed.

Print Assumptions C05_list_tensor_ct_refuted_shape.
Print Assumptions C05_list_tensor_ct_refuted_value.
Print Assumptions C05_indexed_index_sum_refuted.
Print Assumptions C05_indexed_index_sum_refuted_value.
Print Assumptions C05_indexed_ct_keyerror_refuted.
Print Assumptions C05_component_tensor_dependent_refuted.
Print Assumptions C05_as_tensor_dependent_refuted.
Print Assumptions C05_indexed_ct_dependent_refuted.
Print Assumptions C05_indexed_ct_prestep_dependent_refuted.
