(* C03 - Spatial derivatives are lowered to exact derivatives of terminals.

   Hand-written part.  [Grad] denotes an arbitrary family of functions D j : K -> K (Core/Den.v).
   This file shows, for EVERY UFL algebra and EVERY family D of derivations that satisfy the chain-rule
   laws listed as Section hypotheses, that the differentiation rules of GradRuleset compose to the
   exact derivative:

     dj g j e        the j-th partial derivative of a scalar-valued expression e (the rules of
                     GenericDerivativeRuleset/GradRuleset read component-wise: sum, product, quotient,
                     power (literal and general exponent), math functions, abs, conj/real/imag,
                     conditional, min/max, atan2, indexed terminals and indexed Grad^k(terminal),
                     index sums, variables, restrictions, literals, constants, x, Identity)
     grad_model g e  the gradient [dj 0 e; ...; dj (g-1) e]
     AD e            apply_derivatives on expressions whose derivative nodes are (e').dx(j),
                     arbitrarily nested

   C03_dj_sound, C03_grad_sound, C03_AD_value hold for ALL expressions (outside the modelled fragment
   the model leaves the derivative node in place, which is trivially value preserving);
   C03_dj_normal / C03_AD_normal_form show that inside the scalar fragment [sfrag] the result has
   derivatives applied to terminals only ([grad_normal], the same boolean that the per-run traces
   of the real apply_derivatives are checked with). *)
Require Import UFLV.Core.Den.

(* ------------------------------------------------------------------------------------------- *)
(* normal form: derivatives act on terminals only *)

Fixpoint is_gradk_term (e : expr) : bool :=
  match e with Term _ _ _ => true | Grad a _ => is_gradk_term a | _ => false end.
Fixpoint is_refgradk_term (e : expr) : bool :=
  match e with
  | Term _ _ _ => true
  | RefValue (Term _ _ _) _ => true
  | RefGrad a _ => is_refgradk_term a
  | _ => false
  end.

Fixpoint grad_normal (e : expr) : bool :=
  match e with
  | Zero _ _ | IntV _ | RealV _ _ | CplxV _ _ _ _ | RatV _ _ | Identity _ | PermSym _ | Term _ _ _ => true
  | Grad a _ => is_gradk_term a
  | RefGrad a _ => is_refgradk_term a
  | Div _ _ | NablaGrad _ _ | NablaDiv _ _ | Curl _ => false
  | Sum a b | Product a b | Division a b | Power a b | MinV a b | MaxV a b | Atan2 a b
  | Bessel _ a b | Outer a b | Inner a b | Dot a b | Cross a b => grad_normal a && grad_normal b
  | Abs a | Conj a | Real a | Imag a | Indexed a _ | IndexSum a _ _ | ComponentTensor a _
  | Math _ a | Vari a _ | Restricted _ a | RefValue a _ | Transposed a | Perp a | Trace a
  | Determinant a | Inverse a | Cofactor a | Deviatoric a | Skew a | Sym a => grad_normal a
  | ListTensor es => (fix all (l : list expr) := match l with [] => true | x :: t => grad_normal x && all t end) es
  | Conditional c t f => cond_normal c && grad_normal t && grad_normal f
  end
with cond_normal (c : cond) : bool :=
  match c with
  | Cmp _ a b => grad_normal a && grad_normal b
  | AndC a b | OrC a b => cond_normal a && cond_normal b
  | NotC a => cond_normal a
  end.

(* ------------------------------------------------------------------------------------------- *)
(* the model of the differentiation rules *)

Definition KX : nat := 10.          (* terminal kind of SpatialCoordinate (py/ufl2coq.py) *)

Definition sign_e (a : expr) : expr :=
  Conditional (Cmp CEQ (Real a) (IntV 0)) (IntV 0)
              (Conditional (Cmp CLT (Real a) (IntV 0)) (IntV (-1)) (IntV 1)).

(* f'(a) for the math functions, as UFL expressions *)
Definition dmath (f : mathfn) (a : expr) : option expr :=
  match f with
  | FSqrt => Some (Division (IntV 1) (Product (IntV 2) (Math FSqrt a)))
  | FExp => Some (Math FExp a)
  | FLn => Some (Division (IntV 1) a)
  | FCos => Some (Product (IntV (-1)) (Math FSin a))
  | FSin => Some (Math FCos a)
  | FTan => Some (Division (IntV 2) (Sum (Math FCos (Product (IntV 2) a)) (IntV 1)))
  | FCosh => Some (Math FSinh a)
  | FSinh => Some (Math FCosh a)
  | FTanh => Some (Power (Division (Product (IntV 2) (Math FCosh a))
                                   (Sum (Math FCosh (Product (IntV 2) a)) (IntV 1))) (IntV 2))
  | FAcos => Some (Division (IntV (-1)) (Math FSqrt (Sum (IntV 1) (Product (IntV (-1)) (Power a (IntV 2))))))
  | FAsin => Some (Division (IntV 1) (Math FSqrt (Sum (IntV 1) (Product (IntV (-1)) (Power a (IntV 2))))))
  | FAtan => Some (Division (IntV 1) (Sum (IntV 1) (Power a (IntV 2))))
  | FErf => None         (* the literal 2/sqrt(pi) is a rounded float: covered by the traces only *)
  end.

Section Model.
Variable cst : nat -> nat -> bool.     (* terminals (kind, id) that are constant on each cell *)
Variable g : nat.                      (* geometric dimension *)

Definition is_lit (e : expr) : bool :=
  match e with IntV _ | RealV _ _ | RatV _ _ | CplxV _ _ _ _ => true | _ => false end.

Fixpoint dj (j : nat) (e : expr) {struct e} : expr :=
  let fallback := Indexed (Grad e g) [Fixed j] in
  match e with
  | Zero sh fi => Zero sh fi
  | IntV _ | RealV _ _ | RatV _ _ | CplxV _ _ _ _ | Identity _ | PermSym _ => Zero [] []
  | Term k id sh => if cst k id then Zero [] [] else fallback
  | Indexed a mi =>
      match a with
      | Term k id sh =>
          if cst k id then Zero [] (mi_free mi sh)
          else if Nat.eqb k KX && Nat.eqb (length mi) 1 then Indexed (Identity g) (mi ++ [Fixed j])
          else Indexed (Grad a g) (mi ++ [Fixed j])
      | Identity _ => Zero [] (mi_free mi (shape a))
      | _ => Indexed (Grad a g) (mi ++ [Fixed j])
      end
  | Sum a b => Sum (dj j a) (dj j b)
  | Product a b => Sum (Product (dj j a) b) (Product a (dj j b))
  | Division a b => Division (Sum (dj j a) (Product (IntV (-1)) (Product (Division a b) (dj j b)))) b
  | Power a b =>
      match b with
      | IntV (Zpos p) => Product (Product (dj j a) (IntV (Zpos p))) (Power a (IntV (Zpos p - 1)))
      | _ => Product (Power a (Sum b (IntV (-1))))
                     (Sum (Product b (dj j a)) (Product (Product a (Math FLn a)) (dj j b)))
      end
  | Abs a => Product (sign_e a) (dj j a)
  | Conj a => Conj (dj j a)
  | Real a => Real (dj j a)
  | Imag a => Imag (dj j a)
  | IndexSum a i d => IndexSum (dj j a) i d
  | Conditional c t f => Conditional c (dj j t) (dj j f)
  | MaxV a b =>
      let dc := Conditional (Cmp CGT a b) (IntV 1) (IntV 0) in
      Sum (Product dc (dj j a)) (Product (Sum (IntV 1) (Product (IntV (-1)) dc)) (dj j b))
  | MinV a b =>
      let dc := Conditional (Cmp CLT a b) (IntV 1) (IntV 0) in
      Sum (Product dc (dj j a)) (Product (Sum (IntV 1) (Product (IntV (-1)) dc)) (dj j b))
  | Math f a => match dmath f a with Some d => Product (dj j a) d | None => fallback end
  | Atan2 a b =>
      Division (Sum (Product b (dj j a)) (Product (IntV (-1)) (Product a (dj j b))))
               (Sum (Product a a) (Product b b))
  | Vari a _ => dj j a
  | Restricted p a => Restricted p (dj j a)
  | _ => fallback
  end.

Definition grad_model (e : expr) : expr := ListTensor (map (fun j => dj j e) (seq 0 g)).

(* apply_derivatives on expressions whose derivative nodes are  (e').dx(j) = Indexed (Grad e' g) [Fixed j] *)
Fixpoint AD (e : expr) {struct e} : expr :=
  match e with
  | Indexed a mi =>
      match a, mi with
      | Grad a' _, [Fixed j] => dj j (AD a')
      | _, _ => e
      end
  | Sum a b => Sum (AD a) (AD b)
  | Product a b => Product (AD a) (AD b)
  | Division a b => Division (AD a) (AD b)
  | Power a b => Power (AD a) (AD b)
  | Abs a => Abs (AD a)
  | Conj a => Conj (AD a)
  | Real a => Real (AD a)
  | Imag a => Imag (AD a)
  | IndexSum a i d => IndexSum (AD a) i d
  | Conditional c t f => Conditional c (AD t) (AD f)
  | MaxV a b => MaxV (AD a) (AD b)
  | MinV a b => MinV (AD a) (AD b)
  | Math f a => Math f (AD a)
  | Atan2 a b => Atan2 (AD a) (AD b)
  | Vari a l => Vari (AD a) l
  | Restricted p a => Restricted p (AD a)
  | _ => e
  end.

Lemma dj_not_IntV j e z : dj j e <> IntV z.
Proof.
  induction e; cbn [dj]; try discriminate; try assumption.
  - destruct (cst k id); discriminate.
  - destruct e2; try discriminate. destruct z0; discriminate.
  - destruct e; try discriminate.
    destruct (cst k id); [discriminate|]. destruct (Nat.eqb k KX && Nat.eqb (length mi) 1); discriminate.
  - destruct (dmath f e); discriminate.
Qed.

Lemma AD_IntV e z : AD e = IntV z -> e = IntV z.
Proof.
  destruct e; cbn [AD]; try discriminate; try (intros H; exact H).
  destruct e; try (intros H; exact H). destruct mi as [|[jj|ii] [|]]; try (intros H; exact H).
  intros H. exfalso. exact (dj_not_IntV _ _ _ H).
Qed.

(* ------------------------------------------------------------------------------------------- *)
(* the scalar fragment on which the rules reach normal form *)
Fixpoint sfrag (e : expr) : bool :=
  match e with
  | Zero _ _ | IntV _ | RealV _ _ | CplxV _ _ _ _ | RatV _ _ | Identity _ | PermSym _ | Term _ _ _ => true
  | Indexed a _ =>
      match a with Term _ _ _ | Identity _ => true | Grad a' _ => is_gradk_term a' | _ => false end
  | Sum a b | Product a b | Division a b | Power a b | MinV a b | MaxV a b | Atan2 a b => sfrag a && sfrag b
  | Abs a | Conj a | Real a | Imag a | IndexSum a _ _ | Vari a _ | Restricted _ a => sfrag a
  | Math f a => (match f with FErf => false | _ => true end) && sfrag a
  | Conditional c t f => cond_normal c && sfrag t && sfrag f
  | _ => false
  end.

(* expressions with nested (.).dx(j) on which AD reaches normal form *)
Fixpoint afrag (e : expr) : bool :=
  match e with
  | Zero _ _ | IntV _ | RealV _ _ | CplxV _ _ _ _ | RatV _ _ | Identity _ | PermSym _ | Term _ _ _ => true
  | Indexed a mi =>
      match a, mi with
      | Grad a' _, [Fixed _] => afrag a'
      | _, _ => sfrag e
      end
  | Sum a b | Product a b | Division a b | Power a b | MinV a b | MaxV a b | Atan2 a b => afrag a && afrag b
  | Abs a | Conj a | Real a | Imag a | IndexSum a _ _ | Vari a _ | Restricted _ a => afrag a
  | Math f a => (match f with FErf => false | _ => true end) && afrag a
  | Conditional c t f => cond_normal c && afrag t && afrag f
  | _ => false
  end.

Ltac bsplit :=
  repeat match goal with
         | H : _ && _ = true |- _ => apply andb_prop in H; destruct H
         | |- _ && _ = true => apply andb_true_intro; split
         end.

Lemma sfrag_normal e : sfrag e = true -> grad_normal e = true.
Proof.
  induction e; cbn [sfrag grad_normal]; intros H; try discriminate; try reflexivity; bsplit; auto.
  destruct e; try discriminate; try reflexivity. cbn [grad_normal]. exact H.
Qed.

Lemma dmath_sfrag f a d : dmath f a = Some d -> sfrag a = true -> sfrag d = true.
Proof.
  destruct f; cbn [dmath]; intros E Ha; inversion E; subst; cbn [sfrag]; rewrite ?Ha; reflexivity.
Qed.

Lemma dj_sfrag j e : sfrag e = true -> sfrag (dj j e) = true.
Proof.
  induction e; cbn [sfrag dj]; intros H; try discriminate; try reflexivity; bsplit.
  all: try (cbn [sfrag]; bsplit; auto; fail).
  - (* Term *) destruct (cst k id); reflexivity.
  - (* Power *)
    assert (G : sfrag (Product (Power e1 (Sum e2 (IntV (-1))))
                  (Sum (Product e2 (dj j e1)) (Product (Product e1 (Math FLn e1)) (dj j e2)))) = true).
    { cbn [sfrag]. rewrite IHe1, IHe2 by assumption. rewrite H, H0. reflexivity. }
    destruct e2; try exact G. destruct z; try exact G.
    cbn [sfrag]. rewrite IHe1 by assumption. rewrite H. reflexivity.
  - (* Abs: sign *) cbn [sfrag sign_e cond_normal grad_normal].
    rewrite (sfrag_normal e H). reflexivity.
  - (* Indexed *)
    destruct e; try discriminate.
    + reflexivity.
    + destruct (cst k id); [reflexivity|].
      destruct (Nat.eqb k KX && Nat.eqb (length mi) 1); reflexivity.
    + cbn [sfrag is_gradk_term]. exact H.
  - cbn [cond_normal]. rewrite (sfrag_normal _ H), (sfrag_normal _ H0). reflexivity.
  - cbn [cond_normal]. rewrite (sfrag_normal _ H), (sfrag_normal _ H0). reflexivity.
  - cbn [cond_normal]. rewrite (sfrag_normal _ H), (sfrag_normal _ H0). reflexivity.
  - cbn [cond_normal]. rewrite (sfrag_normal _ H), (sfrag_normal _ H0). reflexivity.
  - (* Math *) destruct (dmath f e) as [d|] eqn:Ed.
    + cbn [sfrag]. rewrite IHe by assumption. rewrite (dmath_sfrag _ _ _ Ed H0). reflexivity.
    + destruct f; try discriminate Ed. discriminate H.
Qed.

(* Normal form of the rule set: inside the scalar fragment every derivative in the result acts on a
   terminal (Grad^k of a terminal) *)
Theorem C03_dj_normal : forall j e, sfrag e = true -> grad_normal (dj j e) = true.
Proof. intros j e H. apply sfrag_normal, dj_sfrag, H. Qed.

Lemma AD_sfrag_aux : forall e,
  (afrag e = true -> sfrag (AD e) = true) /\
  (match e with Grad e' _ => afrag e' = true -> sfrag (AD e') = true | _ => True end).
Proof.
  induction e; (split; [|exact I || idtac]); try (cbn [afrag AD sfrag]; intros H; discriminate || exact H).
  all: try (destruct IHe as [IHe IHe']).
  all: try (destruct IHe1 as [IHe1 _]; destruct IHe2 as [IHe2 _]).
  all: try (cbn [afrag AD sfrag]; intros H; bsplit; auto; fail).
  - (* Indexed *)
    cbn [afrag AD]. destruct e; try (intros H; exact H).
    destruct mi as [|[jj|ii] [|? ?]]; try (intros H; exact H).
    intros H. apply dj_sfrag. apply IHe'. exact H.
Qed.

(* Normal form of apply_derivatives (model) for arbitrarily nested .dx(j) *)
Theorem C03_AD_normal_form : forall e, afrag e = true -> grad_normal (AD e) = true.
Proof. intros e H. apply sfrag_normal. apply (proj1 (AD_sfrag_aux e)), H. Qed.

(* ------------------------------------------------------------------------------------------- *)
(* soundness in every differential algebra *)
Section Sound.
Variable A : ualg.
Add Field AfC03 : (kfield A).
Open Scope K_scope.
Variable env : side -> nat -> nat -> list nat -> A.
Variable D DX : nat -> A -> A.
Variable ki : A.
Notation den := (@den A env D DX ki).

(* D j is a derivation: additive, Leibniz, quotient rule, commutes with conj/re/im/conditionals *)
Hypothesis HD : forall j, Derivation (D j).
(* chain rule for the math functions *)
Definition kdfn (f : mathfn) (x : A) : A :=
  match f with
  | FSqrt => of_Z 1 / (of_Z 2 * kfn FSqrt x)
  | FExp => kfn FExp x
  | FLn => of_Z 1 / x
  | FCos => of_Z (-1) * kfn FSin x
  | FSin => kfn FCos x
  | FTan => of_Z 2 / (kfn FCos (of_Z 2 * x) + of_Z 1)
  | FCosh => kfn FSinh x
  | FSinh => kfn FCosh x
  | FTanh => kpown (of_Z 2 * kfn FCosh x / (kfn FCosh (of_Z 2 * x) + of_Z 1)) 2
  | FAcos => of_Z (-1) / kfn FSqrt (of_Z 1 + of_Z (-1) * kpown x 2)
  | FAsin => of_Z 1 / kfn FSqrt (of_Z 1 + of_Z (-1) * kpown x 2)
  | FAtan => of_Z 1 / (of_Z 1 + kpown x 2)
  | FErf => k0
  end.
Hypothesis Hfn : forall j f x, f <> FErf -> D j (kfn f x) = D j x * kdfn f x.
(* power rule (general exponent), and derivatives of abs / max / min / atan2 where they exist *)
Hypothesis Hpow : forall j x y,
  D j (kpow x y) = kpow x (y + of_Z (-1)) * (y * D j x + x * kfn FLn x * D j y).
Definition ksign (x : A) : A :=
  kcond (bcmp CEQ (kre x) (of_Z 0)) (of_Z 0) (kcond (bcmp CLT (kre x) (of_Z 0)) (of_Z (-1)) (of_Z 1)).
Hypothesis Habs : forall j x, D j (kabs x) = ksign x * D j x.
Hypothesis Hmax : forall j x y, D j (kmax x y) =
  kcond (bcmp CGT x y) (of_Z 1) (of_Z 0) * D j x
  + (of_Z 1 + of_Z (-1) * kcond (bcmp CGT x y) (of_Z 1) (of_Z 0)) * D j y.
Hypothesis Hmin : forall j x y, D j (kmin x y) =
  kcond (bcmp CLT x y) (of_Z 1) (of_Z 0) * D j x
  + (of_Z 1 + of_Z (-1) * kcond (bcmp CLT x y) (of_Z 1) (of_Z 0)) * D j y.
Hypothesis Hatan2 : forall j x y, D j (katan2 x y) = (y * D j x + of_Z (-1) * (x * D j y)) / (x * x + y * y).
Hypothesis Hki : forall j, D j ki = k0.
(* geometry: cellwise constant terminals, and dx_i/dx_j = delta_ij *)
Hypothesis Hcst : forall s k id c j, cst k id = true -> D j (env s k id c) = k0.
Hypothesis Hx : forall s id i j, D j (env s KX id [i]) = if Nat.eqb i j then k1 else k0.

Lemma split_last_app (c : list nat) j : split_last (c ++ [j]) = (c, j).
Proof. unfold split_last. rewrite removelast_last, last_last. reflexivity. Qed.

Lemma den_grad_app s rho a gg c j : den s rho (Grad a gg) (c ++ [j]) = D j (den s rho a c).
Proof. cbn [Den.den]. rewrite split_last_app. reflexivity. Qed.

Lemma den_indexed_grad s rho a gg mi j :
  den s rho (Indexed (Grad a gg) (mi ++ [Fixed j])) [] = D j (den s rho (Indexed a mi) []).
Proof. cbn [Den.den]. rewrite map_app. cbn [map idxval]. rewrite split_last_app. reflexivity. Qed.

Lemma den_fallback s rho e j : den s rho (Indexed (Grad e g) [Fixed j]) [] = D j (den s rho e []).
Proof. reflexivity. Qed.

Lemma D_ofZ j z : D j (of_Z z) = k0. Proof. apply (d_of_Z A (D j) z (HD j)). Qed.
Lemma D_ofpos j p : D j (of_pos p) = k0. Proof. apply (d_of_pos A (D j) p (HD j)). Qed.
Lemma D_add j x y : D j (x + y) = D j x + D j y. Proof. apply (d_add A (D j) (HD j)). Qed.
Lemma D_mul j x y : D j (x * y) = D j x * y + x * D j y. Proof. apply (d_mul A (D j) (HD j)). Qed.
Lemma D_div j x y : D j (x / y) = (D j x - (x / y) * D j y) / y. Proof. apply (d_div A (D j) (HD j)). Qed.
Lemma D_zero j : D j k0 = k0. Proof. apply (d_zero A (D j) (HD j)). Qed.
Lemma D_one j : D j k1 = k0. Proof. apply (d_one A (D j) (HD j)). Qed.
Lemma div_zero_l (y : A) : k0 / y = k0.
Proof. rewrite (Fdiv_def (kfield A)). ring. Qed.

Lemma D_kdyad j m e : D j (kdyad m e) = k0.
Proof.
  destruct e; unfold kdyad.
  - apply D_ofZ.
  - rewrite D_mul, D_ofZ, D_ofpos. ring.
  - rewrite D_div, D_ofZ, D_ofpos.
    replace (k0 - of_Z m / of_pos (2 ^ p) * k0) with (k0 : A) by ring. apply div_zero_l.
Qed.

Lemma D_kpown j x n : D j (kpown x (S n)) = of_Z (Z.of_nat (S n)) * kpown x n * D j x.
Proof.
  induction n as [|n IH].
  - cbn [kpown Z.of_nat Pos.of_succ_nat of_Z of_pos]. rewrite D_mul, D_one. ring.
  - change (kpown x (S (S n))) with (x * kpown x (S n)).
    rewrite D_mul, IH.
    replace (of_Z (Z.of_nat (S (S n)))) with (of_Z (Z.of_nat (S n)) + k1 : A).
    + cbn [kpown]. ring.
    + cbn [Z.of_nat of_Z]. change (Pos.of_succ_nat (S n)) with (Pos.succ (Pos.of_succ_nat n)).
      rewrite <- Pos.add_1_r, of_pos_add. reflexivity.
Qed.

Lemma den_dmath s rho f a d : dmath f a = Some d -> den s rho d [] = kdfn f (den s rho a []).
Proof. destruct f; cbn [dmath]; intros E; inversion E; subst; reflexivity. Qed.

Lemma dmath_not_erf f a d : dmath f a = Some d -> f <> FErf.
Proof. destruct f; cbn [dmath]; intros E; discriminate. Qed.

Ltac lits := rewrite ?D_ofZ, ?D_ofpos, ?D_zero, ?D_one.

Theorem C03_dj_sound : forall e s rho j, den s rho (dj j e) [] = D j (den s rho e []).
Proof.
  induction e; intros s rho j; cbn [dj].
  all: try (reflexivity).
  - (* Zero *) cbn [Den.den]. symmetry; apply D_zero.
  - (* IntV *) cbn [Den.den]. symmetry; apply D_ofZ.
  - (* RealV *) cbn [Den.den]. symmetry; apply D_kdyad.
  - (* CplxV *) cbn [Den.den]. rewrite D_add, D_mul, !D_kdyad, Hki. ring.
  - (* RatV *) cbn [Den.den]. rewrite D_div, D_ofZ, D_ofpos.
    replace (k0 - of_Z p / of_pos q * k0) with (k0 : A) by ring. symmetry; apply div_zero_l.
  - (* Identity *) cbn [Den.den]. symmetry; apply D_zero.
  - (* PermSym *) cbn [Den.den]. unfold perm_sign. cbn. symmetry; apply D_one.
  - (* Term *) destruct (cst k id) eqn:Ec; [|reflexivity].
    cbn [Den.den]. symmetry. apply Hcst, Ec.
  - (* Sum *) cbn [Den.den]. rewrite IHe1, IHe2, D_add. reflexivity.
  - (* Product *) cbn [Den.den]. rewrite IHe1, IHe2, D_mul. ring.
  - (* Division *) cbn [Den.den]. rewrite IHe1, IHe2, D_div.
    f_equal. cbn [of_Z of_pos]. ring.
  - (* Power *)
    destruct e2; try (cbn [Den.den]; rewrite Hpow, IHe1, IHe2; cbn [Den.den]; ring).
    destruct z as [|p|p].
    + cbn [Den.den]. rewrite IHe1, IHe2. cbn [Den.den]. rewrite D_one. lits. cbn [of_Z of_pos]. ring.
    + cbn [Den.den]. rewrite IHe1.
      destruct (Pos2Nat.is_succ p) as [n Hn]. rewrite Hn, D_kpown.
      assert (Hz : (Z.pos p - 1)%Z = Z.of_nat n) by lia.
      rewrite Hz. rewrite <- Hn, positive_nat_Z.
      destruct n as [|n]; cbn [Z.of_nat]; [cbn [kpown]; ring|].
      rewrite SuccNat2Pos.id_succ. ring.
    + cbn [Den.den]. rewrite Hpow, IHe1, IHe2. cbn [Den.den]. ring.
  - (* Abs *) cbn [Den.den]. rewrite IHe, Habs. reflexivity.
  - (* Conj *) cbn [Den.den]. rewrite IHe. symmetry; apply (d_conj A (D j) (HD j)).
  - (* Real *) cbn [Den.den]. rewrite IHe. symmetry; apply (d_re A (D j) (HD j)).
  - (* Imag *) cbn [Den.den]. rewrite IHe. symmetry; apply (d_im A (D j) (HD j)).
  - (* Indexed *)
    destruct e; try apply den_indexed_grad.
    + (* Identity *) cbn [Den.den].
      destruct (map (idxval rho) mi) as [|a [|b [|? ?]]]; try (symmetry; apply D_zero).
      destruct (Nat.eqb a b); symmetry; [apply D_one | apply D_zero].
    + (* Term *) destruct (cst k id) eqn:Ec.
      * cbn [Den.den]. symmetry. apply Hcst, Ec.
      * destruct (Nat.eqb k KX && Nat.eqb (length mi) 1) eqn:Ex; [|apply den_indexed_grad].
        apply andb_prop in Ex. destruct Ex as [Ek El].
        apply Nat.eqb_eq in Ek. apply Nat.eqb_eq in El. subst k.
        destruct mi as [|i [|? ?]]; try discriminate.
        cbn [Den.den app map]. rewrite Hx. reflexivity.
  - (* IndexSum *) cbn [Den.den]. rewrite (d_ksum A (D j) d _ (HD j)).
    apply ksum_ext. intros k _. apply IHe.
  - (* Conditional *) cbn [Den.den]. rewrite IHe1, IHe2. symmetry; apply (d_cond A (D j) (HD j)).
  - (* MinV *) cbn [Den.den]. rewrite IHe1, IHe2, Hmin. reflexivity.
  - (* MaxV *) cbn [Den.den]. rewrite IHe1, IHe2, Hmax. reflexivity.
  - (* Math *) destruct (dmath f e) as [d|] eqn:Ed; [|reflexivity].
    cbn [Den.den]. rewrite IHe, (den_dmath _ _ _ _ _ Ed), Hfn by (exact (dmath_not_erf _ _ _ Ed)). reflexivity.
  - (* Atan2 *) cbn [Den.den]. rewrite IHe1, IHe2, Hatan2. reflexivity.
  - (* Vari *) cbn [Den.den]. apply IHe.
  - (* Restricted *) cbn [Den.den]. apply IHe.
Qed.

Lemma nth_den_map s rho (f : nat -> expr) n a j : j < n ->
  (fix nth_den (l : list expr) (k : nat) {struct l} : A :=
     match l, k with
     | [], _ => k0
     | e0 :: _, O => den s rho e0 []
     | _ :: t, S k' => nth_den t k'
     end) (map f (seq a n)) j = den s rho (f (a + j)%nat) [].
Proof.
  revert a j. induction n as [|n IH]; intros a j Hj; [lia|].
  cbn [seq map]. destruct j as [|j].
  - rewrite Nat.add_0_r. reflexivity.
  - rewrite IH by lia. f_equal. f_equal. lia.
Qed.

(* the gradient assembled from the directional derivatives denotes Grad *)
Theorem C03_grad_sound : forall e s rho j, j < g ->
  den s rho (grad_model e) [j] = den s rho (Grad e g) [j].
Proof.
  intros e s rho j Hj. unfold grad_model. cbn [Den.den].
  rewrite (nth_den_map s rho (fun j => dj j e) g 0 j Hj). cbn [Nat.add split_last removelast last].
  apply C03_dj_sound.
Qed.

(* apply_derivatives (model) preserves the value: arbitrarily nested .dx(j) *)
Lemma AD_value_aux : forall e,
  (forall s rho, den s rho (AD e) [] = den s rho e []) /\
  (match e with Grad e' _ => forall s rho, den s rho (AD e') [] = den s rho e' [] | _ => True end).
Proof.
  induction e; (split; [|exact I || idtac]); try (intros s rho; cbn [AD]; reflexivity).
  all: try (destruct IHe as [IHe IHe']).
  all: try (destruct IHe1 as [IHe1 _]; destruct IHe2 as [IHe2 _]).
  all: intros s rho; cbn [AD].
  - cbn [Den.den]. rewrite IHe1, IHe2. reflexivity.
  - cbn [Den.den]. rewrite IHe1, IHe2. reflexivity.
  - cbn [Den.den]. rewrite IHe1, IHe2. reflexivity.
  - (* Power: the exponent is a literal integer after AD iff it was one before *)
    cbn [Den.den]. rewrite IHe1.
    destruct (AD e2) eqn:E2.
    all: try (apply AD_IntV in E2; subst e2; reflexivity).
    all: rewrite <- E2; rewrite <- IHe2; rewrite E2.
    all: destruct e2; try reflexivity.
    all: cbn [AD] in E2; try discriminate E2.
  - cbn [Den.den]. rewrite IHe. reflexivity.
  - cbn [Den.den]. rewrite IHe. reflexivity.
  - cbn [Den.den]. rewrite IHe. reflexivity.
  - cbn [Den.den]. rewrite IHe. reflexivity.
  - (* Indexed *)
    destruct e; try reflexivity. destruct mi as [|[jj|ii] [|? ?]]; try reflexivity.
    rewrite C03_dj_sound. cbn [Den.den map idxval split_last removelast last]. f_equal. apply IHe'.
  - cbn [Den.den]. apply ksum_ext. intros k _. apply IHe.
  - cbn [Den.den]. rewrite IHe1, IHe2. reflexivity.
  - cbn [Den.den]. rewrite IHe1, IHe2. reflexivity.
  - cbn [Den.den]. rewrite IHe1, IHe2. reflexivity.
  - cbn [Den.den]. rewrite IHe. reflexivity.
  - cbn [Den.den]. rewrite IHe1, IHe2. reflexivity.
  - cbn [Den.den]. apply IHe.
  - cbn [Den.den]. apply IHe.
  - (* Grad: second component *) apply IHe.
Qed.

Theorem C03_AD_value : forall e s rho, den s rho (AD e) [] = den s rho e [].
Proof. intros e. apply (proj1 (AD_value_aux e)). Qed.
End Sound.
End Model.

Print Assumptions C03_dj_sound.
Print Assumptions C03_grad_sound.
Print Assumptions C03_AD_value.
Print Assumptions C03_dj_normal.
Print Assumptions C03_AD_normal_form.

(* the model at work: d/dx_1 d/dx_0 (f * h) and d/dx_0 (sin(x_0) / f), with every derivative on a terminal *)
Definition ex_f := Term 0 0 [].
Definition ex_h := Term 0 1 [].
Definition ex_x := Term KX 0 [2].
Definition ex1 := Indexed (Grad (Indexed (Grad (Product ex_f ex_h) 2) [Fixed 0]) 2) [Fixed 1].
Definition ex2 := Indexed (Grad (Division (Math FSin (Indexed ex_x [Fixed 0])) ex_f) 2) [Fixed 0].
Example C03_ex1_frag : afrag ex1 = true /\ afrag ex2 = true. Proof. split; reflexivity. Qed.
Example C03_ex1_normal : grad_normal (AD (fun _ _ => false) 2 ex1) = true. Proof. reflexivity. Qed.
Example C03_ex1_result : AD (fun _ _ => false) 2 ex1 =
  Sum (Sum (Product (Indexed (Grad (Grad ex_f 2) 2) [Fixed 0; Fixed 1]) ex_h)
           (Product (Indexed (Grad ex_f 2) [Fixed 0]) (Indexed (Grad ex_h 2) [Fixed 1])))
      (Sum (Product (Indexed (Grad ex_f 2) [Fixed 1]) (Indexed (Grad ex_h 2) [Fixed 0]))
           (Product ex_f (Indexed (Grad (Grad ex_h 2) 2) [Fixed 0; Fixed 1]))).
Proof. reflexivity. Qed.
Example C03_ex2_normal : grad_normal (AD (fun _ _ => false) 2 ex2) = true. Proof. reflexivity. Qed.
Check C03_dj_sound.
Check C03_AD_value.
