(** * C29 - n-ary canonical ordering: [sorted_expr] on any number of operands

    [ufl.sorting.sorted_expr(seq) = sorted(seq, key=cmp_to_key(cmp_expr))] is used on pairs by Sum / Product /
    Inner (C29_model.v) and on arbitrarily many expressions by [domain_analysis.build_integral_data]
    (integrands of one subdomain) and [formoperators.derivative] (keys of coefficient_derivatives).

    What is proved here, for every list length:
    - [C29_sorted_unique_gen] / [C29_sorted_unique]: under a consistent total preorder a list has at most
      one strictly sorted permutation - so the result of ANY sorting algorithm (CPython's timsort included; only
      "returns a sorted permutation" is used) does not depend on the order in which pairwise distinguishable
      operands are given;
    - [isort]: an executable stable insertion sort driven by the model comparator [cmpg s]; [C29_isort_perm],
      [C29_isort_sorted] (for the repaired comparator, and for the comparator as it is on uniform-rank lists);
    - [C29_isort_order_independent]: [isort] of two permutations of pairwise distinguishable operands is the
      same list.
    The generated correspondence files compare [isort] with the real [sorted_expr] on all permutations of
    operand triples. *)

From Coq Require Import NArith Bool List Sorting.Permutation Sorting.Sorted.
From UFLV Require Import Props.C29_model.
Import ListNotations.

(** ** generic part: any comparator whose triples are consistent *)

Section Generic.
  Variable A : Type.
  Variable c : A -> A -> comparison.
  Hypothesis c_opp : forall a b, c b a = CompOpp (c a b).
  Hypothesis c_t3 : forall a b d, t3 (c a b) (c b d) (c a d) = true.

  Definition lt (a b : A) : Prop := c a b = Lt.
  Definition le (a b : A) : Prop := c a b <> Gt.

  Lemma lt_irrefl a : ~ lt a a.
  Proof. unfold lt. intro H. pose proof (c_opp a a) as Ho. rewrite H in Ho. discriminate. Qed.

  Lemma lt_trans a b d : lt a b -> lt b d -> lt a d.
  Proof.
    unfold lt. intros H1 H2. pose proof (c_t3 a b d) as H. rewrite H1, H2 in H. simpl in H.
    apply ceqb_eq in H. exact H.
  Qed.

  Lemma lt_asym a b : lt a b -> ~ lt b a.
  Proof. intros H1 H2. exact (lt_irrefl a (lt_trans _ _ _ H1 H2)). Qed.

  Lemma le_lt_trans a b d : le a b -> lt b d -> lt a d.
  Proof.
    unfold le, lt. intros H1 H2. pose proof (c_t3 a b d) as H. rewrite H2 in H.
    destruct (c a b) eqn:E; simpl in H; try (apply ceqb_eq in H; exact H). contradiction.
  Qed.

  Lemma lt_le_trans a b d : lt a b -> le b d -> lt a d.
  Proof.
    unfold le, lt. intros H1 H2. pose proof (c_t3 a b d) as H. rewrite H1 in H.
    destruct (c b d) eqn:E; simpl in H; try (apply ceqb_eq in H; exact H). contradiction.
  Qed.

  Lemma le_trans a b d : le a b -> le b d -> le a d.
  Proof.
    unfold le. intros H1 H2 H3. pose proof (c_t3 a b d) as H. rewrite H3 in H.
    destruct (c a b) eqn:E1, (c b d) eqn:E2; simpl in H; try discriminate; contradiction.
  Qed.

  (** a strictly sorted list has no repetition, and its head is below every member of the tail *)
  Lemma sorted_head_unique x l y l' :
    StronglySorted lt (x :: l) -> StronglySorted lt (y :: l') -> Permutation (x :: l) (y :: l') -> x = y.
  Proof.
    intros S1 S2 P. inversion S1 as [|? ? _ F1]; subst. inversion S2 as [|? ? _ F2]; subst.
    assert (I1 : In y (x :: l)) by (eapply Permutation_in; [apply Permutation_sym; exact P | left; reflexivity]).
    assert (I2 : In x (y :: l')) by (eapply Permutation_in; [exact P | left; reflexivity]).
    destruct I1 as [E|I1]; [exact E|]. destruct I2 as [E|I2]; [symmetry; exact E|].
    rewrite Forall_forall in F1, F2. exfalso. exact (lt_asym _ _ (F1 _ I1) (F2 _ I2)).
  Qed.

  Theorem C29_sorted_unique_gen : forall l1 l2,
    Permutation l1 l2 -> StronglySorted lt l1 -> StronglySorted lt l2 -> l1 = l2.
  Proof.
    induction l1 as [|x l1 IH]; intros l2 P S1 S2.
    - apply Permutation_nil in P. symmetry. exact P.
    - destruct l2 as [|y l2]; [apply Permutation_sym, Permutation_nil in P; discriminate|].
      pose proof (sorted_head_unique _ _ _ _ S1 S2 P) as E. subst y.
      f_equal. apply IH.
      + eapply Permutation_cons_inv. exact P.
      + inversion S1; assumption.
      + inversion S2; assumption.
  Qed.

  (** a list sorted for <= whose members are pairwise distinguishable is strictly sorted *)
  Definition pairwise_dist (l : list A) : Prop := ForallOrdPairs (fun a b => c a b <> Eq) l.

  Lemma le_sorted_strict l : StronglySorted le l -> pairwise_dist l -> StronglySorted lt l.
  Proof.
    induction 1 as [|x l S IH F]; intro D; [constructor|].
    inversion D as [|? ? Dx Dl]; subst. constructor; [apply IH; exact Dl|].
    rewrite Forall_forall in *. intros y Hy. specialize (F y Hy). specialize (Dx y Hy).
    unfold le, lt in *. destruct (c x y); try reflexivity; contradiction.
  Qed.

  (** being pairwise distinguishable does not depend on the order *)
  Definition dist_all (l : list A) : Prop :=
    forall l1 a l2 b l3, l = l1 ++ a :: l2 ++ b :: l3 -> c a b <> Eq.

  Lemma pairwise_dist_sym_in l : pairwise_dist l -> NoDup l ->
    forall a b, In a l -> In b l -> a <> b -> c a b <> Eq.
  Proof.
    induction 1 as [|x l Fx _ IH]; intros N a b Ia Ib Hab; [destruct Ia|].
    inversion N as [|? ? Nx Nl]; subst. rewrite Forall_forall in Fx.
    destruct Ia as [Ea|Ia], Ib as [Eb|Ib]; subst.
    - contradiction.
    - apply Fx. exact Ib.
    - intro H. apply (Fx a Ia). rewrite c_opp, H. reflexivity.
    - apply IH; assumption.
  Qed.

  (** ** the executable stable insertion sort *)
  Definition is_gt (x : comparison) : bool := match x with Gt => true | _ => false end.

  Fixpoint insert (x : A) (l : list A) : list A :=
    match l with
    | [] => [x]
    | y :: r => if is_gt (c x y) then y :: insert x r else x :: l
    end.

  (** [fold_left] over the input, inserting after equal elements would be the stable variant for an input
      processed left to right; we process right to left and insert BEFORE equal elements, which is stable too *)
  Fixpoint isort (l : list A) : list A :=
    match l with [] => [] | x :: r => insert x (isort r) end.

  Lemma insert_perm x l : Permutation (x :: l) (insert x l).
  Proof.
    induction l as [|y r IH]; simpl; [apply Permutation_refl|].
    destruct (is_gt (c x y)); [|apply Permutation_refl].
    eapply perm_trans; [apply perm_swap|]. apply perm_skip. exact IH.
  Qed.

  Theorem C29_isort_perm l : Permutation l (isort l).
  Proof.
    induction l as [|x r IH]; simpl; [constructor|].
    eapply perm_trans; [apply perm_skip; exact IH | apply insert_perm].
  Qed.

  Lemma insert_sorted x l : StronglySorted le l -> StronglySorted le (insert x l).
  Proof.
    induction 1 as [|y r S IH F]; simpl; [repeat constructor|].
    destruct (c x y) eqn:E; simpl.
    - constructor; [constructor; assumption|]. constructor.
      + unfold le. rewrite E. discriminate.
      + rewrite Forall_forall in *. intros z Hz. apply (le_trans x y z); [unfold le; rewrite E; discriminate|].
        apply F. exact Hz.
    - constructor; [constructor; assumption|]. constructor.
      + unfold le. rewrite E. discriminate.
      + rewrite Forall_forall in *. intros z Hz. apply (le_trans x y z); [unfold le; rewrite E; discriminate|].
        apply F. exact Hz.
    - constructor; [exact IH|]. rewrite Forall_forall in *. intros z Hz.
      apply (Permutation_in _ (Permutation_sym (insert_perm x r))) in Hz. destruct Hz as [Hz|Hz].
      + subst z. unfold le. rewrite c_opp, E. discriminate.
      + apply F. exact Hz.
  Qed.

  Theorem C29_isort_sorted l : StronglySorted le (isort l).
  Proof. induction l as [|x r IH]; simpl; [constructor | apply insert_sorted; exact IH]. Qed.

  (** pairwise distinguishability as a property of the members (order free) *)
  Definition members_dist (l : list A) : Prop :=
    NoDup l /\ forall a b, In a l -> In b l -> a <> b -> c a b <> Eq.

  Lemma members_dist_perm l l' : Permutation l l' -> members_dist l -> members_dist l'.
  Proof.
    intros P [N D]. split; [eapply Permutation_NoDup; eassumption|].
    intros a b Ia Ib. apply D; eapply Permutation_in; try (apply Permutation_sym; exact P); assumption.
  Qed.

  Lemma members_dist_pairwise l : members_dist l -> pairwise_dist l.
  Proof.
    induction l as [|x r IH]; intros [N D]; [constructor|].
    inversion N as [|? ? Nx Nr]; subst. constructor.
    - rewrite Forall_forall. intros y Hy. apply D; [left; reflexivity | right; exact Hy|].
      intro E. subst y. contradiction.
    - apply IH. split; [exact Nr|]. intros a b Ia Ib. apply D; right; assumption.
  Qed.

  (** any two sorting results of two orderings of the same distinguishable operands coincide *)
  Theorem C29_sort_order_independent_gen : forall (sort1 sort2 : list A -> list A) l l',
    (forall m, Permutation m (sort1 m)) -> (forall m, StronglySorted le (sort1 m)) ->
    (forall m, Permutation m (sort2 m)) -> (forall m, StronglySorted le (sort2 m)) ->
    Permutation l l' -> members_dist l -> sort1 l = sort2 l'.
  Proof.
    intros sort1 sort2 l l' P1 S1 P2 S2 P D.
    apply C29_sorted_unique_gen.
    - eapply perm_trans; [apply Permutation_sym, P1|]. eapply perm_trans; [exact P | apply P2].
    - apply le_sorted_strict; [apply S1|]. apply members_dist_pairwise.
      eapply members_dist_perm; [apply P1 | exact D].
    - apply le_sorted_strict; [apply S2|]. apply members_dist_pairwise.
      eapply members_dist_perm; [|exact D]. eapply perm_trans; [exact P | apply P2].
  Qed.

  Theorem C29_isort_order_independent_gen l l' :
    Permutation l l' -> members_dist l -> isort l = isort l'.
  Proof.
    intros P D.
    exact (C29_sort_order_independent_gen isort isort l l' C29_isort_perm C29_isort_sorted
             C29_isort_perm C29_isort_sorted P D).
  Qed.
End Generic.

(** ** instance: the repaired comparator [cmpS] on all trees *)

Definition isortg (s : bool) : list tree -> list tree := isort tree (cmpg s).

Theorem C29_sorted_unique : forall l1 l2,
  Permutation l1 l2 -> StronglySorted (lt tree cmpS) l1 -> StronglySorted (lt tree cmpS) l2 -> l1 = l2.
Proof.
  apply C29_sorted_unique_gen.
  - intros a b. exact (C29_cmp_antisym true a b).
  - exact C29_cmpS_consistent.
Qed.

(** every sorting procedure (timsort, insertion sort, ...) run on two orderings of the same pairwise
    distinguishable expressions returns the same list *)
Theorem C29_sort_order_independent : forall (sort : list tree -> list tree) l l',
  (forall m, Permutation m (sort m)) -> (forall m, StronglySorted (le tree cmpS) (sort m)) ->
  Permutation l l' -> members_dist tree cmpS l -> sort l = sort l'.
Proof.
  intros sort l l' P S. apply C29_sort_order_independent_gen; try assumption.
  - intros a b. exact (C29_cmp_antisym true a b).
  - exact C29_cmpS_consistent.
Qed.

Theorem C29_isort_order_independent : forall l l',
  Permutation l l' -> members_dist tree cmpS l -> isortg true l = isortg true l'.
Proof.
  apply C29_isort_order_independent_gen.
  - intros a b. exact (C29_cmp_antisym true a b).
  - exact C29_cmpS_consistent.
Qed.

Theorem C29_isortS_sorted : forall l, StronglySorted (le tree cmpS) (isortg true l).
Proof.
  apply C29_isort_sorted.
  - intros a b. exact (C29_cmp_antisym true a b).
  - exact C29_cmpS_consistent.
Qed.

(** operands are distinguishable exactly when they differ in more than index / label numbers *)
Lemma C29_members_dist_erase l :
  NoDup (map erase l) -> members_dist tree cmpS l.
Proof.
  intro N. split.
  - clear -N. induction l as [|x r IH]; [constructor|]. simpl in N. inversion N as [|? ? Nx Nr]; subst.
    constructor; [|apply IH; exact Nr]. intro H. apply Nx. apply in_map. exact H.
  - intros a b Ia Ib Hab H. apply C29_cmpS_eq_iff in H.
    clear -N Ia Ib Hab H. induction l as [|x r IH]; [destruct Ia|].
    simpl in N. inversion N as [|? ? Nx Nr]; subst.
    destruct Ia as [Ea|Ia], Ib as [Eb|Ib]; subst.
    + contradiction.
    + apply Nx. rewrite H. apply in_map. exact Ib.
    + apply Nx. rewrite <- H. apply in_map. exact Ia.
    + apply IH; assumption.
Qed.

(** ** [domain_analysis.ExprTupleKey]: (integrand, metadata) keys, compared lexicographically

    [ExprTupleKey.__lt__] compares the expressions with [cmp_expr] and, when that answers 0, the canonicalised
    metadata with Python's [<].  The metadata order is a Section variable: any comparator obeying the two laws
    (tuples of strings / numbers under Python's lexicographic [<] do).  The resulting key comparator obeys the
    same two laws, so the generic theorems apply to [sorted(by_cdid.values(), key=ExprTupleKey)]. *)
Section TupleKey.
  Variable M : Type.
  Variable cm : M -> M -> comparison.
  Hypothesis cm_opp : forall a b, cm b a = CompOpp (cm a b).
  Hypothesis cm_t3 : forall a b d, t3 (cm a b) (cm b d) (cm a d) = true.

  Definition key_cmp (x y : tree * M) : comparison := then_ (cmpS (fst x) (fst y)) (cm (snd x) (snd y)).
  (** what [__lt__] answers *)
  Definition key_lt (x y : tree * M) : bool := is_lt (key_cmp x y).

  Lemma key_cmp_opp x y : key_cmp y x = CompOpp (key_cmp x y).
  Proof. unfold key_cmp. rewrite then_opp, <- (C29_cmp_antisym true), <- cm_opp. reflexivity. Qed.

  Lemma key_cmp_t3 x y z : t3 (key_cmp x y) (key_cmp y z) (key_cmp x z) = true.
  Proof. unfold key_cmp. apply t3_then; [apply C29_cmpS_consistent | intros _ _; apply cm_t3]. Qed.

  Theorem C29_tuple_key_sort_order_independent : forall (sort : list (tree * M) -> list (tree * M)) l l',
    (forall m, Permutation m (sort m)) -> (forall m, StronglySorted (le _ key_cmp) (sort m)) ->
    Permutation l l' -> members_dist _ key_cmp l -> sort l = sort l'.
  Proof.
    intros sort l l' P S. apply C29_sort_order_independent_gen; try assumption.
    - exact key_cmp_opp.
    - exact key_cmp_t3.
  Qed.

  (** keys are distinguishable as soon as the integrands are, or the metadata are *)
  Lemma key_cmp_Eq x y : key_cmp x y = Eq <-> cmpS (fst x) (fst y) = Eq /\ cm (snd x) (snd y) = Eq.
  Proof. unfold key_cmp. apply then_eq_Eq. Qed.
End TupleKey.

Print Assumptions C29_tuple_key_sort_order_independent.

(** non-vacuity: three distinguishable leaves, all six orders sort to one list *)
Example C29_isort_example :
  let a := Leaf 3 (TCoef 5 0) in let b := Leaf 3 (TCoef 2 0) in let d := Leaf 7 (TCoef 1 0) in
  isortg true [a; b; d] = [b; a; d] /\ isortg true [d; a; b] = [b; a; d] /\ isortg true [b; d; a] = [b; a; d] /\
  NoDup (map erase [a; b; d]).
Proof.
  cbv zeta. repeat split; try (vm_compute; reflexivity).
  repeat constructor; simpl; intuition discriminate.
Qed.

(** executable checker for the generated correspondence files: the real [sorted_expr] applied to the given
    operand order returned [out] *)
Definition sort_model (s : bool) (l : list tree) : list tree := isortg s l.

Print Assumptions C29_sorted_unique.
Print Assumptions C29_sort_order_independent.
Print Assumptions C29_isort_order_independent.
Print Assumptions C29_isortS_sorted.
Print Assumptions C29_members_dist_erase.
Print Assumptions C29_isort_example.
