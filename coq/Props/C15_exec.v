(* C15, executable instance of the model for the structural correspondence (tie T3).
   Integrands are multisets of tags (sorted lists of naturals: tag k stands for the k-th distinct
   Constant/Coefficient used as an integrand in the generated form), metadata are indices into the
   case's metadata pool and [canon_tab tab] is the table of classes that the harness computed with
   the REAL hash(canonicalize_metadata(.)) on that pool. *)
Require Import List Arith Bool.
Import ListNotations.
Require Import UFLV.Props.C15_model.

Definition tags := list nat.
Definition tadd (a b : tags) : tags := isort (a ++ b).
Definition tags_dec : forall a b : tags, {a = b} + {a <> b} := list_eq_dec Nat.eq_dec.

Definition canon_tab (tab : list nat) (m : nat) : nat := nth m tab m.

Definition run (append : bool) (tab : list nat) (l : list (integral tags nat)) : list (ointegral tags nat) :=
  group_form_integrals [] tadd (canon_tab tab) Nat.eq_dec tags_dec append l.
Definition run_fd (append : bool) (tab : list nat) (l : list (integral tags nat)) : list (ointegral tags nat) :=
  integral_data_integrals (build_integral_data (run append tab l)).

(* key: domain, type, subdomain, coordinate-derivative class, metadata class *)
Definition key5 := (nat * nat * osid * nat * nat)%type.
Definition key5_dec : forall a b : key5, {a = b} + {a <> b} :=
  prod_dec (prod_dec (prod_dec (prod_dec Nat.eq_dec Nat.eq_dec) osid_dec) Nat.eq_dec) Nat.eq_dec.
Definition k5eqb := keqb key5_dec.

Definition okeys (cls : nat -> nat) (o : ointegral tags nat) : list key5 :=
  map (fun s => (odom o, otyp o, s, ocd o, cls (omd o))) (osids o).
Definition collect (cls : nat -> nat) (k : key5) (out : list (ointegral tags nat)) : tags :=
  isort (flat_map (fun o => flat_map (fun k' => if k5eqb k' k then oval o else []) (okeys cls o)) out).
Definition table (cls : nat -> nat) (out : list (ointegral tags nat)) : list (key5 * tags) :=
  map (fun k => (k, collect cls k out)) (ukeys key5_dec (flat_map (okeys cls) out)).

(* the decoded output of the implementation ([expected], any order) is the model's table *)
Definition agrees (cls : nat -> nat) (out : list (ointegral tags nat)) (expected : list (key5 * tags)) : bool :=
  forallb (fun e => if tags_dec (collect cls (fst e) out) (snd e) then true else false) expected
  && forallb (fun o => forallb (fun k => existsb (fun e => k5eqb k (fst e)) expected) (okeys cls o)) out.

(* [tab] is injective relative to [ref]:  tab i = tab j -> ref i = ref j  for i, j < length tab.
   With ref = identity of the metadata values this is the guard canon_inj_on of
   C15_no_merge_partial; with ref = the pinned str()-rendering it says that the implementation
   identifies no more metadata than the known finding describes. *)
Definition refines (tab ref : list nat) : bool :=
  forallb (fun i => forallb (fun j => negb (nth i tab i =? nth j tab j) || (nth i ref i =? nth j ref j))
                            (seq 0 (length tab))) (seq 0 (length tab)).

Lemma refines_sound tab ref : refines tab ref = true ->
  forall i j, i < length tab -> j < length tab -> nth i tab i = nth j tab j -> nth i ref i = nth j ref j.
Proof.
  unfold refines. rewrite forallb_forall. intros H i j Hi Hj E.
  specialize (H i (proj2 (in_seq _ _ _) (conj (Nat.le_0_l _) Hi))).
  rewrite forallb_forall in H.
  specialize (H j (proj2 (in_seq _ _ _) (conj (Nat.le_0_l _) Hj))).
  apply orb_true_iff in H. destruct H as [H|H].
  - apply negb_true_iff, Nat.eqb_neq in H. contradiction.
  - apply Nat.eqb_eq; exact H.
Qed.

(* the no-merge theorem instantiated at the executable instance: when the real classes are
   injective on the metadata of the case, the model merges nothing across metadata *)
Definition inj_on_case (tab : list nat) (l : list (integral tags nat)) : Prop :=
  forall x y, In x l -> In y l -> canon_tab tab (imd x) = canon_tab tab (imd y) -> imd x = imd y.

Lemma refines_inj tab l : refines tab (seq 0 (length tab)) = true ->
  (forall x, In x l -> imd x < length tab) -> inj_on_case tab l.
Proof.
  intros H Hb x y Hx Hy E. unfold canon_tab in E.
  pose proof (refines_sound _ _ H (imd x) (imd y) (Hb _ Hx) (Hb _ Hy) E) as R.
  rewrite !seq_nth in R by (apply Hb; assumption). exact R.
Qed.

Print Assumptions refines_sound.
