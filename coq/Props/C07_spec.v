(* C07, hand-written part 1: what "the geometric quantity of the actual cell" means.

   A non-degenerate affine simplex of topological dimension t embedded in K^g is given by its
   vertices  V k i  (vertex k, coordinate i).  This file defines, as Gallina functions of the
   vertex coordinates only, every quantity that GeometryLoweringApplier lowers, together with the
   TRUSTED reference-cell convention table (the one form compilers use: FFCx/basix), and the
   predicate [interp] that says how the terminals that remain after lowering are to be read:

   reference simplex   vertices 0, e_1, .., e_t
   edges (vertex pairs) triangle 0:(1,2) 1:(0,2) 2:(0,1)
                        tetrahedron 0:(2,3) 1:(1,3) 2:(1,2) 3:(0,3) 4:(0,2) 5:(0,1)
   facets              interval: facet f = vertex f;  triangle/tetrahedron: facet f = the vertices
                       other than f, ascending ([skip f]); edges of a tetrahedron facet are the
                       triangle edges of its vertex list
   reference normals   interval -1, +1;  facet 0 of triangle/tetrahedron: rd*(1,..,1) with rd > 0
                       (1/sqrt 2, 1/sqrt 3);  facet f >= 1: -e_f
   reference volumes   1/t! (cell), 1/(t-1)! (facet)
   x0 (CellOrigin)     vertex 0;   J = dx/dX = [v_(j+1) - v_0];   x = v_0 + J X.               *)
Require Import UFLV.Core.Den.

Section Geo.
Variable A : ualg.
Add Field AfC07 : (kfield A).
Open Scope K_scope.

Variable V : nat -> nat -> A.      (* V k i : coordinate i of vertex k *)
Variable Xr : nat -> A.            (* reference coordinates of the evaluation point *)
Variable co : A.                   (* cell orientation (+1/-1), manifolds only *)
Variable rd : A.                   (* component of the diagonal facet's reference normal *)

(* ---- linear algebra helpers -------------------------------------------------------------- *)
Definition dotp (g : nat) (u w : nat -> A) : A := ksum g (fun i => u i * w i).
Definition nrm2 (g : nat) (w : nat -> A) : A := dotp g w w.
Definition ksqrt (x : A) : A := kfn FSqrt x.
Definition half : A := k1 / (k1 + k1).
(* (pseudo-)determinant and (pseudo-)inverse of a g x n matrix of full column rank *)
Definition pdet (g n : nat) (M : nat -> nat -> A) : A :=
  if Nat.eqb n g then det n M else ksqrt (det n (gram g M)).
Definition pinv (g n : nat) (M : nat -> nat -> A) (i j : nat) : A :=
  if Nat.eqb n g then adjugate n M i j / det n M
  else ksum n (fun k => adjugate n (gram g M) i k / det n (gram g M) * M j k).
Definition cross3 (a b : nat -> A) (i : nat) : A :=
  a ((i + 1) mod 3) * b ((i + 2) mod 3) - a ((i + 2) mod 3) * b ((i + 1) mod 3).

(* ---- reference-cell convention table (trusted) ------------------------------------------- *)
Definition Xref (k i : nat) : A := if Nat.eqb k (S i) then k1 else k0.   (* vertex k of the reference simplex *)
Definition edge (t e : nat) : nat * nat :=
  match t, e with
  | 2, 0 => (1, 2) | 2, 1 => (0, 2) | 2, _ => (0, 1)
  | 3, 0 => (2, 3) | 3, 1 => (1, 3) | 3, 2 => (1, 2) | 3, 3 => (0, 3) | 3, 4 => (0, 2) | 3, _ => (0, 1)
  | _, _ => (0, 1)
  end.
Definition fv (f k : nat) : nat := skip f k.                  (* k-th vertex of facet f (t >= 2) *)
Definition cfj (f i j : nat) : A := Xref (fv f (S j)) i - Xref (fv f 0) i.       (* CellFacetJacobian *)
Definition crj (r i : nat) : A := Xref (snd (edge 3 r)) i - Xref (fst (edge 3 r)) i.  (* CellRidgeJacobian, tet *)
Definition rn (t f i : nat) : A :=                             (* ReferenceNormal *)
  match t with
  | 1 => if Nat.eqb f 0 then - k1 else k1
  | _ => match f with O => rd | S f' => if Nat.eqb i f' then - k1 else k0 end
  end.
Definition r0 (t : nat) : A := k1 / of_nat (fact t).          (* reference volume of a t-simplex *)

(* ---- the cell from its vertices ----------------------------------------------------------- *)
Definition Jm (i j : nat) : A := V (S j) i - V 0 i.                        (* Jacobian *)
Definition xphys (t i : nat) : A := V 0 i + ksum t (fun k => Jm i k * Xr k). (* x = v0 + J X *)
Definition FJm (f i j : nat) : A := V (fv f (S j)) i - V (fv f 0) i.       (* facet Jacobian *)
Definition evec (t e i : nat) : A := V (snd (edge t e)) i - V (fst (edge t e)) i.      (* cell edge e *)
Definition fevec (f e i : nat) : A :=                                      (* edge e of tetrahedron facet f *)
  V (fv f (snd (edge 2 e))) i - V (fv f (fst (edge 2 e))) i.
Definition vvec (a b i : nat) : A := V b i - V a i.
Definition vlen (g a b : nat) : A := ksqrt (nrm2 g (vvec a b)).            (* |v_b - v_a| *)
Definition nedges (t : nat) : nat := match t with 2 => 3 | 3 => 6 | _ => 1 end.

(* ---- the geometric quantities, from the vertices ------------------------------------------- *)
Definition detJ (t g : nat) : A :=
  if Nat.eqb t g then det t Jm else co * ksqrt (det t (gram g Jm)).
Definition Kinv (t g : nat) : nat -> nat -> A := pinv g t Jm.
Definition vol (t g : nat) : A := kabs (r0 t * detJ t g).
Definition fdetJ (t g f : nat) : A := pdet g (t - 1) (FJm f).
Definition farea (t g f : nat) : A :=
  match t with 1 => k1 | _ => kabs (r0 (t - 1) * fdetJ t g f) end.
Definition elen (t g e : nat) : A := ksqrt (nrm2 g (evec t e)).
Definition heron (la lb lc : A) : A :=
  let s := (la + lb + lc) * half in ksqrt (s * (s - la) * (s - lb) * (s - lc)).
Definition circ (t g : nat) : A :=
  match t with
  | 1 => half * vol 1 g
  | 2 => vlen g 1 2 * vlen g 0 2 * vlen g 0 1 / (of_nat 4 * vol 2 g)
  | _ => (* Crelle: 6 V R = area of the triangle whose sides are the products of opposite edges *)
         heron (vlen g 0 3 * vlen g 1 2) (vlen g 0 2 * vlen g 1 3) (vlen g 0 1 * vlen g 2 3)
         / (of_nat 6 * vol 3 g)
  end.
(* min / max over the squared lengths of the edges 0..n-1 (left fold, as the code reduces) *)
Fixpoint fold_edges (op : A -> A -> A) (len2 : nat -> A) (n : nat) : A :=
  match n with
  | O => len2 0
  | S O => len2 0
  | S m => op (fold_edges op len2 m) (len2 m)
  end.
Definition cell_edge_ext (op : A -> A -> A) (t g : nat) : A :=
  match t with
  | 1 => vol 1 g
  | _ => ksqrt (fold_edges op (fun e => nrm2 g (evec t e)) (nedges t))
  end.
Definition facet_edge_ext (op : A -> A -> A) (g f : nat) : A :=
  ksqrt (fold_edges op (fun e => nrm2 g (fevec f e)) 3).
(* normals *)
Definition cnraw (g : nat) (i : nat) : A :=
  match g with
  | 2 => match i with O => - Jm 1 0 | _ => Jm 0 0 end
  | _ => cross3 (fun k => Jm k 0) (fun k => Jm k 1) i
  end.
Definition cnormal (g i : nat) : A := co * cnraw g i / ksqrt (nrm2 g (cnraw g)).
Definition ndir (t g f i : nat) : A := ksum t (fun j => Kinv t g j i * rn t f j).
Definition fnormal (t g f i : nat) : A :=
  match t with
  | 1 => rn 1 f 0 * Jm i 0 / (match g with 1 => kabs (Jm 0 0) | _ => ksqrt (nrm2 g (fun k => Jm k 0)) end)
  | _ => ndir t g f i / ksqrt (nrm2 g (ndir t g f))
  end.
Definition delta (i j : nat) : A := if Nat.eqb i j then k1 else k0.

(* ---- reading of the terminals that remain after lowering ----------------------------------- *)
(* terminal kinds as numbered by py/ufl2coq.py (asserted equal at run time by py/props/C07.py):
   10 SpatialCoordinate, 14 CellOrigin, 22 CellFacetJacobian, 23 CellRidgeJacobian,
   28 CellEdgeVectors, 29 FacetEdgeVectors, 42 ReferenceNormal, 43 ReferenceCellVolume,
   44 ReferenceFacetVolume, 54 CellOrientation *)
Variable env : side -> nat -> nat -> list nat -> A.
Variable DX : nat -> A -> A.
Record interp (t g f r : nat) : Prop := {
  i_J   : forall s i j, DX j (env s 10 0 [i]) = Jm i j;
  i_x   : forall s i, env s 10 0 [i] = xphys t i;
  i_x0  : forall s i, env s 14 0 [i] = V 0 i;
  i_cfj : forall s i j, env s 22 0 [i; j] = cfj f i j;
  i_crj : forall s i j, env s 23 0 [i; j] = crj r i;
  i_cev : forall s e i, env s 28 0 [e; i] = evec t e i;
  i_fev : forall s e i, env s 29 0 [e; i] = fevec f e i;
  i_rn  : forall s i, env s 42 0 [i] = rn t f i;
  i_rcv : forall s, env s 43 0 [] = r0 t;
  i_rfv : forall s, env s 44 0 [] = r0 (t - 1);
  i_co  : forall s, env s 54 0 [] = co;
}.

(* ---- sanity of the convention table -------------------------------------------------------- *)
Ltac nrm := cbv -[K k0 k1 kadd kmul ksub kopp kdiv kinv].

(* each reference normal is orthogonal to its reference facet and points away from the opposite
   vertex: rn . (X_w - X_w0) = 0 for facet vertices w, rn . (X_f - X_w0) = -(scale), scale = rd or 1 *)
Definition rn_scale (f : nat) : A := match f with O => rd | _ => k1 end.
Lemma rn_tangent_tri f j : f < 3 -> j < 1 -> dotp 2 (rn 2 f) (fun i => cfj f i j) = k0.
Proof. intros Hf Hj. destruct f as [|[|[|f]]]; try lia; destruct j; try lia; nrm; ring. Qed.
Lemma rn_tangent_tet f j : f < 4 -> j < 2 -> dotp 3 (rn 3 f) (fun i => cfj f i j) = k0.
Proof. intros Hf Hj. destruct f as [|[|[|[|f]]]]; try lia; destruct j as [|[|j]]; try lia; nrm; ring. Qed.
Lemma rn_outward_tri f : f < 3 ->
  dotp 2 (rn 2 f) (fun i => Xref f i - Xref (fv f 0) i) = - rn_scale f.
Proof. intros Hf. destruct f as [|[|[|f]]]; try lia; nrm; ring. Qed.
Lemma rn_outward_tet f : f < 4 ->
  dotp 3 (rn 3 f) (fun i => Xref f i - Xref (fv f 0) i) = - rn_scale f.
Proof. intros Hf. destruct f as [|[|[|[|f]]]]; try lia; nrm; ring. Qed.

End Geo.

(* opposite edges of the tetrahedron table share no vertex: (0,5) (1,4) (2,3) *)
Lemma tet_opposite_edges :
  forall e, e < 3 ->
    let a := edge 3 e in let b := edge 3 (5 - e) in
    fst a <> fst b /\ fst a <> snd b /\ snd a <> fst b /\ snd a <> snd b.
Proof. intros e He. destruct e as [|[|[|e]]]; try lia; cbn; repeat split; lia. Qed.

Print Assumptions rn_outward_tet.
Print Assumptions tet_opposite_edges.
