(* C10: a decidable static well-formedness check of index extents, evaluated on the real outputs
   of the passes in the generated files (an implementation may keep every VALUE and still attach
   wrong extents to the free indices of a Zero, whose value is 0 whatever the annotation says):
   [wfdims e] = at every node the (index, extent) annotations of the operands agree where UFL
   requires them to (operands of Sum / Conditional branches / ListTensor elements have the same
   free indices with the same extents, operands of products agree on shared indices, an
   IndexSum sums an index that is free in its summand with the recorded extent, a multi-index
   position uses an index with the extent of that axis). *)
Require Import UFLV.Core.Den UFLV.Props.C10_model.
Import ListNotations.

Fixpoint fi_eqb (a b : list (nat * nat)) : bool :=
  match a, b with
  | [], [] => true
  | (i, d) :: a', (j, e) :: b' => Nat.eqb i j && Nat.eqb d e && fi_eqb a' b'
  | _, _ => false
  end.
Definition fi_compat (a b : list (nat * nat)) : bool :=
  forallb (fun p => forallb (fun q => negb (Nat.eqb (fst p) (fst q)) || Nat.eqb (snd p) (snd q)) b) a.
Fixpoint fi_lookup (l : list (nat * nat)) (i : nat) : option nat :=
  match l with [] => None | (j, d) :: t => if Nat.eqb i j then Some d else fi_lookup t i end.
Fixpoint sortedb (l : list (nat * nat)) : bool :=
  match l with
  | (i, _) :: (((j, _) :: _) as t) => Nat.ltb i j && sortedb t
  | _ => true
  end.

Definition node_ok (e : expr) : bool :=
  match e with
  | Zero _ fi => sortedb fi
  | Sum a b => fi_eqb (fidx a) (fidx b)
  | Product a b | Division a b | Power a b | MinV a b | MaxV a b | Atan2 a b =>
      fi_compat (fidx a) (fidx b)
  | Indexed a mi =>
      Nat.eqb (length mi) (length (shape a))
      && fi_compat (fidx a) (mi_free mi (shape a))
      && fi_compat (mi_free mi (shape a)) (mi_free mi (shape a))
      && forallb (fun p => match fst p with Fixed n => Nat.ltb n (snd p) | Free _ => true end)
                 (combine mi (shape a))
      && (* a repeated index in one multi-index uses axes of equal extent *)
         forallb (fun p => forallb (fun q => match fst p, fst q with
                                             | Free i, Free j => negb (Nat.eqb i j) || Nat.eqb (snd p) (snd q)
                                             | _, _ => true end) (combine mi (shape a)))
                 (combine mi (shape a))
  | IndexSum a i d => match fi_lookup (fidx a) i with Some d' => Nat.eqb d d' | None => false end
  | ComponentTensor a ix =>
      forallb (fun p => match fi_lookup (fidx a) (fst p) with Some d => Nat.eqb d (snd p) | None => false end) ix
  | ListTensor es =>
      match es with
      | [] => false
      | x :: t => forallb (fun y => fi_eqb (fidx x) (fidx y)) t
      end
  | Conditional _ t f => fi_eqb (fidx t) (fidx f)
  | _ => true
  end.

Fixpoint wfdims (e : expr) : bool := node_ok e && efold andb true wfdims e.
