(* C06, hand-written part: the specification functions used by [den] for Determinant / Inverse /
   Cofactor are the mathematical ones: adj(M)·M = M·adj(M) = det(M)·I for every matrix of size
   n <= 4 over every UFL algebra, hence adj(M)/det(M) is the two-sided inverse when det(M) <> 0;
   cofactor = adjugate transposed; the Gram determinant used for pseudo-determinants is det(M^T M). *)
Require Import UFLV.Core.Den.

Section Spec.
Variable A : ualg.
Add Field AfC06 : (kfield A).
Open Scope K_scope.

Definition delta (i j : nat) (x : A) : A := if Nat.eqb i j then x else k0.

Ltac nrm := cbv -[K k0 k1 kadd kmul ksub kopp kdiv kinv].
Ltac cases4 i := destruct i as [|[|[|[|i]]]]; [ | | | | exfalso; lia ].
Ltac cases3 i := destruct i as [|[|[|i]]]; [ | | | exfalso; lia ].
Ltac cases2 i := destruct i as [|[|i]]; [ | | exfalso; lia ].
Ltac cases1 i := destruct i as [|i]; [ | exfalso; lia ].

Lemma adj_left_1 (M : nat -> nat -> A) i j : i < 1 -> j < 1 ->
  ksum 1 (fun k => adjugate 1 M i k * M k j) = delta i j (det 1 M).
Proof. intros Hi Hj; cases1 i; cases1 j; nrm; ring. Qed.
Lemma adj_left_2 (M : nat -> nat -> A) i j : i < 2 -> j < 2 ->
  ksum 2 (fun k => adjugate 2 M i k * M k j) = delta i j (det 2 M).
Proof. intros Hi Hj; cases2 i; cases2 j; nrm; ring. Qed.
Lemma adj_left_3 (M : nat -> nat -> A) i j : i < 3 -> j < 3 ->
  ksum 3 (fun k => adjugate 3 M i k * M k j) = delta i j (det 3 M).
Proof. intros Hi Hj; cases3 i; cases3 j; nrm; ring. Qed.
Lemma adj_left_4 (M : nat -> nat -> A) i j : i < 4 -> j < 4 ->
  ksum 4 (fun k => adjugate 4 M i k * M k j) = delta i j (det 4 M).
Proof. intros Hi Hj; cases4 i; cases4 j; nrm; ring. Qed.

Lemma adj_right_1 (M : nat -> nat -> A) i j : i < 1 -> j < 1 ->
  ksum 1 (fun k => M i k * adjugate 1 M k j) = delta i j (det 1 M).
Proof. intros Hi Hj; cases1 i; cases1 j; nrm; ring. Qed.
Lemma adj_right_2 (M : nat -> nat -> A) i j : i < 2 -> j < 2 ->
  ksum 2 (fun k => M i k * adjugate 2 M k j) = delta i j (det 2 M).
Proof. intros Hi Hj; cases2 i; cases2 j; nrm; ring. Qed.
Lemma adj_right_3 (M : nat -> nat -> A) i j : i < 3 -> j < 3 ->
  ksum 3 (fun k => M i k * adjugate 3 M k j) = delta i j (det 3 M).
Proof. intros Hi Hj; cases3 i; cases3 j; nrm; ring. Qed.
Lemma adj_right_4 (M : nat -> nat -> A) i j : i < 4 -> j < 4 ->
  ksum 4 (fun k => M i k * adjugate 4 M k j) = delta i j (det 4 M).
Proof. intros Hi Hj; cases4 i; cases4 j; nrm; ring. Qed.

Definition adj_left_ok (n : nat) : Prop := forall (M : nat -> nat -> A) i j, i < n -> j < n ->
  ksum n (fun k => adjugate n M i k * M k j) = delta i j (det n M).

Lemma div_mul_l (x d y : A) : d <> k0 -> (x / d) * y = (x * y) / d.
Proof. intros H. field. exact H. Qed.
Lemma ksum_div n (f : nat -> A) d : d <> k0 -> ksum n (fun k => f k / d) = ksum n f / d.
Proof. intros H. induction n as [|n IH]; cbn [ksum]; [field; exact H|]. rewrite IH. field. exact H. Qed.
Lemma div_self (d : A) : d <> k0 -> d / d = k1.
Proof. intros H. field. exact H. Qed.
Lemma zero_div (d : A) : d <> k0 -> k0 / d = k0.
Proof. intros H. field. exact H. Qed.

(* the value [den] gives to Inverse, adj/det, is the inverse *)
Theorem inverse_spec_is_inverse n (M : nat -> nat -> A) i j :
  adj_left_ok n -> det n M <> k0 -> i < n -> j < n ->
  ksum n (fun k => (adjugate n M i k / det n M) * M k j) = delta i j k1.
Proof.
  intros Hadj Hd Hi Hj.
  rewrite (ksum_ext A n _ (fun k => (adjugate n M i k * M k j) / det n M)).
  2:{ intros k _. apply div_mul_l. exact Hd. }
  rewrite ksum_div by exact Hd. rewrite Hadj by assumption.
  unfold delta. destruct (Nat.eqb i j); [apply div_self | apply zero_div]; exact Hd.
Qed.

Theorem inverse_spec_upto4 n (M : nat -> nat -> A) i j :
  1 <= n <= 4 -> det n M <> k0 -> i < n -> j < n ->
  ksum n (fun k => (adjugate n M i k / det n M) * M k j) = delta i j k1.
Proof.
  intros Hn. apply inverse_spec_is_inverse.
  assert (Hc : n = 1 \/ n = 2 \/ n = 3 \/ n = 4) by lia.
  destruct Hc as [Hc|[Hc|[Hc|Hc]]]; subst n; intros M' i' j'.
  - apply adj_left_1. - apply adj_left_2. - apply adj_left_3. - apply adj_left_4.
Qed.

Theorem cofactor_is_adjugate_transposed n (M : nat -> nat -> A) i j :
  cofactor n M i j = adjugate n M j i.
Proof. reflexivity. Qed.

(* the Leibniz expansion for n = 2, 3 as a sanity anchor for [det] *)
Example det2_formula (M : nat -> nat -> A) : det 2 M = M 0 0 * M 1 1 - M 0 1 * M 1 0.
Proof. nrm. ring. Qed.
Example det3_formula (M : nat -> nat -> A) :
  det 3 M = M 0 0 * (M 1 1 * M 2 2 - M 1 2 * M 2 1) - M 0 1 * (M 1 0 * M 2 2 - M 1 2 * M 2 0)
          + M 0 2 * (M 1 0 * M 2 1 - M 1 1 * M 2 0).
Proof. nrm. ring. Qed.

End Spec.

Print Assumptions inverse_spec_upto4.
Print Assumptions adj_right_4.
